"""Shared machinery of bin/check: build steps, stream execution, diffing, verdicts, evidence."""
import fcntl, hashlib, json, os, re, shutil, subprocess, sys, time

VERIF = '/verif'
REPO = '/repo'
BUILD = os.path.join(VERIF, '_build')
COQ = os.path.join(VERIF, 'coq')
SHM = '/dev/shm' if os.path.isdir('/dev/shm') else BUILD

GOENV = dict(os.environ, GOFLAGS='-mod=mod', GOPROXY='off')
GOENV.pop('GOTOOLCHAIN', None)   # the cached go1.23.7 toolchain is selected automatically; "local" refuses to build
GOENV.pop('GOSUMDB', None)

FORBIDDEN = re.compile(r'\b(Admitted|admit|Axiom|Axioms|Parameter|Parameters|Conjecture|Conjectures|Hypothesis|Hypotheses|Variable|Variables|Unset\s+Guard|bypass_check|Admit\s+Obligations|type-in-type|impredicative-set)\b')


def log(msg):
    print('[check] ' + msg, flush=True)


def run(cmd, timeout, cwd=None, env=None, stdin=None, capture=True):
    t0 = time.time()
    try:
        p = subprocess.run(cmd, cwd=cwd, env=env, stdin=stdin, timeout=timeout,
                           stdout=subprocess.PIPE if capture else None,
                           stderr=subprocess.STDOUT if capture else None, text=True)
        return p.returncode, p.stdout or '', time.time() - t0
    except subprocess.TimeoutExpired as e:
        out = e.stdout if isinstance(e.stdout, str) else (e.stdout or b'').decode('utf8', 'replace')
        return 124, out + '\n[timeout after %ss]' % timeout, time.time() - t0


class Lock:
    def __init__(self, name):
        os.makedirs(BUILD, exist_ok=True)
        self.path = os.path.join(BUILD, name)

    def __enter__(self):
        self.f = open(self.path, 'w')
        fcntl.flock(self.f, fcntl.LOCK_EX)
        return self

    def __exit__(self, *a):
        fcntl.flock(self.f, fcntl.LOCK_UN)
        self.f.close()


def tree_hash(paths, exts):
    h = hashlib.sha256()
    for root in paths:
        for d, dirs, files in sorted(os.walk(root)):
            dirs.sort()
            if '/.git' in d or '/_build' in d:
                continue
            for f in sorted(files):
                if f.endswith(exts):
                    p = os.path.join(d, f)
                    h.update(p.encode())
                    with open(p, 'rb') as fh:
                        h.update(fh.read())
    return h.hexdigest()


# ---------------------------------------------------------------- build steps

def step_goextract():
    """Regenerate coq/Gen/Extracted.v from /repo's current sources (translator for constants and tables)."""
    tool = os.path.join(BUILD, 'goextract')
    src = os.path.join(VERIF, 'tools/goextract')
    if not os.path.exists(os.path.join(src, 'main.go')):
        return True, 'no translator yet'
    rc, out, _ = run(['go', 'build', '-o', tool, '.'], 300, cwd=src, env=dict(GOENV, GOFLAGS='-mod=mod', GO111MODULE='on'))
    if rc != 0:
        return False, 'building goextract failed:\n' + out
    target = os.path.join(COQ, 'Gen/Extracted.v')
    rc, out, _ = run([tool, '-repo', REPO, '-out', target + '.new'], 120)
    if rc != 0:
        return False, 'goextract could not extract an item it needs from /repo:\n' + out
    new = open(target + '.new').read()
    if not os.path.exists(target) or open(target).read() != new:
        os.replace(target + '.new', target)
    else:
        os.remove(target + '.new')
    return True, out


def step_coq(timeout=1500):
    """Full .vo build of the development (incremental through make)."""
    if not os.path.exists(os.path.join(COQ, 'Makefile')) or \
            os.path.getmtime(os.path.join(COQ, 'Makefile')) < os.path.getmtime(os.path.join(COQ, '_CoqProject')):
        rc, out, _ = run(['coq_makefile', '-f', '_CoqProject', '-o', 'Makefile'], 60, cwd=COQ)
        if rc != 0:
            return False, out
    rc, out, dt = run(['make', '-j16', '-k'], timeout, cwd=COQ)
    return rc == 0, out


def step_model():
    """Extract the model to OCaml and build the runner (only when a .vo changed)."""
    rd = os.path.join(BUILD, 'run')
    os.makedirs(rd, exist_ok=True)
    exe = os.path.join(rd, 'model_run')
    stamp = tree_hash([COQ], ('.v',)) + tree_hash([os.path.join(VERIF, 'run')], ('.ml',))
    sf = os.path.join(rd, 'stamp')
    if os.path.exists(exe) and os.path.exists(sf) and open(sf).read() == stamp:
        return True, 'up to date'
    rc, out, _ = run(['coqc', '-Q', COQ, 'Verif', '-o', os.path.join(rd, 'Extract.vo'),
                      os.path.join(COQ, 'Run/Extract.v')], 600, cwd=rd)
    if rc != 0:
        return False, 'extraction failed:\n' + out
    shutil.copy(os.path.join(VERIF, 'run/driver.ml'), rd)
    rc, out, _ = run(['ocamlfind', 'ocamlopt', '-package', 'zarith', '-linkpkg', '-w', '-a',
                      'model.mli', 'model.ml', 'driver.ml', '-o', 'model_run'], 600, cwd=rd)
    if rc != 0:
        return False, 'building the extracted runner failed:\n' + out
    open(sf, 'w').write(stamp)
    return True, 'rebuilt'


def step_harness():
    rc, out, _ = run([os.path.join(VERIF, 'bin/build-harness')], 900, env=GOENV)
    return rc == 0, out


def scan_forbidden():
    bad = []
    for d, dirs, files in os.walk(COQ):
        for f in files:
            if f.endswith('.v'):
                p = os.path.join(d, f)
                txt = open(p).read()
                # strip comments (non-nested is enough for our sources; nested handled by loop)
                prev = None
                while prev != txt:
                    prev = txt
                    txt = re.sub(r'\(\*[^*(]*(?:\*(?!\))[^*(]*|\((?!\*)[^*(]*)*\*\)', ' ', txt)
                for m in FORBIDDEN.finditer(txt):
                    # Section-local Variable/Hypothesis are allowed: accept when inside a Section
                    word = m.group(1)
                    if word in ('Variable', 'Variables', 'Hypothesis', 'Hypotheses'):
                        before = txt[:m.start()]
                        opened = len(re.findall(r'^\s*Section\s', before, re.M))
                        closed = len(re.findall(r'^\s*End\s', before, re.M)) - len(re.findall(r'^\s*Module\s', before, re.M))
                        if opened - max(closed, 0) > 0:
                            continue
                    bad.append('%s: %s' % (os.path.relpath(p, VERIF), word))
    return bad


def props_obligations(prop_file):
    """Compile the statement file alone, capturing Print Assumptions output."""
    path = os.path.join(COQ, prop_file)
    txt = open(path).read()
    names = re.findall(r'^\s*(?:Theorem|Lemma|Corollary|Example|Fact)\s+(\w+)', txt, re.M)
    rc, out, dt = run(['coqc', '-Q', '.', 'Verif', '-w', '-notation-overridden,-deprecated-hint-without-locality',
                       prop_file], 900, cwd=COQ)
    axioms = {}
    cur = None
    # output of Print Assumptions: either "Closed under the global context" or "Axioms:\n name : type ..."
    blocks = re.split(r'\n(?=Closed under the global context|Axioms:)', '\n' + out)
    printed = re.findall(r'^\s*Print Assumptions\s+(\w+)', txt, re.M)
    results = []
    for b in blocks:
        b = b.strip()
        if b.startswith('Closed under the global context'):
            results.append([])
        elif b.startswith('Axioms:'):
            results.append([l.strip() for l in b.splitlines()[1:] if l.strip()])
    for i, n in enumerate(printed):
        axioms[n] = results[i] if i < len(results) else ['<no output>']
    return rc == 0, names, axioms, out, dt


# ---------------------------------------------------------------- streams

def run_stream(stream, tier, seed, workdir):
    out = os.path.join(workdir, stream)
    shutil.rmtree(out, ignore_errors=True)
    os.makedirs(out)
    scratch = os.path.join(out, 'scratch')
    rc, txt, dt = run([os.path.join(BUILD, 'harness'), '-stream', stream, '-tier', tier, '-seed', str(seed),
                       '-out', out, '-scratch', scratch], 3000 if tier == 'thorough' else 900, env=GOENV)
    shutil.rmtree(scratch, ignore_errors=True)
    if rc != 0:
        return None, 'harness stream %s failed (rc=%d):\n%s' % (stream, rc, txt[-4000:])
    with open(os.path.join(out, 'cases.sexp')) as fin, open(os.path.join(out, 'model.obs'), 'w') as fout:
        p = subprocess.run([os.path.join(BUILD, 'run/model_run')], stdin=fin, stdout=fout, stderr=subprocess.PIPE,
                           timeout=3000, text=True)
    if p.returncode != 0:
        return None, 'model runner failed on stream %s: %s' % (stream, p.stderr[-2000:])
    rep = json.load(open(os.path.join(out, 'report.json')))
    cases = open(os.path.join(out, 'cases.sexp')).read().splitlines()
    impl = open(os.path.join(out, 'impl.obs')).read().splitlines()
    model = open(os.path.join(out, 'model.obs')).read().splitlines()
    diffs = []
    if not (len(cases) == len(impl) == len(model)):
        diffs.append({'case': '<line counts differ: cases=%d impl=%d model=%d>' % (len(cases), len(impl), len(model)),
                      'impl': '', 'model': ''})
    for c, i, m in zip(cases, impl, model):
        if i != m:
            diffs.append({'case': c, 'impl': i, 'model': m})
    rep['diffs'] = diffs
    rep['n_cases'] = len(cases)
    rep['all_cases'] = cases if diffs else []
    return rep, None


def load_known():
    p = os.path.join(VERIF, 'known_findings.json')
    if not os.path.exists(p):
        return {'findings': [], 'fixed': []}
    return json.load(open(p))


def write_replay(prop, seed, n, payload):
    d = os.environ.get('VERIF_REPLAY_DIR') or os.path.join(VERIF, 'replays')
    os.makedirs(d, exist_ok=True)
    p = os.path.join(d, '%s-%s-%d.json' % (prop, seed, n))
    json.dump(payload, open(p, 'w'), indent=1)
    return p


def write_evidence(prop, ev):
    d = os.environ.get('VERIF_EVIDENCE_DIR') or os.path.join(VERIF, 'evidence')
    os.makedirs(d, exist_ok=True)
    json.dump(ev, open(os.path.join(d, prop + '.json'), 'w'), indent=1)
