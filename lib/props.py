"""Per-property configuration of the checks: statement file, correspondence streams, texts for the evidence."""

COMMON_TRUSTED = [
    "Coq 8.16.1 kernel (coqc; coqchk -silent -o in the thorough tier); vm_compute in Examples only; no native_compute",
    "tools/goextract (Go AST walker) regenerating coq/Gen/Extracted.v from /repo",
    "extraction: ExtrOcamlBasic + ExtrOcamlZBigInt (zarith) + Extract Constant Z.land/Z.lor/Z.lxor (see TRUSTED.md); OCaml 4.13.1; run/driver.ml (s-expression reader/printer)",
    "Go harness /verif/harness (concretisation of abstract cases, projection of observables, monitors, scripted Lightning client)",
]

# stream kinds:
#   pure   : a model/implementation disagreement is itself a concrete failing input, because the model is proved
#            equal to the declarative spec of the property
#   tie    : a disagreement breaks the correspondence; monitors search for a failing input
PROPS = {
    'C12': dict(
        file='Props/C12.v',
        streams=[('c12-eval', 'pure'), ('c12-swap', 'pure')],
        assumptions=[
            "symbolic Schnorr: a signature verifies for exactly one (key, message); BIP-340 x-only keys (K and -K verify the same signature) are outside the model",
            "encoding/json behaves as documented on the witness/secret types (exercised for real by the harness)",
            "the mint's clock is a parameter; locktimes in generated cases are at least one hour away from now",
        ]),
    'C13': dict(
        file='Props/C13.v',
        streams=[('c13-eval', 'pure'), ('c13-swap', 'pure')],
        assumptions=[
            "symbolic SHA-256: a preimage handle opens exactly the lock carrying the same handle (collision resistance)",
            "symbolic Schnorr as for C12",
        ]),
}
