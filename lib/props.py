"""Per-property configuration of the checks: statement file, correspondence streams, texts for the evidence."""

COMMON_TRUSTED = [
    "Coq 8.16.1 kernel (coqc; coqchk -silent -o in the thorough tier); vm_compute in Examples only; no native_compute",
    "tools/goextract (Go AST walker) regenerating coq/Gen/Extracted.v from /repo",
    "extraction: ExtrOcamlBasic + ExtrOcamlZBigInt (zarith) + Extract Constant Z.land/Z.lor/Z.lxor (see TRUSTED.md); OCaml 4.13.1; run/driver.ml (s-expression reader/printer)",
    "Go harness /verif/harness (concretisation of abstract cases, projection of observables, monitors, scripted Lightning client)",
]

# stream kinds:
#   pure   : a model/implementation disagreement is itself a concrete failing input, because the model is proved
#            equal to the declarative spec of the property
#   tie    : a disagreement breaks the correspondence; monitors search for a failing input
MINT_ASSUME = [
    "symbolic cryptography in the mint model: a C field is genuine iff it is the term CSig keyset amount secret (one-more unforgeability of BDHKE, collision resistance of hash_to_curve); the algebra itself is C10",
    "each storage.MintDB call is atomic and durable once it returns (SQLite); PRIMARY KEY/UNIQUE as in the migrations",
    "the Lightning backend is the scripted lightning.Client of the harness; real LND/CLN adapters are not executed",
]

PROPS = {
    'C12': dict(
        file='Props/C12.v',
        streams=[('c12-eval', 'pure'), ('c12-swap', 'pure')],
        assumptions=[
            "symbolic Schnorr: a signature verifies for exactly one (key, message); BIP-340 x-only keys (K and -K verify the same signature) are outside the model",
            "encoding/json behaves as documented on the witness/secret types (exercised for real by the harness)",
            "the mint's clock is a parameter; locktimes in generated cases are at least one hour away from now",
        ]),
    'C13': dict(
        file='Props/C13.v',
        streams=[('c13-eval', 'pure'), ('c13-swap', 'pure'), ('c13-wallet', 'tie')],
        assumptions=[
            "symbolic SHA-256: a preimage handle opens exactly the lock carrying the same handle (collision resistance)",
            "symbolic Schnorr as for C12",
        ]),
    'C14': dict(
        file='Props/C14.v',
        streams=[('c14-decode', 'pure'), ('c14-roundtrip', 'pure')],
        assumptions=[
            "encoding/json and fxamacker/cbor are modelled by their contract (unmarshal (marshal t) = t on well-formed tokens); the harness exercises the real marshalers",
            "the totality theorems hold for arbitrary unmarshal functions",
        ]),
    'C01': dict(
        file='Props/C01.v',
        streams=[('c01-hist', 'tie'), ('c01-sched', 'tie'), ('c01-large', 'tie')],
        assumptions=['symbolic cryptography in the mint model: a C field is genuine iff it is the term CSig keyset amount secret (one-more unforgeability of BDHKE, collision resistance of hash_to_curve); the algebra itself is C10', 'each storage.MintDB call is atomic and durable once it returns (SQLite); PRIMARY KEY/UNIQUE as in the migrations', 'the Lightning backend is the scripted lightning.Client of the harness; real LND/CLN adapters are not executed']),
    'C02': dict(
        file='Props/C02.v',
        streams=[('c02-hist', 'tie'), ('c07-cuts', 'tie'), ('c09-fees', 'tie')],
        assumptions=['symbolic cryptography in the mint model: a C field is genuine iff it is the term CSig keyset amount secret (one-more unforgeability of BDHKE, collision resistance of hash_to_curve); the algebra itself is C10', 'each storage.MintDB call is atomic and durable once it returns (SQLite); PRIMARY KEY/UNIQUE as in the migrations', 'the Lightning backend is the scripted lightning.Client of the harness; real LND/CLN adapters are not executed']),
    'C03': dict(
        file='Props/C03.v',
        streams=[('c03-hist', 'tie'), ('c03-sched', 'tie')],
        assumptions=['symbolic cryptography in the mint model: a C field is genuine iff it is the term CSig keyset amount secret (one-more unforgeability of BDHKE, collision resistance of hash_to_curve); the algebra itself is C10', 'each storage.MintDB call is atomic and durable once it returns (SQLite); PRIMARY KEY/UNIQUE as in the migrations', 'the Lightning backend is the scripted lightning.Client of the harness; real LND/CLN adapters are not executed']),
    'C05': dict(
        file='Props/C05.v',
        streams=[('c05-hist', 'tie'), ('c05-scripts', 'tie'), ('c01-sched', 'tie')],
        assumptions=['symbolic cryptography in the mint model: a C field is genuine iff it is the term CSig keyset amount secret (one-more unforgeability of BDHKE, collision resistance of hash_to_curve); the algebra itself is C10', 'each storage.MintDB call is atomic and durable once it returns (SQLite); PRIMARY KEY/UNIQUE as in the migrations', 'the Lightning backend is the scripted lightning.Client of the harness; real LND/CLN adapters are not executed']),
    'C06': dict(
        file='Props/C06.v',
        streams=[('c06-hist', 'tie'), ('c06-http', 'tie')],
        assumptions=['symbolic cryptography in the mint model: a C field is genuine iff it is the term CSig keyset amount secret (one-more unforgeability of BDHKE, collision resistance of hash_to_curve); the algebra itself is C10', 'each storage.MintDB call is atomic and durable once it returns (SQLite); PRIMARY KEY/UNIQUE as in the migrations', 'the Lightning backend is the scripted lightning.Client of the harness; real LND/CLN adapters are not executed']),
    'C09': dict(
        file='Props/C09.v',
        streams=[('c09-hist', 'tie'), ('c09-keygen', 'pure'), ('c09-fees', 'tie')],
        assumptions=['symbolic cryptography in the mint model: a C field is genuine iff it is the term CSig keyset amount secret (one-more unforgeability of BDHKE, collision resistance of hash_to_curve); the algebra itself is C10', 'each storage.MintDB call is atomic and durable once it returns (SQLite); PRIMARY KEY/UNIQUE as in the migrations', 'the Lightning backend is the scripted lightning.Client of the harness; real LND/CLN adapters are not executed']),
    'C15': dict(
        file='Props/C15.v',
        streams=[('c15-hist', 'tie'), ('c07-cuts', 'tie')],
        assumptions=['symbolic cryptography in the mint model: a C field is genuine iff it is the term CSig keyset amount secret (one-more unforgeability of BDHKE, collision resistance of hash_to_curve); the algebra itself is C10', 'each storage.MintDB call is atomic and durable once it returns (SQLite); PRIMARY KEY/UNIQUE as in the migrations', 'the Lightning backend is the scripted lightning.Client of the harness; real LND/CLN adapters are not executed']),
    'C16': dict(
        file='Props/C16.v',
        streams=[('c16-hist', 'tie')],
        assumptions=['symbolic cryptography in the mint model: a C field is genuine iff it is the term CSig keyset amount secret (one-more unforgeability of BDHKE, collision resistance of hash_to_curve); the algebra itself is C10', 'each storage.MintDB call is atomic and durable once it returns (SQLite); PRIMARY KEY/UNIQUE as in the migrations', 'the Lightning backend is the scripted lightning.Client of the harness; real LND/CLN adapters are not executed']),
    'C04': dict(
        file='Props/C04.v',
        streams=[('c04-mut', 'tie')],
        assumptions=MINT_ASSUME),
    'C07': dict(
        file='Props/C07.v',
        streams=[('c07-cuts', 'tie')],
        assumptions=MINT_ASSUME + ["a crash is modelled as the process stopping between two storage/Lightning calls; SQLite's own crash behaviour (torn pages, fsync) is assumed, not modelled"]),
    'C20': dict(
        file='Props/C20.v',
        streams=[('c20-http', 'tie')],
        assumptions=[
            'request abstraction: the harness tells the model what encoding/json makes of each body (class + decoded operation) and which exact bytes method/URL/body were; bodies over 4096 bytes are identified by SHA-256',
            'no NUL byte in req.Method / req.URL.String() (net/http rejects them); cache TTL (300 s) not modelled, histories last seconds; symbolic blind signatures and scripted Lightning backend as for the mint model',
        ]),
    'C08': dict(
        file='Props/C08.v',
        streams=[('c08-hist', 'tie')],
        assumptions=[
            "requests are symbolic terms (blinding factors and secrets are handles with their (seed, keyset, counter) origin); the mint side of the wallet model is an honest-mint oracle",
            "the Lightning network between mints is the scripted one of the harness; a fresh MintServer per operation (empty NUT-19 cache); bbolt calls atomic",
            "after a wallet crash cut the wallet continues only through restore (post-cut states depend on tie-breaks); NUT-08 change, MPP, UpdateMintURL are not modelled",
        ]),
    'C17': dict(
        file='Props/C17.v',
        streams=[('c17-hist', 'tie')],
        assumptions=[
            "requests are symbolic terms (blinding factors and secrets are handles with their (seed, keyset, counter) origin); the mint side of the wallet model is an honest-mint oracle",
            "the Lightning network between mints is the scripted one of the harness; a fresh MintServer per operation (empty NUT-19 cache); bbolt calls atomic",
            "after a wallet crash cut the wallet continues only through restore (post-cut states depend on tie-breaks); NUT-08 change, MPP, UpdateMintURL are not modelled",
        ]),
    'C19': dict(
        file='Props/C19.v',
        streams=[('c19-hist', 'tie')],
        assumptions=[
            "requests are symbolic terms (blinding factors and secrets are handles with their (seed, keyset, counter) origin); the mint side of the wallet model is an honest-mint oracle",
            "the Lightning network between mints is the scripted one of the harness; a fresh MintServer per operation (empty NUT-19 cache); bbolt calls atomic",
            "after a wallet crash cut the wallet continues only through restore (post-cut states depend on tie-breaks); NUT-08 change, MPP, UpdateMintURL are not modelled",
        ]),
    'C10': dict(
        coqchk=False,
        file='Props/C10.v',
        streams=[('c10-bdhke', 'pure')],
        assumptions=[
            "the theorems hold for every group_ops satisfying group_laws (abelian group of prime order q with the Z/q action); the laws are proved satisfiable (Z/101) but NOT proved for secp256k1 (classical mathematics, trusted)",
            "HashE is an arbitrary function in the theorems; tamper theorems are stated as reductions to a HashE collision",
            "the executable secp256k1 instance (Crypto/Secp256k1.v, BDHKEsecp.v) is tied to the Go code bit for bit by the correspondence stream",
        ]),
    'C11': dict(
        coqchk=False,
        file='Props/C11.v',
        streams=[('c11-h2c', 'pure'), ('c11-keysetid', 'pure'), ('c11-nut13', 'pure'), ('c11-prims', 'pure')],
        assumptions=[
            "the equality theorems (implementation-shaped model = declarative spec) take SHA-256, HMAC-SHA512, lift_x and point serialisation as parameters; that the executable instances are those primitives rests on the bit-for-bit correspondence with the Go code and on the published test vectors",
            "hdkeychain's BIP32 (a dependency, not repository code) is modelled from BIP32 and exercised for real by the harness",
        ]),
    'C18': dict(
        file='Props/C18.v',
        streams=[('c18-select', 'pure'), ('c18-send', 'pure')],
        assumptions=[
            "sort.Slice is unstable: soundness/exactness theorems are proved for any two permutation functions used as the sorts; the executable model uses a stable sort and the streams compare tie-break-invariant observables only",
            "end-to-end stream: two real wallets against an in-process mint; the sender's store is filled with directly signed proofs",
        ]),
}


# ---- texts for MANIFEST.json (tools/genmanifest.py)
_COND = dict(
    text="Coq theorems over an executable model of the NUT-10/11/14 evaluators (accept <-> declarative spec, SIG_ALL, helpers), model tied to /repo by differential execution of the extracted model against the real verifiers and Mint.Swap/MeltTokens",
    note="symbolic Schnorr/SHA-256; encoding/json trusted; see evidence.assumptions and TRUSTED.md", design_ref="DESIGN.md §5 C12/C13")
_MINT_NOTE = "symbolic blind signatures (C10 has the algebra); SQLite calls atomic+durable; scripted Lightning client; model tied to the code by differential execution of random histories through the real Mint on SQLite; see evidence.assumptions and TRUSTED.md"
LEVEL_TEXT = {
    'C01': dict(text="Coq theorems over the mint state-machine model (every Mint method as a program over storage/Lightning calls): key invariants of the spent/pending/signature tables after every history of requests, injected storage faults, crashes at any call and arbitrary interleavings; spent is append-only; Swap/Melt reject every represented secret and change nothing; over all sequential histories the consumed secrets are pairwise distinct; for any concurrent batch and schedule two requests consuming one secret never both succeed, and batches of swaps never issue more than they redeem at any point of any schedule; tied to /repo by differential execution of histories with replays of consumed and locked secrets", note=_MINT_NOTE),
    'C02': dict(text="Coq theorems: over whole histories - sequential, with requests cut or hit by storage errors anywhere (all but the three that settle melts), with concurrent swap batches, under operator reconfiguration - issued ecash + Lightning outflow <= redeemed + what the backend reports received (ledger form: internal settlements are not inflow); per request: swap outputs + input fees <= inputs (true sums, uint64 wrap written into the model), mint outputs <= quote amount, melt burns >= amount + fee reserve + input fees, fee limit handed to the backend = fee reserve; tied to /repo by differential execution of honest and adversarial histories with a conservation monitor", note=_MINT_NOTE),
    'C03': dict(text="Coq theorems on the mint-quote machine (issuance needs a paid/settled quote, at most the quoted amount, marks ISSUED, refused afterwards, NUT-20 signature required, the watcher only moves UNPAID->PAID); tied to /repo by differential execution incl. late notifications and tampered signatures", note=_MINT_NOTE),
    'C05': dict(text="Coq theorems characterising MeltTokens and the poll by the backend's answers (locked while possible, spent iff success with the backend's preimage, released only on failed/not-found, ambiguous answers are no-ops); tied to /repo by differential execution against scripted backends", note=_MINT_NOTE),
    'C06': dict(text="Coq theorems: a refused Swap/MintTokens/MeltTokens leaves the store unchanged (up to the lazily recorded payment of a settled quote) and no model program reaches a Panic leaf on the paths proved; tied to /repo by differential execution with rejection causes compared and a state-snapshot monitor on every refusal", note=_MINT_NOTE),
    'C07': dict(text="Coq theorems that hold at EVERY crash cut and under EVERY injected storage error: key invariants of all tables, spent and signature tables append-only (spent stays refused, stored signatures stay restorable), footprints (no request but a rotation/restart touches keysets; swaps/checks never touch quotes; only issuing operations add signatures), the exact sets of stores reachable by cutting a Swap or a MintTokens anywhere, and the no-inflation inequalities (value form, ledger form, balance form) along every history in which any request except MeltTokens, melt-quote poll and state check is cut or hit by storage errors anywhere and swaps run concurrently; the cuts at which the faithful model inflates or strands value are exhibited as computed witnesses (refutations of atomicity and of one safety clause) and replayed on the real mint; tied to /repo by running every operation kind with the process killed before each storage/Lightning call and with an error injected at each storage call, model and code agreeing on all of them", note=_MINT_NOTE + '; SQLite durability below call granularity assumed (partial)'),
    'C09': dict(text="Coq theorems on rotation and reload (one active keyset, index+1, old rows kept, signatures only on the active keyset, per-keyset fees) plus the bit-level keyset derivation of C11; tied to /repo by differential execution of restart/rotation histories", note=_MINT_NOTE),
    'C14': dict(text="Coq theorems: hex/base64 round trips, V3/V4 token round trip (modulo the marshaler contract), amount = sum, DecodeToken and all accessors total (no Panic leaf reachable); tied to /repo by differential execution of the real DecodeToken/NewToken/Serialize on generated tokens and arbitrary strings", note="encoding/json and cbor modelled by contract (exercised for real by the harness); see TRUSTED.md", design_ref="DESIGN.md §5 C14"),
    'C15': dict(text="Coq theorems: RestoreSignatures returns exactly the stored rows for the queried B_s in request order and finds every signature ever returned, after any history; ProofsStateCheck reports the table state of each Y in request order; spent stays SPENT; tied to /repo by differential execution with mixed known/unknown/repeated queries", note=_MINT_NOTE),
    'C16': dict(text="Coq theorems: redeemed + locked <= issued in every state reached by a history of requests, incl. cut and faulted ones, under the unforgeability reading of the symbolic signatures, hence the reported balance is exact and non-negative; the per-keyset views sum to the tables, TotalBalance = issued - redeemed without wrap under the stated bounds, each limit refuses as specified (incl. amounts >= 2^63 through the SQL driver rule), info.disabled iff balance >= max; tied to /repo by differential execution under limit configurations", note=_MINT_NOTE),
    'C04': dict(text="Coq theorems: the per-proof gate accepts exactly the proofs with a known keyset, an amount that is a key of it, a secret within the length cap, a satisfied spending condition and C = the signature term for exactly (keyset, amount, secret); every accepted Swap input is such a proof; the algebraic half (verify k Y C <-> C = k.Y, another key never verifies) is C10; tied to /repo by presenting every single-field mutation of valid proofs to Swap and Melt", note=_MINT_NOTE),
    'C10': dict(text="Coq theorems over an abstract prime-order group (BDHKE round trip, independence of r, wrong key/secret/point rejected, DLEQ completeness for mint and wallet, soundness with a unique challenge, single-field tamper theorems as hash-collision reductions), the same definitions instantiated at an executable secp256k1 and compared bit for bit with crypto/bdhke.go and nut12", note="group laws assumed for secp256k1 (not proved here); HashE arbitrary; see TRUSTED.md", design_ref="DESIGN.md §5 C10"),
    'C11': dict(text="Coq theorems: implementation-shaped models of hash_to_curve, DeriveKeysetId and the NUT-13 derivation equal declarative specifications transcribed from NUT-00/02/13 and BIP32, for all inputs; executable SHA-256/HMAC-SHA512/secp256k1/BIP32 in Coq compared bit for bit with the Go functions", note="primitives identified with SHA-2/secp256k1 by correspondence and test vectors (partial); see TRUSTED.md", design_ref="DESIGN.md §5 C11"),
    'C18': dict(text="Coq theorems on the wallet's selection arithmetic for every tie-break of the unstable sorts: AmountSplit sums, selection soundness, exact hand-over without fees, removal from the balance; the fee-inclusive exactness is characterised exactly (partial) and refuted with a computed witness that is replayed on two real wallets; liveness proved for active-keyset wallets and refuted otherwise; tied to /repo by differential execution of the selection helpers and end-to-end Send/Receive", note="sort.Slice tie-breaks quantified over; findings listed in known_findings.json", design_ref="DESIGN.md §5 C18"),
    'C20': dict(text="Coq theorems over a model of server.go layered on the mint state machine (status/shape/code per outcome, no internal code ever, NUT-19 replay and only-replay with injectivity of the separated key, refutation for the unseparated key), tables read from the current Go sources by the translator; tied to /repo by differential execution through the real handler with hand-built JSON", note=_MINT_NOTE + '; net/http and gorilla/mux routing, encoding/json trusted', design_ref='DESIGN.md §5 C20'),
    'C08': dict(text="Coq theorems over a symbolic model of every wallet flow (requests as terms): for all histories incl. crash cuts no request to a mint contains a blinding factor outside a blinded message, nor a DLEQ object, nor the secret of an output; the unrepaired request construction is refuted with a computed witness (the defect was repaired in /repo); tied to /repo by differential execution of 2-3 real wallets against in-process mints with every request body scanned for the hex of every blinding factor and unspent output secret", note="symbolic (Dolev-Yao) secrecy only: nothing about timing or metadata; see evidence.assumptions", design_ref="DESIGN.md §5 C08"),
    'C17': dict(text="Coq theorems on the wallet model: reported balance = stored proofs, per-request conservation at the honest-mint oracle (swap, mint, melt), no duplicate proofs per request (partial: the composed wallet x mint induction over histories is not proved); the MintSwap loss is refuted with a computed witness (known finding); tied to /repo by differential execution of wallet histories over 2-3 wallets and 1-2 mints with mint-side ground truth and a conservation monitor", note="partial: per-flow lemmas, not the composed induction; see evidence.assumptions", design_ref="DESIGN.md §5 C17"),
    'C19': dict(text="Coq theorems on the wallet's counters and Restore: every deterministic output of every request of every history (incl. cuts) is derived at or above the stored counter; per-flow counter freshness (partial); restore completeness for one keyset under the no-gap hypothesis; the cumulative-counter rule and the untrusted-mint counter reuse are refuted with computed witnesses (the former repaired in /repo, the latter a known finding); tied to /repo by differential execution incl. >300 outputs, rotation, restore-continue-restore and wallet crash cuts", note="partial where named _partial; see evidence.assumptions", design_ref="DESIGN.md §5 C19"),
    'C12': _COND, 'C13': _COND,
}
NOT_APPLICABLE = {}
