"""Per-property configuration of the checks: statement file, correspondence streams, texts for the evidence."""

COMMON_TRUSTED = [
    "Coq 8.16.1 kernel (coqc; coqchk -silent -o in the thorough tier); vm_compute in Examples only; no native_compute",
    "tools/goextract (Go AST walker) regenerating coq/Gen/Extracted.v from /repo",
    "extraction: ExtrOcamlBasic + ExtrOcamlZBigInt (zarith) + Extract Constant Z.land/Z.lor/Z.lxor (see TRUSTED.md); OCaml 4.13.1; run/driver.ml (s-expression reader/printer)",
    "Go harness /verif/harness (concretisation of abstract cases, projection of observables, monitors, scripted Lightning client)",
]

# stream kinds:
#   pure   : a model/implementation disagreement is itself a concrete failing input, because the model is proved
#            equal to the declarative spec of the property
#   tie    : a disagreement breaks the correspondence; monitors search for a failing input
PROPS = {
    'C12': dict(
        file='Props/C12.v',
        streams=[('c12-eval', 'pure'), ('c12-swap', 'pure')],
        assumptions=[
            "symbolic Schnorr: a signature verifies for exactly one (key, message); BIP-340 x-only keys (K and -K verify the same signature) are outside the model",
            "encoding/json behaves as documented on the witness/secret types (exercised for real by the harness)",
            "the mint's clock is a parameter; locktimes in generated cases are at least one hour away from now",
        ]),
    'C13': dict(
        file='Props/C13.v',
        streams=[('c13-eval', 'pure'), ('c13-swap', 'pure')],
        assumptions=[
            "symbolic SHA-256: a preimage handle opens exactly the lock carrying the same handle (collision resistance)",
            "symbolic Schnorr as for C12",
        ]),
    'C14': dict(
        file='Props/C14.v',
        streams=[('c14-decode', 'pure'), ('c14-roundtrip', 'pure')],
        assumptions=[
            "encoding/json and fxamacker/cbor are modelled by their contract (unmarshal (marshal t) = t on well-formed tokens); the harness exercises the real marshalers",
            "the totality theorems hold for arbitrary unmarshal functions",
        ]),
    'C01': dict(
        file='Props/C01.v',
        streams=[('c01-hist', 'tie')],
        assumptions=['symbolic cryptography in the mint model: a C field is genuine iff it is the term CSig keyset amount secret (one-more unforgeability of BDHKE, collision resistance of hash_to_curve); the algebra itself is C10', 'each storage.MintDB call is atomic and durable once it returns (SQLite); PRIMARY KEY/UNIQUE as in the migrations', 'the Lightning backend is the scripted lightning.Client of the harness; real LND/CLN adapters are not executed']),
    'C02': dict(
        file='Props/C02.v',
        streams=[('c02-hist', 'tie')],
        assumptions=['symbolic cryptography in the mint model: a C field is genuine iff it is the term CSig keyset amount secret (one-more unforgeability of BDHKE, collision resistance of hash_to_curve); the algebra itself is C10', 'each storage.MintDB call is atomic and durable once it returns (SQLite); PRIMARY KEY/UNIQUE as in the migrations', 'the Lightning backend is the scripted lightning.Client of the harness; real LND/CLN adapters are not executed']),
    'C03': dict(
        file='Props/C03.v',
        streams=[('c03-hist', 'tie')],
        assumptions=['symbolic cryptography in the mint model: a C field is genuine iff it is the term CSig keyset amount secret (one-more unforgeability of BDHKE, collision resistance of hash_to_curve); the algebra itself is C10', 'each storage.MintDB call is atomic and durable once it returns (SQLite); PRIMARY KEY/UNIQUE as in the migrations', 'the Lightning backend is the scripted lightning.Client of the harness; real LND/CLN adapters are not executed']),
    'C05': dict(
        file='Props/C05.v',
        streams=[('c05-hist', 'tie')],
        assumptions=['symbolic cryptography in the mint model: a C field is genuine iff it is the term CSig keyset amount secret (one-more unforgeability of BDHKE, collision resistance of hash_to_curve); the algebra itself is C10', 'each storage.MintDB call is atomic and durable once it returns (SQLite); PRIMARY KEY/UNIQUE as in the migrations', 'the Lightning backend is the scripted lightning.Client of the harness; real LND/CLN adapters are not executed']),
    'C06': dict(
        file='Props/C06.v',
        streams=[('c06-hist', 'tie')],
        assumptions=['symbolic cryptography in the mint model: a C field is genuine iff it is the term CSig keyset amount secret (one-more unforgeability of BDHKE, collision resistance of hash_to_curve); the algebra itself is C10', 'each storage.MintDB call is atomic and durable once it returns (SQLite); PRIMARY KEY/UNIQUE as in the migrations', 'the Lightning backend is the scripted lightning.Client of the harness; real LND/CLN adapters are not executed']),
    'C09': dict(
        file='Props/C09.v',
        streams=[('c09-hist', 'tie')],
        assumptions=['symbolic cryptography in the mint model: a C field is genuine iff it is the term CSig keyset amount secret (one-more unforgeability of BDHKE, collision resistance of hash_to_curve); the algebra itself is C10', 'each storage.MintDB call is atomic and durable once it returns (SQLite); PRIMARY KEY/UNIQUE as in the migrations', 'the Lightning backend is the scripted lightning.Client of the harness; real LND/CLN adapters are not executed']),
    'C15': dict(
        file='Props/C15.v',
        streams=[('c15-hist', 'tie')],
        assumptions=['symbolic cryptography in the mint model: a C field is genuine iff it is the term CSig keyset amount secret (one-more unforgeability of BDHKE, collision resistance of hash_to_curve); the algebra itself is C10', 'each storage.MintDB call is atomic and durable once it returns (SQLite); PRIMARY KEY/UNIQUE as in the migrations', 'the Lightning backend is the scripted lightning.Client of the harness; real LND/CLN adapters are not executed']),
    'C16': dict(
        file='Props/C16.v',
        streams=[('c16-hist', 'tie')],
        assumptions=['symbolic cryptography in the mint model: a C field is genuine iff it is the term CSig keyset amount secret (one-more unforgeability of BDHKE, collision resistance of hash_to_curve); the algebra itself is C10', 'each storage.MintDB call is atomic and durable once it returns (SQLite); PRIMARY KEY/UNIQUE as in the migrations', 'the Lightning backend is the scripted lightning.Client of the harness; real LND/CLN adapters are not executed']),
}


# ---- texts for MANIFEST.json (tools/genmanifest.py)
_COND = dict(
    text="Coq theorems over an executable model of the NUT-10/11/14 evaluators (accept <-> declarative spec, SIG_ALL, helpers), model tied to /repo by differential execution of the extracted model against the real verifiers and Mint.Swap/MeltTokens",
    note="symbolic Schnorr/SHA-256; encoding/json trusted; see evidence.assumptions and TRUSTED.md", design_ref="DESIGN.md §5 C12/C13")
_MINT_NOTE = "symbolic blind signatures (C10 has the algebra); SQLite calls atomic+durable; scripted Lightning client; model tied to the code by differential execution of random histories through the real Mint on SQLite; see evidence.assumptions and TRUSTED.md"
LEVEL_TEXT = {
    'C01': dict(text="Coq theorems over the mint state-machine model (every Mint method as a program over storage/Lightning calls): key invariants of the spent/pending/signature tables after every history of requests, injected storage faults, crashes at any call and arbitrary interleavings; spent is append-only; Swap/Melt reject every represented secret and change nothing; tied to /repo by differential execution of histories with replays of consumed and locked secrets", note=_MINT_NOTE),
    'C02': dict(text="Coq theorems: swap outputs + input fees <= inputs (true sums, uint64 wrap written into the model), mint outputs <= quote amount, melt burns >= amount + fee reserve + input fees, fee limit handed to the backend = fee reserve; tied to /repo by differential execution of honest and adversarial histories with a conservation monitor", note=_MINT_NOTE),
    'C03': dict(text="Coq theorems on the mint-quote machine (issuance needs a paid/settled quote, at most the quoted amount, marks ISSUED, refused afterwards, NUT-20 signature required, the watcher only moves UNPAID->PAID); tied to /repo by differential execution incl. late notifications and tampered signatures", note=_MINT_NOTE),
    'C05': dict(text="Coq theorems characterising MeltTokens and the poll by the backend's answers (locked while possible, spent iff success with the backend's preimage, released only on failed/not-found, ambiguous answers are no-ops); tied to /repo by differential execution against scripted backends", note=_MINT_NOTE),
    'C06': dict(text="Coq theorems: a refused Swap/MintTokens/MeltTokens leaves the store unchanged (up to the lazily recorded payment of a settled quote) and no model program reaches a Panic leaf on the paths proved; tied to /repo by differential execution with rejection causes compared and a state-snapshot monitor on every refusal", note=_MINT_NOTE),
    'C09': dict(text="Coq theorems on rotation and reload (one active keyset, index+1, old rows kept, signatures only on the active keyset, per-keyset fees) plus the bit-level keyset derivation of C11; tied to /repo by differential execution of restart/rotation histories", note=_MINT_NOTE),
    'C14': dict(text="Coq theorems: hex/base64 round trips, V3/V4 token round trip (modulo the marshaler contract), amount = sum, DecodeToken and all accessors total (no Panic leaf reachable); tied to /repo by differential execution of the real DecodeToken/NewToken/Serialize on generated tokens and arbitrary strings", note="encoding/json and cbor modelled by contract (exercised for real by the harness); see TRUSTED.md", design_ref="DESIGN.md §5 C14"),
    'C15': dict(text="Coq theorems: RestoreSignatures returns exactly the stored rows for the queried B_s in request order and finds every signature ever returned, after any history; ProofsStateCheck reports the table state of each Y in request order; spent stays SPENT; tied to /repo by differential execution with mixed known/unknown/repeated queries", note=_MINT_NOTE),
    'C16': dict(text="Coq theorems: the per-keyset views sum to the tables, TotalBalance = issued - redeemed without wrap under the stated bounds, each limit refuses as specified (incl. amounts >= 2^63 through the SQL driver rule), info.disabled iff balance >= max; tied to /repo by differential execution under limit configurations", note=_MINT_NOTE),
    'C12': _COND, 'C13': _COND,
}
NOT_APPLICABLE = {}
