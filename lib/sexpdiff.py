#!/usr/bin/env python3
"""Locate the first differing item between implementation and model observations of history cases."""
import sys

def parse(s):
    s = s.replace('(', ' ( ').replace(')', ' ) ').split()
    def rd(i):
        if s[i] == '(':
            l = []; i += 1
            while s[i] != ')':
                x, i = rd(i); l.append(x)
            return l, i + 1
        return int(s[i]), i + 1
    return rd(0)[0]

def show(x):
    if isinstance(x, list):
        return '(' + ' '.join(show(y) for y in x) + ')'
    return str(x)

def main(d, maxn=3):
    cases = open(d + '/cases.sexp').read().splitlines()
    impl = open(d + '/impl.obs').read().splitlines()
    model = open(d + '/model.obs').read().splitlines()
    n = 0
    for ci, (c, i, m) in enumerate(zip(cases, impl, model)):
        if i == m:
            continue
        n += 1
        if n > maxn:
            break
        pc, pi, pm = parse(c), parse(i), parse(m)
        items = pc[1][2] if isinstance(pc[1], list) and len(pc[1]) == 3 else None
        print('--- case %d' % ci)
        if items is None or not isinstance(pm, list) or len(pi) != len(pm):
            print('impl :', i[:600]); print('model:', m[:600]); continue
        for k, (a, b) in enumerate(zip(pi, pm)):
            if a != b:
                print('first difference at item %d: %s' % (k, show(items[k])))
                if k > 0:
                    print('  previous item      : %s' % show(items[k-1])[:300])
                for part, (x, y) in enumerate(zip(a, b)):
                    if x != y:
                        if part == 1:
                            names = ['spent', 'pending', 'sigs', 'mintq', 'meltq', 'paycalls', 'keysets']
                            for t, (u, v) in enumerate(zip(x, y)):
                                if u != v:
                                    print('  snapshot.%s impl : %s' % (names[t], show(u)[:500]))
                                    print('  snapshot.%s model: %s' % (names[t], show(v)[:500]))
                        else:
                            print('  result impl : %s' % show(x)[:500])
                            print('  result model: %s' % show(y)[:500])
                break
    print('%d differing case(s) shown' % min(n, maxn))

if __name__ == '__main__':
    main(sys.argv[1], int(sys.argv[2]) if len(sys.argv) > 2 else 3)
