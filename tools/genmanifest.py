#!/usr/bin/env python3
"""Regenerates /verif/MANIFEST.json from lib/props.py (one source of truth for which properties have a check)."""
import json, os, sys
sys.path.insert(0, '/verif/lib')
from props import PROPS, LEVEL_TEXT, NOT_APPLICABLE
ALL = ['C%02d' % i for i in range(1, 21)]
checks = []
for pid in ALL:
    if pid not in PROPS:
        continue
    t = LEVEL_TEXT[pid]
    checks.append({
        'property_id': pid,
        'quick_cmd': 'bin/check %s --tier quick' % pid,
        'thorough_cmd': 'bin/check %s --tier thorough' % pid,
        'evidence_file': '/verif/evidence/%s.json' % pid,
        'engine': 'coq-model+correspondence',
        'level_claimed': {'category': 'proof', 'text': t['text'], 'design_ref': t.get('design_ref', 'DESIGN.md §5 ' + pid)},
        'level_note': t['note'],
        'technique': 'machine-checked proof in Coq 8.16 + checked model/implementation correspondence',
    })
na = [{'property_id': p, 'reason': NOT_APPLICABLE.get(p, 'check under construction (claimed in DESIGN.md; moves to checks once its model, theorems and correspondence stream exist)')}
      for p in ALL if p not in PROPS]
m = {
    'version': 1,
    'setup_cmd': 'bin/setup',
    'hooks': {
        'guard': 'verif',
        'enable': 'go build -tags verif (harness module with replace github.com/elnosh/gonuts => /repo)',
        'baseline_off_cmd': 'cd /repo && go test -mod=mod -vet=off -count=1 -timeout 25m ./...',
        'source_commits': ['9690914', '2773197'],
        'add_only': True,
    },
    'engines': [{
        'name': 'coq-model+correspondence',
        'path': '/verif/coq, /verif/harness, /verif/run, /verif/bin/check',
        'serves_properties': [c['property_id'] for c in checks],
        'kind_free_text': 'Coq 8.16 development (model + theorems), OCaml-extracted model runner, Go harness driving the real packages, Python orchestration',
    }],
    'checks': checks,
    'not_applicable': na,
    'notes': 'See DESIGN.md. Known findings are listed in known_findings.json; seeded changes used to test the checks are under seeded/.',
}
json.dump(m, open('/verif/MANIFEST.json', 'w'), indent=1)
print('checks:', [c['property_id'] for c in checks], 'not claimed:', [n['property_id'] for n in na])
