#!/usr/bin/env python3
"""Helper used while writing Props/*.v: prints `Theorem <prefix>_<name> : <type as Coq prints it>. Proof. exact @<name>. Qed.`
for lemmas of the development, so that statement files repeat every statement in full.  Not used by the checks."""
import subprocess, sys, re
def main():
    imports, prefix, names = sys.argv[1], sys.argv[2], sys.argv[3:]
    src = 'From Coq Require Import ZArith List Bool.\nFrom Verif Require Import %s.\nImport ListNotations.\nOpen Scope Z_scope.\nSet Printing Width 118.\n' % imports
    for n in names:
        src += 'Check @%s.\n' % n
    open('/tmp/genprops.v', 'w').write(src)
    out = subprocess.run(['coqtop', '-Q', '/verif/coq', 'Verif', '-batch', '-l', '/tmp/genprops.v'], capture_output=True, text=True)
    txt = out.stdout + out.stderr
    blocks = re.split(r'\n(?=@?\w+\n?\s*:)', '\n' + txt)
    for n in names:
        m = re.search(r'(?:^|\n)@?%s\s*\n?\s*:(.*?)(?=\n@?\w+\s*\n?\s*:|\Z)' % re.escape(n), txt, re.S)
        if not m:
            print('(* could not print %s *)' % n); continue
        ty = m.group(1).rstrip()
        print('Theorem %s_%s :%s.\nProof. exact @%s. Qed.\nPrint Assumptions %s_%s.\n' % (prefix, n, ty, n, prefix, n))
main()
