#!/usr/bin/env python3
"""firstdiff.py <replay.json> [k]: for the k-th disagreement of a correspondence replay, print the first history item on which the
implementation's and the model's observations differ (mint family cases)."""
import json, sys
def parse(s):
    toks = s.replace('(', ' ( ').replace(')', ' ) ').split()
    def rd(i):
        if toks[i] == '(':
            l = []; i += 1
            while toks[i] != ')':
                x, i = rd(i); l.append(x)
            return l, i + 1
        return toks[i], i + 1
    return rd(0)[0]
def show(x):
    return x if isinstance(x, str) else '(' + ' '.join(show(y) for y in x) + ')'
d = json.load(open(sys.argv[1]))
k = int(sys.argv[2]) if len(sys.argv) > 2 else 0
f = ([d['first']] + d.get('more', []))[k]
case, impl, model = parse(f['case']), parse(f['impl']), parse(f['model'])
items = case[1][2] if case[0] == '5' else None
print('cfg', show(case[1][0]) if items is not None else '')
for i, (a, b) in enumerate(zip(impl, model)):
    if a != b:
        print('first difference at item', i)
        if items is not None:
            for j in range(max(0, i - 3), i + 1):
                print('  item', j, show(items[j])[:600])
        print('  impl ', show(a)[:900])
        print('  model', show(b)[:900])
        break
else:
    print('lengths', len(impl), len(model))
