#!/usr/bin/env python3
"""Writes the statement files coq/Props/Cxx.v of the mint-side properties from the lemma lists below.
Each statement is printed by Coq itself (Check), so the file repeats every statement in full; proofs are `exact @lemma`.
Run from /verif/coq after the development has been compiled:  python3 ../tools/mkprops.py [Cxx ...]"""
import subprocess, sys, re, os

IMP = "Model Sem InvDb InvSwap InvMint InvMelt Corollaries Queries Footprint HRel Global GlobalQuote GlobalValue GlobalErr GlobalQuery GlobalMelt GlobalKeys Cuts CutOrder Conc Races GlobalBalance GlobalLedger Reconf GlobalPoll Trace Admin AdminProofs CutValue CutMint CutFrames ConcValue CutHistory CutBalance CutLedger"

GLOSSARY = """   Reading guide (definitions in coq/Mint/*.v):
     world            = store (tables spent/pending/signatures/mint quotes/melt quotes/keysets) + Lightning environment
                        (invoices, scripted answers, log of pay calls) + the process memory (keysets, active keyset)
     op               = one request (OSwap, OMint, OMelt, OMeltQuote, OMintQuote, OMintState, OMeltState, OCheck, ORestore,
                        ORotate, ORestart, OWatcher, OBalance, OInfo) or environment step (ESettle, EScriptPay/Look, ...)
     op_prog          = the request as a program over storage/Lightning calls, following mint/mint.go call by call
     run p f w        = run program p from world w; f: which call positions get an injected storage error (no_fault: none)
     run_n n p f w    = the same, but the process dies after n calls
     step cfg f w o   = one request run to completion; run_history / reach: a sequential fault-free history from the empty store
     hrun cfg w h     = a history of items: HNormal o | HFault o f | HCrash o n | HConc ops schedule (interleaving at call granularity)
     WInv w           = every table has unique keys (Y, B_, quote ids, keyset ids)
     Good w           = WInv w and no Y is both spent and pending
     wext w w'        = spent and signature tables of w' extend those of w (nothing removed or altered)
     same_but_calls   = nothing changed but the call counter
     settled w h      = the backend reports the own invoice with payment hash h as settled
     ordered b a s p  = on every path of program p (for every response, so for every fault and cut) an event `a` is preceded by an event `b`
"""

PROPS = {
 'C01': ("No double spend: an ecash proof is redeemed at most once, ever", [
   'hrun_inv', 'hrun_ext', 'spent_once', 'spent_forever', 'state_of_spent_forever', 'spent_stays_refused',
   'reach_good', 'at_most_once', 'concurrent_at_most_once', 'concurrent_swaps_never_inflate', 'concurrent_swaps_keep_good', 'concurrent_swaps_example', 'locked_or_spent_refused', 'swap_melt_race',
   'swap_rejects_represented', 'swap_rejects_duplicate', 'melt_rejects_represented']),
 'C02': ("No inflation: outstanding ecash plus Lightning outflow never exceeds inflow", [
   'no_inflation_ledger', 'ledger_history_ok', 'no_inflation', 'no_inflation_reconf', 'no_inflation_ledger_reconf', 'no_inflation_ledger_with_cuts', 'cut_ledger_history_ok', 'no_inflation_with_cuts', 'swap_cut_no_value_created', 'concurrent_swaps_never_inflate', 'swap_cut_signatures_imply_spent', 'swap_balanced', 'mint_within_quote', 'melt_burns_enough', 'validated_covers',
   'melt_fee_limit', 'melt_fee_limit_mpp', 'request_melt_quote_fee', 'melt_amount_must_fit']),
 'C03': ("A mint quote is issued at most once per payment, never before it is paid", [
   'quote_issued_at_most_once_per_payment', 'quote_issued_at_most_once_with_cuts', 'mint_cut_states', 'internal_credits_are_melts', 'step_qinv', 'mint_needs_payment', 'mint_within_quote', 'mint_once',
   'mint_marks_issued', 'mint_nut20', 'watcher_only_unpaid', 'quotes_never_altered', 'mint_mint_race']),
 'C04': ("Only genuine mint signatures are honoured, at exactly their signed amount", [
   'check_proof_iff', 'check_proofs_forall', 'swap_accepts_only_genuine']),
 'C05': ("Melt inputs follow the Lightning outcome: spent iff paid, released iff failed", [
   'polls_only_adopt_definitive_answers', 'pending_quote_waits_for_a_poll', 'poll_outcomes', 'ambiguous_backend_never_resolves', 'poll_spec', 'melt_tokens_spec', 'poll_ambiguous_noop', 'poll_good', 'melt_good']),
 'C06': ("Rejected or malformed requests change nothing and never crash a handler", [
   'refusal_changes_nothing', 'request_never_panics', 'request_run_never_panics', 'check_never_refused', 'swap_atomic']),
 'C07': ("Mint crash consistency: a crash at any point never inflates or strands value", [
   'hrun_inv', 'hrun_ext', 'reconf_inv', 'reconf_ext', 'only_op', 'cut_keeps_keysets', 'cut_keeps_quotes', 'cut_signs_only_when_issuing',
   'keysets_never_lost', 'quotes_never_altered', 'spent_stays_refused', 'stored_signature_stays_restorable',
   'request_run_never_panics', 'step_log_step', 'step_crash_log_step', 'swap_cut_signatures_imply_spent', 'swap_ordered', 'mint_ordered', 'melt_ordered',
   'swap_cut_states', 'swap_cut_no_value_created', 'mint_cut_states', 'no_inflation_ledger_with_cuts', 'no_inflation_with_cuts', 'cut_history_ok', 'balance_never_negative_with_cuts',
   'crash_in_settle_inflates', 'crash_in_swap_strands', 'crash_in_mint_strands', 'crash_in_rotate_bricks']),
 'C09': ("Keyset lifecycle: deterministic keys, one active keyset, old ecash stays valid", [
   'one_active_keyset', 'keysets_never_lost', 'reconf_keeps_keysets', 'arun_as_history', 'admin_rotate_is_rotate', 'admin_rotate_bad_fee', 'admin_readonly', 'cut_keeps_keysets', 'rotate_spec', 'rotate_fee_must_fit', 'load_spec',
   'swap_signs_active_only', 'check_outputs_active', 'tx_fees_per_keyset', 'tx_fees_wrapping_refuted']),
 'C15': ("State check and restore tell the truth about everything the mint ever did", [
   'check_state_general', 'check_state_exact', 'signatures_are_exactly_what_was_returned', 'restore_is_exact', 'restore_exact',
   'restore_finds_issued', 'state_of_spent_forever', 'sig_forever']),
 'C16': ("Reported balances are exact and configured limits are enforced", [
   'balance_never_negative', 'balance_never_negative_with_cuts', 'cut_balance_history_ok', 'step_bi', 'binv_bound', 'honest_history_ok', 'admin_total_is_total_balance', 'admin_issued_view', 'admin_redeemed_view',
   'issued_view_total', 'redeemed_view_total', 'total_balance_exact', 'total_balance_overflow_fails', 'signatures_are_exactly_what_was_returned',
   'mint_limit_enforced', 'melt_limit_enforced', 'melt_amount_must_fit', 'balance_limit_enforced', 'huge_quote_refused', 'info_disabled_iff']),
}

NOTES = {
 'C01': "   at_most_once: over every sequential history, the secrets consumed by successful swaps and PAID melts are pairwise distinct.\n   hrun_inv / hrun_ext / spent_stays_refused hold for EVERY history item kind (faults, crashes, schedules).\n   concurrent_at_most_once: for ANY concurrent batch and ANY schedule at call granularity, two requests that consume the same secret\n   are never both successful as far as the tables can tell (both insert a row with that Y; the unique key refuses the second).\n   Concurrent swap||melt on one proof is NOT safe in the code: swap_melt_race is the computed schedule (the melt's Lightning payment\n   goes out before its insert is refused); known finding, reproduced on the real mint by the c01-sched stream.\n",
 'C02': "   no_inflation: hypotheses cfg_ok (a melt limit below 2^61 sat is configured, fee reserve <= amount), uint64 request amounts,\n   truthful invoice notifications.  vS/vR = true sums of signature/spent amounts, vOut = commitments (amount+fee reserve) of PAID\n   melt quotes, esett = 1 iff the backend reports the quote's invoice settled, cnt id cred = internal settlements credited to it.\n",
 'C03': "   quote_issued_at_most_once_per_payment: ghost lists iss/cred of issuance and internal-credit events along the history (qtrace);\n   honest = the invoice subscription only reports invoices that are settled.  Concurrent MintTokens on one quote are NOT safe in the\n   code: mint_mint_race is the computed schedule (known finding, c03-sched).\n",
 'C05': "   ambiguous = any answer that is not a definitive success or failure; look_ambiguous w = every scripted lookup answer is ambiguous.\n",
 'C06': "   refusal_changes_nothing: quiet = all tables equal, except that an UNPAID quote whose invoice is settled may be recorded PAID.\n   Excluded: refusals caused by a Lightning-backend error (fault domain, C07).  nopanic p = no Panic leaf is reachable in p.\n",
 'C07': "   The last four are refutations: computed cuts of the model at which value is inflated / stranded / the mint cannot start;\n   the c07-cuts stream replays them (and every other cut) on the real mint; they are listed in known_findings.json.\n   swap_cut_states / mint_cut_states: the exact sets of stores reachable by cutting a Swap / MintTokens anywhere under any storage errors.\n   no_inflation_with_cuts: cut_item = any request run to completion, or a request other than MeltTokens / melt-quote poll / state check cut\n   or faulted anywhere, or a concurrent batch of swaps and reads under any schedule; for cuts of the excluded three the inequality is false (refutations).\n",
 'C09': "   KOk w: memory = stored rows, one active keyset = w_active, all other ids smaller.  The bit-level derivation is C11 (c09-keygen stream).\n",
 'C15': "   state_of d y = (y, 2, witness) if y is in spent, else (y, 1, witness) if pending, else (y, 0, 0).\n",
 'C16': "   total_balance_exact needs redeemed <= issued (unforgeability: every spent proof was issued) and totals below 2^64.\n",
}

def check_types(names):
    src = 'From Coq Require Import ZArith List Bool.\nFrom Verif Require Import %s.\nImport ListNotations.\nOpen Scope Z_scope.\nSet Printing Width 116.\n' % IMP
    for n in names:
        src += 'Check @%s.\n' % n
    open('/tmp/mkprops.v', 'w').write(src)
    out = subprocess.run(['coqtop', '-Q', '/verif/coq', 'Verif', '-batch', '-l', '/tmp/mkprops.v'], capture_output=True, text=True)
    txt = out.stdout + out.stderr
    res = {}
    for n in names:
        m = re.search(r'(?:^|\n)@?%s\s*\n?\s*:(.*?)(?=\n@?\w+\s*\n?\s*:|\Z)' % re.escape(n), txt, re.S)
        res[n] = m.group(1).rstrip() if m else None
    return res

def main():
    ids = sys.argv[1:] or sorted(PROPS)
    for pid in ids:
        title, names = PROPS[pid]
        tys = check_types(names)
        out = "(* %s - %s\n   Statements only; every proof is `exact <lemma>` into coq/Mint/*.v.\n\n%s\n%s*)\n" % (pid, title, GLOSSARY, NOTES.get(pid, ''))
        out += "From Coq Require Import ZArith List Bool.\nFrom Verif Require Import %s.\nImport ListNotations.\nOpen Scope Z_scope.\n\n" % IMP
        for n in names:
            if tys[n] is None:
                print('cannot print', n); sys.exit(1)
            out += 'Theorem %s_%s :%s.\nProof. exact @%s. Qed.\nPrint Assumptions %s_%s.\n\n' % (pid, n, tys[n], n, pid, n)
        open('/verif/coq/Props/%s.v' % pid, 'w').write(out)
        print(pid, len(names), 'statements')
main()
