package main

// Loading of Go packages (syntax only, go/parser) and evaluation of constant
// expressions with go/constant.  No type checking: everything the translator
// needs is syntactic, and identifiers are resolved through the per-package
// constant tables built here.

import (
	"bytes"
	"fmt"
	"go/ast"
	"go/build/constraint"
	"go/constant"
	"go/parser"
	"go/printer"
	"go/token"
	"os"
	"path/filepath"
	"sort"
	"strings"
)

type srcFile struct {
	rel     string // path shown in messages / header
	ast     *ast.File
	imports map[string]string // local name -> import path
}

type constSpec struct {
	name  string
	typ   string // declared type as written ("" if untyped)
	expr  ast.Expr
	iota  int64
	f     *srcFile
	pos   token.Pos
	val   constant.Value
	state int // 0 not evaluated, 1 in progress, 2 done, 3 not a constant we can evaluate
}

type pkg struct {
	key        string // directory relative to the repo, or "ext:<import path>"
	files      []*srcFile
	consts     map[string]*constSpec
	constOrder []*constSpec
	types      map[string]*ast.TypeSpec
	typeFile   map[string]*srcFile
}

type extractor struct {
	repo     string
	modcache string
	module   string            // module path of -repo
	requires map[string]string // module -> version (from go.mod)
	fset     *token.FileSet
	pkgs     map[string]*pkg
	read     []string // files read, in load order
	errs     []string
	cur      string // item being extracted (for messages)
	out      strings.Builder
	defined  map[string]bool
}

type itemError struct{ msg string }

// failf aborts the current item.
func (x *extractor) failf(format string, args ...any) {
	panic(itemError{fmt.Sprintf(format, args...)})
}

// item runs fn; a failure inside is recorded under the item's name and the
// extraction continues so that one run reports every missing item.
func (x *extractor) item(name string, fn func()) {
	x.cur = name
	defer func() {
		if r := recover(); r != nil {
			if ie, ok := r.(itemError); ok {
				x.errs = append(x.errs, fmt.Sprintf("cannot extract %s: %s", name, ie.msg))
				return
			}
			panic(r)
		}
	}()
	fn()
}

func (x *extractor) loadGoMod() {
	data, err := os.ReadFile(filepath.Join(x.repo, "go.mod"))
	if err != nil {
		x.failf("%v", err)
	}
	x.read = append(x.read, "go.mod")
	x.requires = map[string]string{}
	inReq := false
	for _, line := range strings.Split(string(data), "\n") {
		if i := strings.Index(line, "//"); i >= 0 {
			line = line[:i]
		}
		fs := strings.Fields(line)
		switch {
		case len(fs) >= 2 && fs[0] == "module":
			x.module = strings.Trim(fs[1], "\"")
		case len(fs) == 2 && fs[0] == "require" && fs[1] == "(":
			inReq = true
		case len(fs) == 1 && fs[0] == ")":
			inReq = false
		case len(fs) == 3 && fs[0] == "require":
			x.requires[fs[1]] = fs[2]
		case inReq && len(fs) == 2:
			x.requires[fs[0]] = fs[1]
		}
	}
	if x.module == "" {
		x.failf("no module line in %s/go.mod", x.repo)
	}
}

func buildTagOK(tag string) bool {
	switch tag {
	case "linux", "amd64", "unix", "cgo", "gc":
		return true
	}
	return strings.HasPrefix(tag, "go1.")
}

// included reports whether the file is part of the default build (files
// behind a custom tag such as `verif` are not sources of the project proper).
func included(f *ast.File) bool {
	for _, cg := range f.Comments {
		if cg.Pos() >= f.Package {
			break
		}
		for _, c := range cg.List {
			if constraint.IsGoBuild(c.Text) {
				e, err := constraint.Parse(c.Text)
				if err == nil && !e.Eval(buildTagOK) {
					return false
				}
			}
		}
	}
	return true
}

// loadDir parses every non-test .go file of a directory.
func (x *extractor) loadDir(key, dir, shown string) *pkg {
	if p, ok := x.pkgs[key]; ok {
		return p
	}
	ents, err := os.ReadDir(dir)
	if err != nil {
		x.failf("package directory %s: %v", shown, err)
	}
	p := &pkg{key: key, consts: map[string]*constSpec{}, types: map[string]*ast.TypeSpec{}, typeFile: map[string]*srcFile{}}
	var names []string
	for _, e := range ents {
		n := e.Name()
		if e.IsDir() || !strings.HasSuffix(n, ".go") || strings.HasSuffix(n, "_test.go") {
			continue
		}
		names = append(names, n)
	}
	sort.Strings(names)
	for _, n := range names {
		af, err := parser.ParseFile(x.fset, filepath.Join(dir, n), nil, parser.ParseComments|parser.SkipObjectResolution)
		if err != nil {
			x.failf("parsing %s/%s: %v", shown, n, err)
		}
		if !included(af) {
			continue
		}
		sf := &srcFile{rel: shown + "/" + n, ast: af, imports: map[string]string{}}
		for _, im := range af.Imports {
			path := strings.Trim(im.Path.Value, "\"`")
			local := path[strings.LastIndex(path, "/")+1:]
			if im.Name != nil {
				local = im.Name.Name
			} else if len(local) > 1 && local[0] == 'v' && strings.Trim(local[1:], "0123456789") == "" {
				// major-version suffix: .../btcec/v2 is package btcec
				rest := path[:strings.LastIndex(path, "/")]
				local = rest[strings.LastIndex(rest, "/")+1:]
			}
			sf.imports[local] = path
		}
		p.files = append(p.files, sf)
		x.read = append(x.read, sf.rel)
	}
	if len(p.files) == 0 {
		x.failf("package directory %s contains no Go files", shown)
	}
	for _, sf := range p.files {
		for _, d := range sf.ast.Decls {
			gd, ok := d.(*ast.GenDecl)
			if !ok {
				continue
			}
			switch gd.Tok {
			case token.TYPE:
				for _, s := range gd.Specs {
					ts := s.(*ast.TypeSpec)
					p.types[ts.Name.Name] = ts
					p.typeFile[ts.Name.Name] = sf
				}
			case token.CONST:
				var prevT ast.Expr
				var prevV []ast.Expr
				for i, s := range gd.Specs {
					vs := s.(*ast.ValueSpec)
					t, vals := vs.Type, vs.Values
					if len(vals) == 0 {
						t, vals = prevT, prevV
					} else {
						prevT, prevV = t, vals
					}
					for j, nm := range vs.Names {
						if nm.Name == "_" || j >= len(vals) {
							continue
						}
						cs := &constSpec{name: nm.Name, expr: vals[j], iota: int64(i), f: sf, pos: nm.Pos()}
						if t != nil {
							cs.typ = x.text(t)
						}
						p.consts[nm.Name] = cs
						p.constOrder = append(p.constOrder, cs)
					}
				}
			}
		}
	}
	x.pkgs[key] = p
	return p
}

// pkgDir loads a package of the repository by its directory (relative path).
func (x *extractor) pkgDir(rel string) *pkg {
	return x.loadDir(rel, filepath.Join(x.repo, filepath.FromSlash(rel)), rel)
}

func escapeModPath(s string) string {
	var b strings.Builder
	for _, r := range s {
		if r >= 'A' && r <= 'Z' {
			b.WriteByte('!')
			b.WriteRune(r + 'a' - 'A')
		} else {
			b.WriteRune(r)
		}
	}
	return b.String()
}

// pkgImport resolves an import path: packages of the repo's own module are
// read from -repo, dependencies from the module cache at the version that
// go.mod requires.
func (x *extractor) pkgImport(path string) *pkg {
	if path == x.module {
		return x.pkgDir(".")
	}
	if strings.HasPrefix(path, x.module+"/") {
		return x.pkgDir(strings.TrimPrefix(path, x.module+"/"))
	}
	best := ""
	for m := range x.requires {
		if (path == m || strings.HasPrefix(path, m+"/")) && len(m) > len(best) {
			best = m
		}
	}
	if best == "" {
		x.failf("import %q is neither in module %s nor required by go.mod", path, x.module)
	}
	sub := strings.TrimPrefix(strings.TrimPrefix(path, best), "/")
	modDir := escapeModPath(best) + "@" + x.requires[best]
	if x.modcache == "" {
		x.failf("import %q needed but no module cache found (use -modcache)", path)
	}
	return x.loadDir("ext:"+path, filepath.Join(x.modcache, filepath.FromSlash(modDir), filepath.FromSlash(sub)),
		"$GOMODCACHE/"+modDir+"/"+sub)
}

// text prints an expression on one line.
func (x *extractor) text(e ast.Node) string {
	var b bytes.Buffer
	if err := printer.Fprint(&b, x.fset, e); err != nil {
		x.failf("printing expression: %v", err)
	}
	return strings.Join(strings.Fields(b.String()), " ")
}

func (x *extractor) where(f *srcFile, n ast.Node) string {
	return fmt.Sprintf("%s:%d", f.rel, x.fset.Position(n.Pos()).Line)
}

// ---------------------------------------------------------------- constants

var httpMethods = map[string]string{
	"MethodGet": "GET", "MethodHead": "HEAD", "MethodPost": "POST", "MethodPut": "PUT",
	"MethodPatch": "PATCH", "MethodDelete": "DELETE", "MethodConnect": "CONNECT",
	"MethodOptions": "OPTIONS", "MethodTrace": "TRACE",
}

var intTypes = map[string]bool{
	"int": true, "int8": true, "int16": true, "int32": true, "int64": true,
	"uint": true, "uint8": true, "uint16": true, "uint32": true, "uint64": true, "uintptr": true,
	"byte": true, "rune": true,
}

func (x *extractor) constOf(p *pkg, name string) (constant.Value, bool) {
	cs, ok := p.consts[name]
	if !ok {
		return nil, false
	}
	switch cs.state {
	case 2:
		return cs.val, true
	case 1, 3:
		return nil, false
	}
	cs.state = 1
	v, ok := x.eval(p, cs.f, cs.expr, cs.iota)
	if !ok {
		cs.state = 3
		return nil, false
	}
	cs.val, cs.state = v, 2
	return v, true
}

// eval evaluates a constant expression; ok=false when the expression is not a
// constant the translator understands.  Besides Go's constant expressions it
// understands conversions, math.Exp2 and math.Pow on integer arguments.
func (x *extractor) eval(p *pkg, f *srcFile, e ast.Expr, iota int64) (v constant.Value, ok bool) {
	defer func() {
		if r := recover(); r != nil {
			if _, isItem := r.(itemError); isItem {
				panic(r)
			}
			v, ok = nil, false // go/constant panics on ill-typed operations
		}
	}()
	switch e := e.(type) {
	case *ast.BasicLit:
		v = constant.MakeFromLiteral(e.Value, e.Kind, 0)
		return v, v.Kind() != constant.Unknown
	case *ast.ParenExpr:
		return x.eval(p, f, e.X, iota)
	case *ast.Ident:
		switch e.Name {
		case "iota":
			if iota >= 0 {
				return constant.MakeInt64(iota), true
			}
			return nil, false
		case "true":
			return constant.MakeBool(true), true
		case "false":
			return constant.MakeBool(false), true
		}
		return x.constOf(p, e.Name)
	case *ast.SelectorExpr:
		id, isId := e.X.(*ast.Ident)
		if !isId {
			return nil, false
		}
		path, isPkg := f.imports[id.Name]
		if !isPkg {
			return nil, false
		}
		if path == "net/http" {
			if m, ok := httpMethods[e.Sel.Name]; ok {
				return constant.MakeString(m), true
			}
			return nil, false
		}
		if !strings.Contains(strings.SplitN(path, "/", 2)[0], ".") {
			return nil, false // other standard-library package
		}
		return x.constOf(x.pkgImport(path), e.Sel.Name)
	case *ast.UnaryExpr:
		a, ok := x.eval(p, f, e.X, iota)
		if !ok {
			return nil, false
		}
		return constant.UnaryOp(e.Op, a, 0), true
	case *ast.BinaryExpr:
		a, ok1 := x.eval(p, f, e.X, iota)
		b, ok2 := x.eval(p, f, e.Y, iota)
		if !ok1 || !ok2 {
			return nil, false
		}
		switch e.Op {
		case token.SHL, token.SHR:
			n, exact := constant.Uint64Val(constant.ToInt(b))
			if !exact || n > 4096 {
				return nil, false
			}
			return constant.Shift(constant.ToInt(a), e.Op, uint(n)), true
		case token.EQL, token.NEQ, token.LSS, token.LEQ, token.GTR, token.GEQ:
			return constant.MakeBool(constant.Compare(a, e.Op, b)), true
		case token.QUO:
			if a.Kind() == constant.Int && b.Kind() == constant.Int {
				return constant.BinaryOp(a, token.QUO_ASSIGN, b), true // integer division
			}
		}
		return constant.BinaryOp(a, e.Op, b), true
	case *ast.CallExpr:
		if id, isId := e.Fun.(*ast.Ident); isId && len(e.Args) == 1 {
			a, ok := x.eval(p, f, e.Args[0], iota)
			if !ok {
				return nil, false
			}
			_, declared := p.types[id.Name]
			switch {
			case intTypes[id.Name]:
				r := constant.ToInt(a)
				return r, r.Kind() == constant.Int
			case id.Name == "float64" || id.Name == "float32":
				r := constant.ToFloat(a)
				return r, r.Kind() == constant.Float
			case declared:
				return a, true
			}
			return nil, false
		}
		if sel, isSel := e.Fun.(*ast.SelectorExpr); isSel {
			id, isId := sel.X.(*ast.Ident)
			if !isId || f.imports[id.Name] != "math" {
				return nil, false
			}
			var args []int64
			for _, ae := range e.Args {
				a, ok := x.eval(p, f, ae, iota)
				if !ok {
					return nil, false
				}
				n, exact := constant.Int64Val(constant.ToInt(a))
				if !exact || n < 0 || n > 4096 {
					return nil, false
				}
				args = append(args, n)
			}
			switch {
			case sel.Sel.Name == "Exp2" && len(args) == 1:
				return constant.Shift(constant.MakeInt64(1), token.SHL, uint(args[0])), true
			case sel.Sel.Name == "Pow" && len(args) == 2:
				r := constant.MakeInt64(1)
				for i := int64(0); i < args[1]; i++ {
					r = constant.BinaryOp(r, token.MUL, constant.MakeInt64(args[0]))
				}
				return r, true
			}
		}
	}
	return nil, false
}

// ---------------------------------------------------------------- lookups

func recvTypeName(fd *ast.FuncDecl) string {
	if fd.Recv == nil || len(fd.Recv.List) == 0 {
		return ""
	}
	t := fd.Recv.List[0].Type
	if st, ok := t.(*ast.StarExpr); ok {
		t = st.X
	}
	if id, ok := t.(*ast.Ident); ok {
		return id.Name
	}
	return "?"
}

func recvVarName(fd *ast.FuncDecl) string {
	if fd.Recv == nil || len(fd.Recv.List) == 0 || len(fd.Recv.List[0].Names) == 0 {
		return ""
	}
	return fd.Recv.List[0].Names[0].Name
}

// findFunc finds the function (recv == "") or method (recv == type name, with
// or without pointer) of that name in the package; it must exist exactly once.
func (x *extractor) findFunc(p *pkg, recv, name string) (*ast.FuncDecl, *srcFile) {
	var found *ast.FuncDecl
	var ff *srcFile
	for _, sf := range p.files {
		for _, d := range sf.ast.Decls {
			fd, ok := d.(*ast.FuncDecl)
			if !ok || fd.Name.Name != name || recvTypeName(fd) != recv {
				continue
			}
			if found != nil {
				x.failf("%s declared twice in package %s", funcLabel(recv, name), p.key)
			}
			found, ff = fd, sf
		}
	}
	if found == nil {
		x.failf("%s not found in package %s", funcLabel(recv, name), p.key)
	}
	if found.Body == nil {
		x.failf("%s in package %s has no body", funcLabel(recv, name), p.key)
	}
	return found, ff
}

func funcLabel(recv, name string) string {
	if recv == "" {
		return "func " + name
	}
	return "method " + recv + "." + name
}

func stripParens(e ast.Expr) ast.Expr {
	for {
		pe, ok := e.(*ast.ParenExpr)
		if !ok {
			return e
		}
		e = pe.X
	}
}

func intLit(e ast.Expr) (string, bool) {
	bl, ok := stripParens(e).(*ast.BasicLit)
	if !ok || bl.Kind != token.INT {
		return "", false
	}
	return bl.Value, true
}
