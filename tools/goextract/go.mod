module verif/goextract

go 1.23
