package main

// Coq output helpers.  Everything emitted is deterministic (source order, no
// timestamps) so identical sources give a byte-identical file.

import (
	"fmt"
	"go/constant"
	"strings"
)

func (x *extractor) coqStr(s string) string {
	for i := 0; i < len(s); i++ {
		if s[i] < 0x20 || s[i] > 0x7e {
			x.failf("string %q contains a non-printable or non-ASCII byte (0x%02x); Coq string literal would be ambiguous", s, s[i])
		}
	}
	return "\"" + strings.ReplaceAll(s, "\"", "\"\"") + "\""
}

func (x *extractor) coqZ(v constant.Value) string {
	i := constant.ToInt(v)
	if i.Kind() != constant.Int {
		x.failf("value %s is not an integer", v.ExactString())
	}
	s := i.ExactString()
	if strings.HasPrefix(s, "-") {
		return "(" + s + ")"
	}
	return s
}

func (x *extractor) strVal(v constant.Value) string {
	if v.Kind() != constant.String {
		x.failf("value %s is not a string", v.ExactString())
	}
	return constant.StringVal(v)
}

func coqIdent(s string) bool {
	if s == "" {
		return false
	}
	for i := 0; i < len(s); i++ {
		c := s[i]
		if !(c == '_' || c >= 'a' && c <= 'z' || c >= 'A' && c <= 'Z' || i > 0 && c >= '0' && c <= '9') {
			return false
		}
	}
	return true
}

func (x *extractor) comment(format string, args ...any) {
	s := fmt.Sprintf(format, args...)
	s = strings.ReplaceAll(strings.ReplaceAll(s, "(*", "( *"), "*)", "* )")
	fmt.Fprintf(&x.out, "(* %s *)\n", s)
}

func (x *extractor) section(title string) {
	fmt.Fprintf(&x.out, "\n(* ---- %s ---- *)\n", title)
}

func (x *extractor) def(name, typ, body string) {
	if !coqIdent(name) {
		x.failf("%q is not usable as a Coq identifier", name)
	}
	if x.defined[name] {
		x.failf("definition %s would be emitted twice", name)
	}
	x.defined[name] = true
	fmt.Fprintf(&x.out, "Definition %s : %s := %s.\n", name, typ, body)
}

func (x *extractor) defList(name, elemTyp string, elems []string) {
	if len(elems) == 0 {
		x.def(name, "list ("+elemTyp+")", "[]")
		return
	}
	x.def(name, "list ("+elemTyp+")", "[\n  "+strings.Join(elems, ";\n  ")+"\n]")
}

func coqList(elems []string) string {
	return "[" + strings.Join(elems, "; ") + "]"
}

func coqBool(b bool) string {
	if b {
		return "true"
	}
	return "false"
}
