#!/usr/bin/env python3
"""Prints the markdown table of DESIGN.md section 11 from seeded/*/meta.json."""
import json, glob, os
rows = []
for m in sorted(glob.glob('/verif/seeded/*/meta.json')):
    j = json.load(open(m))
    det = j.get('detected_by', [])
    caught = [d for d in det if d.get('reported_violation')]
    missed = [d['check'] for d in det if not d.get('reported_violation')]
    how = []
    for d in caught:
        h = d.get('how', '')
        kind = h.split(':', 1)[0] if h else ''
        sig = h.split(':', 1)[1] if ':' in h else ''
        if kind == 'monitor':
            how.append('%s: monitor `%s`' % (d['check'], sig[:70]))
        elif kind == 'correspondence':
            how.append('%s: model/code disagreement (%s)' % (d['check'], sig))
        elif kind == 'broken-obligation':
            how.append('%s: proof obligation / build step' % d['check'])
        else:
            how.append(d['check'])
    rows.append((j['id'], j['breaks_property'], j['needs_to_manifest'], '; '.join(how) or '-', ', '.join(missed) or '-'))
print('| Seeded change | Property | Needs, in order to manifest | Reported by (quick tier) | Ran silent |')
print('|---|---|---|---|---|')
for r in rows:
    print('| `%s` | %s | %s | %s | %s |' % r)
print()
print('%d seeded changes; %d reported by at least one check.' % (len(rows), sum(1 for r in rows if r[3] != '-')))
