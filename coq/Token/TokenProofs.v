(* Proofs about the token model (Token/Token.v): totality of decoding and of the
   accessors, exact round trips through serialisation for V3 and V4, amounts.
   The marshalers are universally quantified: every theorem holds for any pair of
   functions satisfying marshal3_law / marshal4_law (and the totality theorems for
   any functions at all). *)
From Coq Require Import ZArith List Bool Lia Permutation.
From Verif Require Import Hex Base64 Token.
Import ListNotations.
Open Scope Z_scope.

(* ---------- small facts ---------- *)

Lemma str_eqb_eq : forall a b, str_eqb a b = true <-> a = b.
Proof.
  induction a as [|x a IH]; intros [|y b]; cbn [str_eqb]; split; intro H;
    try reflexivity; try discriminate H.
  - apply andb_true_iff in H. destruct H as [H1 H2].
    apply Z.eqb_eq in H1. apply IH in H2. subst. reflexivity.
  - injection H as -> ->. apply andb_true_iff. split; [apply Z.eqb_refl | apply IH; reflexivity].
Qed.

Lemma str_eqb_refl : forall a, str_eqb a a = true.
Proof. intro a. apply str_eqb_eq. reflexivity. Qed.

Lemma str_eqb_neq : forall a b, str_eqb a b = false <-> a <> b.
Proof.
  intros a b. split.
  - intros H E. apply str_eqb_eq in E. rewrite E in H. discriminate H.
  - intro H. destruct (str_eqb a b) eqn:E; [|reflexivity]. apply str_eqb_eq in E. contradiction.
Qed.

Lemma split6 : forall (p x : str), length p = 6%nat ->
  (length (p ++ x) <? 6)%nat = false /\ slice_to (p ++ x) 6 = Ok p /\ slice_from (p ++ x) 6 = Ok x.
Proof.
  intros p x Hp.
  assert (E : (length (p ++ x) <? 6)%nat = false).
  { apply Nat.ltb_ge. rewrite app_length. lia. }
  unfold slice_to, slice_from. rewrite E. repeat split.
  - f_equal. rewrite <- Hp. rewrite firstn_app, Nat.sub_diag, firstn_all. cbn [firstn]. apply app_nil_r.
  - f_equal. rewrite <- Hp. rewrite skipn_app, Nat.sub_diag, skipn_all. reflexivity.
Qed.

(* ---------- decoding never panics ---------- *)

Section Total.
  Variable unmarshal3 : list Z -> option token_v3.
  Variable unmarshal4 : list Z -> option token_v4.

  Lemma decode_v3_total : forall s, decode_v3 unmarshal3 s <> Panic.
  Proof.
    intros s. unfold decode_v3.
    destruct (length s <? 6)%nat eqn:E; [discriminate|].
    (* past the guard both slice expressions are in range *)
    unfold slice_to, slice_from. rewrite E. cbn [bind].
    destruct (negb (str_eqb (firstn 6 s) prefix_v3)); [discriminate|].
    destruct (b64_decode_any (skipn 6 s)) as [bs|]; [|discriminate].
    destruct (unmarshal3 bs) as [t|]; [|discriminate].
    destruct (length (t3_token t) =? 0)%nat; discriminate.
  Qed.

  Lemma decode_v4_total : forall s, decode_v4 unmarshal4 s <> Panic.
  Proof.
    intros s. unfold decode_v4.
    destruct (length s <? 6)%nat eqn:E; [discriminate|].
    unfold slice_to, slice_from. rewrite E. cbn [bind].
    destruct (negb (str_eqb (firstn 6 s) prefix_v4)); [discriminate|].
    destruct (b64_decode_any (skipn 6 s)) as [bs|]; [|discriminate].
    destruct (unmarshal4 bs) as [t|]; discriminate.
  Qed.

  Theorem decode_total : forall s, decode_token unmarshal3 unmarshal4 s <> Panic.
  Proof.
    intro s. unfold decode_token.
    pose proof (decode_v4_total s) as H4. pose proof (decode_v3_total s) as H3.
    destruct (decode_v4 unmarshal4 s); [discriminate| |contradiction].
    destruct (decode_v3 unmarshal3 s); [discriminate|discriminate|contradiction].
  Qed.

  (* a V3 token that DecodeTokenV3 lets through has at least one entry *)
  Lemma decode_v3_nonempty : forall s t, decode_v3 unmarshal3 s = Ok t -> t3_token t <> [].
  Proof.
    intros s t. unfold decode_v3.
    destruct (length s <? 6)%nat; [discriminate|].
    destruct (slice_to s 6) as [p| |]; cbn [bind]; try discriminate.
    destruct (slice_from s 6) as [b| |]; cbn [bind]; try discriminate.
    destruct (negb (str_eqb p prefix_v3)); [discriminate|].
    destruct (b64_decode_any b) as [bs|]; [|discriminate].
    destruct (unmarshal3 bs) as [t'|]; [|discriminate].
    destruct (length (t3_token t') =? 0)%nat eqn:E; [discriminate|].
    intro H. injection H as <-. intro Hn. rewrite Hn in E. discriminate E.
  Qed.

  (* strings shorter than the prefix are errors, not panics *)
  Lemma decode_short : forall s, (length s < 6)%nat -> decode_token unmarshal3 unmarshal4 s = Err.
  Proof.
    intros s H. apply Nat.ltb_lt in H. unfold decode_token, decode_v4, decode_v3. rewrite H. reflexivity.
  Qed.

  (* without the guards the same theorem is false: "abc" panics *)
  Lemma decode_unguarded_panics : forall s, (length s < 6)%nat ->
    decode_token_unguarded unmarshal3 unmarshal4 s = Panic.
  Proof.
    intros s H. apply Nat.ltb_lt in H.
    unfold decode_token_unguarded, decode_v4_unguarded, slice_to. rewrite H. reflexivity.
  Qed.
End Total.

(* ---------- accessors never panic ---------- *)

Lemma mint_v3_total : forall t, mint_v3 t <> Panic.
Proof.
  intro t. unfold mint_v3, index.
  destruct (t3_token t) as [|e r]; cbn [length Nat.eqb nth_error bind]; discriminate.
Qed.

Theorem accessors_total_any : forall t,
  tok_mint t <> Panic /\ tok_proofs t <> Panic /\ tok_amount t <> Panic.
Proof.
  intros [t|t]; cbn [tok_mint tok_proofs tok_amount].
  - repeat split; [apply mint_v3_total | discriminate | discriminate].
  - repeat split; discriminate.
Qed.

Theorem accessors_total : forall unmarshal3 unmarshal4 s t,
  decode_token unmarshal3 unmarshal4 s = Ok t ->
  tok_mint t <> Panic /\ tok_proofs t <> Panic /\ tok_amount t <> Panic.
Proof. intros u3 u4 s t _. apply accessors_total_any. Qed.

Theorem serialize_total : forall marshal3 marshal4 t, tok_serialize marshal3 marshal4 t <> Panic.
Proof. intros m3 m4 [t|t]; discriminate. Qed.

(* each of the two V3 repairs is enough on its own for Mint(): on a decoded token even
   the unguarded t.Token[0] is in range ... *)
Lemma mint_unguarded_after_decode : forall unmarshal3 s t,
  decode_v3 unmarshal3 s = Ok t -> mint_v3_unguarded t <> Panic.
Proof.
  intros u3 s t H. apply decode_v3_nonempty in H.
  unfold mint_v3_unguarded, index. destruct (t3_token t) as [|e r]; [contradiction|].
  cbn [nth_error bind]. discriminate.
Qed.

(* ... while without both it panics on the token with an empty list *)
Lemma mint_unguarded_panics : forall u m, mint_v3_unguarded (mkToken3 [] u m) = Panic.
Proof. reflexivity. Qed.

(* ---------- amounts ---------- *)

Fixpoint total (ps : list proof) : Z :=
  match ps with [] => 0 | p :: r => p_amount p + total r end.

Lemma total_app : forall a b, total (a ++ b) = total a + total b.
Proof. induction a as [|p a IH]; intro b; cbn [app total]; [reflexivity | rewrite IH; lia]. Qed.

Lemma two64_pos : 0 < two64.
Proof. reflexivity. Qed.

Lemma sum64_total : forall ps acc, sum64 ps acc = ((acc mod two64) + total ps) mod two64 \/ ps = [] .
Proof.
  induction ps as [|p r IH]; intro acc; [right; reflexivity | left].
  unfold sum64 in *. cbn [fold_left total].
  destruct (IH (add64 acc (p_amount p))) as [E|E].
  - rewrite E. unfold add64. rewrite Z.mod_mod by (pose proof two64_pos; lia).
    rewrite Zplus_mod_idemp_l. rewrite (Zplus_mod_idemp_l acc). f_equal. lia.
  - subst r. cbn [fold_left total]. unfold add64. rewrite Zplus_mod_idemp_l. f_equal. lia.
Qed.

Lemma sum64_total0 : forall ps, sum64 ps 0 = total ps mod two64.
Proof.
  intro ps. destruct (sum64_total ps 0) as [E|E].
  - rewrite E. rewrite Z.mod_0_l by (pose proof two64_pos; lia). reflexivity.
  - subst. reflexivity.
Qed.

Lemma sum64_app : forall a b acc, sum64 (a ++ b) acc = sum64 b (sum64 a acc).
Proof. intros a b acc. unfold sum64. apply fold_left_app. Qed.

Lemma amount_v3_flat : forall es acc,
  fold_left (fun a e => sum64 (e3_proofs e) a) es acc = sum64 (flat_map e3_proofs es) acc.
Proof.
  induction es as [|e r IH]; intro acc; [reflexivity|].
  cbn [fold_left flat_map]. rewrite sum64_app. apply IH.
Qed.

(* the token's amount is the uint64 (wrapping) sum of the amounts of its proofs *)
Theorem amount_is_sum_v3 : forall t ps,
  proofs_v3 t = Ok ps -> amount_v3 t = Ok (total ps mod two64).
Proof.
  intros t ps H. unfold proofs_v3 in H. injection H as <-.
  unfold amount_v3. rewrite amount_v3_flat, sum64_total0. reflexivity.
Qed.

Theorem amount_is_sum_v4 : forall t ps,
  proofs_v4 t = Ok ps -> amount_v4 t = Ok (total ps mod two64).
Proof.
  intros t ps H. unfold amount_v4. rewrite H. cbn [bind]. rewrite sum64_total0. reflexivity.
Qed.

Theorem amount_is_sum : forall t ps,
  tok_proofs t = Ok ps -> tok_amount t = Ok (total ps mod two64).
Proof. intros [t|t] ps H; [apply amount_is_sum_v3 | apply amount_is_sum_v4]; exact H. Qed.

Lemma total_strip : forall ps, total (map strip_dleq ps) = total ps.
Proof. induction ps as [|p r IH]; [reflexivity|]. cbn [map total strip_dleq p_amount]. rewrite IH. reflexivity. Qed.

(* ---------- V3 round trip ---------- *)

Lemma wf_strip : forall p, wf_proof p -> wf_proof (strip_dleq p).
Proof.
  intros p (Ha & Hi & Hs & Hc & Hw & _). unfold wf_proof, strip_dleq.
  cbn [p_amount p_id p_secret p_C p_witness p_dleq]. repeat split; try assumption; apply Ha.
Qed.

Definition v3_expected (include_dleq : bool) (ps : list proof) : list proof :=
  if include_dleq then ps else map strip_dleq ps.

Lemma new_v3_wf : forall ps mint incl,
  wf_str mint -> Forall wf_proof ps ->
  wf_token_v3 (mkToken3 [mkEntry3 mint (v3_expected incl ps)] unit_sat []).
Proof.
  intros ps mint incl Hm Hps. unfold wf_token_v3. cbn [t3_token t3_unit t3_memo].
  repeat split; try reflexivity.
  constructor; [|constructor]. cbn [e3_mint e3_proofs]. split; [exact Hm|].
  unfold v3_expected. destruct incl; [exact Hps|].
  apply Forall_forall. intros q Hq. apply in_map_iff in Hq. destruct Hq as (p & <- & Hp).
  apply wf_strip. rewrite Forall_forall in Hps. apply Hps. exact Hp.
Qed.

Theorem v3_roundtrip :
  forall marshal3 unmarshal3 unmarshal4, marshal3_law marshal3 unmarshal3 ->
  forall ps mint include_dleq,
  wf_str mint -> Forall wf_proof ps ->
  exists t s,
    new_token_v3 ps mint 0 include_dleq = Ok t /\
    serialize_v3 marshal3 t = Ok s /\
    decode_token unmarshal3 unmarshal4 s = Ok (TV3 t) /\
    tok_mint (TV3 t) = Ok mint /\
    tok_unit (TV3 t) = unit_sat /\
    tok_proofs (TV3 t) = Ok (v3_expected include_dleq ps) /\
    tok_amount (TV3 t) = Ok (total ps mod two64).
Proof.
  intros m3 u3 u4 law ps mint incl Hm Hps.
  set (t := mkToken3 [mkEntry3 mint (v3_expected incl ps)] unit_sat []).
  exists t, (prefix_v3 ++ b64url_encode (m3 t)).
  destruct (law t (new_v3_wf ps mint incl Hm Hps)) as [Hb Hrt].
  assert (Hproofs : tok_proofs (TV3 t) = Ok (v3_expected incl ps)).
  { cbn [tok_proofs]. unfold proofs_v3. subst t. cbn [t3_token flat_map e3_proofs].
    rewrite app_nil_r. reflexivity. }
  split; [reflexivity|]. split; [reflexivity|].
  split; [|split; [reflexivity|]; split; [reflexivity|]; split].
  - destruct (split6 prefix_v3 (b64url_encode (m3 t)) eq_refl) as (E & S1 & S2).
    unfold decode_token, decode_v4, decode_v3. rewrite E, S1, S2. cbn [bind].
    change (str_eqb prefix_v3 prefix_v4) with false.
    change (str_eqb prefix_v3 prefix_v3) with true. cbn [negb].
    rewrite b64_decode_any_url by exact Hb. rewrite Hrt. reflexivity.
  - exact Hproofs.
  - rewrite (amount_is_sum (TV3 t) _ Hproofs). f_equal. f_equal.
    unfold v3_expected. destruct incl; [reflexivity | apply total_strip].
Qed.

(* ---------- V4: constructor ---------- *)

Definition is_hex (s : str) : Prop := hex_decode s <> None.

Definition hex_dleq (d : dleq) : Prop :=
  is_hex (d_e d) /\ is_hex (d_s d) /\ is_hex (d_r d) /\ d_r d <> [].

(* what NewTokenV4 needs of a proof *)
Definition hex_proof (include_dleq : bool) (p : proof) : Prop :=
  is_hex (p_id p) /\ is_hex (p_C p) /\
  (include_dleq = true -> match p_dleq p with Some d => hex_dleq d | None => True end).

(* what the CBOR round trip needs of a proof (id, C and DLEQ travel as bytes) *)
Definition wf_proof_for_v4 (p : proof) : Prop :=
  wf_amount (p_amount p) /\ wf_str (p_secret p) /\ wf_str (p_witness p).

Definition lower_dleq (d : dleq) : dleq :=
  mkDleq (hex_lower (d_e d)) (hex_lower (d_s d)) (hex_lower (d_r d)).

(* the proof as TokenV4.Proofs() gives it back: hex text in lower case, DLEQ kept iff requested *)
Definition norm_v4 (include_dleq : bool) (p : proof) : proof :=
  mkProof (p_amount p) (hex_lower (p_id p)) (p_secret p) (hex_lower (p_C p)) (p_witness p)
          (if include_dleq then option_map lower_dleq (p_dleq p) else None).

Definition has_id (k : str) (p : proof) : bool := str_eqb (p_id p) k.

(* the proofs regrouped: for the keyset ids in the order ks, the proofs of that id in input order *)
Definition regroup (include_dleq : bool) (ps : list proof) (ks : list str) : list proof :=
  flat_map (fun k => map (norm_v4 include_dleq) (filter (has_id k) ps)) ks.

Definition dec (s : str) : list Z := match hex_decode s with Some b => b | None => [] end.

Lemma hex_res_dec : forall s, is_hex s -> hex_res s = Ok (dec s).
Proof. intros s H. unfold hex_res, dec, is_hex in *. destruct (hex_decode s); [reflexivity | contradiction]. Qed.

Lemma dec_enc : forall s, is_hex s -> hex_encode (dec s) = hex_lower s.
Proof.
  intros s H. unfold dec, is_hex in *. destruct (hex_decode s) as [b|] eqn:E; [|contradiction].
  apply hex_encode_decode. exact E.
Qed.

Lemma dec_bytes : forall s, bytes (dec s).
Proof.
  intro s. unfold dec. destruct (hex_decode s) as [b|] eqn:E; [|constructor].
  apply hex_decode_bytes with (s := s). exact E.
Qed.

Definition conv_pure (incl : bool) (p : proof) : str * proof_v4 :=
  (p_id p,
   mkProof4 (p_amount p) (p_secret p) (dec (p_C p)) (p_witness p)
     (if incl then option_map (fun d => mkDleq4 (dec (d_e d)) (dec (d_s d)) (dec (d_r d))) (p_dleq p)
      else None)).

Lemma conv_proof_ok : forall incl p, hex_proof incl p -> conv_proof incl p = Ok (conv_pure incl p).
Proof.
  intros incl p (Hi & Hc & Hd). unfold conv_proof, conv_pure.
  rewrite (hex_res_dec _ Hc). cbn [bind].
  destruct (p_dleq p) as [d|]; [|destruct incl; reflexivity].
  destruct incl; [|reflexivity].
  destruct (Hd eq_refl) as (He & Hs & Hr & Hne).
  unfold conv_dleq. rewrite (hex_res_dec _ He), (hex_res_dec _ Hs), (hex_res_dec _ Hr). cbn [bind].
  assert (Hnil : is_nil (d_r d) = false) by (destruct (d_r d); [contradiction | reflexivity]).
  rewrite Hnil. reflexivity.
Qed.

Lemma map_res_ok : forall X Y (f : X -> res Y) (g : X -> Y) l,
  (forall x, In x l -> f x = Ok (g x)) -> map_res f l = Ok (map g l).
Proof.
  intros X Y f g. induction l as [|x r IH]; intro H; [reflexivity|].
  cbn [map_res map]. rewrite (H x (or_introl eq_refl)). cbn [bind].
  rewrite IH by (intros y Hy; apply H; right; exact Hy). reflexivity.
Qed.

Lemma map_res_not_panic : forall X Y (f : X -> res Y) l,
  (forall x, f x <> Panic) -> map_res f l <> Panic.
Proof.
  intros X Y f l H. induction l as [|x r IH]; [discriminate|].
  cbn [map_res]. pose proof (H x) as Hx. destruct (f x); cbn [bind]; try discriminate; try contradiction.
  destruct (map_res f r); cbn [bind]; try discriminate; contradiction.
Qed.

Lemma filter_map_comm : forall X Y (f : Y -> bool) (g : X -> Y) l,
  filter f (map g l) = map g (filter (fun x => f (g x)) l).
Proof.
  intros X Y f g. induction l as [|x r IH]; [reflexivity|].
  cbn [map filter]. destruct (f (g x)); cbn [map]; rewrite IH; reflexivity.
Qed.

Lemma distinct_in : forall ks k, In k (distinct ks) <-> In k ks.
Proof.
  induction ks as [|x r IH]; intro k; cbn [distinct]; [tauto|].
  cbn [In]. rewrite filter_In, IH. split.
  - intros [H|[H _]]; [left|right]; exact H.
  - intros [H|H]; [left; exact H|].
    destruct (str_eqb k x) eqn:E.
    + left. apply str_eqb_eq in E. symmetry. exact E.
    + right. split; [exact H | reflexivity].
Qed.

Lemma distinct_nodup : forall ks, NoDup (distinct ks).
Proof.
  induction ks as [|x r IH]; cbn [distinct]; [constructor|].
  constructor.
  - rewrite filter_In. intros [_ H]. rewrite str_eqb_refl in H. discriminate H.
  - apply NoDup_filter. exact IH.
Qed.

Lemma group_kv_conv : forall incl ps,
  group_kv (map (conv_pure incl) ps) =
  map (fun k => (k, map (fun p => snd (conv_pure incl p)) (filter (has_id k) ps))) (distinct (map p_id ps)).
Proof.
  intros incl ps. unfold group_kv. rewrite map_map. cbn [conv_pure fst].
  apply map_ext. intro k. f_equal.
  rewrite filter_map_comm, map_map. reflexivity.
Qed.

Lemma back_conv : forall incl p, hex_proof incl p ->
  proof_of_v4 (dec (p_id p)) (snd (conv_pure incl p)) = norm_v4 incl p.
Proof.
  intros incl p (Hi & Hc & Hd). unfold proof_of_v4, conv_pure, norm_v4.
  cbn [snd p4_amount p4_secret p4_C p4_witness p4_dleq].
  rewrite (dec_enc _ Hi), (dec_enc _ Hc). f_equal.
  destruct incl; [|reflexivity].
  destruct (p_dleq p) as [d|]; [|reflexivity].
  destruct (Hd eq_refl) as (He & Hs & Hr & _).
  cbn [option_map]. unfold dleq_of_v4, lower_dleq. cbn [d4_e d4_s d4_r].
  rewrite (dec_enc _ He), (dec_enc _ Hs), (dec_enc _ Hr). reflexivity.
Qed.

Lemma flat_map_ext_in : forall X Y (f g : X -> list Y) l,
  (forall x, In x l -> f x = g x) -> flat_map f l = flat_map g l.
Proof.
  intros X Y f g. induction l as [|x r IH]; intro H; [reflexivity|].
  cbn [flat_map]. rewrite (H x (or_introl eq_refl)).
  rewrite IH by (intros y Hy; apply H; right; exact Hy). reflexivity.
Qed.

Lemma flat_map_map : forall X Y W (f : Y -> list W) (g : X -> Y) l,
  flat_map f (map g l) = flat_map (fun x => f (g x)) l.
Proof.
  intros X Y W f g. induction l as [|x r IH]; [reflexivity|].
  cbn [map flat_map]. rewrite IH. reflexivity.
Qed.

Lemma map_ext_in' : forall X Y (f g : X -> Y) l, (forall x, In x l -> f x = g x) -> map f l = map g l.
Proof. intros X Y f g l H. apply map_ext_in. exact H. Qed.

(* the token NewTokenV4 builds when the map is visited in the order `ord` *)
Definition v4_groups (incl : bool) (ps : list proof) : list (str * list proof_v4) :=
  group_kv (map (conv_pure incl) ps).

Definition v4_entry_pure (g : str * list proof_v4) : token_v4_entry := mkEntry4 (dec (fst g)) (snd g).

Definition v4_built (ord : list (str * list proof_v4) -> list (str * list proof_v4))
    (incl : bool) (ps : list proof) (mint : str) : token_v4 :=
  mkToken4 (map v4_entry_pure (ord (v4_groups incl ps))) [] mint unit_sat.

Section V4.
  Variable ord : list (str * list proof_v4) -> list (str * list proof_v4).
  Hypothesis ord_perm : forall l, Permutation (ord l) l.

  Lemma ord_in : forall l g, In g (ord l) -> In g l.
  Proof. intros l g H. apply Permutation_in with (l := ord l); [apply ord_perm | exact H]. Qed.

  Lemma group_in : forall incl ps g, In g (ord (v4_groups incl ps)) ->
    exists k, In k (map p_id ps) /\
      g = (k, map (fun p => snd (conv_pure incl p)) (filter (has_id k) ps)).
  Proof.
    intros incl ps g H. apply ord_in in H. unfold v4_groups in H. rewrite group_kv_conv in H.
    apply in_map_iff in H. destruct H as (k & <- & Hk). exists k. split; [|reflexivity].
    apply distinct_in. exact Hk.
  Qed.

  Lemma new_v4_ok : forall incl ps mint,
    Forall (hex_proof incl) ps ->
    new_token_v4 ord ps mint 0 incl = Ok (v4_built ord incl ps mint).
  Proof.
    intros incl ps mint Hhex. rewrite Forall_forall in Hhex.
    unfold new_token_v4. cbn [Z.eqb negb].
    rewrite (map_res_ok _ _ (conv_proof incl) (conv_pure incl))
      by (intros p Hp; apply conv_proof_ok; apply Hhex; exact Hp).
    cbn [bind]. fold (v4_groups incl ps).
    rewrite (map_res_ok _ _ mk_entry v4_entry_pure).
    - reflexivity.
    - intros g Hg. destruct (group_in _ _ _ Hg) as (k & Hk & ->).
      apply in_map_iff in Hk. destruct Hk as (p & <- & Hp).
      unfold mk_entry, v4_entry_pure. cbn [fst snd].
      rewrite hex_res_dec by (apply (Hhex p Hp)). reflexivity.
  Qed.

  Lemma v4_built_proofs : forall incl ps mint,
    Forall (hex_proof incl) ps ->
    proofs_v4_list (v4_built ord incl ps mint) =
    regroup incl ps (map fst (ord (v4_groups incl ps))).
  Proof.
    intros incl ps mint Hhex. rewrite Forall_forall in Hhex.
    unfold proofs_v4_list, v4_built, regroup. cbn [t4_proofs].
    rewrite !flat_map_map. apply flat_map_ext_in. intros g Hg.
    destruct (group_in _ _ _ Hg) as (k & Hk & ->).
    unfold v4_entry_pure. cbn [fst snd e4_id e4_proofs].
    rewrite map_map. apply map_ext_in. intros p Hp.
    apply filter_In in Hp. destruct Hp as [Hp Hid]. unfold has_id in Hid.
    apply str_eqb_eq in Hid. rewrite <- Hid. apply back_conv. apply Hhex. exact Hp.
  Qed.

  Lemma v4_keys_perm : forall incl ps,
    Permutation (map fst (ord (v4_groups incl ps))) (distinct (map p_id ps)).
  Proof.
    intros incl ps.
    apply Permutation_trans with (l' := map fst (v4_groups incl ps)).
    - apply Permutation_map. apply ord_perm.
    - unfold v4_groups. rewrite group_kv_conv, map_map. cbn [fst]. rewrite map_id. apply Permutation_refl.
  Qed.

  Lemma v4_built_wf : forall incl ps mint,
    wf_str mint -> Forall wf_proof_for_v4 ps -> wf_token_v4 (v4_built ord incl ps mint).
  Proof.
    intros incl ps mint Hm Hwf. rewrite Forall_forall in Hwf.
    unfold wf_token_v4, v4_built. cbn [t4_proofs t4_memo t4_mint t4_unit].
    repeat split; try reflexivity; try exact Hm.
    apply Forall_forall. intros e He. apply in_map_iff in He. destruct He as (g & <- & Hg).
    destruct (group_in _ _ _ Hg) as (k & Hk & ->).
    unfold v4_entry_pure. cbn [fst snd e4_id e4_proofs]. split; [apply dec_bytes|].
    apply Forall_forall. intros q Hq. apply in_map_iff in Hq. destruct Hq as (p & <- & Hp).
    apply filter_In in Hp. destruct Hp as [Hp _]. destruct (Hwf p Hp) as (Ha & Hs & Hw).
    unfold wf_proof_v4, conv_pure. cbn [snd p4_amount p4_secret p4_C p4_witness p4_dleq].
    split; [exact Ha|]. split; [exact Hs|]. split; [apply dec_bytes|]. split; [exact Hw|].
    destruct incl; [|exact I]. destruct (p_dleq p) as [d|]; [|exact I].
    cbn [option_map]. unfold wf_dleq_v4. cbn [d4_e d4_s d4_r]. repeat split; apply dec_bytes.
  Qed.
End V4.

(* ---------- V4: amounts over the regrouping ---------- *)

Fixpoint cnt (k0 : str) (ks : list str) : Z :=
  match ks with [] => 0 | k :: r => (if str_eqb k0 k then 1 else 0) + cnt k0 r end.

Lemma cnt_notin : forall k0 ks, ~ In k0 ks -> cnt k0 ks = 0.
Proof.
  intros k0. induction ks as [|k r IH]; intro H; [reflexivity|].
  cbn [cnt]. cbn [In] in H.
  destruct (str_eqb k0 k) eqn:E.
  - apply str_eqb_eq in E. exfalso. apply H. left. symmetry. exact E.
  - rewrite IH by tauto. reflexivity.
Qed.

Lemma cnt_nodup : forall k0 ks, NoDup ks -> In k0 ks -> cnt k0 ks = 1.
Proof.
  intros k0 ks Hnd. induction Hnd as [|k r Hk Hnd IH]; intro Hin; [contradiction|].
  cbn [cnt]. destruct (str_eqb k0 k) eqn:E.
  - apply str_eqb_eq in E. subst k. rewrite cnt_notin by exact Hk. reflexivity.
  - apply str_eqb_neq in E. destruct Hin as [Hin|Hin]; [exfalso; apply E; symmetry; exact Hin|].
    rewrite IH by exact Hin. reflexivity.
Qed.

Lemma total_norm : forall incl l, total (map (norm_v4 incl) l) = total l.
Proof. intros incl. induction l as [|p r IH]; [reflexivity|]. cbn [map total norm_v4 p_amount]. rewrite IH. reflexivity. Qed.

Lemma total_regroup_cons : forall incl p r ks,
  total (regroup incl (p :: r) ks) = p_amount p * cnt (p_id p) ks + total (regroup incl r ks).
Proof.
  intros incl p r. unfold regroup. induction ks as [|k ks IH]; [cbn [flat_map total cnt]; lia|].
  cbn [flat_map cnt]. rewrite !total_app, IH, !total_norm. cbn [filter]. unfold has_id at 1.
  destruct (str_eqb (p_id p) k); cbn [total]; lia.
Qed.

Lemma total_regroup : forall incl ps ks,
  NoDup ks -> (forall p, In p ps -> In (p_id p) ks) -> total (regroup incl ps ks) = total ps.
Proof.
  intros incl ps ks Hnd. induction ps as [|p r IH]; intro Hcov.
  - unfold regroup. clear Hnd Hcov. induction ks as [|k ks IH]; [reflexivity|].
    cbn [flat_map filter map app]. exact IH.
  - rewrite total_regroup_cons. rewrite cnt_nodup; [|exact Hnd|apply Hcov; left; reflexivity].
    rewrite IH by (intros q Hq; apply Hcov; right; exact Hq). cbn [total]. lia.
Qed.

(* the regrouped list holds exactly the input proofs (normalised), each once *)
Lemma regroup_perm_aux : forall incl ks ps,
  NoDup ks ->
  Permutation (regroup incl ps ks ++ map (norm_v4 incl) (filter (fun p => negb (existsb (str_eqb (p_id p)) ks)) ps))
              (map (norm_v4 incl) ps).
Proof.
  intros incl. induction ks as [|k ks IH]; intros ps Hnd.
  - unfold regroup. cbn [flat_map app existsb negb].
    replace (filter (fun _ : proof => true) ps) with ps; [apply Permutation_refl|].
    clear. induction ps as [|p r IH]; [reflexivity|]. cbn [filter]. rewrite <- IH. reflexivity.
  - inversion Hnd as [|? ? Hk Hnd']; subst.
    unfold regroup. cbn [flat_map]. fold (regroup incl ps ks).
    eapply Permutation_trans; [|apply (IH ps Hnd')].
    rewrite <- app_assoc.
    eapply Permutation_trans; [apply Permutation_app_comm|]. rewrite <- app_assoc.
    apply Permutation_app_head.
    (* remainder for ks splits into the proofs with id k and the remainder for k :: ks *)
    clear IH. induction ps as [|p r IHr]; [apply Permutation_refl|].
    cbn [filter existsb]. unfold has_id at 1 3.
    destruct (str_eqb (p_id p) k) eqn:E.
    + assert (Hn : existsb (str_eqb (p_id p)) ks = false).
      { apply str_eqb_eq in E. rewrite E. destruct (existsb (str_eqb k) ks) eqn:Ex; [|reflexivity].
        apply existsb_exists in Ex. destruct Ex as (x & Hx & Hxe). apply str_eqb_eq in Hxe.
        subst x. contradiction. }
      rewrite Hn. cbn [orb negb map app].
      eapply Permutation_trans; [apply Permutation_app_comm|]. cbn [app].
      apply perm_skip. eapply Permutation_trans; [apply Permutation_app_comm|]. exact IHr.
    + cbn [orb]. destruct (existsb (str_eqb (p_id p)) ks); cbn [negb map].
      * exact IHr.
      * cbn [app]. apply perm_skip. exact IHr.
Qed.

Lemma regroup_perm : forall incl ps ks,
  NoDup ks -> (forall p, In p ps -> In (p_id p) ks) ->
  Permutation (regroup incl ps ks) (map (norm_v4 incl) ps).
Proof.
  intros incl ps ks Hnd Hcov.
  pose proof (regroup_perm_aux incl ks ps Hnd) as H.
  replace (filter (fun p => negb (existsb (str_eqb (p_id p)) ks)) ps) with (@nil proof) in H.
  - cbn [map] in H. rewrite app_nil_r in H. exact H.
  - symmetry. clear H. induction ps as [|p r IH]; [reflexivity|].
    cbn [filter].
    assert (Hex : existsb (str_eqb (p_id p)) ks = true).
    { apply existsb_exists. exists (p_id p). split; [apply Hcov; left; reflexivity | apply str_eqb_refl]. }
    rewrite Hex. cbn [negb]. apply IH. intros q Hq. apply Hcov. right. exact Hq.
Qed.

(* ---------- V4 round trip ---------- *)

Theorem v4_roundtrip :
  forall marshal4 unmarshal3 unmarshal4, marshal4_law marshal4 unmarshal4 ->
  forall ord, (forall l, Permutation (ord l) l) ->
  forall ps mint include_dleq,
  wf_str mint -> Forall wf_proof_for_v4 ps -> Forall (hex_proof include_dleq) ps ->
  exists t s ks,
    new_token_v4 ord ps mint 0 include_dleq = Ok t /\
    serialize_v4 marshal4 t = Ok s /\
    decode_token unmarshal3 unmarshal4 s = Ok (TV4 t) /\
    tok_mint (TV4 t) = Ok mint /\
    tok_unit (TV4 t) = unit_sat /\
    Permutation ks (distinct (map p_id ps)) /\
    tok_proofs (TV4 t) = Ok (regroup include_dleq ps ks) /\
    Permutation (regroup include_dleq ps ks) (map (norm_v4 include_dleq) ps) /\
    tok_amount (TV4 t) = Ok (total ps mod two64).
Proof.
  intros m4 u3 u4 law ord ord_perm ps mint incl Hm Hwf Hhex.
  set (t := v4_built ord incl ps mint).
  set (ks := map fst (ord (v4_groups incl ps))).
  exists t, (prefix_v4 ++ b64rawurl_encode (m4 t)), ks.
  destruct (law t (v4_built_wf ord ord_perm incl ps mint Hm Hwf)) as [Hb Hrt].
  pose proof (v4_keys_perm ord ord_perm incl ps) as Hperm. fold ks in Hperm.
  assert (Hnd : NoDup ks).
  { apply Permutation_NoDup with (l := distinct (map p_id ps));
      [apply Permutation_sym; exact Hperm | apply distinct_nodup]. }
  assert (Hcov : forall p, In p ps -> In (p_id p) ks).
  { intros p Hp. apply Permutation_in with (l := distinct (map p_id ps));
      [apply Permutation_sym; exact Hperm|]. apply distinct_in. apply in_map. exact Hp. }
  assert (Hproofs : tok_proofs (TV4 t) = Ok (regroup incl ps ks)).
  { cbn [tok_proofs]. unfold proofs_v4. f_equal. apply v4_built_proofs; assumption. }
  split; [|split; [reflexivity|]; split; [|split; [reflexivity|]; split; [reflexivity|];
    split; [|split; [|split]]]].
  - apply new_v4_ok; assumption.
  - destruct (split6 prefix_v4 (b64rawurl_encode (m4 t)) eq_refl) as (E & S1 & S2).
    unfold decode_token, decode_v4. rewrite E, S1, S2. cbn [bind].
    change (str_eqb prefix_v4 prefix_v4) with true. cbn [negb].
    rewrite b64_decode_any_rawurl by exact Hb. rewrite Hrt. reflexivity.
  - exact Hperm.
  - exact Hproofs.
  - apply regroup_perm; assumption.
  - rewrite (amount_is_sum (TV4 t) _ Hproofs). f_equal. f_equal.
    apply total_regroup; assumption.
Qed.

(* the executable instance (first-occurrence order) is one of the allowed orders *)
Corollary v4_roundtrip_exec :
  forall marshal4 unmarshal3 unmarshal4, marshal4_law marshal4 unmarshal4 ->
  forall ps mint include_dleq,
  wf_str mint -> Forall wf_proof_for_v4 ps -> Forall (hex_proof include_dleq) ps ->
  exists t s,
    new_token_v4_exec ps mint 0 include_dleq = Ok t /\
    serialize_v4 marshal4 t = Ok s /\
    decode_token unmarshal3 unmarshal4 s = Ok (TV4 t) /\
    tok_proofs (TV4 t) = Ok (regroup include_dleq ps (distinct (map p_id ps))).
Proof.
  intros m4 u3 u4 law ps mint incl Hm Hwf Hhex.
  set (t := v4_built (fun l => l) incl ps mint).
  exists t, (prefix_v4 ++ b64rawurl_encode (m4 t)).
  assert (Hid : forall l : list (str * list proof_v4), Permutation ((fun l => l) l) l)
    by (intro l; apply Permutation_refl).
  destruct (law t (v4_built_wf _ Hid incl ps mint Hm Hwf)) as [Hb Hrt].
  split; [|split; [reflexivity|]; split].
  - apply (new_v4_ok _ Hid); assumption.
  - destruct (split6 prefix_v4 (b64rawurl_encode (m4 t)) eq_refl) as (E & S1 & S2).
    unfold decode_token, decode_v4. rewrite E, S1, S2. cbn [bind].
    change (str_eqb prefix_v4 prefix_v4) with true. cbn [negb].
    rewrite b64_decode_any_rawurl by exact Hb. rewrite Hrt. reflexivity.
  - cbn [tok_proofs]. unfold proofs_v4. f_equal. subst t.
    rewrite (v4_built_proofs _ Hid) by assumption. f_equal.
    unfold v4_groups. rewrite group_kv_conv, map_map. cbn [fst]. apply map_id.
Qed.

(* ---------- constructors: never a panic; V4 fails exactly on non-hex input ---------- *)

Lemma hex_res_not_panic : forall s, hex_res s <> Panic.
Proof. intro s. unfold hex_res. destruct (hex_decode s); discriminate. Qed.

Lemma conv_proof_not_panic : forall incl p, conv_proof incl p <> Panic.
Proof.
  intros incl p. unfold conv_proof.
  destruct (hex_res (p_C p)) eqn:EC; cbn [bind]; try discriminate; [|exfalso; exact (hex_res_not_panic _ EC)].
  destruct (p_dleq p) as [d|]; [|discriminate].
  destruct incl; [|discriminate].
  unfold conv_dleq.
  destruct (hex_res (d_e d)) eqn:E1; cbn [bind]; try discriminate; [|exfalso; exact (hex_res_not_panic _ E1)].
  destruct (hex_res (d_s d)) eqn:E2; cbn [bind]; try discriminate; [|exfalso; exact (hex_res_not_panic _ E2)].
  destruct (is_nil (d_r d)); cbn [bind]; [discriminate|].
  destruct (hex_res (d_r d)) eqn:E3; cbn [bind]; try discriminate. exfalso; exact (hex_res_not_panic _ E3).
Qed.

Theorem constructors_total : forall ord ps mint unit incl,
  new_token_v3 ps mint unit incl <> Panic /\ new_token_v4 ord ps mint unit incl <> Panic.
Proof.
  intros ord ps mint unit incl. split.
  - unfold new_token_v3. destruct (negb (unit =? 0)); discriminate.
  - unfold new_token_v4. destruct (negb (unit =? 0)); [discriminate|].
    pose proof (map_res_not_panic _ _ (conv_proof incl) ps (conv_proof_not_panic incl)) as H1.
    destruct (map_res (conv_proof incl) ps) as [kvs| |]; cbn [bind]; try discriminate; [|contradiction].
    assert (H2 : forall g, mk_entry g <> Panic).
    { intro g. unfold mk_entry. destruct (hex_res (fst g)) eqn:E; cbn [bind]; try discriminate.
      exfalso; exact (hex_res_not_panic _ E). }
    pose proof (map_res_not_panic _ _ mk_entry (ord (group_kv kvs)) H2) as H3.
    destruct (map_res mk_entry (ord (group_kv kvs))); cbn [bind]; try discriminate. contradiction.
Qed.

Theorem unit_must_be_sat : forall ord ps mint unit incl, unit <> 0 ->
  new_token_v3 ps mint unit incl = Err /\ new_token_v4 ord ps mint unit incl = Err.
Proof.
  intros ord ps mint unit incl H. apply Z.eqb_neq in H.
  unfold new_token_v3, new_token_v4. rewrite H. split; reflexivity.
Qed.

(* ---------- NewTokenV4 succeeds exactly on hex input ---------- *)

Lemma map_res_inv : forall X Y (f : X -> res Y) l ys,
  map_res f l = Ok ys -> Forall2 (fun x y => f x = Ok y) l ys.
Proof.
  intros X Y f. induction l as [|x r IH]; intros ys H.
  - injection H as <-. constructor.
  - cbn [map_res] in H. destruct (f x) as [y| |] eqn:Ex; cbn [bind] in H; try discriminate H.
    destruct (map_res f r) as [ys'| |] eqn:Er; cbn [bind] in H; try discriminate H.
    injection H as <-. constructor; [exact Ex | apply IH; reflexivity].
Qed.

Lemma hex_res_ok : forall s b, hex_res s = Ok b -> is_hex s.
Proof. intros s b H. unfold hex_res, is_hex in *. destruct (hex_decode s); [discriminate | discriminate H]. Qed.

Lemma conv_proof_inv : forall incl p kv, conv_proof incl p = Ok kv ->
  fst kv = p_id p /\ is_hex (p_C p) /\
  (incl = true -> match p_dleq p with Some d => hex_dleq d | None => True end).
Proof.
  intros incl p kv H. unfold conv_proof in H.
  destruct (hex_res (p_C p)) as [c| |] eqn:EC; cbn [bind] in H; try discriminate H.
  apply hex_res_ok in EC.
  destruct (p_dleq p) as [d|].
  - destruct incl.
    + unfold conv_dleq in H.
      destruct (hex_res (d_e d)) as [e| |] eqn:E1; cbn [bind] in H; try discriminate H.
      destruct (hex_res (d_s d)) as [s| |] eqn:E2; cbn [bind] in H; try discriminate H.
      destruct (d_r d) as [|x r] eqn:Er; cbn [is_nil bind] in H; [discriminate H|].
      destruct (hex_res (x :: r)) as [rr| |] eqn:E3; cbn [bind] in H; try discriminate H.
      injection H as <-. cbn [fst]. split; [reflexivity|]. split; [exact EC|].
      intros _. unfold hex_dleq. rewrite Er.
      split; [eapply hex_res_ok; exact E1|]. split; [eapply hex_res_ok; exact E2|].
      split; [eapply hex_res_ok; exact E3 | discriminate].
    + cbn [bind] in H. injection H as <-. cbn [fst].
      split; [reflexivity|]. split; [exact EC|]. intro Hf. discriminate Hf.
  - cbn [bind] in H. injection H as <-. cbn [fst].
    split; [reflexivity|]. split; [exact EC|]. intros _. exact I.
Qed.

Lemma forall2_in_l : forall X Y (R : X -> Y -> Prop) l ys x,
  Forall2 R l ys -> In x l -> exists y, R x y.
Proof.
  intros X Y R l ys x H. induction H as [|a b l' ys' Hab _ IH]; intro Hin; [contradiction|].
  destruct Hin as [<-|Hin]; [exists b; exact Hab | apply IH; exact Hin].
Qed.

Theorem new_v4_ok_iff : forall ord, (forall l, Permutation (ord l) l) ->
  forall ps mint incl,
  (exists t, new_token_v4 ord ps mint 0 incl = Ok t) <-> Forall (hex_proof incl) ps.
Proof.
  intros ord ord_perm ps mint incl. split.
  - intros [t H]. unfold new_token_v4 in H. cbn [Z.eqb negb] in H.
    destruct (map_res (conv_proof incl) ps) as [kvs| |] eqn:E1; cbn [bind] in H; try discriminate H.
    destruct (map_res mk_entry (ord (group_kv kvs))) as [es| |] eqn:E2; cbn [bind] in H; try discriminate H.
    apply map_res_inv in E1. apply map_res_inv in E2.
    assert (Hkeys : forall k, In k (map fst kvs) -> is_hex k).
    { intros k Hk. apply distinct_in in Hk.
      assert (Hg : In (k, map snd (filter (fun kv : str * proof_v4 => str_eqb (fst kv) k) kvs)) (group_kv kvs)).
      { unfold group_kv. apply in_map_iff. exists k. split; [reflexivity | exact Hk]. }
      apply Permutation_in with (l' := ord (group_kv kvs)) in Hg; [|apply Permutation_sym; apply ord_perm].
      destruct (forall2_in_l _ _ _ _ _ _ E2 Hg) as [e He].
      unfold mk_entry in He. cbn [fst] in He.
      destruct (hex_res k) as [b| |] eqn:Ek; cbn [bind] in He; try discriminate He.
      eapply hex_res_ok. exact Ek. }
    clear E2 H. induction E1 as [|p kv ps' kvs' Hp _ IH]; [constructor|].
    apply conv_proof_inv in Hp. destruct Hp as (Hf & Hc & Hd).
    constructor.
    + unfold hex_proof. split; [|split; assumption].
      apply Hkeys. cbn [map]. left. exact Hf.
    + apply IH. intros k Hk. apply Hkeys. cbn [map]. right. exact Hk.
  - intro Hhex. exists (v4_built ord incl ps mint). apply new_v4_ok; assumption.
Qed.
