(* Decoding of harness cases for the token model, and the entry point run_token used
   by the extracted runner (family tag 2 in Run.v).

   streams:
   (1 <s> u n)     decode the string s.  The unmarshalers are not modelled; the harness
                   supplies their behaviour on this input as an oracle: u = 1 iff the REAL
                   unmarshaler of the version whose prefix s carries accepts the bytes that
                   reach it, n = number of entries of the decoded V3 token list.
                   observation ((class) (outcome)):
                     class   = (0) refused before any unmarshaler | (1 v <bytes>) these bytes
                               reach the unmarshaler of version v | (9) panic
                     outcome = (0) error | (1 v a) token of version v, a = 1 iff no accessor
                               panics | (9) panic
   (2 v unit incl <mint> (proofs))   NewTokenV<v> and what the round trip must give back:
                   (0) constructor error | (1 <mint> amount (proofs)) | (9) panic;
                   for V4 the proofs are stably sorted by keyset id (group order is unspecified)
   (3 <s>)         utf8.Valid
   (4 <s>)         hex.DecodeString, and EncodeToString of the result
   (5 pad <s>)     base64 URL decoding, pad = 1 padded / 0 raw
   (6 pad <bs>)    base64 URL encoding *)
From Coq Require Import ZArith List Bool.
From Verif Require Import Sexp Hex Base64 Token.
Import ListNotations.
Open Scope Z_scope.

Definition d_bytes (s : sexp) : option (list Z) :=
  do l <- sListZ s; if bytesb l then Some l else None.

Definition d_dleq (s : sexp) : option (option dleq) :=
  match s with
  | L [] => Some None
  | L [e; s'; r] => do e' <- d_bytes e; do s'' <- d_bytes s'; do r' <- d_bytes r;
                    Some (Some (mkDleq e' s'' r'))
  | _ => None
  end.

Definition d_proof (s : sexp) : option proof :=
  match s with
  | L [A a; i; sec; c; w; d] =>
      do i' <- d_bytes i; do sec' <- d_bytes sec; do c' <- d_bytes c; do w' <- d_bytes w;
      do d' <- d_dleq d;
      if (0 <=? a) && (a <? two64) then Some (mkProof a i' sec' c' w' d') else None
  | _ => None
  end.

Definition e_dleq (d : option dleq) : sexp :=
  match d with
  | None => L []
  | Some d => L [eListZ (d_e d); eListZ (d_s d); eListZ (d_r d)]
  end.

Definition e_proof (p : proof) : sexp :=
  L [A (p_amount p); eListZ (p_id p); eListZ (p_secret p); eListZ (p_C p); eListZ (p_witness p);
     e_dleq (p_dleq p)].

(* bytewise lexicographic order = Go's < on strings *)
Fixpoint str_leb (a b : str) : bool :=
  match a, b with
  | [], _ => true
  | _ :: _, [] => false
  | x :: a', y :: b' => if x <? y then true else if y <? x then false else str_leb a' b'
  end.

Fixpoint insert_p (p : proof) (l : list proof) : list proof :=
  match l with
  | [] => [p]
  | q :: r => if str_leb (p_id p) (p_id q) then p :: l else q :: insert_p p r
  end.

(* stable: an element is placed before the equal ones that followed it in the input *)
Definition sort_by_id (l : list proof) : list proof := fold_right insert_p [] l.

(* ----- stream 1 ----- *)

Definition rec3 (b : list Z) : option token_v3 := Some (mkToken3 [mkEntry3 b []] [] []).
Definition rec4 (b : list Z) : option token_v4 := Some (mkToken4 [] [] b []).

Definition oracle3 (u : bool) (n : nat) (b : list Z) : option token_v3 :=
  if u then Some (mkToken3 (repeat (mkEntry3 b []) n) [] []) else None.
Definition oracle4 (u : bool) (b : list Z) : option token_v4 :=
  if u then Some (mkToken4 [] [] b []) else None.

Definition is_panic {X} (r : res X) : bool := match r with Panic => true | _ => false end.

Definition accessors_ok (t : token) : bool :=
  negb (is_panic (tok_mint t)) && negb (is_panic (tok_proofs t)) && negb (is_panic (tok_amount t)).

Definition e_class (r : res token) : sexp :=
  match r with
  | Ok (TV3 t) => match mint_v3 t with Ok m => L [A 1; A 3; eListZ m] | _ => L [A 9] end
  | Ok (TV4 t) => L [A 1; A 4; eListZ (t4_mint t)]
  | Err => L [A 0]
  | Panic => L [A 9]
  end.

Definition e_outcome (r : res token) : sexp :=
  match r with
  | Ok t => L [A 1; A (match t with TV3 _ => 3 | TV4 _ => 4 end); eBool (accessors_ok t)]
  | Err => L [A 0]
  | Panic => L [A 9]
  end.

Definition run_decode (s : str) (u : bool) (n : nat) : sexp :=
  L [e_class (decode_token rec3 rec4 s);
     e_outcome (decode_token (oracle3 u n) (oracle4 u) s)].

(* ----- stream 2 ----- *)

Definition e_roundtrip (m : res str) (a : res Z) (ps : res (list proof)) (sorted : bool) : sexp :=
  match m, a, ps with
  | Ok m', Ok a', Ok ps' =>
      L [A 1; eListZ m'; A a'; L (map e_proof (if sorted then sort_by_id ps' else ps'))]
  | _, _, _ => L [A 9]
  end.

Definition run_roundtrip (v unit : Z) (incl : bool) (mint : str) (ps : list proof) : sexp :=
  if v =? 3 then
    match new_token_v3 ps mint unit incl with
    | Ok t => e_roundtrip (mint_v3 t) (amount_v3 t) (proofs_v3 t) false
    | Err => L [A 0]
    | Panic => L [A 9]
    end
  else
    match new_token_v4_exec ps mint unit incl with
    | Ok t => e_roundtrip (mint_v4 t) (amount_v4 t) (proofs_v4 t) true
    | Err => L [A 0]
    | Panic => L [A 9]
    end.

Definition run_token (c : sexp) : sexp :=
  match c with
  | L [A 1; s; A u; A n] =>
      match d_bytes s with
      | Some s' => if (0 <=? n) && (n <? 100000) then run_decode s' (negb (u =? 0)) (Z.to_nat n) else bad_case
      | None => bad_case
      end
  | L [A 2; A v; A unit; A incl; mint; L ps] =>
      match d_bytes mint, opt_map d_proof ps with
      | Some m, Some ps' =>
          if (v =? 3) || (v =? 4) then run_roundtrip v unit (negb (incl =? 0)) m ps' else bad_case
      | _, _ => bad_case
      end
  | L [A 3; s] =>
      match d_bytes s with Some s' => L [eBool (utf8_valid s')] | None => bad_case end
  | L [A 4; s] =>
      match d_bytes s with
      | Some s' => match hex_decode s' with
                   | Some b => L [A 1; eListZ b; eListZ (hex_encode b)]
                   | None => L [A 0]
                   end
      | None => bad_case
      end
  | L [A 5; A pad; s] =>
      match d_bytes s with
      | Some s' => match b64_dec (negb (pad =? 0)) s' with
                   | Some b => L [A 1; eListZ b]
                   | None => L [A 0]
                   end
      | None => bad_case
      end
  | L [A 6; A pad; s] =>
      match d_bytes s with
      | Some s' => L [eListZ (b64_enc (negb (pad =? 0)) s')]
      | None => bad_case
      end
  | _ => bad_case
  end.
