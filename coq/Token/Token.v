(* Cashu tokens (NUT-00 V3 "cashuA", V4 "cashuB"): executable model that follows
   /repo/cashu/cashu.go: NewTokenV3, DecodeTokenV3, TokenV3.{Proofs,Mint,Amount,Serialize},
   NewTokenV4, DecodeTokenV4, TokenV4.{Proofs,Mint,Amount,Serialize}, DecodeToken.

   Strings are byte lists (list Z, 0..255).  Every Go slice / index expression that is
   reachable from a decoder or an accessor is an explicit operation with outcome Panic
   when out of range (slice_to, slice_from, index); the guards of the Go code are modelled
   as they stand in the source.  The two marshalers (encoding/json for V3,
   fxamacker/cbor for V4) are not repository code: they are parameters of the model. *)
From Coq Require Import ZArith List Bool Lia.
From Verif Require Import Hex Base64.
Import ListNotations.
Open Scope Z_scope.

Definition str := list Z.

(* ---------- outcomes ---------- *)

Inductive res (X : Type) : Type :=
| Ok (x : X)
| Err          (* the Go function returned a non-nil error *)
| Panic.       (* the Go function panicked (slice bounds / index out of range) *)
Arguments Ok {X} x.
Arguments Err {X}.
Arguments Panic {X}.

Definition bind {X Y} (r : res X) (k : X -> res Y) : res Y :=
  match r with Ok x => k x | Err => Err | Panic => Panic end.

Fixpoint map_res {X Y} (f : X -> res Y) (l : list X) : res (list Y) :=
  match l with
  | [] => Ok []
  | x :: r => bind (f x) (fun y => bind (map_res f r) (fun ys => Ok (y :: ys)))
  end.

(* s[:n], s[n:], s[i] *)
Definition slice_to {X} (s : list X) (n : nat) : res (list X) :=
  if (length s <? n)%nat then Panic else Ok (firstn n s).
Definition slice_from {X} (s : list X) (n : nat) : res (list X) :=
  if (length s <? n)%nat then Panic else Ok (skipn n s).
Definition index {X} (s : list X) (i : nat) : res X :=
  match nth_error s i with Some x => Ok x | None => Panic end.

Fixpoint str_eqb (a b : str) : bool :=
  match a, b with
  | [], [] => true
  | x :: a', y :: b' => (x =? y) && str_eqb a' b'
  | _, _ => false
  end.

(* ---------- data ---------- *)

Record dleq := mkDleq { d_e : str; d_s : str; d_r : str }.

(* cashu.Proof *)
Record proof := mkProof {
  p_amount : Z;              (* uint64 *)
  p_id : str;
  p_secret : str;
  p_C : str;
  p_witness : str;
  p_dleq : option dleq       (* *DLEQProof, nil = None *)
}.

(* cashu.TokenV3 *)
Record token_v3_entry := mkEntry3 { e3_mint : str; e3_proofs : list proof }.
Record token_v3 := mkToken3 { t3_token : list token_v3_entry; t3_unit : str; t3_memo : str }.

(* cashu.TokenV4: ids, C and DLEQ parts are raw bytes *)
Record dleq_v4 := mkDleq4 { d4_e : list Z; d4_s : list Z; d4_r : list Z }.
Record proof_v4 := mkProof4 {
  p4_amount : Z; p4_secret : str; p4_C : list Z; p4_witness : str; p4_dleq : option dleq_v4
}.
Record token_v4_entry := mkEntry4 { e4_id : list Z; e4_proofs : list proof_v4 }.
Record token_v4 := mkToken4 {
  t4_proofs : list token_v4_entry; t4_memo : str; t4_mint : str; t4_unit : str
}.

(* the Token interface value returned by DecodeToken *)
Inductive token := TV3 (t : token_v3) | TV4 (t : token_v4).

Definition prefix_v3 : str := [99; 97; 115; 104; 117; 65].   (* "cashuA" *)
Definition prefix_v4 : str := [99; 97; 115; 104; 117; 66].   (* "cashuB" *)
Definition unit_sat : str := [115; 97; 116].                  (* Sat.String() = "sat" *)
Definition unit_unknown : str := [117; 110; 107; 110; 111; 119; 110].

(* type Unit int; Sat = 0 *)
Definition unit_string (u : Z) : str := if u =? 0 then unit_sat else unit_unknown.

Definition two64 : Z := 18446744073709551616.
Definition add64 (a b : Z) : Z := (a + b) mod two64.          (* uint64 += *)

(* ---------- NewTokenV3 ---------- *)

Definition strip_dleq (p : proof) : proof :=
  mkProof (p_amount p) (p_id p) (p_secret p) (p_C p) (p_witness p) None.

Definition new_token_v3 (ps : list proof) (mint : str) (unit : Z) (include_dleq : bool) : res token_v3 :=
  let ps' := if include_dleq then ps else map strip_dleq ps in
  if negb (unit =? 0) then Err
  else Ok (mkToken3 [mkEntry3 mint ps'] (unit_string unit) []).

(* ---------- TokenV3 accessors ---------- *)

Definition proofs_v3 (t : token_v3) : res (list proof) :=
  Ok (flat_map e3_proofs (t3_token t)).

Definition mint_v3 (t : token_v3) : res str :=
  if (length (t3_token t) =? 0)%nat then Ok []
  else bind (index (t3_token t) 0) (fun e => Ok (e3_mint e)).

Definition sum64 (ps : list proof) (acc : Z) : Z :=
  fold_left (fun a p => add64 a (p_amount p)) ps acc.

Definition amount_v3 (t : token_v3) : res Z :=
  Ok (fold_left (fun a e => sum64 (e3_proofs e) a) (t3_token t) 0).

(* ---------- NewTokenV4 ---------- *)

Definition hex_res (s : str) : res (list Z) :=
  match hex_decode s with Some b => Ok b | None => Err end.

Definition conv_dleq (d : dleq) : res dleq_v4 :=
  bind (hex_res (d_e d)) (fun e =>
  bind (hex_res (d_s d)) (fun s =>
  if is_nil (d_r d) then Err          (* "r in DLEQ proof cannot be empty" *)
  else bind (hex_res (d_r d)) (fun r => Ok (mkDleq4 e s r)))).

(* one iteration of the first loop: the map key and the ProofV4 appended under it *)
Definition conv_proof (include_dleq : bool) (p : proof) : res (str * proof_v4) :=
  bind (hex_res (p_C p)) (fun c =>
  bind (match p_dleq p with
        | Some d => if include_dleq then bind (conv_dleq d) (fun d4 => Ok (Some d4)) else Ok None
        | None => Ok None
        end) (fun d4 =>
  Ok (p_id p, mkProof4 (p_amount p) (p_secret p) c (p_witness p) d4))).

(* keys in order of first occurrence *)
Fixpoint distinct (ks : list str) : list str :=
  match ks with
  | [] => []
  | k :: r => k :: filter (fun k' => negb (str_eqb k' k)) (distinct r)
  end.

(* content of proofsMap after the first loop: one entry per distinct key (the key is the
   id STRING, so "AB" and "ab" are different keys), holding the proofs appended under
   it in input order *)
Definition group_kv {V} (kvs : list (str * V)) : list (str * list V) :=
  map (fun k => (k, map snd (filter (fun kv => str_eqb (fst kv) k) kvs))) (distinct (map fst kvs)).

Definition mk_entry (g : str * list proof_v4) : res token_v4_entry :=
  bind (hex_res (fst g)) (fun i => Ok (mkEntry4 i (snd g))).

(* `ord` is the order in which Go's `range proofsMap` visits the map: unspecified, any
   permutation.  The executable instance uses first-occurrence order. *)
Definition new_token_v4 (ord : list (str * list proof_v4) -> list (str * list proof_v4))
    (ps : list proof) (mint : str) (unit : Z) (include_dleq : bool) : res token_v4 :=
  if negb (unit =? 0) then Err
  else
    bind (map_res (conv_proof include_dleq) ps) (fun kvs =>
    bind (map_res mk_entry (ord (group_kv kvs))) (fun es =>
    Ok (mkToken4 es [] mint (unit_string unit)))).

Definition new_token_v4_exec := new_token_v4 (fun l => l).

(* ---------- TokenV4 accessors ---------- *)

Definition dleq_of_v4 (d : dleq_v4) : dleq :=
  mkDleq (hex_encode (d4_e d)) (hex_encode (d4_s d)) (hex_encode (d4_r d)).

Definition proof_of_v4 (id : list Z) (p : proof_v4) : proof :=
  mkProof (p4_amount p) (hex_encode id) (p4_secret p) (hex_encode (p4_C p)) (p4_witness p)
          (option_map dleq_of_v4 (p4_dleq p)).

Definition proofs_v4_list (t : token_v4) : list proof :=
  flat_map (fun e => map (proof_of_v4 (e4_id e)) (e4_proofs e)) (t4_proofs t).

Definition proofs_v4 (t : token_v4) : res (list proof) := Ok (proofs_v4_list t).
Definition mint_v4 (t : token_v4) : res str := Ok (t4_mint t).
Definition amount_v4 (t : token_v4) : res Z :=
  bind (proofs_v4 t) (fun ps => Ok (sum64 ps 0)).

(* ---------- Token interface ---------- *)

Definition tok_proofs (t : token) : res (list proof) :=
  match t with TV3 t => proofs_v3 t | TV4 t => proofs_v4 t end.
Definition tok_mint (t : token) : res str :=
  match t with TV3 t => mint_v3 t | TV4 t => mint_v4 t end.
Definition tok_amount (t : token) : res Z :=
  match t with TV3 t => amount_v3 t | TV4 t => amount_v4 t end.
Definition tok_unit (t : token) : str :=
  match t with TV3 t => t3_unit t | TV4 t => t4_unit t end.

(* ---------- Serialize / Decode, over arbitrary marshalers ---------- *)

Section Marshal.
  Variable marshal3 : token_v3 -> list Z.               (* json.Marshal *)
  Variable unmarshal3 : list Z -> option token_v3.      (* json.Unmarshal into TokenV3 *)
  Variable marshal4 : token_v4 -> list Z.               (* cbor.Marshal *)
  Variable unmarshal4 : list Z -> option token_v4.      (* cbor.Unmarshal into TokenV4 *)

  Definition serialize_v3 (t : token_v3) : res str :=
    Ok (prefix_v3 ++ b64url_encode (marshal3 t)).

  Definition serialize_v4 (t : token_v4) : res str :=
    Ok (prefix_v4 ++ b64rawurl_encode (marshal4 t)).

  Definition tok_serialize (t : token) : res str :=
    match t with TV3 t => serialize_v3 t | TV4 t => serialize_v4 t end.

  Definition decode_v3 (s : str) : res token_v3 :=
    if (length s <? 6)%nat then Err                      (* if len(tokenstr) < 6 *)
    else
      bind (slice_to s 6) (fun prefix =>                 (* tokenstr[:6] *)
      bind (slice_from s 6) (fun b64 =>                  (* tokenstr[6:] *)
      if negb (str_eqb prefix prefix_v3) then Err
      else match b64_decode_any b64 with
           | None => Err
           | Some bytes =>
               match unmarshal3 bytes with
               | None => Err
               | Some t => if (length (t3_token t) =? 0)%nat then Err else Ok t
               end
           end)).

  Definition decode_v4 (s : str) : res token_v4 :=
    if (length s <? 6)%nat then Err
    else
      bind (slice_to s 6) (fun prefix =>
      bind (slice_from s 6) (fun b64 =>
      if negb (str_eqb prefix prefix_v4) then Err
      else match b64_decode_any b64 with
           | None => Err
           | Some bytes =>
               match unmarshal4 bytes with
               | None => Err
               | Some t => Ok t
               end
           end)).

  (* DecodeToken: V4 first, V3 when that returns an error; a panic propagates *)
  Definition decode_token (s : str) : res token :=
    match decode_v4 s with
    | Ok t => Ok (TV4 t)
    | Panic => Panic
    | Err => match decode_v3 s with
             | Ok t => Ok (TV3 t)
             | Err => Err
             | Panic => Panic
             end
    end.

  (* ----- the code before the repairs (no length guard, no empty-list check, unguarded
     Mint()): kept to show that the totality theorems depend on the guards ----- *)

  Definition decode_v3_unguarded (s : str) : res token_v3 :=
    bind (slice_to s 6) (fun prefix =>
    bind (slice_from s 6) (fun b64 =>
    if negb (str_eqb prefix prefix_v3) then Err
    else match b64_decode_any b64 with
         | None => Err
         | Some bytes => match unmarshal3 bytes with None => Err | Some t => Ok t end
         end)).

  Definition decode_v4_unguarded (s : str) : res token_v4 :=
    bind (slice_to s 6) (fun prefix =>
    bind (slice_from s 6) (fun b64 =>
    if negb (str_eqb prefix prefix_v4) then Err
    else match b64_decode_any b64 with
         | None => Err
         | Some bytes => match unmarshal4 bytes with None => Err | Some t => Ok t end
         end)).

  Definition decode_token_unguarded (s : str) : res token :=
    match decode_v4_unguarded s with
    | Ok t => Ok (TV4 t)
    | Panic => Panic
    | Err => match decode_v3_unguarded s with
             | Ok t => Ok (TV3 t)
             | Err => Err
             | Panic => Panic
             end
    end.
End Marshal.

Definition mint_v3_unguarded (t : token_v3) : res str :=
  bind (index (t3_token t) 0) (fun e => Ok (e3_mint e)).

(* ---------- well-formed text: utf8.Valid ---------- *)

Definition cont (b : Z) : bool := (128 <=? b) && (b <=? 191).
Definition inr (lo hi b : Z) : bool := (lo <=? b) && (b <=? hi).

Fixpoint utf8_valid (s : list Z) : bool :=
  match s with
  | [] => true
  | b0 :: r =>
      if inr 0 127 b0 then utf8_valid r
      else if inr 194 223 b0 then
        match r with b1 :: r' => cont b1 && utf8_valid r' | _ => false end
      else if inr 224 239 b0 then
        match r with
        | b1 :: b2 :: r' =>
            (if b0 =? 224 then inr 160 191 b1 else if b0 =? 237 then inr 128 159 b1 else cont b1)
            && cont b2 && utf8_valid r'
        | _ => false
        end
      else if inr 240 244 b0 then
        match r with
        | b1 :: b2 :: b3 :: r' =>
            (if b0 =? 240 then inr 144 191 b1 else if b0 =? 244 then inr 128 143 b1 else cont b1)
            && cont b2 && cont b3 && utf8_valid r'
        | _ => false
        end
      else false
  end.

Definition wf_str (s : str) : Prop := utf8_valid s = true.
Definition wf_amount (a : Z) : Prop := 0 <= a < two64.

Definition wf_dleq (d : dleq) : Prop := wf_str (d_e d) /\ wf_str (d_s d) /\ wf_str (d_r d).

(* a cashu.Proof that encoding/json writes and reads back unchanged *)
Definition wf_proof (p : proof) : Prop :=
  wf_amount (p_amount p) /\ wf_str (p_id p) /\ wf_str (p_secret p) /\ wf_str (p_C p) /\
  wf_str (p_witness p) /\ match p_dleq p with Some d => wf_dleq d | None => True end.

Definition wf_token_v3 (t : token_v3) : Prop :=
  Forall (fun e => wf_str (e3_mint e) /\ Forall wf_proof (e3_proofs e)) (t3_token t) /\
  wf_str (t3_unit t) /\ wf_str (t3_memo t).

Definition wf_dleq_v4 (d : dleq_v4) : Prop := bytes (d4_e d) /\ bytes (d4_s d) /\ bytes (d4_r d).

Definition wf_proof_v4 (p : proof_v4) : Prop :=
  wf_amount (p4_amount p) /\ wf_str (p4_secret p) /\ bytes (p4_C p) /\ wf_str (p4_witness p) /\
  match p4_dleq p with Some d => wf_dleq_v4 d | None => True end.

Definition wf_token_v4 (t : token_v4) : Prop :=
  Forall (fun e => bytes (e4_id e) /\ Forall wf_proof_v4 (e4_proofs e)) (t4_proofs t) /\
  wf_str (t4_memo t) /\ wf_str (t4_mint t) /\ wf_str (t4_unit t).

(* the requirements on the two marshalers *)
Definition marshal3_law (marshal3 : token_v3 -> list Z) (unmarshal3 : list Z -> option token_v3) : Prop :=
  forall t, wf_token_v3 t -> bytes (marshal3 t) /\ unmarshal3 (marshal3 t) = Some t.
Definition marshal4_law (marshal4 : token_v4 -> list Z) (unmarshal4 : list Z -> option token_v4) : Prop :=
  forall t, wf_token_v4 t -> bytes (marshal4 t) /\ unmarshal4 (marshal4 t) = Some t.
