(* Base64 with the URL alphabet as Go's encoding/base64 implements it:
     base64.URLEncoding     padded with '=', non-strict
     base64.RawURLEncoding  no padding, non-strict
   Encoding.DecodeString ignores every '\r' and '\n', rejects any other character
   outside the alphabet, and (padded variant) demands exactly the right padding at
   the very end; the raw variant rejects '='.  Neither variant checks the unused
   low bits of the last sextet (strict mode is off).
   Strings and byte strings are lists of integers 0..255. *)
From Coq Require Import ZArith List Bool Lia.
From Verif Require Import Hex.
Import ListNotations.
Open Scope Z_scope.

(* ---------- alphabet "A-Za-z0-9-_" ---------- *)

Definition b64_char (v : Z) : Z :=
  if v <? 26 then 65 + v
  else if v <? 52 then 71 + v
  else if v <? 62 then v - 4
  else if v =? 62 then 45
  else 95.

Definition b64_val (c : Z) : option Z :=
  if (65 <=? c) && (c <=? 90) then Some (c - 65)
  else if (97 <=? c) && (c <=? 122) then Some (c - 71)
  else if (48 <=? c) && (c <=? 57) then Some (c + 4)
  else if c =? 45 then Some 62
  else if c =? 95 then Some 63
  else None.

Definition pad_char : Z := 61.

Definition is_newline (c : Z) : bool := (c =? 10) || (c =? 13).

Lemma b64_val_char : forall v, 0 <= v < 64 -> b64_val (b64_char v) = Some v.
Proof.
  intros v Hv. unfold b64_val, b64_char. hexcases; try lia; f_equal; lia.
Qed.

Lemma b64_val_range : forall c v, b64_val c = Some v -> 0 <= v < 64.
Proof. intros c v H. unfold b64_val in H. hexcases; lia. Qed.

Lemma b64_char_val : forall c v, b64_val c = Some v -> b64_char v = c.
Proof. intros c v H. unfold b64_val in H. unfold b64_char. hexcases; lia. Qed.

Lemma b64_char_range : forall v, 0 <= v < 64 -> 45 <= b64_char v <= 122.
Proof. intros v Hv. unfold b64_char. hexcases; lia. Qed.

Lemma b64_char_not_newline : forall v, 0 <= v < 64 -> is_newline (b64_char v) = false.
Proof.
  intros v Hv. pose proof (b64_char_range v Hv) as R. unfold is_newline.
  apply orb_false_iff. split; apply Z.eqb_neq; lia.
Qed.

Lemma b64_val_pad : b64_val pad_char = None.
Proof. reflexivity. Qed.

(* ---------- encoding ---------- *)

Fixpoint b64_enc (pad : bool) (bs : list Z) : list Z :=
  match bs with
  | [] => []
  | [a] =>
      b64_char (a / 4) :: b64_char ((a mod 4) * 16)
      :: (if pad then [pad_char; pad_char] else [])
  | [a; b] =>
      b64_char (a / 4) :: b64_char ((a mod 4) * 16 + b / 16) :: b64_char ((b mod 16) * 4)
      :: (if pad then [pad_char] else [])
  | a :: b :: c :: r =>
      b64_char (a / 4) :: b64_char ((a mod 4) * 16 + b / 16)
      :: b64_char ((b mod 16) * 4 + c / 64) :: b64_char (c mod 64) :: b64_enc pad r
  end.

(* ---------- decoding ---------- *)

(* the three bytes of a quantum (decodeQuantum: val = v1<<18|v2<<12|v3<<6|v4) *)
Definition q_b0 (v1 v2 : Z) : Z := v1 * 4 + v2 / 16.
Definition q_b1 (v2 v3 : Z) : Z := (v2 mod 16) * 16 + v3 / 4.
Definition q_b2 (v3 v4 : Z) : Z := (v3 mod 4) * 64 + v4.

Definition is_one_pad (s : list Z) : bool :=
  match s with [c] => c =? pad_char | _ => false end.

Definition is_nil {X} (s : list X) : bool :=
  match s with [] => true | _ => false end.

(* decodeQuantum iterated, on a string without '\r' '\n' *)
Fixpoint b64_dec_core (pad : bool) (s : list Z) : option (list Z) :=
  match s with
  | [] => Some []
  | c1 :: s1 =>
    match b64_val c1 with
    | None => None                                   (* bad character, or padding at position 0 *)
    | Some v1 =>
      match s1 with
      | [] => None                                   (* one dangling character *)
      | c2 :: s2 =>
        match b64_val c2 with
        | None => None                               (* bad character, or padding at position 1 *)
        | Some v2 =>
          match s2 with
          | [] => if pad then None else Some [q_b0 v1 v2]
          | c3 :: s3 =>
            match b64_val c3 with
            | None =>
                if pad && (c3 =? pad_char) && is_one_pad s3 then Some [q_b0 v1 v2] else None
            | Some v3 =>
              match s3 with
              | [] => if pad then None else Some [q_b0 v1 v2; q_b1 v2 v3]
              | c4 :: s4 =>
                match b64_val c4 with
                | None =>
                    if pad && (c4 =? pad_char) && is_nil s4
                    then Some [q_b0 v1 v2; q_b1 v2 v3] else None
                | Some v4 =>
                    match b64_dec_core pad s4 with
                    | Some r => Some (q_b0 v1 v2 :: q_b1 v2 v3 :: q_b2 v3 v4 :: r)
                    | None => None
                    end
                end
              end
            end
          end
        end
      end
    end
  end.

Definition strip_newlines (s : list Z) : list Z := filter (fun c => negb (is_newline c)) s.

Definition b64_dec (pad : bool) (s : list Z) : option (list Z) :=
  b64_dec_core pad (strip_newlines s).

Definition b64url_encode : list Z -> list Z := b64_enc true.
Definition b64rawurl_encode : list Z -> list Z := b64_enc false.
Definition b64url_decode : list Z -> option (list Z) := b64_dec true.
Definition b64rawurl_decode : list Z -> option (list Z) := b64_dec false.

(* what DecodeTokenV3/V4 do: padded first, raw when that fails *)
Definition b64_decode_any (s : list Z) : option (list Z) :=
  match b64url_decode s with
  | Some b => Some b
  | None => b64rawurl_decode s
  end.

(* ---------- group arithmetic ---------- *)

Lemma sextet1 : forall a, byte a -> 0 <= a / 4 < 64.
Proof. intros a H. unfold byte in H. Z.div_mod_to_equations. lia. Qed.
Lemma sextet2 : forall a b, byte a -> byte b -> 0 <= (a mod 4) * 16 + b / 16 < 64.
Proof. intros a b Ha Hb. unfold byte in *. Z.div_mod_to_equations. lia. Qed.
Lemma sextet3 : forall b c, byte b -> byte c -> 0 <= (b mod 16) * 4 + c / 64 < 64.
Proof. intros b c Hb Hc. unfold byte in *. Z.div_mod_to_equations. lia. Qed.
Lemma sextet4 : forall c, byte c -> 0 <= c mod 64 < 64.
Proof. intros c H. unfold byte in H. Z.div_mod_to_equations. lia. Qed.
Lemma sextet2_last : forall a, byte a -> 0 <= (a mod 4) * 16 < 64.
Proof. intros a H. unfold byte in H. Z.div_mod_to_equations. lia. Qed.
Lemma sextet3_last : forall b, byte b -> 0 <= (b mod 16) * 4 < 64.
Proof. intros b H. unfold byte in H. Z.div_mod_to_equations. lia. Qed.

Lemma group_b0 : forall a b, byte a -> byte b -> q_b0 (a / 4) ((a mod 4) * 16 + b / 16) = a.
Proof. intros a b Ha Hb. unfold byte, q_b0 in *. Z.div_mod_to_equations. lia. Qed.
Lemma group_b0_last : forall a, byte a -> q_b0 (a / 4) ((a mod 4) * 16) = a.
Proof. intros a Ha. unfold byte, q_b0 in *. Z.div_mod_to_equations. lia. Qed.
Lemma group_b1 : forall a b c, byte a -> byte b -> byte c ->
  q_b1 ((a mod 4) * 16 + b / 16) ((b mod 16) * 4 + c / 64) = b.
Proof. intros a b c Ha Hb Hc. unfold byte, q_b1 in *. Z.div_mod_to_equations. lia. Qed.
Lemma group_b1_last : forall a b, byte a -> byte b ->
  q_b1 ((a mod 4) * 16 + b / 16) ((b mod 16) * 4) = b.
Proof. intros a b Ha Hb. unfold byte, q_b1 in *. Z.div_mod_to_equations. lia. Qed.
Lemma group_b2 : forall b c, byte b -> byte c ->
  q_b2 ((b mod 16) * 4 + c / 64) (c mod 64) = c.
Proof. intros b c Hb Hc. unfold byte, q_b2 in *. Z.div_mod_to_equations. lia. Qed.

(* the 3-byte <-> 4-sextet round trip at the level of one full group *)
Lemma b64_group_roundtrip : forall a b c, byte a -> byte b -> byte c ->
  let v1 := a / 4 in
  let v2 := (a mod 4) * 16 + b / 16 in
  let v3 := (b mod 16) * 4 + c / 64 in
  let v4 := c mod 64 in
  (0 <= v1 < 64 /\ 0 <= v2 < 64 /\ 0 <= v3 < 64 /\ 0 <= v4 < 64) /\
  q_b0 v1 v2 = a /\ q_b1 v2 v3 = b /\ q_b2 v3 v4 = c.
Proof.
  intros a b c Ha Hb Hc. cbv zeta.
  repeat split; try apply sextet1; try apply sextet2; try apply sextet3; try apply sextet4;
    try (apply group_b0; assumption); try (apply group_b1 with (a := a); assumption);
    try (apply group_b2; assumption); assumption.
Qed.

(* ---------- unfolding lemmas for the decoder ---------- *)

Lemma dec_core_full : forall pad v1 v2 v3 v4 s,
  0 <= v1 < 64 -> 0 <= v2 < 64 -> 0 <= v3 < 64 -> 0 <= v4 < 64 ->
  b64_dec_core pad (b64_char v1 :: b64_char v2 :: b64_char v3 :: b64_char v4 :: s) =
  match b64_dec_core pad s with
  | Some r => Some (q_b0 v1 v2 :: q_b1 v2 v3 :: q_b2 v3 v4 :: r)
  | None => None
  end.
Proof.
  intros pad v1 v2 v3 v4 s H1 H2 H3 H4. cbn [b64_dec_core].
  rewrite !b64_val_char by assumption. reflexivity.
Qed.

Lemma dec_core_two : forall pad v1 v2 tl,
  0 <= v1 < 64 -> 0 <= v2 < 64 ->
  b64_dec_core pad (b64_char v1 :: b64_char v2 :: tl) =
  match tl with
  | [] => if pad then None else Some [q_b0 v1 v2]
  | c3 :: s3 =>
      match b64_val c3 with
      | None => if pad && (c3 =? pad_char) && is_one_pad s3 then Some [q_b0 v1 v2] else None
      | Some v3 =>
          match s3 with
          | [] => if pad then None else Some [q_b0 v1 v2; q_b1 v2 v3]
          | c4 :: s4 =>
              match b64_val c4 with
              | None => if pad && (c4 =? pad_char) && is_nil s4
                        then Some [q_b0 v1 v2; q_b1 v2 v3] else None
              | Some v4 =>
                  match b64_dec_core pad s4 with
                  | Some r => Some (q_b0 v1 v2 :: q_b1 v2 v3 :: q_b2 v3 v4 :: r)
                  | None => None
                  end
              end
          end
      end
  end.
Proof.
  intros pad v1 v2 tl H1 H2. cbn [b64_dec_core].
  rewrite !b64_val_char by assumption. reflexivity.
Qed.

Lemma list_ind3 : forall (X : Type) (P : list X -> Prop),
  P [] -> (forall a, P [a]) -> (forall a b, P [a; b]) ->
  (forall a b c r, P r -> P (a :: b :: c :: r)) -> forall l, P l.
Proof.
  intros X P H0 H1 H2 H3.
  assert (HH : forall l, P l /\ (forall a, P (a :: l)) /\ (forall a b, P (a :: b :: l))).
  { induction l as [|x l IH].
    - repeat split; auto.
    - destruct IH as [IHa [IHb IHc]]. repeat split.
      + apply IHb.
      + intro a. apply IHc.
      + intros a b. apply H3. exact IHa. }
  intro l. apply HH.
Qed.

(* ---------- round trips of the core decoder ---------- *)

Lemma dec_core_enc : forall pad bs, bytes bs -> b64_dec_core pad (b64_enc pad bs) = Some bs.
Proof.
  intros pad bs. induction bs as [| a | a b | a b c r IH] using list_ind3; intro Hb.
  - reflexivity.
  - inversion Hb as [|? ? Ha _]; subst.
    cbn [b64_enc]. rewrite dec_core_two by (try apply sextet1; try apply sextet2_last; assumption).
    rewrite group_b0_last by assumption.
    destruct pad; reflexivity.
  - inversion Hb as [|? ? Ha Hb']; subst. inversion Hb' as [|? ? Hb0 _]; subst.
    cbn [b64_enc]. rewrite dec_core_two by (try apply sextet1; try apply sextet2; assumption).
    rewrite b64_val_char by (apply sextet3_last; assumption).
    rewrite group_b0, group_b1_last by assumption.
    destruct pad; reflexivity.
  - inversion Hb as [|? ? Ha Hb']; subst. inversion Hb' as [|? ? Hb0 Hb'']; subst.
    inversion Hb'' as [|? ? Hc Hr]; subst.
    cbn [b64_enc]. rewrite dec_core_full
      by (try apply sextet1; try apply sextet2; try apply sextet3; try apply sextet4; assumption).
    rewrite (IH Hr).
    rewrite group_b0, (group_b1 a), group_b2 by assumption. reflexivity.
Qed.

(* the padded decoder on a raw encoding: succeeds exactly on whole groups *)
Lemma dec_core_pad_enc_raw : forall bs, bytes bs ->
  b64_dec_core true (b64_enc false bs) = if (Z.of_nat (length bs) mod 3 =? 0) then Some bs else None.
Proof.
  intro bs. induction bs as [| a | a b | a b c r IH] using list_ind3; intro Hb.
  - reflexivity.
  - inversion Hb as [|? ? Ha _]; subst.
    cbn [b64_enc]. rewrite dec_core_two by (try apply sextet1; try apply sextet2_last; assumption).
    reflexivity.
  - inversion Hb as [|? ? Ha Hb']; subst. inversion Hb' as [|? ? Hb0 _]; subst.
    cbn [b64_enc]. rewrite dec_core_two by (try apply sextet1; try apply sextet2; assumption).
    rewrite b64_val_char by (apply sextet3_last; assumption).
    reflexivity.
  - inversion Hb as [|? ? Ha Hb']; subst. inversion Hb' as [|? ? Hb0 Hb'']; subst.
    inversion Hb'' as [|? ? Hc Hr]; subst.
    cbn [b64_enc]. rewrite dec_core_full
      by (try apply sextet1; try apply sextet2; try apply sextet3; try apply sextet4; assumption).
    rewrite (IH Hr).
    rewrite group_b0, (group_b1 a), group_b2 by assumption.
    replace (Z.of_nat (length (a :: b :: c :: r)) mod 3) with (Z.of_nat (length r) mod 3).
    + destruct (Z.of_nat (length r) mod 3 =? 0); reflexivity.
    + cbn [length]. rewrite !Nat2Z.inj_succ.
      replace (Z.succ (Z.succ (Z.succ (Z.of_nat (length r))))) with (Z.of_nat (length r) + 1 * 3) by lia.
      rewrite Z.mod_add by lia. reflexivity.
Qed.

(* ---------- no newline in an encoding ---------- *)

Lemma strip_newlines_enc : forall pad bs, bytes bs -> strip_newlines (b64_enc pad bs) = b64_enc pad bs.
Proof.
  intros pad bs. unfold strip_newlines.
  induction bs as [| a | a b | a b c r IH] using list_ind3; intro Hb.
  - reflexivity.
  - inversion Hb as [|? ? Ha _]; subst.
    cbn [b64_enc filter].
    rewrite !b64_char_not_newline by (try apply sextet1; try apply sextet2_last; assumption).
    cbn [negb]. destruct pad; reflexivity.
  - inversion Hb as [|? ? Ha Hb']; subst. inversion Hb' as [|? ? Hb0 _]; subst.
    cbn [b64_enc filter].
    rewrite !b64_char_not_newline
      by (try apply sextet1; try apply sextet2; try apply sextet3_last; assumption).
    cbn [negb]. destruct pad; reflexivity.
  - inversion Hb as [|? ? Ha Hb']; subst. inversion Hb' as [|? ? Hb0 Hb'']; subst.
    inversion Hb'' as [|? ? Hc Hr]; subst.
    cbn [b64_enc filter].
    rewrite !b64_char_not_newline
      by (try apply sextet1; try apply sextet2; try apply sextet3; try apply sextet4; assumption).
    cbn [negb]. rewrite (IH Hr). reflexivity.
Qed.

(* ---------- the theorems ---------- *)

Theorem b64_dec_enc : forall pad bs, bytes bs -> b64_dec pad (b64_enc pad bs) = Some bs.
Proof.
  intros pad bs Hb. unfold b64_dec. rewrite strip_newlines_enc by assumption.
  apply dec_core_enc. exact Hb.
Qed.

Theorem b64url_decode_encode : forall bs, bytes bs -> b64url_decode (b64url_encode bs) = Some bs.
Proof. intros bs Hb. apply b64_dec_enc. exact Hb. Qed.

Theorem b64rawurl_decode_encode : forall bs, bytes bs -> b64rawurl_decode (b64rawurl_encode bs) = Some bs.
Proof. intros bs Hb. apply b64_dec_enc. exact Hb. Qed.

(* padded-then-raw decoding (DecodeTokenV3/V4) recovers the bytes from either encoding *)
Theorem b64_decode_any_url : forall bs, bytes bs -> b64_decode_any (b64url_encode bs) = Some bs.
Proof.
  intros bs Hb. unfold b64_decode_any. rewrite b64url_decode_encode by assumption. reflexivity.
Qed.

Theorem b64_decode_any_rawurl : forall bs, bytes bs -> b64_decode_any (b64rawurl_encode bs) = Some bs.
Proof.
  intros bs Hb. unfold b64_decode_any, b64url_decode, b64rawurl_encode, b64_dec.
  rewrite strip_newlines_enc by assumption.
  rewrite dec_core_pad_enc_raw by assumption.
  destruct (Z.of_nat (length bs) mod 3 =? 0); [reflexivity|].
  apply b64rawurl_decode_encode. exact Hb.
Qed.

(* decoded output is always a byte string *)
Lemma q_b0_byte : forall v1 v2, 0 <= v1 < 64 -> 0 <= v2 < 64 -> byte (q_b0 v1 v2).
Proof. intros v1 v2 H1 H2. unfold byte, q_b0. Z.div_mod_to_equations. lia. Qed.
Lemma q_b1_byte : forall v2 v3, 0 <= v2 < 64 -> 0 <= v3 < 64 -> byte (q_b1 v2 v3).
Proof. intros v2 v3 H2 H3. unfold byte, q_b1. Z.div_mod_to_equations. lia. Qed.
Lemma q_b2_byte : forall v3 v4, 0 <= v3 < 64 -> 0 <= v4 < 64 -> byte (q_b2 v3 v4).
Proof. intros v3 v4 H3 H4. unfold byte, q_b2. Z.div_mod_to_equations. lia. Qed.

(* "ABC" <-> "QUJD", "A" <-> "QQ==" / "QQ", newlines ignored, wrong padding refused *)
Example b64_ex1 : b64url_encode [65; 66; 67] = [81; 85; 74; 68]. Proof. reflexivity. Qed.
Example b64_ex2 : b64url_encode [65] = [81; 81; 61; 61]. Proof. reflexivity. Qed.
Example b64_ex3 : b64rawurl_encode [65] = [81; 81]. Proof. reflexivity. Qed.
Example b64_ex4 : b64url_decode [81; 10; 81; 61; 13; 61; 10] = Some [65]. Proof. reflexivity. Qed.
Example b64_ex5 : b64url_decode [81; 81] = None. Proof. reflexivity. Qed.
Example b64_ex6 : b64url_decode [81; 81; 61] = None. Proof. reflexivity. Qed.
Example b64_ex7 : b64rawurl_decode [81; 81; 61; 61] = None. Proof. reflexivity. Qed.
Example b64_ex8 : b64url_decode [81; 81; 61; 61; 81; 81; 61; 61] = None. Proof. reflexivity. Qed.
(* non-strict: the unused low bits of the last sextet are not checked ("QR" decodes like "QQ") *)
Example b64_ex9 : b64rawurl_decode [81; 82] = Some [65]. Proof. reflexivity. Qed.
Example b64_ex10 : b64url_decode [43; 43; 43; 43] = None. Proof. reflexivity. Qed.   (* '+' is not in the URL alphabet *)
