(* Hexadecimal text as Go's encoding/hex sees it: hex.EncodeToString writes lower case,
   hex.DecodeString accepts both cases and fails on an odd length or on any other
   character.  Strings and byte strings are lists of integers 0..255. *)
From Coq Require Import ZArith List Bool Lia.
Import ListNotations.
Open Scope Z_scope.

Definition byte (b : Z) : Prop := 0 <= b < 256.
Definition bytes (l : list Z) : Prop := Forall byte l.

Definition byteb (b : Z) : bool := (0 <=? b) && (b <? 256).
Definition bytesb (l : list Z) : bool := forallb byteb l.

Lemma byteb_iff : forall b, byteb b = true <-> byte b.
Proof. intro b. unfold byteb, byte. rewrite andb_true_iff, Z.leb_le, Z.ltb_lt. tauto. Qed.

Lemma bytesb_iff : forall l, bytesb l = true <-> bytes l.
Proof.
  intro l. unfold bytesb, bytes. rewrite forallb_forall, Forall_forall.
  split; intros H x Hx; apply byteb_iff; auto.
Qed.

(* ---------- digits ---------- *)

(* "0123456789abcdef"[n] *)
Definition hex_digit (n : Z) : Z := if n <? 10 then 48 + n else 87 + n.

(* fromHexChar *)
Definition hex_val (c : Z) : option Z :=
  if (48 <=? c) && (c <=? 57) then Some (c - 48)
  else if (97 <=? c) && (c <=? 102) then Some (c - 87)
  else if (65 <=? c) && (c <=? 70) then Some (c - 55)
  else None.

Definition lower_hex_char (c : Z) : bool :=
  ((48 <=? c) && (c <=? 57)) || ((97 <=? c) && (c <=? 102)).

(* ASCII lower-casing (what happens to the letters A-F of a valid hex string) *)
Definition ascii_lower (c : Z) : Z := if (65 <=? c) && (c <=? 90) then c + 32 else c.

Ltac hexcases :=
  repeat match goal with
         | H : context [ if ?b then _ else _ ] |- _ => let E := fresh "E" in destruct b eqn:E
         | |- context [ if ?b then _ else _ ] => let E := fresh "E" in destruct b eqn:E
         end;
  repeat match goal with
         | H : _ && _ = true |- _ => apply andb_true_iff in H; destruct H
         | H : _ && _ = false |- _ => apply andb_false_iff in H; destruct H
         | H : _ || _ = true |- _ => apply orb_true_iff in H; destruct H
         | H : _ || _ = false |- _ => apply orb_false_iff in H; destruct H
         | H : (_ <=? _) = true |- _ => apply Z.leb_le in H
         | H : (_ <=? _) = false |- _ => apply Z.leb_gt in H
         | H : (_ <? _) = true |- _ => apply Z.ltb_lt in H
         | H : (_ <? _) = false |- _ => apply Z.ltb_ge in H
         | H : (_ =? _) = true |- _ => apply Z.eqb_eq in H
         | H : (_ =? _) = false |- _ => apply Z.eqb_neq in H
         | H : Some _ = Some _ |- _ => injection H as H
         | H : Some _ = None |- _ => discriminate H
         | H : None = Some _ |- _ => discriminate H
         end.

Lemma hex_val_digit : forall n, 0 <= n < 16 -> hex_val (hex_digit n) = Some n.
Proof.
  intros n Hn. unfold hex_val, hex_digit. hexcases; try lia; f_equal; lia.
Qed.

Lemma hex_val_range : forall c v, hex_val c = Some v -> 0 <= v < 16.
Proof. intros c v H. unfold hex_val in H. hexcases; lia. Qed.

Lemma hex_digit_val : forall c v, hex_val c = Some v -> hex_digit v = ascii_lower c.
Proof.
  intros c v H. unfold hex_val in H. unfold hex_digit, ascii_lower. hexcases; lia.
Qed.

Lemma ascii_lower_lower_hex : forall c, lower_hex_char c = true -> ascii_lower c = c.
Proof. intros c H. unfold lower_hex_char in H. unfold ascii_lower. hexcases; lia. Qed.

Lemma hex_digit_lower : forall n, 0 <= n < 16 -> lower_hex_char (hex_digit n) = true.
Proof.
  intros n Hn. unfold lower_hex_char, hex_digit.
  destruct (n <? 10) eqn:E; hexcases; lia.
Qed.

Lemma hex_digit_byte : forall n, 0 <= n < 16 -> byte (hex_digit n).
Proof. intros n Hn. unfold hex_digit, byte. destruct (n <? 10); lia. Qed.

(* ---------- strings ---------- *)

Fixpoint hex_encode (bs : list Z) : list Z :=
  match bs with
  | [] => []
  | b :: r => hex_digit (b / 16) :: hex_digit (b mod 16) :: hex_encode r
  end.

Fixpoint hex_decode (s : list Z) : option (list Z) :=
  match s with
  | [] => Some []
  | [_] => None
  | h :: l :: r =>
      match hex_val h, hex_val l, hex_decode r with
      | Some a, Some b, Some bs => Some (a * 16 + b :: bs)
      | _, _, _ => None
      end
  end.

Definition hex_lower (s : list Z) : list Z := map ascii_lower s.

Lemma hex_decode_cons2 : forall h l r,
  hex_decode (h :: l :: r) =
  match hex_val h, hex_val l, hex_decode r with
  | Some a, Some b, Some bs => Some (a * 16 + b :: bs)
  | _, _, _ => None
  end.
Proof. reflexivity. Qed.

Lemma list_ind2 : forall (X : Type) (P : list X -> Prop),
  P [] -> (forall a, P [a]) -> (forall a b r, P r -> P (a :: b :: r)) -> forall l, P l.
Proof.
  intros X P H0 H1 H2.
  assert (HH : forall l, P l /\ forall a, P (a :: l)).
  { induction l as [|x l IH].
    - split; [exact H0 | exact H1].
    - destruct IH as [IHa IHb]. split; [apply IHb | intro a; apply H2; exact IHa]. }
  intro l. apply HH.
Qed.

Theorem hex_encode_length : forall bs, length (hex_encode bs) = (2 * length bs)%nat.
Proof.
  induction bs as [|b r IH]; [reflexivity|].
  cbn [hex_encode length]. rewrite IH. lia.
Qed.

Theorem hex_decode_encode : forall bs, bytes bs -> hex_decode (hex_encode bs) = Some bs.
Proof.
  induction bs as [|b r IH]; intro Hb; [reflexivity|].
  inversion Hb as [|b' r' Hb1 Hb2]; subst. unfold byte in Hb1.
  cbn [hex_encode]. rewrite hex_decode_cons2.
  rewrite !hex_val_digit.
  - rewrite (IH Hb2). f_equal. f_equal.
    pose proof (Z.div_mod b 16). lia.
  - apply Z.mod_pos_bound. lia.
  - split; [apply Z.div_pos; lia | apply Z.div_lt_upper_bound; lia].
Qed.

Lemma hex_decode_bytes : forall s bs, hex_decode s = Some bs -> bytes bs.
Proof.
  intro s. induction s as [| a | a b r IH] using list_ind2; intros bs H.
  - injection H as <-. constructor.
  - discriminate H.
  - rewrite hex_decode_cons2 in H.
    destruct (hex_val a) as [va|] eqn:Ea; [|discriminate H].
    destruct (hex_val b) as [vb|] eqn:Eb; [|discriminate H].
    destruct (hex_decode r) as [bs'|] eqn:Er; [|discriminate H].
    injection H as <-. constructor; [|apply IH; reflexivity].
    apply hex_val_range in Ea, Eb. unfold byte. lia.
Qed.

(* decoding then encoding lower-cases the text *)
Theorem hex_encode_decode : forall s bs, hex_decode s = Some bs -> hex_encode bs = hex_lower s.
Proof.
  intro s. induction s as [| a | a b r IH] using list_ind2; intros bs H.
  - injection H as <-. reflexivity.
  - discriminate H.
  - rewrite hex_decode_cons2 in H.
    destruct (hex_val a) as [va|] eqn:Ea; [|discriminate H].
    destruct (hex_val b) as [vb|] eqn:Eb; [|discriminate H].
    destruct (hex_decode r) as [bs'|] eqn:Er; [|discriminate H].
    injection H as <-. cbn [hex_encode hex_lower map].
    pose proof (hex_val_range _ _ Ea) as Ra. pose proof (hex_val_range _ _ Eb) as Rb.
    replace ((va * 16 + vb) / 16) with va
      by (Z.div_mod_to_equations; lia).
    replace ((va * 16 + vb) mod 16) with vb
      by (Z.div_mod_to_equations; lia).
    rewrite (hex_digit_val _ _ Ea), (hex_digit_val _ _ Eb).
    f_equal. f_equal. apply IH. reflexivity.
Qed.

Lemma hex_lower_id : forall s, forallb lower_hex_char s = true -> hex_lower s = s.
Proof.
  induction s as [|c r IH]; intro H; [reflexivity|].
  cbn [forallb] in H. apply andb_true_iff in H. destruct H as [Hc Hr].
  cbn [hex_lower map]. rewrite (ascii_lower_lower_hex _ Hc). f_equal. apply IH. exact Hr.
Qed.

(* on lower-case text, decode then encode is the identity *)
Theorem hex_encode_decode_lower : forall s bs,
  forallb lower_hex_char s = true -> hex_decode s = Some bs -> hex_encode bs = s.
Proof.
  intros s bs Hl Hd. rewrite (hex_encode_decode _ _ Hd). apply hex_lower_id. exact Hl.
Qed.

Lemma hex_encode_lower : forall bs, bytes bs -> forallb lower_hex_char (hex_encode bs) = true.
Proof.
  induction bs as [|b r IH]; intro Hb; [reflexivity|].
  inversion Hb as [|b' r' Hb1 Hb2]; subst. unfold byte in Hb1.
  cbn [hex_encode forallb]. rewrite !hex_digit_lower, (IH Hb2); try reflexivity.
  - apply Z.mod_pos_bound. lia.
  - split; [apply Z.div_pos; lia | apply Z.div_lt_upper_bound; lia].
Qed.

Lemma hex_encode_bytes : forall bs, bytes bs -> bytes (hex_encode bs).
Proof.
  induction bs as [|b r IH]; intro Hb; [constructor|].
  inversion Hb as [|b' r' Hb1 Hb2]; subst. unfold byte in Hb1.
  cbn [hex_encode]. constructor; [|constructor; [|apply IH; exact Hb2]]; apply hex_digit_byte.
  - split; [apply Z.div_pos; lia | apply Z.div_lt_upper_bound; lia].
  - apply Z.mod_pos_bound. lia.
Qed.

(* hex text is ASCII, whatever the bytes (used for UTF-8 validity of re-encoded fields) *)
Lemma hex_lower_idem : forall s, hex_lower (hex_lower s) = hex_lower s.
Proof.
  induction s as [|c r IH]; [reflexivity|].
  cbn [hex_lower map]. f_equal; [|exact IH].
  unfold ascii_lower. hexcases; lia.
Qed.

Lemma hex_decode_odd : forall s, Nat.odd (length s) = true -> hex_decode s = None.
Proof.
  intro s. induction s as [| a | a b r IH] using list_ind2; intro H.
  - discriminate H.
  - reflexivity.
  - rewrite hex_decode_cons2. cbn [length] in H.
    rewrite Nat.odd_succ, Nat.even_succ in H. rewrite (IH H).
    destruct (hex_val a); [destruct (hex_val b)|]; reflexivity.
Qed.

Example hex_decode_ex1 : hex_decode [48; 48; 97; 70] = Some [0; 175].   (* "00aF" *)
Proof. reflexivity. Qed.
Example hex_decode_ex2 : hex_decode [48; 103] = None.                    (* "0g" *)
Proof. reflexivity. Qed.
Example hex_encode_ex1 : hex_encode [0; 175; 255] = [48; 48; 97; 102; 102; 102].
Proof. reflexivity. Qed.
