(* Wire format between the Go harness and the extracted model.
   A case and an observation are both s-expressions of integers.  All decoding of
   cases into model inputs and all encoding of model outputs is done by Coq
   functions over this type, so the hand-written OCaml glue only tokenises. *)
From Coq Require Import ZArith List Bool.
Import ListNotations.
Open Scope Z_scope.

Inductive sexp : Type :=
| A (z : Z)
| L (l : list sexp).

Definition sZ (s : sexp) : option Z :=
  match s with A z => Some z | L _ => None end.

Definition sL (s : sexp) : option (list sexp) :=
  match s with A _ => None | L l => Some l end.

Definition sBool (s : sexp) : option bool :=
  match s with A z => Some (negb (z =? 0)) | L _ => None end.

Fixpoint opt_map {X Y} (f : X -> option Y) (l : list X) : option (list Y) :=
  match l with
  | [] => Some []
  | x :: r => match f x, opt_map f r with
              | Some y, Some ys => Some (y :: ys)
              | _, _ => None
              end
  end.

Definition sListZ (s : sexp) : option (list Z) :=
  match s with A _ => None | L l => opt_map sZ l end.

Definition sList {X} (f : sexp -> option X) (s : sexp) : option (list X) :=
  match s with A _ => None | L l => opt_map f l end.

Definition sOpt {X} (f : sexp -> option X) (s : sexp) : option (option X) :=
  match s with
  | L [] => Some None
  | L [x] => match f x with Some v => Some (Some v) | None => None end
  | _ => None
  end.

Definition eBool (b : bool) : sexp := A (if b then 1 else 0).
Definition eListZ (l : list Z) : sexp := L (map A l).
Definition eOpt {X} (f : X -> sexp) (o : option X) : sexp :=
  match o with None => L [] | Some x => L [f x] end.

(* the observation printed for a case that does not decode: never equal to a real one *)
Definition bad_case : sexp := L [A (-999)].

Notation "'do' x <- e ; k" := (match e with Some x => k | None => None end)
  (at level 200, x pattern, e at level 100, k at level 200, right associativity).

Fixpoint sexp_eqb (a b : sexp) {struct a} : bool :=
  match a, b with
  | A x, A y => x =? y
  | L xs, L ys =>
      (fix go (xs ys : list sexp) : bool :=
         match xs, ys with
         | [], [] => true
         | x :: xr, y :: yr => sexp_eqb x y && go xr yr
         | _, _ => false
         end) xs ys
  | _, _ => false
  end.
