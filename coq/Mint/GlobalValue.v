(* C02 over whole histories: no inflation.
   For every sequential, fault-free history (with truthful invoice notifications):

       issued ecash  +  commitments (amount + fee reserve) of every PAID melt quote
         <=  redeemed ecash + sum over mint quotes of amount * (1 if the backend reports its invoice settled + internal credits)

   and every PENDING melt quote holds locked inputs worth at least its commitment (and nothing else is locked)

   i.e. whatever the mint has signed plus whatever it has (or may still have) paid out over Lightning is covered by
   what was burned, what is locked, and what was paid in.  Amounts are the true integers; the uint64 wrap-around of
   the Go sums is in the model (add64/sum64) and the proof shows it can only lower what a request obtains. *)
From Coq Require Import ZArith List Bool Lia.
From Verif Require Import Model Sem InvDb InvSwap InvMint InvMelt Corollaries Queries Footprint Global GlobalQuote.
Import ListNotations.
Open Scope Z_scope.

Definition two61 : Z := 2305843009213693952.

(* configuration assumption: a melt limit is configured (below 2^61 sat) and the backend's fee reserve is at most the amount *)
Definition cfg_ok (cfg : config) : Prop :=
  0 < c_max_melt cfg < two61 /\ 0 <= c_feepct cfg <= 100.

(* requests carry uint64 amounts *)
Definition op_u64 (o : op) : Prop :=
  match o with
  | OSwap _ outs _ | OMint _ outs _ => Forall (fun x => 0 <= x < two64) (map b_amount outs)
  | OMeltQuote _ _ _ _ msat mpp _ => 0 <= msat /\ match mpp with Some p => 0 <= p | None => True end
  | _ => True
  end.

Definition vS (w : world) : Z := tsum (map s_amount (d_sigs (w_db w))).
Definition vR (w : world) : Z := tsum (map r_amount (d_spent (w_db w))).
Definition vP (w : world) : Z := tsum (map r_amount (d_pending (w_db w))).
Definition commit (q : lquote) : Z := if lq_state q =? 2 then lq_amount q + lq_fee q else 0.
Definition vOut (w : world) : Z := tsum (map commit (d_lq (w_db w))).

Definition amount_of (id : Z) (mq : list mquote) : Z :=
  match find_mq id mq with Some m => mq_amount m | None => 0 end.
Definition wsum (l : list Z) (mq : list mquote) : Z := tsum (map (fun id => amount_of id mq) l).

Definition rows_sum (id : Z) (d : db) : Z := tsum (map r_amount (rows_of_quote id d)).

Definition lq_ok (w : world) (q : lquote) : Prop :=
  0 <= lq_amount q /\ 0 <= lq_fee q /\ lq_amount q + lq_fee q < two63 /\
  (lq_state q = 0 \/ lq_state q = 1 \/ lq_state q = 2) /\
  (lq_state q = 1 -> lq_amount q + lq_fee q <= rows_sum (lq_id q) (w_db w)) /\
  (lq_state q <> 1 -> rows_of_quote (lq_id q) (w_db w) = []).

Record VInv (w : world) (iss : list Z) : Prop := mkVInv {
  v_lq : forall q, In q (d_lq (w_db w)) -> lq_ok w q;
  v_mq : forall m, In m (d_mq (w_db w)) -> 0 <= mq_amount m;
  v_rows : forall r, In r (d_pending (w_db w)) -> In (r_quote r) (map lq_id (d_lq (w_db w)));
  v_J : vS w + vOut w <= vR w + wsum iss (d_mq (w_db w))
}.

(* ---------- list arithmetic ---------- *)

Lemma tsum_app a b : tsum (a ++ b) = tsum a + tsum b.
Proof. induction a as [|x a IH]; [rewrite tsum_nil; cbn [app]; lia|]. cbn [app]. rewrite !tsum_cons, IH. lia. Qed.

Lemma tsum_filter_split {X} (f : X -> Z) (p : X -> bool) l :
  tsum (map f l) = tsum (map f (filter p l)) + tsum (map f (filter (fun x => negb (p x)) l)).
Proof.
  induction l as [|x l IH]; cbn [map filter]; [rewrite !tsum_nil; lia|].
  destruct (p x); cbn [negb map]; rewrite !tsum_cons, IH; lia.
Qed.

Lemma filter_ext_in {X} (f g : X -> bool) l : (forall x, In x l -> f x = g x) -> filter f l = filter g l.
Proof.
  induction l as [|x l IH]; intros H; cbn [filter]; [reflexivity|].
  rewrite (H x (or_introl eq_refl)). rewrite IH; [reflexivity|]. intros y Hy. apply H. right. exact Hy.
Qed.

(* removing the Ys of the rows of one quote removes exactly the rows of that quote *)
Lemma remove_rows_of_quote id (pend : list prow) :
  NoDup (ys_of pend) ->
  filter (fun r => negb (mem (r_y r) (ys_of (filter (fun r0 => r_quote r0 =? id) pend)))) pend =
  filter (fun r => negb (r_quote r =? id)) pend.
Proof.
  intros Hnd. apply filter_ext_in. intros r Hr. f_equal.
  destruct (r_quote r =? id) eqn:E.
  - apply mem_In. unfold ys_of. apply in_map. apply filter_In. split; assumption.
  - apply mem_false. unfold ys_of. intros Hin. apply in_map_iff in Hin as [r0 [Hy Hin0]]. apply filter_In in Hin0 as [Hin0 Hq].
    assert (r0 = r).
    { clear - Hnd Hy Hin0 Hr. induction pend as [|x l IH]; [destruct Hr|]. cbn [ys_of map] in Hnd.
      inversion Hnd as [|? ? Hx Hnd']; subst.
      destruct Hin0 as [->|Ha], Hr as [->|Hb]; [reflexivity| | |apply IH; assumption].
      - exfalso. apply Hx. rewrite Hy. apply in_map. exact Hb.
      - exfalso. apply Hx. rewrite <- Hy. apply in_map. exact Ha. }
    subst r0. rewrite E in Hq. discriminate.
Qed.

Lemma rows_sum_split id (d : db) :
  tsum (map r_amount (d_pending d)) = rows_sum id d + tsum (map r_amount (filter (fun r => negb (r_quote r =? id)) (d_pending d))).
Proof. unfold rows_sum, rows_of_quote. apply tsum_filter_split. Qed.

Lemma tsum_unquote l : tsum (map r_amount (map unquote l)) = tsum (map r_amount l).
Proof. rewrite map_map. reflexivity. Qed.

Lemma tsum_to_row q ins : tsum (map r_amount (map (to_row q) ins)) = tsum (map p_amount ins).
Proof. rewrite map_map. reflexivity. Qed.

Lemma tsum_sig_rows outs : tsum (map s_amount (sig_rows outs)) = tsum (map b_amount outs).
Proof. unfold sig_rows. rewrite map_map. reflexivity. Qed.

(* ---------- melt-quote table arithmetic ---------- *)

Lemma commit_upd id pre st (l : list lquote) q :
  NoDup (map lq_id l) -> find_lq id l = Some q ->
  tsum (map commit (upd_lq id pre st l)) = tsum (map commit l) - commit q + commit (with_state q st pre).
Proof.
  intros Hnd Hf. induction l as [|x l IH]; [discriminate|].
  cbn [map] in Hnd. inversion Hnd as [|? ? Hx Hnd']; subst.
  unfold find_lq in Hf. cbn [find] in Hf. cbn [upd_lq map]. fold (upd_lq id pre st l).
  destruct (lq_id x =? id) eqn:E.
  - inversion Hf; subst x. rewrite !tsum_cons.
    assert (Hrest : upd_lq id pre st l = l).
    { unfold upd_lq. rewrite <- (map_id l) at 2. apply map_ext_in. intros y Hy.
      destruct (lq_id y =? id) eqn:Ey; [|reflexivity]. exfalso. apply Z.eqb_eq in E, Ey. apply Hx. rewrite E, <- Ey. apply in_map. exact Hy. }
    rewrite Hrest. unfold with_state. lia.
  - rewrite !tsum_cons. fold (find_lq id l) in Hf. rewrite (IH Hnd' Hf). lia.
Qed.

Lemma in_upd_lq id pre st l q' :
  In q' (upd_lq id pre st l) -> exists q, In q l /\ q' = (if lq_id q =? id then with_state q st pre else q).
Proof. unfold upd_lq. intros H. apply in_map_iff in H as [q [Hq Hin]]. exists q. split; [exact Hin|symmetry; exact Hq]. Qed.

Lemma unique_lq l a b : NoDup (map lq_id l) -> In a l -> In b l -> lq_id a = lq_id b -> a = b.
Proof.
  induction l as [|x l IH]; cbn [map]; intros Hnd Ha Hb He; [destruct Ha|].
  inversion Hnd as [|? ? Hx Hnd']; subst.
  destruct Ha as [->|Ha], Hb as [->|Hb]; [reflexivity| | |apply IH; assumption].
  - exfalso. apply Hx. rewrite He. apply in_map. exact Hb.
  - exfalso. apply Hx. rewrite <- He. apply in_map. exact Ha.
Qed.

(* ---------- mint-quote table: amounts never change ---------- *)

Lemma find_mq_upd id st id' l : match find_mq id' (upd_mq id st l), find_mq id' l with
                                 | Some a, Some b => mq_amount a = mq_amount b
                                 | None, None => True
                                 | _, _ => False
                                 end.
Proof.
  unfold find_mq, upd_mq. induction l as [|x l IH]; cbn [map find]; [exact I|].
  destruct (mq_id x =? id) eqn:E; cbn [mq_id].
  - destruct (mq_id x =? id'); [reflexivity|exact IH].
  - destruct (mq_id x =? id'); [reflexivity|exact IH].
Qed.

Lemma wsum_upd l id st mq : wsum l (upd_mq id st mq) = wsum l mq.
Proof.
  unfold wsum. f_equal. apply map_ext. intros x. unfold amount_of.
  pose proof (find_mq_upd id st x mq) as H.
  destruct (find_mq x (upd_mq id st mq)), (find_mq x mq); try contradiction; auto.
Qed.

Lemma wsum_app_new l mq ext :
  (forall x, In x l -> In x (map mq_id mq)) -> wsum l (mq ++ ext) = wsum l mq.
Proof.
  intros H. unfold wsum. f_equal. apply map_ext_in. intros x Hx. unfold amount_of, find_mq.
  specialize (H x Hx). apply in_map_iff in H as [m [Hm Hin]].
  assert (Hex : exists m0, find (fun q => mq_id q =? x) mq = Some m0).
  { clear - Hm Hin. induction mq as [|y mq IH]; [destruct Hin|]. cbn [find].
    destruct (mq_id y =? x) eqn:E; [eexists; reflexivity|]. destruct Hin as [->|Hin]; [rewrite Hm, Z.eqb_refl in E; discriminate|].
    apply IH. exact Hin. }
  destruct Hex as [m0 H0].
  assert (H1 : find (fun q => mq_id q =? x) (mq ++ ext) = Some m0).
  { clear - H0. induction mq as [|y mq IH]; [discriminate|]. cbn [app find] in *. destruct (mq_id y =? x); [exact H0|apply IH; exact H0]. }
  rewrite H0, H1. reflexivity.
Qed.

(* ---------- the mint-quote table only grows, amounts are fixed and non-negative: command level, every program ---------- *)

Definition mq_ext (a b : list mquote) : Prop :=
  (forall x, In x (map mq_id a) -> amount_of x b = amount_of x a) /\
  ((forall m, In m a -> 0 <= mq_amount m) -> (forall m, In m b -> 0 <= mq_amount m)) /\
  (forall x, In x (map mq_id a) -> In x (map mq_id b)).

Lemma mq_ext_refl a : mq_ext a a.
Proof. repeat split; auto. Qed.

Lemma mq_ext_trans a b c : mq_ext a b -> mq_ext b c -> mq_ext a c.
Proof.
  intros [A1 [A2 A3]] [B1 [B2 B3]]. split; [|split].
  - intros x Hx. rewrite (B1 x (A3 x Hx)). apply A1. exact Hx.
  - intros H. apply B2. apply A2. exact H.
  - intros x Hx. apply B3. apply A3. exact Hx.
Qed.

Lemma amount_of_upd id st x l : amount_of x (upd_mq id st l) = amount_of x l.
Proof.
  unfold amount_of. pose proof (find_mq_upd id st x l) as H.
  destruct (find_mq x (upd_mq id st l)), (find_mq x l); try contradiction; auto.
Qed.

Lemma amount_of_app x l ext : In x (map mq_id l) -> amount_of x (l ++ ext) = amount_of x l.
Proof.
  intros H. pose proof (wsum_app_new [x] l ext) as W. unfold wsum in W. cbn [map] in W. rewrite !tsum_cons, !tsum_nil in W.
  assert (amount_of x (l ++ ext) + 0 = amount_of x l + 0) by (apply W; intros y [<-|[]]; exact H). lia.
Qed.

Lemma exec_db_mq_ext c d : mq_ext (d_mq d) (d_mq (fst (exec_db c d))).
Proof.
  destruct c; cbn [exec_db fst];
    repeat match goal with |- context [if ?b then _ else _] => destruct b eqn:? end;
    cbn [fst set_spent set_pending set_sigs set_mq set_lq set_ks d_mq]; try apply mq_ext_refl.
  - (* SaveMintQuote *)
    split; [|split].
    + intros x Hx. apply amount_of_app. exact Hx.
    + intros H m Hm. apply in_app_or in Hm as [Hm|[<-|[]]]; [apply H; exact Hm|].
      apply andb_true_iff in Heqb as [Hs _]. unfold sql_int_ok in Hs. apply andb_true_iff in Hs as [Hs _]. apply Z.leb_le in Hs. exact Hs.
    + intros x Hx. rewrite map_app. apply in_or_app. left. exact Hx.
  - (* UpdateMintQuote *)
    split; [|split].
    + intros x _. apply amount_of_upd.
    + intros H m Hm. apply in_upd_mq in Hm as [m0 [Hin ->]]. destruct (mq_id m0 =? id); [cbn [mq_amount]|]; apply H; exact Hin.
    + intros x Hx. rewrite map_upd_mq. exact Hx.
Qed.

Lemma only_true {R} (p : prog R) : only (fun _ => true) p.
Proof. induction p as [r|c k IH|]; constructor; auto. Qed.

Definition w_mq_ext (w w' : world) : Prop := mq_ext (d_mq (w_db w)) (d_mq (w_db w')).

Lemma exec_mq_ext c fault w : w_mq_ext w (fst (exec c fault w)).
Proof.
  unfold w_mq_ext. destruct (exec_world c fault w) as [_ [_ [Hd|[_ Hd]]]]; rewrite Hd; [apply mq_ext_refl|apply exec_db_mq_ext].
Qed.

Lemma run_mq_ext {R} (p : prog R) f w : w_mq_ext w (fst (run p f w)).
Proof.
  apply (run_only (fun _ => true) w_mq_ext); [intros; apply mq_ext_refl|intros a b c; apply mq_ext_trans| |apply only_true].
  intros c fault w0 _. apply exec_mq_ext.
Qed.

Lemma step_mq_ext cfg w o : w_mq_ext w (fst (step cfg no_fault w o)).
Proof.
  unfold step. destruct (is_env o); cbn [fst].
  - unfold w_mq_ext. rewrite apply_env_db. apply mq_ext_refl.
  - destruct (run _ no_fault (prepare o w)) as [w' r] eqn:E. cbn [fst].
    assert (H : w_mq_ext (prepare o w) w') by (change w' with (fst (w', r)); rewrite <- E; apply run_mq_ext).
    unfold w_mq_ext in *. rewrite prepare_db in H. exact H.
Qed.

Lemma wsum_mq_ext l a b : mq_ext a b -> (forall x, In x l -> In x (map mq_id a)) -> wsum l b = wsum l a.
Proof.
  intros [H1 _] Hl. unfold wsum. f_equal. apply map_ext_in. intros x Hx. apply H1. apply Hl. exact Hx.
Qed.

(* ---------- generic sequencing for an invariant ---------- *)

Lemma inv_bind (I : world -> Prop) {X Y} (p : prog X) (g : X -> prog Y) w :
  I (fst (run p no_fault w)) -> (forall x w', I w' -> I (fst (run (g x) no_fault w'))) ->
  I (fst (run (bind p g) no_fault w)).
Proof.
  intros Hp Hg. rewrite run_bind_fst. destruct (run p no_fault w) as [w' [x| |]]; cbn [fst] in *; auto.
Qed.

Lemma for_each_inv (I : world -> Prop) {X} (l : list X) (f : X -> prog (result unit)) :
  (forall x w, I w -> I (fst (run (f x) no_fault w))) ->
  forall w, I w -> I (fst (run (for_each l f) no_fault w)).
Proof.
  intros Hf. induction l as [|x r IH]; intros w Hw; [exact Hw|].
  change (for_each (x :: r) f) with (bind (f x) (fun v => match v with Err e => fail e | Ok _ => for_each r f end)).
  apply inv_bind; [apply Hf; exact Hw|]. intros v w' Hw'. destruct v; [apply IH; exact Hw'|exact Hw'].
Qed.

(* ---------- frames for VInv ---------- *)

Definition same_value_tables (w w' : world) : Prop :=
  d_sigs (w_db w') = d_sigs (w_db w) /\ d_spent (w_db w') = d_spent (w_db w) /\
  d_pending (w_db w') = d_pending (w_db w) /\ d_lq (w_db w') = d_lq (w_db w).

Lemma vinv_frame w w' iss :
  same_value_tables w w' -> w_mq_ext w w' -> (forall x, In x iss -> In x (map mq_id (d_mq (w_db w)))) ->
  VInv w iss -> VInv w' iss.
Proof.
  intros [Hs [Hr [Hp Hl]]] Hm Hiss [V1 V2 V3 V4]. split.
  - rewrite Hl. intros q Hq. specialize (V1 q Hq). unfold lq_ok, rows_sum, rows_of_quote in *. rewrite Hp. exact V1.
  - destruct Hm as [_ [Hm _]]. apply Hm. exact V2.
  - rewrite Hp, Hl. exact V3.
  - unfold vS, vR, vOut in *. rewrite Hs, Hr, Hl. rewrite (wsum_mq_ext iss _ _ Hm Hiss). exact V4.
Qed.

Lemma same_value_of_frames w w' : same_sp w w' -> same_sigs w w' -> same_lq w w' -> same_value_tables w w'.
Proof. intros [H1 H2] H3 H4. repeat split; assumption. Qed.

Lemma svt_refl w : same_value_tables w w. Proof. repeat split. Qed.

(* ---------- updating one melt quote ---------- *)

Lemma find_lq_in id l q : find_lq id l = Some q -> In q l /\ lq_id q = id.
Proof. intros H. destruct (find_lq_mem _ _ _ H) as [_ [Hid Hin]]. split; assumption. Qed.

Lemma lqs_ok_update w w' id pre st q :
  NoDup (map lq_id (d_lq (w_db w))) -> find_lq id (d_lq (w_db w)) = Some q ->
  d_lq (w_db w') = upd_lq id pre st (d_lq (w_db w)) ->
  (forall id2, id2 <> id -> rows_of_quote id2 (w_db w') = rows_of_quote id2 (w_db w)) ->
  (st = 0 \/ st = 1 \/ st = 2) ->
  (st = 1 -> lq_amount q + lq_fee q <= rows_sum id (w_db w')) ->
  (st <> 1 -> rows_of_quote id (w_db w') = []) ->
  (forall q0, In q0 (d_lq (w_db w)) -> lq_ok w q0) ->
  forall q0, In q0 (d_lq (w_db w')) -> lq_ok w' q0.
Proof.
  intros Hnd Hf Hl Hother Hst H1 H0 Hall q0 Hq0.
  rewrite Hl in Hq0. apply in_upd_lq in Hq0 as [qa [Hin ->]].
  destruct (find_lq_in _ _ _ Hf) as [Hqin Hqid].
  destruct (lq_id qa =? id) eqn:E.
  - apply Z.eqb_eq in E. assert (qa = q) by (apply (unique_lq (d_lq (w_db w))); [exact Hnd|exact Hin|exact Hqin|congruence]). subst qa.
    destruct (Hall q Hqin) as [Ha [Hfee [Hb _]]].
    unfold lq_ok, with_state. cbn [lq_amount lq_fee lq_state lq_id]. rewrite Hqid.
    repeat split; try assumption.
  - apply Z.eqb_neq in E. destruct (Hall qa Hin) as [Ha [Hfee [Hb [Hs [K1 K0]]]]].
    unfold lq_ok, rows_sum in *. rewrite (Hother _ E). repeat split; assumption.
Qed.

Lemma rows_other_append id id2 pend ins :
  id2 <> id -> filter (fun r => r_quote r =? id2) (pend ++ map (to_row id) ins) = filter (fun r => r_quote r =? id2) pend.
Proof.
  intros Hne. rewrite filter_app. rewrite (filter_all_false _ (map (to_row id) ins)); [apply app_nil_r|].
  intros r Hr. apply in_map_iff in Hr as [p [<- _]]. cbn [to_row r_quote]. apply Z.eqb_neq. congruence.
Qed.

Lemma rows_self_append id pend ins :
  filter (fun r => r_quote r =? id) pend = [] ->
  filter (fun r => r_quote r =? id) (pend ++ map (to_row id) ins) = map (to_row id) ins.
Proof.
  intros H0. rewrite filter_app, H0. cbn [app]. apply filter_all_true.
  intros r Hr. apply in_map_iff in Hr as [p [<- _]]. cbn [to_row r_quote]. apply Z.eqb_refl.
Qed.

Lemma rows_other_removed id id2 (pend : list prow) :
  id2 <> id ->
  filter (fun r => r_quote r =? id2) (filter (fun r => negb (r_quote r =? id)) pend) = filter (fun r => r_quote r =? id2) pend.
Proof.
  intros Hne. induction pend as [|r l IH]; [reflexivity|]. cbn [filter].
  destruct (r_quote r =? id) eqn:E1; cbn [negb filter].
  - apply Z.eqb_eq in E1. assert (E2 : (r_quote r =? id2) = false) by (apply Z.eqb_neq; congruence). rewrite E2. exact IH.
  - destruct (r_quote r =? id2); [rewrite IH; reflexivity|exact IH].
Qed.

Lemma rows_self_removed id (pend : list prow) :
  filter (fun r => r_quote r =? id) (filter (fun r => negb (r_quote r =? id)) pend) = [].
Proof.
  apply filter_all_false. intros r Hr. apply filter_In in Hr as [_ Hn]. apply negb_true_iff in Hn. exact Hn.
Qed.

Lemma sat_fold_range mem_ks ins : forall acc, 0 <= acc < two64 ->
  0 <= fold_left (fun acc p => sat_add64 acc (match find_ks (p_ks p) mem_ks with Some k => k_fee k | None => 0 end)) ins acc < two64.
Proof.
  induction ins as [|p r IH]; intros acc Ha; cbn [fold_left]; [exact Ha|].
  apply IH. unfold sat_add64, two64 in *. lia.
Qed.

Lemma tx_fees_nonneg mem_ks ins : 0 <= tx_fees mem_ks ins.
Proof.
  unfold tx_fees. cbv zeta. pose proof (sat_fold_range mem_ks ins 0 ltac:(unfold two64; lia)) as H.
  match goal with |- context [if ?b then _ else _] => destruct b end; [apply Z.div_pos; lia|].
  assert (0 <= fold_left (fun acc p => sat_add64 acc (match find_ks (p_ks p) mem_ks with Some k => k_fee k | None => 0 end)) ins 0 / 1000) by (apply Z.div_pos; lia). lia.
Qed.

Lemma tx_fees_small mem_ks ins : tx_fees mem_ks ins < two61.
Proof.
  unfold tx_fees. cbv zeta. pose proof (sat_fold_range mem_ks ins 0 ltac:(unfold two64; lia)) as H.
  set (s := fold_left (fun acc p => sat_add64 acc (match find_ks (p_ks p) mem_ks with Some k => k_fee k | None => 0 end)) ins 0) in *.
  assert (Hd : s / 1000 < 18446744073709552) by (apply Z.div_lt_upper_bound; unfold two64 in *; lia).
  unfold two61. destruct (s mod 1000 =? 0); lia.
Qed.

(* what an accepted melt burns covers the quote's commitment, in true integers *)
Lemma validated_covers mem_ks q ins w :
  0 <= lq_amount q -> 0 <= lq_fee q -> lq_amount q + lq_fee q < two63 ->
  melt_validated mem_ks q ins w -> lq_amount q + lq_fee q <= tsum (map p_amount ins).
Proof.
  intros Ha Hf Hb [_ [_ [_ [_ [_ [Hcp [Hle _]]]]]]].
  assert (Hin : Forall (fun x => 0 <= x) (map p_amount ins)).
  { apply Forall_forall. intros x Hx. apply in_map_iff in Hx as [p [<- Hp]].
    apply check_proofs_forall with (p := p) in Hcp; [|exact Hp]. apply check_proof_iff in Hcp as [_ [_ [Hk _]]].
    unfold is_key_amount in Hk. apply existsb_exists in Hk as [i [_ Hi]]. apply Z.eqb_eq in Hi. rewrite Hi.
    apply Z.pow_nonneg. lia. }
  pose proof (sum64_le _ Hin) as Hs. pose proof (tx_fees_nonneg mem_ks ins) as F0. pose proof (tx_fees_small mem_ks ins) as F1.
  assert (E1 : add64 (lq_amount q) (lq_fee q) = lq_amount q + lq_fee q).
  { unfold add64. apply Z.mod_small. unfold two63, two64 in *. lia. }
  assert (E2 : add64 (lq_amount q + lq_fee q) (tx_fees mem_ks ins) = lq_amount q + lq_fee q + tx_fees mem_ks ins).
  { unfold add64. apply Z.mod_small. unfold two61, two63, two64 in *. lia. }
  rewrite E1, E2 in Hle. lia.
Qed.

(* ---------- melt ---------- *)

Lemma melt_effect_vinv mem_ks id ins w w' iss st pre q :
  Good w -> VInv w iss -> find_lq id (d_lq (w_db w)) = Some q -> melt_validated mem_ks q ins w ->
  melt_effect id ins w w' st pre -> w_mq_ext w w' -> (forall x, In x iss -> In x (map mq_id (d_mq (w_db w)))) ->
  VInv w' iss.
Proof.
  intros [Hi Hd] [V1 V2 V3 V4] Hf Hval [Hsg [_ [Hlq Hcases]]] Hmq Hiss.
  destruct (find_lq_in _ _ _ Hf) as [Hqin Hqid].
  destruct (V1 q Hqin) as [Ha [Hfee [Hb [Hqs [_ K0]]]]].
  assert (Hs0 : lq_state q = 0) by (destruct Hval as [H2 [H1 _]]; lia).
  assert (Hrows0 : rows_of_quote id (w_db w) = []) by (rewrite <- Hqid; apply K0; lia).
  pose proof (validated_covers mem_ks q ins w Ha Hfee Hb Hval) as Hcov.
  assert (Hnd : NoDup (map lq_id (d_lq (w_db w)))) by apply Hi.
  assert (Hcommit0 : commit q = 0) by (unfold commit; rewrite Hs0; reflexivity).
  assert (Hout : vOut w' = vOut w + commit (with_state q st pre)).
  { unfold vOut. rewrite Hlq, (commit_upd id pre st _ q Hnd Hf), Hcommit0. lia. }
  destruct Hcases as [[-> [Hsp Hpe]]|[[-> [Hsp Hpe]]|[-> [Hsp Hpe]]]].
  - (* PAID *)
    split.
    + eapply lqs_ok_update; [exact Hnd|exact Hf|exact Hlq| | | | |exact V1]; try (right; right; reflexivity); try discriminate.
      * intros id2 _. unfold rows_of_quote. rewrite Hpe. reflexivity.
      * intros _. unfold rows_of_quote. rewrite Hpe. exact Hrows0.
    + destruct Hmq as [_ [Hm _]]. apply Hm. exact V2.
    + rewrite Hpe, Hlq, map_upd_lq. exact V3.
    + rewrite (wsum_mq_ext iss _ _ Hmq Hiss). unfold vS, vR, vP in *. rewrite Hsg, Hsp, Hout.
      rewrite map_app, tsum_app, tsum_to_row. unfold commit, with_state. cbn [lq_state lq_amount lq_fee]. cbn [Z.eqb Pos.eqb]. lia.
  - (* PENDING *)
    split.
    + eapply lqs_ok_update; [exact Hnd|exact Hf|exact Hlq| | | | |exact V1]; try (right; left; reflexivity).
      * intros id2 Hne. unfold rows_of_quote. rewrite Hpe. apply rows_other_append. exact Hne.
      * intros _. unfold rows_sum, rows_of_quote. rewrite Hpe, rows_self_append; [|exact Hrows0]. rewrite tsum_to_row. exact Hcov.
      * intros Hne. exfalso. apply Hne. reflexivity.
    + destruct Hmq as [_ [Hm _]]. apply Hm. exact V2.
    + rewrite Hpe, Hlq, map_upd_lq. intros r Hr. apply in_app_or in Hr as [Hr|Hr]; [apply V3; exact Hr|].
      apply in_map_iff in Hr as [p [<- _]]. cbn [to_row r_quote]. rewrite <- Hqid. apply in_map. exact Hqin.
    + rewrite (wsum_mq_ext iss _ _ Hmq Hiss). unfold vS, vR, vP in *. rewrite Hsg, Hsp, Hout.
      unfold commit, with_state. cbn [lq_state lq_amount lq_fee]. cbn [Z.eqb Pos.eqb]. lia.
  - (* released / refused at once *)
    split.
    + eapply lqs_ok_update; [exact Hnd|exact Hf|exact Hlq| | | | |exact V1]; try (left; reflexivity); try discriminate.
      * intros id2 _. unfold rows_of_quote. rewrite Hpe. reflexivity.
      * intros _. unfold rows_of_quote. rewrite Hpe. exact Hrows0.
    + destruct Hmq as [_ [Hm _]]. apply Hm. exact V2.
    + rewrite Hpe, Hlq, map_upd_lq. exact V3.
    + rewrite (wsum_mq_ext iss _ _ Hmq Hiss). unfold vS, vR, vP in *. rewrite Hsg, Hsp, Hout.
      unfold commit, with_state. cbn [lq_state lq_amount lq_fee]. cbn [Z.eqb Pos.eqb]. lia.
Qed.

Lemma vinv_db_same w w' iss : w_db w' = w_db w -> VInv w iss -> VInv w' iss.
Proof.
  intros Hd [V1 V2 V3 V4]. split; unfold lq_ok, rows_sum, vS, vR, vP, vOut in *; rewrite Hd; assumption.
Qed.

Lemma melt_vinv cfg mem_ks id ins w iss :
  Good w -> VInv w iss -> (forall x, In x iss -> In x (map mq_id (d_mq (w_db w)))) ->
  VInv (fst (run (melt_tokens cfg mem_ks id ins) no_fault w)) iss.
Proof.
  intros Hg Hv Hiss. pose proof (run_mq_ext (melt_tokens cfg mem_ks id ins) no_fault w) as Hmq.
  destruct (melt_tokens_spec cfg mem_ks id ins w (g_inv w Hg)) as [w' [r [Hrun [_ Hr]]]]. rewrite Hrun in *. cbn [fst] in *.
  destruct r as [q'|e].
  - destruct Hr as [q [Hf [Hval Hr]]].
    destruct (internal_mq q (w_db w)).
    + destruct Hr as [pre [_ [He _]]]. eapply melt_effect_vinv; eassumption.
    + destruct Hr as [_ [He _]]. eapply melt_effect_vinv; eassumption.
  - destruct Hr as [[Hd _]|[_ [q [Hf [Hval [He _]]]]]]; [apply (vinv_db_same w); assumption|].
    eapply melt_effect_vinv; eassumption.
Qed.

(* ---------- poll ---------- *)

Lemma poll_vinv id w iss :
  Good w -> VInv w iss -> (forall x, In x iss -> In x (map mq_id (d_mq (w_db w)))) ->
  VInv (fst (run (get_melt_quote_state id) no_fault w)) iss.
Proof.
  intros [Hi Hd] Hv Hiss. pose proof (run_mq_ext (get_melt_quote_state id) no_fault w) as Hmq.
  destruct (poll_spec id w Hi Hd) as [w' [r [Hrun [_ Hr]]]]. rewrite Hrun in *. cbn [fst] in *.
  destruct (find_lq id (d_lq (w_db w))) as [q|] eqn:Hf.
  2:{ destruct Hr as [_ [Hdb _]]. apply (vinv_db_same w); assumption. }
  destruct (lq_state q =? 1) eqn:E1.
  2:{ destruct Hr as [_ [Hdb _]]. apply (vinv_db_same w); assumption. }
  apply Z.eqb_eq in E1. cbv zeta in Hr.
  destruct ((a_kind (next_look w (lq_hash q)) =? 3) || (a_kind (next_look w (lq_hash q)) =? 4)).
  { destruct Hr as [_ Hdb]. apply (vinv_db_same w); assumption. }
  destruct Hv as [V1 V2 V3 V4].
  destruct (find_lq_in _ _ _ Hf) as [Hqin Hqid].
  destruct (V1 q Hqin) as [Ha [Hfee [Hb [Hqs [K1 _]]]]]. specialize (K1 E1). rewrite Hqid in K1.
  assert (Hnd : NoDup (map lq_id (d_lq (w_db w)))) by apply Hi.
  assert (Hndp : NoDup (ys_of (d_pending (w_db w)))) by apply Hi.
  assert (Hcommit1 : commit q = 0) by (unfold commit; rewrite E1; reflexivity).
  assert (Hpend : forall pend', pend' = filter (fun r => negb (mem (r_y r) (ys_of (rows_of_quote id (w_db w))))) (d_pending (w_db w)) ->
                                pend' = filter (fun r => negb (r_quote r =? id)) (d_pending (w_db w))).
  { intros p' ->. unfold rows_of_quote. apply remove_rows_of_quote. exact Hndp. }
  assert (Hrows_in : forall r1, In r1 (filter (fun r => negb (r_quote r =? id)) (d_pending (w_db w))) -> In r1 (d_pending (w_db w))).
  { intros r1 Hr0. apply filter_In in Hr0 as [Hr0 _]. exact Hr0. }
  destruct (a_kind (next_look w (lq_hash q)) =? 0).
  - (* success *)
    destruct Hr as [_ [Hsp [Hpe [Hlq [Hsg _]]]]]. apply Hpend in Hpe.
    assert (Hout : vOut w' = vOut w + (lq_amount q + lq_fee q)).
    { unfold vOut. rewrite Hlq, (commit_upd id _ 2 _ q Hnd Hf), Hcommit1. unfold commit, with_state. cbn [lq_state lq_amount lq_fee]. cbn [Z.eqb Pos.eqb]. lia. }
    split.
    + eapply lqs_ok_update; [exact Hnd|exact Hf|exact Hlq| | | | |exact V1]; try (right; right; reflexivity); try discriminate.
      * intros id2 Hne. unfold rows_of_quote. rewrite Hpe. apply rows_other_removed. exact Hne.
      * intros _. unfold rows_of_quote. rewrite Hpe. apply rows_self_removed.
    + destruct Hmq as [_ [Hm _]]. apply Hm. exact V2.
    + rewrite Hpe, Hlq, map_upd_lq. intros r1 Hr0. apply V3. apply Hrows_in. exact Hr0.
    + rewrite (wsum_mq_ext iss _ _ Hmq Hiss). unfold vS, vR, vP in *. rewrite Hsg, Hsp, Hout.
      rewrite map_app, tsum_app, tsum_unquote. pose proof (rows_sum_split id (w_db w)) as Hsplit. unfold rows_sum in *. lia.
  - destruct (a_kind (next_look w (lq_hash q)) =? 1).
    + (* failed: released *)
      destruct Hr as [_ [Hsp [Hpe [Hlq [Hsg _]]]]]. apply Hpend in Hpe.
      assert (Hout : vOut w' = vOut w).
      { unfold vOut. rewrite Hlq, (commit_upd id _ 0 _ q Hnd Hf), Hcommit1. unfold commit, with_state. cbn [lq_state lq_amount lq_fee]. cbn [Z.eqb Pos.eqb]. lia. }
      split.
      * eapply lqs_ok_update; [exact Hnd|exact Hf|exact Hlq| | | | |exact V1]; try (left; reflexivity); try discriminate.
        -- intros id2 Hne. unfold rows_of_quote. rewrite Hpe. apply rows_other_removed. exact Hne.
        -- intros _. unfold rows_of_quote. rewrite Hpe. apply rows_self_removed.
      * destruct Hmq as [_ [Hm _]]. apply Hm. exact V2.
      * rewrite Hpe, Hlq, map_upd_lq. intros r1 Hr0. apply V3. apply Hrows_in. exact Hr0.
      * rewrite (wsum_mq_ext iss _ _ Hmq Hiss). unfold vS, vR, vP in *. rewrite Hsg, Hsp, Hout.
        pose proof (rows_sum_split id (w_db w)) as Hsplit. unfold rows_sum in *. lia.
    + destruct Hr as [_ Hdb]. apply (vinv_db_same w); [exact Hdb|]. split; assumption.
Qed.

(* ---------- swap ---------- *)

Lemma swap_vinv mem_ks active ins outs sg w iss :
  Good w -> Forall (fun x => 0 <= x < two64) (map b_amount outs) ->
  VInv w iss -> VInv (fst (run (swap mem_ks active ins outs sg) no_fault w)) iss.
Proof.
  intros Hg Hu Hv. pose proof (g_inv w Hg) as Hi.
  destruct (swap_spec mem_ks active ins outs sg w Hi) as [w' [r [Hrun Hr]]]. rewrite Hrun. cbn [fst].
  destruct r as [sigs|e]; [|destruct Hr as [Hd _]; apply (vinv_db_same w); assumption].
  pose proof (swap_balanced mem_ks active ins outs sg w w' sigs Hi Hrun Hu) as Hbal.
  destruct Hr as [_ [_ [_ [_ [_ [_ [_ [_ [Hsigs [Hsp [Hsg [_ [_ [_ [Hpe [Hmq [Hlq _]]]]]]]]]]]]]]]]].
  destruct Hv as [V1 V2 V3 V4]. pose proof (tx_fees_nonneg mem_ks ins) as F0. split.
  - rewrite Hlq. intros q Hq. specialize (V1 q Hq). unfold lq_ok, rows_sum, rows_of_quote in *. rewrite Hpe. exact V1.
  - rewrite Hmq. exact V2.
  - rewrite Hpe, Hlq. exact V3.
  - unfold vS, vR, vOut in *. rewrite Hsg, Hsp, Hlq, Hmq. rewrite !map_app, !tsum_app, tsum_to_row. subst sigs. lia.
Qed.

(* ---------- mint ---------- *)

Lemma mint_vinv mem_ks active id outs sig w iss :
  Good w -> Forall (fun x => 0 <= x < two64) (map b_amount outs) ->
  VInv w iss ->
  VInv (fst (run (mint_tokens mem_ks active id outs sig) no_fault w))
       (match snd (run (mint_tokens mem_ks active id outs sig) no_fault w) with
        | Done (Ok (_ :: _)) => [id] | _ => [] end ++ iss).
Proof.
  intros Hg Hu Hv. pose proof (g_inv w Hg) as Hi.
  pose proof (run_mq_ext (mint_tokens mem_ks active id outs sig) no_fault w) as Hmqe.
  destruct (mint_tokens_spec mem_ks active id outs sig w Hi) as [w' [r [Hrun Hr]]]. rewrite Hrun in *. cbn [fst snd] in *.
  destruct Hv as [V1 V2 V3 V4].
  assert (Hkeep : d_sigs (w_db w') = d_sigs (w_db w) -> d_spent (w_db w') = d_spent (w_db w) ->
                  d_pending (w_db w') = d_pending (w_db w) -> d_lq (w_db w') = d_lq (w_db w) ->
                  (forall l, wsum l (d_mq (w_db w')) = wsum l (d_mq (w_db w))) -> VInv w' iss).
  { intros Hs Hr0 Hp Hl Hw. split.
    - rewrite Hl. intros q Hq. specialize (V1 q Hq). unfold lq_ok, rows_sum, rows_of_quote in *. rewrite Hp. exact V1.
    - destruct Hmqe as [_ [Hm _]]. apply Hm. exact V2.
    - rewrite Hp, Hl. exact V3.
    - unfold vS, vR, vOut in *. rewrite Hs, Hr0, Hl, Hw. exact V4. }
  destruct r as [sigs|e].
  - destruct Hr as [q [Hf [[_ [[oa [Hoa Hle]] [_ [_ [_ [_ [Hsigs [Hsg [Hmq [Hsp [Hpe [Hlq _]]]]]]]]]]]]|[_ [-> Hs]]]]].
    + apply amount_checked_sum in Hoa; [|unfold two64; lia|exact Hu]. cbn [Z.add] in Hoa.
      assert (Hamt : amount_of id (d_mq (w_db w)) = mq_amount q) by (unfold amount_of; rewrite Hf; reflexivity).
      assert (Hq0 : 0 <= mq_amount q) by (apply V2; apply (find_mq_in _ _ _ Hf)).
      split.
      * rewrite Hlq. intros q0 Hq. specialize (V1 q0 Hq). unfold lq_ok, rows_sum, rows_of_quote in *. rewrite Hpe. exact V1.
      * destruct Hmqe as [_ [Hm _]]. apply Hm. exact V2.
      * rewrite Hpe, Hlq. exact V3.
      * unfold vS, vR, vOut in *. rewrite Hsg, Hsp, Hlq, Hmq, wsum_upd. rewrite map_app, tsum_app, tsum_sig_rows.
        subst sigs. destruct (sig_rows outs) as [|s0 rest] eqn:Es.
        -- assert (Ho : outs = []) by (destruct outs; [reflexivity|discriminate Es]). subst outs. cbn [app map]. rewrite tsum_nil. lia.
        -- cbn [app]. unfold wsum in *. cbn [map]. rewrite tsum_cons, Hamt. lia.
    + cbn [app]. apply (vinv_db_same w); [apply Hs|split; assumption].
  - cbn [app]. destruct Hr as [Hs|[q [Hf [_ Ho]]]]; [apply (vinv_db_same w); [apply Hs|split; assumption]|].
    destruct Ho as [_ [_ [_ [Hsp [Hpe [Hsg [Hlq [_ Hmq]]]]]]]].
    apply Hkeep; try assumption. intros l. rewrite Hmq. apply wsum_upd.
Qed.

(* ---------- melt quote request ---------- *)

Lemma fee_reserve_le cfg a : 0 <= c_feepct cfg <= 100 -> 0 <= a -> 0 <= fee_reserve cfg a <= a.
Proof.
  intros Hp Ha. unfold fee_reserve. split.
  - apply Z.div_pos; nia.
  - assert (H : (a * c_feepct cfg + 99) / 100 < a + 1) by (apply Z.div_lt_upper_bound; nia). lia.
Qed.

Lemma request_melt_quote_vinv cfg u d req h msat mpp newid w iss :
  cfg_ok cfg -> 0 <= msat -> match mpp with Some p => 0 <= p | None => True end ->
  Good w -> VInv w iss -> (forall x, In x iss -> In x (map mq_id (d_mq (w_db w)))) ->
  VInv (fst (run (request_melt_quote cfg u d req h msat mpp newid) no_fault w)) iss.
Proof.
  intros [[Hm0 Hm1] Hpct] Hmsat Hmpp Hg Hv Hiss.
  set (p := request_melt_quote cfg u d req h msat mpp newid).
  pose proof (run_mq_ext p no_fault w) as Hmqe.
  assert (Hsp : same_sp w (fst (run p no_fault w))).
  { apply (frame_sp fp_melt_quote); [apply only_request_melt_quote|intros c Hc; destruct c; cbn in *; congruence]. }
  assert (Hsg : same_sigs w (fst (run p no_fault w))).
  { apply (frame_sigs fp_melt_quote); [apply only_request_melt_quote|intros c Hc; destruct c; cbn in *; congruence]. }
  (* the melt-quote table: unchanged, or one unpaid quote with a fresh id and a small commitment appended *)
  assert (Hlq : d_lq (w_db (fst (run p no_fault w))) = d_lq (w_db w) \/
                exists q, d_lq (w_db (fst (run p no_fault w))) = d_lq (w_db w) ++ [q] /\ lq_state q = 0 /\
                          0 <= lq_amount q /\ 0 <= lq_fee q /\ lq_amount q + lq_fee q < two63 /\
                          ~ In (lq_id q) (map lq_id (d_lq (w_db w)))).
  { unfold p, request_melt_quote. destruct u; cbn [negb]; [|left; reflexivity].
    destruct d; cbn [negb]; [|left; reflexivity].
    destruct ((msat <=? 0) || (two63 <=? msat)); [left; reflexivity|].
    destruct w as [db l m a n]. sx.
    set (internal := match same_invoice (ROk (find (fun q => mq_hash q =? h) (d_mq db))) req with Some _ => true | None => false end).
    assert (Hplan : forall (is_mpp : bool) (amount_msat qa : Z), 0 <= qa ->
       let k := fun ex : res (option lquote) => match ex with
                  | ROk (Some _) => fail EMeltExists
                  | _ => call r <- SaveMeltQuote (mkLq newid req h qa (if internal then 0 else fee_reserve cfg qa) 0 0 is_mpp amount_msat) ;;
                         match r with RErr => fail EDb | ROk _ => Ret (Ok (mkLq newid req h qa (if internal then 0 else fee_reserve cfg qa) 0 0 is_mpp amount_msat)) end
                  end in
       forall n',
       let w1 := fst (run (if (0 <? c_max_melt cfg) && (c_max_melt cfg <? qa) then fail EMeltLimit else Do (GetMeltQuoteByReq req) k) no_fault (mkWorld db l m a n')) in
       d_lq (w_db w1) = d_lq db \/
       exists q, d_lq (w_db w1) = d_lq db ++ [q] /\ lq_state q = 0 /\ 0 <= lq_amount q /\ 0 <= lq_fee q /\
                 lq_amount q + lq_fee q < two63 /\ ~ In (lq_id q) (map lq_id (d_lq db))).
    { intros is_mpp amount_msat qa Hqa k n'. cbv zeta.
      destruct ((0 <? c_max_melt cfg) && (c_max_melt cfg <? qa)) eqn:El; [left; reflexivity|].
      assert (Hqmax : qa <= c_max_melt cfg).
      { apply andb_false_iff in El as [El|El]; [apply Z.ltb_ge in El; lia|apply Z.ltb_ge in El; exact El]. }
      sx. unfold k. destruct (find (fun q => lq_req q =? req) (d_lq db)); [left; reflexivity|].
      sx. set (fee := if internal then 0 else fee_reserve cfg qa).
      assert (Hfee : 0 <= fee <= qa) by (unfold fee; destruct internal; [lia|apply fee_reserve_le; assumption]).
      cbn [lq_amount lq_fee lq_msat lq_id].
      destruct (sql_int_ok qa && sql_int_ok fee && sql_int_ok amount_msat && negb (mem newid (map lq_id (d_lq db)))) eqn:Eg; [|left; reflexivity].
      right. eexists. split; [reflexivity|]. cbn [lq_state lq_amount lq_fee lq_id].
      apply andb_true_iff in Eg as [_ Eg]. apply negb_true_iff in Eg. apply mem_false in Eg.
      unfold two61, two63 in *. repeat split; try lia. exact Eg. }
    destruct mpp as [part|].
    - destruct (c_mpp cfg); [|left; reflexivity].
      fold internal. destruct internal eqn:Eint; [left; reflexivity|].
      destruct (msat <=? part); [left; reflexivity|].
      apply (Hplan true part ((part + 999) / 1000)). apply Z.div_pos; lia.
    - apply (Hplan false 0 ((msat + 999) / 1000)). apply Z.div_pos; lia. }
  destruct Hv as [V1 V2 V3 V4]. destruct Hsp as [Hs1 Hs2]. unfold same_sigs in Hsg.
  destruct Hlq as [Hl|[q [Hl [Hq0 [Hqa [Hqf [Hqb Hfresh]]]]]]].
  - apply (vinv_frame w); [repeat split; assumption|exact Hmqe|exact Hiss|split; assumption].
  - split.
    + rewrite Hl. intros q0 Hin. apply in_app_or in Hin as [Hin|[<-|[]]].
      * specialize (V1 q0 Hin). unfold lq_ok, rows_sum, rows_of_quote in *. rewrite Hs2. exact V1.
      * unfold lq_ok, rows_sum, rows_of_quote. rewrite Hs2. repeat split; try assumption; try (left; exact Hq0); try lia.
        intros _. apply filter_all_false. intros r Hr. apply Z.eqb_neq. intro He. apply Hfresh. rewrite <- He. apply V3. exact Hr.
    + destruct Hmqe as [_ [Hm _]]. apply Hm. exact V2.
    + rewrite Hs2, Hl, map_app. intros r Hr. apply in_or_app. left. apply V3. exact Hr.
    + unfold vS, vR, vOut in *. rewrite Hsg, Hs1, Hl, (wsum_mq_ext iss _ _ Hmqe Hiss). rewrite map_app, tsum_app. cbn [map].
      rewrite tsum_cons, tsum_nil. unfold commit at 2. rewrite Hq0. cbn [Z.eqb]. lia.
Qed.

(* ---------- one step, whole histories ---------- *)

Definition VI (iss : list Z) (w : world) : Prop :=
  Good w /\ VInv w iss /\ (forall x, In x iss -> In x (map mq_id (d_mq (w_db w)))).

Lemma ids_mono w w' iss : w_mq_ext w w' -> (forall x, In x iss -> In x (map mq_id (d_mq (w_db w)))) ->
  forall x, In x iss -> In x (map mq_id (d_mq (w_db w'))).
Proof. intros [_ [_ H]] Hi x Hx. apply H. apply Hi. exact Hx. Qed.

Lemma vi_frame {R} allowed (p : prog R) iss w :
  only allowed p ->
  (forall c, allowed c = true -> c_sp c = false /\ c_sigs c = false /\ c_lq c = false) ->
  VI iss w -> VI iss (fst (run p no_fault w)).
Proof.
  intros Ho Ha [Hg [Hv Hi]].
  pose proof (run_mq_ext p no_fault w) as Hmq.
  split; [eapply good_frame; [exact Ho|intros c Hc; apply Ha; exact Hc|exact Hg]|].
  split; [|eapply ids_mono; eassumption].
  apply (vinv_frame w); [|exact Hmq|exact Hi|exact Hv].
  apply same_value_of_frames.
  - apply (frame_sp allowed); [exact Ho|intros c Hc; apply Ha; exact Hc].
  - apply (frame_sigs allowed); [exact Ho|intros c Hc; apply Ha; exact Hc].
  - apply (frame_lq allowed); [exact Ho|intros c Hc; apply Ha; exact Hc].
Qed.

Lemma vi_poll id iss w : VI iss w -> VI iss (fst (run (get_melt_quote_state id) no_fault w)).
Proof.
  intros [Hg [Hv Hi]]. split; [apply poll_good; exact Hg|]. split; [apply poll_vinv; assumption|].
  eapply ids_mono; [apply run_mq_ext|exact Hi].
Qed.

Lemma vi_check ys iss w : VI iss w -> VI iss (fst (run (proofs_state_check ys) no_fault w)).
Proof.
  intros Hw. unfold proofs_state_check. rewrite run_do.
  destruct (exec (GetPending ys) false w) as [w1 r1] eqn:E1.
  assert (H1 : VI iss w1).
  { change w1 with (fst (w1, r1)). rewrite <- E1.
    pose proof (vi_frame (fun c => match c with GetPending _ => true | _ => false end) (Do (GetPending ys) (fun _ => Ret tt)) iss w) as H.
    rewrite run_do in H. destruct (exec (GetPending ys) false w) as [wa ra]. apply H; [|intros c Hc; destruct c; cbn in *; repeat split; congruence|exact Hw].
    constructor; [reflexivity|]. intros; constructor. }
  destruct r1 as [pend|]; cbv beta iota; [|exact H1].
  apply (inv_bind (VI iss)).
  - apply (for_each_inv (VI iss)); [|exact H1]. intros q w0 Hw0. apply (inv_bind (VI iss)); [apply vi_poll; exact Hw0|].
    intros g w2 Hw2. destruct g; exact Hw2.
  - intros v w2 Hw2. destruct v as [u|e]; [|exact Hw2].
    apply (vi_frame (fun c => match c with GetPending _ | GetUsed _ => true | _ => false end)); [|intros c Hc; destruct c; cbn in *; repeat split; congruence|exact Hw2].
    fp.
Qed.

Lemma vi_prepare o iss w : VI iss w -> VI iss (prepare o w).
Proof.
  intros [Hg [Hv Hi]]. split; [apply good_prepare; exact Hg|]. split; [|destruct o; exact Hi].
  apply (vinv_db_same w); [apply prepare_db|exact Hv].
Qed.

Theorem step_vi cfg w o iss :
  cfg_ok cfg -> op_u64 o -> VI iss w ->
  VI (issue_ev o (snd (step cfg no_fault w o)) ++ iss) (fst (step cfg no_fault w o)).
Proof.
  intros Hcfg Hu Hw.
  assert (Hnoev : (match o with OMint _ _ _ => False | _ => True end) -> issue_ev o (snd (step cfg no_fault w o)) = []).
  { intros Hk. destruct o; try reflexivity. destruct Hk. }
  unfold step in *. destruct (is_env o) eqn:Eenv; cbn [fst snd] in *.
  { rewrite Hnoev by (destruct o; try exact I; discriminate Eenv). cbn [app].
    destruct Hw as [Hg [Hv Hi]]. split; [apply good_env; exact Hg|]. split; [apply (vinv_db_same w); [apply apply_env_db|exact Hv]|].
    rewrite apply_env_db. exact Hi. }
  pose proof (vi_prepare o iss w Hw) as H0. set (w0 := prepare o w) in *.
  assert (Hfr : forall (a : cmd -> bool) R (p : prog R), only a p ->
            (forall c, a c = true -> c_sp c = false /\ c_sigs c = false /\ c_lq c = false) -> VI iss (fst (run p no_fault w0))).
  { intros a R p Hp Ha. eapply vi_frame; eassumption. }
  destruct o; try discriminate Eenv; cbn [op_prog issue_ev] in *; unfold lift.
  all: try (rewrite run_bind; cbn [app]).
  - (* OMintQuote *)
    pose proof (Hfr fp_mint_quote _ _ (only_request_mint_quote cfg unit_ok amount pubkey newid newhash) ltac:(intros c Hc; destruct c; cbn in *; repeat split; congruence)) as G.
    destruct (run (request_mint_quote cfg unit_ok amount pubkey newid newhash) no_fault w0) as [w' [[x|e]| |]]; exact G.
  - pose proof (Hfr fp_mint_state _ _ (only_mint_state id) ltac:(intros c Hc; destruct c; cbn in *; repeat split; congruence)) as G.
    destruct (run (get_mint_quote_state id) no_fault w0) as [w' [[x|e]| |]]; exact G.
  - (* OMint *)
    destruct H0 as [Hg [Hv Hi]].
    pose proof (mint_vinv (w_mem w0) (w_active w0) id outs sig w0 iss Hg Hu Hv) as G.
    pose proof (run_mq_ext (mint_tokens (w_mem w0) (w_active w0) id outs sig) no_fault w0) as Hmq.
    assert (Hg' : Good (fst (run (mint_tokens (w_mem w0) (w_active w0) id outs sig) no_fault w0))).
    { apply (good_frame fp_mint); [apply only_mint|intros c Hc; destruct c; cbn in *; congruence|exact Hg]. }
    pose proof (mint_tokens_spec (w_mem w0) (w_active w0) id outs sig w0 (g_inv w0 Hg)) as [w' [r [Hrun Hr]]].
    rewrite Hrun in *. cbn [fst snd] in *.
    destruct r as [sigs|e]; cbn [run fst snd of_outcome].
    + split; [exact Hg'|]. split; [exact G|].
      intros x Hx. apply in_app_or in Hx as [Hx|Hx]; [|eapply ids_mono; eassumption].
      destruct sigs as [|s0 rest]; [destruct Hx|]. destruct Hx as [<-|[]].
      destruct Hr as [q [Hf _]]. destruct Hmq as [_ [_ Hm]]. apply Hm. apply (find_mq_in _ _ _ Hf).
    + cbn [app] in *. split; [exact Hg'|]. split; [exact G|eapply ids_mono; eassumption].
  - (* OSwap *)
    destruct H0 as [Hg [Hv Hi]].
    pose proof (swap_vinv (w_mem w0) (w_active w0) ins outs outs_signed w0 iss Hg Hu Hv) as G.
    pose proof (run_mq_ext (swap (w_mem w0) (w_active w0) ins outs outs_signed) no_fault w0) as Hmq.
    assert (Hg' : Good (fst (run (swap (w_mem w0) (w_active w0) ins outs outs_signed) no_fault w0))).
    { split; [apply run_inv; apply Hg|apply swap_keeps_disjoint; apply Hg]. }
    destruct (run (swap (w_mem w0) (w_active w0) ins outs outs_signed) no_fault w0) as [w' [[x|e]| |]]; cbn [fst] in *;
      (split; [exact Hg'|split; [exact G|eapply ids_mono; eassumption]]).
  - (* OMeltQuote *)
    destruct H0 as [Hg [Hv Hi]]. destruct Hu as [Hu1 Hu2].
    pose proof (request_melt_quote_vinv cfg unit_ok decodes req h msat mpp newid w0 iss Hcfg Hu1 Hu2 Hg Hv Hi) as G.
    pose proof (run_mq_ext (request_melt_quote cfg unit_ok decodes req h msat mpp newid) no_fault w0) as Hmq.
    assert (Hg' : Good (fst (run (request_melt_quote cfg unit_ok decodes req h msat mpp newid) no_fault w0))).
    { apply (good_frame fp_melt_quote); [apply only_request_melt_quote|intros c Hc; destruct c; cbn in *; congruence|exact Hg]. }
    destruct (run (request_melt_quote cfg unit_ok decodes req h msat mpp newid) no_fault w0) as [w' [[x|e]| |]]; cbn [fst] in *;
      (split; [exact Hg'|split; [exact G|eapply ids_mono; eassumption]]).
  - pose proof (vi_poll id iss w0 H0) as G.
    destruct (run (get_melt_quote_state id) no_fault w0) as [w' [[x|e]| |]]; exact G.
  - (* OMelt *)
    destruct H0 as [Hg [Hv Hi]].
    pose proof (melt_vinv cfg (w_mem w0) id ins w0 iss Hg Hv Hi) as G.
    pose proof (run_mq_ext (melt_tokens cfg (w_mem w0) id ins) no_fault w0) as Hmq.
    pose proof (melt_good cfg (w_mem w0) id ins w0 Hg) as Hg'.
    destruct (run (melt_tokens cfg (w_mem w0) id ins) no_fault w0) as [w' [[x|e]| |]]; cbn [fst] in *;
      (split; [exact Hg'|split; [exact G|eapply ids_mono; eassumption]]).
  - pose proof (vi_check ys iss w0 H0) as G.
    destruct (run (proofs_state_check ys) no_fault w0) as [w' [[x|e]| |]]; exact G.
  - pose proof (Hfr fp_restore _ _ (only_restore bs []) ltac:(intros c Hc; destruct c; cbn in *; repeat split; congruence)) as G.
    destruct (run (restore_sigs bs []) no_fault w0) as [w' [[x|e]| |]]; exact G.
  - pose proof (Hfr fp_rotate _ _ (only_rotate (w_mem w0) (w_active w0) fee) ltac:(intros c Hc; destruct c; cbn in *; repeat split; congruence)) as G.
    destruct (run (rotate_keyset (w_mem w0) (w_active w0) fee) no_fault w0) as [w' [[x|e]| |]]; exact G.
  - pose proof (Hfr fp_rotate _ _ (only_load fee rotate) ltac:(intros c Hc; destruct c; cbn in *; repeat split; congruence)) as G.
    destruct (run (load_mint fee rotate) no_fault w0) as [w' [[x|e]| |]]; exact G.
  - pose proof (Hfr fp_mint_state _ _ (only_watcher id) ltac:(intros c Hc; destruct c; cbn in *; repeat split; congruence)) as G.
    destruct (run (watcher_fire id) no_fault w0) as [w' [x| |]]; exact G.
  - pose proof (Hfr fp_balance _ _ only_balance ltac:(intros c Hc; destruct c; cbn in *; repeat split; congruence)) as G.
    destruct (run total_balance no_fault w0) as [w' [[x|e]| |]]; exact G.
  - pose proof (Hfr fp_balance _ _ (only_info cfg) ltac:(intros c Hc; destruct c; cbn in *; repeat split; congruence)) as G.
    destruct (run (info_disabled cfg) no_fault w0) as [w' [[x|e]| |]]; exact G.
Qed.

Lemma qtrace_vi cfg h : forall w iss cred,
  cfg_ok cfg -> honest cfg w h -> Forall op_u64 h -> QInv w iss cred -> VI iss w ->
  let '(w', iss', cred') := qtrace cfg w h iss cred in QInv w' iss' cred' /\ VI iss' w'.
Proof.
  induction h as [|o r IH]; intros w iss cred Hc Hh Hu Hq Hv; cbn [qtrace]; [split; assumption|].
  destruct Hh as [Hw Hh]. inversion Hu as [|? ? Hu1 Hu2]; subst.
  apply IH; [exact Hc|exact Hh|exact Hu2| |].
  - apply step_qinv; [apply Hv|exact Hw|exact Hq].
  - apply step_vi; assumption.
Qed.

Lemma VI0 : VI [] world0.
Proof.
  split; [apply Good0|]. split; [|intros x []].
  split; [intros q []|intros m []|intros r []|]. unfold vS, vOut, vR, wsum. cbn. lia.
Qed.

(* the weighted sum over issuance events, regrouped per quote *)
Definition per_quote (f : mquote -> Z) (mq : list mquote) : Z := tsum (map (fun m => mq_amount m * f m) mq).

Lemma sum_indicator x mq :
  NoDup (map mq_id mq) -> per_quote (fun m => if x =? mq_id m then 1 else 0) mq = amount_of x mq.
Proof.
  unfold per_quote, amount_of, find_mq. induction mq as [|m l IH]; intros Hnd; cbn [map find]; [reflexivity|].
  inversion Hnd as [|? ? Hx Hnd']; subst. rewrite tsum_cons. rewrite (Z.eqb_sym x (mq_id m)).
  destruct (mq_id m =? x) eqn:E.
  - apply Z.eqb_eq in E. subst x.
    assert (H0 : tsum (map (fun m0 => mq_amount m0 * (if mq_id m =? mq_id m0 then 1 else 0)) l) = 0).
    { clear - Hx. induction l as [|y l IH]; [reflexivity|]. cbn [map]. rewrite tsum_cons.
      destruct (mq_id m =? mq_id y) eqn:E; [exfalso; apply Hx; apply Z.eqb_eq in E; rewrite E; left; reflexivity|].
      rewrite IH; [lia|]. intro Hc. apply Hx. right. exact Hc. }
    rewrite H0. lia.
  - rewrite (IH Hnd'). lia.
Qed.

Lemma per_quote_add f g mq : per_quote (fun m => f m + g m) mq = per_quote f mq + per_quote g mq.
Proof.
  unfold per_quote. induction mq as [|m l IH]; [reflexivity|]. cbn [map]. rewrite !tsum_cons, IH. lia.
Qed.

Lemma per_quote_le f g mq :
  (forall m, In m mq -> 0 <= mq_amount m) -> (forall m, In m mq -> f m <= g m) -> per_quote f mq <= per_quote g mq.
Proof.
  unfold per_quote. induction mq as [|m l IH]; intros Ha Hfg; [cbn [map]; rewrite !tsum_nil; lia|]. cbn [map]. rewrite !tsum_cons.
  assert (H1 : mq_amount m * f m <= mq_amount m * g m).
  { apply Z.mul_le_mono_nonneg_l; [apply Ha; left; reflexivity|apply Hfg; left; reflexivity]. }
  assert (H2 : tsum (map (fun m0 => mq_amount m0 * f m0) l) <= tsum (map (fun m0 => mq_amount m0 * g m0) l)).
  { apply IH; intros m0 H0; [apply Ha|apply Hfg]; right; exact H0. }
  lia.
Qed.

Lemma wsum_per_quote l mq : NoDup (map mq_id mq) -> wsum l mq = per_quote (fun m => cnt (mq_id m) l) mq.
Proof.
  intros Hnd. induction l as [|x l IH].
  - unfold wsum, per_quote. cbn [map]. rewrite tsum_nil. symmetry.
    induction mq as [|m r IHr]; [reflexivity|]. cbn [map]. rewrite tsum_cons, cnt_nil.
    inversion Hnd; subst. rewrite IHr; [lia|assumption].
  - unfold wsum in *. cbn [map]. rewrite tsum_cons, IH.
    rewrite <- (sum_indicator x mq Hnd), <- per_quote_add. unfold per_quote. f_equal. apply map_ext. intros m.
    rewrite cnt_cons. reflexivity.
Qed.

(* C02, whole histories.  Hypotheses: a melt limit below 2^61 sat is configured and the backend's fee reserve is at most
   the amount; request amounts are uint64; invoice notifications are truthful. *)
Theorem no_inflation cfg h :
  cfg_ok cfg -> honest cfg world0 h -> Forall op_u64 h ->
  let '(w, iss, cred) := qtrace cfg world0 h [] [] in
  vS w + vOut w <= vR w + per_quote (fun m => esett w m + cnt (mq_id m) cred) (d_mq (w_db w)) /\
  (forall q, In q (d_lq (w_db w)) -> lq_state q = 1 -> lq_amount q + lq_fee q <= rows_sum (lq_id q) (w_db w)) /\
  (forall q, In q (d_lq (w_db w)) -> lq_state q <> 1 -> rows_of_quote (lq_id q) (w_db w) = []).
Proof.
  intros Hc Hh Hu. pose proof (qtrace_vi cfg h world0 [] [] Hc Hh Hu QInv0 VI0) as H.
  destruct (qtrace cfg world0 h [] []) as [[w iss] cred]. destruct H as [[Q1 Q2] [Hg [[V1 V2 V3 V4] Hi]]].
  split; [|split].
  - rewrite (wsum_per_quote iss _ (inv_mq _ (g_inv w Hg))) in V4.
    assert (Hle : per_quote (fun m => cnt (mq_id m) iss) (d_mq (w_db w)) <=
                  per_quote (fun m => esett w m + cnt (mq_id m) cred) (d_mq (w_db w))).
    { apply per_quote_le; [exact V2|]. intros m Hm. destruct (Q1 m Hm) as [Hr [Hz [Ho Hi3]]].
      pose proof (esett_range w m). pose proof (cnt_nonneg (mq_id m) cred).
      assert (Hs : mq_state m = 0 \/ (mq_state m = 1 \/ mq_state m = 2) \/ mq_state m = 3) by lia.
      destruct Hs as [Hs|[Hs|Hs]]; [specialize (Hz Hs)|specialize (Ho Hs)|specialize (Hi3 Hs)]; lia. }
    lia.
  - intros q Hq Hs. apply (V1 q Hq). exact Hs.
  - intros q Hq Hs. apply (V1 q Hq). exact Hs.
Qed.
