(* Sequential, fault-free behaviour of Swap: exact characterisation of its result and effect. *)
From Coq Require Import ZArith List Bool Lia.
From Verif Require Import Model Sem InvDb.
Import ListNotations.
Open Scope Z_scope.

Definition db_of (w : world) := w_db w.

(* running a storage read or write without faults *)
Lemma run_do {R} c (k : resp c -> prog R) w :
  run (Do c k) no_fault w = let '(w', r) := exec c false w in run (k r) no_fault w'.
Proof. cbn [run]. unfold no_fault. cbn [andb]. reflexivity. Qed.

Lemma run_bind {X Y} (p : prog X) (g : X -> prog Y) : forall w,
  run (bind p g) no_fault w =
  match run p no_fault w with
  | (w', Done x) => run (g x) no_fault w'
  | (w', Crashed) => (w', Crashed)
  | (w', Panicked) => (w', Panicked)
  end.
Proof.
  induction p as [r|c k IH|]; intros w; cbn [bind]; [reflexivity| |reflexivity].
  rewrite !run_do. destruct (exec c false w) as [w' r]. apply IH.
Qed.

Definition same_but_calls (w w' : world) : Prop :=
  w_db w' = w_db w /\ w_ln w' = w_ln w /\ w_mem w' = w_mem w /\ w_active w' = w_active w.

Lemma sbc_refl w : same_but_calls w w.
Proof. repeat split. Qed.

Lemma sbc_trans a b c : same_but_calls a b -> same_but_calls b c -> same_but_calls a c.
Proof. intros [A1 [A2 [A3 A4]]] [B1 [B2 [B3 B4]]]. repeat split; congruence. Qed.

(* verifyProofs: reads only; Ok exactly when nothing is pending/spent/duplicated and every proof is genuine *)
Lemma verify_proofs_spec mem_ks ins w :
  exists w' r, run (verify_proofs mem_ks ins) no_fault w = (w', Done r) /\ same_but_calls w w' /\
  (r = Ok tt <->
     ins <> [] /\
     filter (fun r => mem (r_y r) (map p_secret ins)) (d_pending (w_db w)) = [] /\
     filter (fun r => mem (r_y r) (map p_secret ins)) (d_spent (w_db w)) = [] /\
     nodupb (map p_secret ins) = true /\
     check_proofs mem_ks ins = None).
Proof.
  unfold verify_proofs. destruct ins as [|p ins']; [|set (ins := p :: ins')].
  - eexists _, _. split; [reflexivity|]. split; [apply sbc_refl|]. split; [discriminate|]. intros [H _]; congruence.
  - rewrite run_do. destruct w as [d l m a n]. cbn [exec is_call is_storage andb exec_db w_db w_ln w_mem w_active w_calls].
    destruct (filter (fun r => mem (r_y r) (map p_secret ins)) (d_pending d)) as [|x xs] eqn:Ep.
    2:{ eexists _, _. split; [reflexivity|]. split; [repeat split|]. split; [discriminate|]. intros [_ [H _]]; discriminate. }
    rewrite run_do. cbn [exec is_call is_storage andb exec_db w_db w_ln w_mem w_active w_calls].
    destruct (filter (fun r => mem (r_y r) (map p_secret ins)) (d_spent d)) as [|y ys] eqn:Es.
    2:{ eexists _, _. split; [reflexivity|]. split; [repeat split|]. split; [discriminate|]. intros [_ [_ [H _]]]; discriminate. }
    destruct (nodupb (map p_secret ins)) eqn:En; cbn [negb].
    2:{ eexists _, _. split; [reflexivity|]. split; [repeat split|]. split; [discriminate|]. intros [_ [_ [_ [H _]]]]; discriminate. }
    destruct (check_proofs mem_ks ins) as [e|] eqn:Ec.
    + eexists _, _. split; [reflexivity|]. split; [repeat split|]. split; [discriminate|]. intros [_ [_ [_ [_ H]]]]; discriminate.
    + eexists _, _. split; [reflexivity|]. split; [repeat split|]. split; [|reflexivity].
      intros _. repeat split; try reflexivity. discriminate.
Qed.

(* the amount/fee gate of Swap *)
Definition swap_gate (mem_ks : list ksrow) (ins : list proof) (outs : list bmsg) : option Z :=
  match amount_checked (map b_amount outs) 0 with
  | None => None
  | Some out_amount =>
      if negb (nodupb (map b_B outs)) then None else
      let fees := tx_fees mem_ks ins in
      let pa := sum64 (map p_amount ins) in
      if pa <? fees then None else if pa - fees <? out_amount then None else Some out_amount
  end.

Definition ExecKeepsRest (w w' : world) : Prop :=
  w_ln w' = w_ln w /\ w_mem w' = w_mem w /\ w_active w' = w_active w /\
  d_pending (w_db w') = d_pending (w_db w) /\ d_mq (w_db w') = d_mq (w_db w) /\
  d_lq (w_db w') = d_lq (w_db w) /\ d_ks (w_db w') = d_ks (w_db w).

(* Swap, sequentially and without injected faults, on a store satisfying the key invariants *)
Theorem swap_spec mem_ks active ins outs sg w :
  WInv w ->
  exists w' r, run (swap mem_ks active ins outs sg) no_fault w = (w', Done r) /\
  match r with
  | Err _ => same_but_calls w w'
  | Ok sigs =>
      (* accepted: exactly when every check passed ... *)
      swap_gate mem_ks ins outs <> None /\
      ins <> [] /\
      (forall p, In p ins -> ~ In (p_secret p) (ys_of (d_spent (w_db w))) /\ ~ In (p_secret p) (ys_of (d_pending (w_db w)))) /\
      NoDup (map p_secret ins) /\
      check_proofs mem_ks ins = None /\
      (forall o, In o outs -> ~ In (b_B o) (map s_B (d_sigs (w_db w)))) /\
      (existsb p_sigall ins = true -> sg = true) /\
      check_outputs mem_ks active outs = None /\
      (* ... and the effect is exactly: inputs spent, outputs signed *)
      sigs = sig_rows outs /\
      d_spent (w_db w') = d_spent (w_db w) ++ map (to_row 0) ins /\
      d_sigs (w_db w') = d_sigs (w_db w) ++ sig_rows outs /\
      ExecKeepsRest w w'
  end.
Proof.
  intros Hinv. unfold swap.
  destruct (amount_checked (map b_amount outs) 0) as [oa|] eqn:Eoa.
  2:{ eexists _, _. split; [reflexivity|apply sbc_refl]. }
  destruct (nodupb (map b_B outs)) eqn:Edo; cbn [negb].
  2:{ eexists _, _. split; [reflexivity|apply sbc_refl]. }
  destruct (sum64 (map p_amount ins) <? tx_fees mem_ks ins) eqn:Ef.
  { eexists _, _. split; [reflexivity|apply sbc_refl]. }
  destruct (sum64 (map p_amount ins) - tx_fees mem_ks ins <? oa) eqn:Ei.
  { eexists _, _. split; [reflexivity|apply sbc_refl]. }
  assert (Hgate : swap_gate mem_ks ins outs <> None).
  { unfold swap_gate. rewrite Eoa, Edo. cbn [negb]. rewrite Ef, Ei. discriminate. }
  rewrite run_bind.
  destruct (verify_proofs_spec mem_ks ins w) as [w1 [r1 [Hrun [Hsbc Hok]]]]. rewrite Hrun.
  destruct r1 as [[]|e].
  2:{ eexists _, _. split; [reflexivity|exact Hsbc]. }
  destruct Hok as [Hok _]. specialize (Hok eq_refl). destruct Hok as [Hne [Hp [Hs [Hnd Hcp]]]].
  destruct Hsbc as [Hd1 [Hl1 [Hm1 Ha1]]].
  rewrite run_do. destruct w1 as [d1 l1 m1 a1 n1]. cbn [w_db w_ln w_mem w_active] in Hd1, Hl1, Hm1, Ha1. subst d1 l1 m1 a1.
  cbn [exec is_call is_storage andb exec_db w_db w_ln w_mem w_active w_calls].
  destruct (filter (fun s => mem (s_B s) (map b_B outs)) (d_sigs (w_db w))) as [|x xs] eqn:Esg.
  2:{ eexists _, _. split; [reflexivity|repeat split]. }
  destruct (existsb p_sigall ins && negb sg) eqn:Esa.
  { eexists _, _. split; [reflexivity|repeat split]. }
  destruct (check_outputs mem_ks active outs) as [e|] eqn:Eco.
  { eexists _, _. split; [reflexivity|repeat split]. }
  (* SaveProofs succeeds *)
  assert (Hfresh_s : forall y, In y (map p_secret ins) -> ~ In y (ys_of (d_spent (w_db w)))).
  { intros y Hy Hin. unfold ys_of in Hin. apply in_map_iff in Hin as [r [Hr Hin]].
    assert (In r (filter (fun r => mem (r_y r) (map p_secret ins)) (d_spent (w_db w)))) as Hf.
    { apply filter_In. split; [exact Hin|]. apply mem_In. rewrite Hr. exact Hy. }
    rewrite Hs in Hf. destruct Hf. }
  assert (Hfresh_p : forall y, In y (map p_secret ins) -> ~ In y (ys_of (d_pending (w_db w)))).
  { intros y Hy Hin. unfold ys_of in Hin. apply in_map_iff in Hin as [r [Hr Hin]].
    assert (In r (filter (fun r => mem (r_y r) (map p_secret ins)) (d_pending (w_db w)))) as Hf.
    { apply filter_In. split; [exact Hin|]. apply mem_In. rewrite Hr. exact Hy. }
    rewrite Hp in Hf. destruct Hf. }
  assert (Hys : ys_of (map (to_row 0) ins) = map p_secret ins).
  { unfold ys_of. rewrite map_map. reflexivity. }
  apply nodupb_NoDup in Hnd.
  rewrite run_do. cbn [exec is_call is_storage andb exec_db w_db w_ln w_mem w_active w_calls].
  assert (Hsave : nodupb (ys_of (map (to_row 0) ins) ++ ys_of (d_spent (w_db w))) = true).
  { apply nodupb_NoDup. rewrite Hys. apply NoDup_app_comm.
    apply NoDup_app_comm. clear - Hnd Hfresh_s Hinv.
    destruct Hinv as [Hsp _ _ _ _ _].
    induction (map p_secret ins) as [|y r IH]; cbn; [exact Hsp|].
    inversion Hnd; subst. constructor.
    - intro Hin. apply in_app_or in Hin as [Hin|Hin]; [contradiction|]. eapply Hfresh_s; [left; reflexivity|exact Hin].
    - apply IH; [assumption|]. intros y' Hy'. apply Hfresh_s. right. exact Hy'. }
  rewrite Hsave.
  (* SaveSigs succeeds *)
  assert (Hfresh_b : forall b, In b (map b_B outs) -> ~ In b (map s_B (d_sigs (w_db w)))).
  { intros b Hb Hin. apply in_map_iff in Hin as [r [Hr Hin]].
    assert (In r (filter (fun s => mem (s_B s) (map b_B outs)) (d_sigs (w_db w)))) as Hf.
    { apply filter_In. split; [exact Hin|]. apply mem_In. rewrite Hr. exact Hb. }
    rewrite Esg in Hf. destruct Hf. }
  assert (HBs : map s_B (sig_rows outs) = map b_B outs).
  { unfold sig_rows. rewrite map_map. reflexivity. }
  rewrite run_do. cbn [exec is_call is_storage andb exec_db w_db w_ln w_mem w_active w_calls set_spent d_sigs].
  assert (Hsave2 : nodupb (map s_B (sig_rows outs) ++ map s_B (d_sigs (w_db w))) = true).
  { apply nodupb_NoDup. rewrite HBs. apply nodupb_NoDup in Edo.
    destruct Hinv as [_ _ Hsg _ _ _]. clear - Edo Hfresh_b Hsg.
    induction (map b_B outs) as [|y r IH]; cbn; [exact Hsg|].
    inversion Edo; subst. constructor.
    - intro Hin. apply in_app_or in Hin as [Hin|Hin]; [contradiction|]. eapply Hfresh_b; [left; reflexivity|exact Hin].
    - apply IH; [assumption|]. intros y' Hy'. apply Hfresh_b. right. exact Hy'. }
  rewrite Hsave2.
  eexists _, _. split; [reflexivity|].
  split; [exact Hgate|]. split; [exact Hne|].
  split.
  { intros p Hp'. split; [apply Hfresh_s|apply Hfresh_p]; apply in_map; exact Hp'. }
  split; [exact Hnd|]. split; [exact Hcp|].
  split.
  { intros o Ho. apply Hfresh_b. apply in_map. exact Ho. }
  split.
  { intros Hall. rewrite Hall in Esa. cbn [andb] in Esa. apply negb_false_iff in Esa. exact Esa. }
  split; [reflexivity|]. split; [reflexivity|].
  cbn [w_db w_ln w_mem w_active set_sigs set_spent d_spent d_sigs d_pending d_mq d_lq d_ks].
  split; [reflexivity|]. split; [reflexivity|]. repeat split.
Qed.
