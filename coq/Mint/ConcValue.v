(* C01/C02 under concurrency, at the level of value: for ANY batch of concurrent requests made of swaps and of requests that
   neither burn nor sign (quote requests, quote-state checks of mint quotes, the watcher, restore, balance, info, rotation),
   under ANY schedule at call granularity and at EVERY intermediate point of the schedule:
       issued - redeemed never exceeds what it was when the batch started.
   Proof by a potential function on residual thread programs: `within c p` says that on every path of p the thread signs at most c
   more than it burns; a step of a thread moves value between the tables and its credit, never creating any. *)
From Coq Require Import ZArith List Bool Lia.
From Verif Require Import Model Sem InvDb InvSwap InvMint InvMelt Corollaries Queries Footprint Global GlobalQuote GlobalValue CutValue.
Import ListNotations.
Open Scope Z_scope.

Definition rows_val (ps : list prow) : Z := tsum (map r_amount ps).
Definition sigs_val (ss : list srow) : Z := tsum (map s_amount ss).

(* what a call added to the spent table / to the signature table, judged by its response *)
Definition burn (c : cmd) : resp c -> Z :=
  match c return resp c -> Z with
  | SaveProofs ps => fun r => match r with ROk _ => rows_val ps | RErr => 0 end
  | _ => fun _ => 0
  end.
Definition sign (c : cmd) : resp c -> Z :=
  match c return resp c -> Z with
  | SaveSigs ss => fun r => match r with ROk _ => sigs_val ss | RErr => 0 end
  | _ => fun _ => 0
  end.

(* the responses tell the truth about the tables: exact accounting of every command *)
Lemma exec_value c fault w :
  vR (fst (exec c fault w)) = vR w + burn c (snd (exec c fault w)) /\
  vS (fst (exec c fault w)) = vS w + sign c (snd (exec c fault w)).
Proof.
  destruct (exec c fault w) as [w' r] eqn:E. cbn [fst snd]. unfold vR, vS. unfold exec in E.
  destruct (fault && is_storage c) eqn:Ef.
  - injection E as <- <-.
    assert (Hdb : w_db (if is_call c then mkWorld (w_db w) (w_ln w) (w_mem w) (w_active w) (w_calls w + 1) else w) = w_db w)
      by (destruct (is_call c); reflexivity).
    rewrite Hdb. destruct c; cbn [burn sign fault_resp]; lia.
  - destruct c; cbn [is_call w_db w_ln w_mem w_active w_calls exec_db] in E;
      repeat match type of E with
      | context [if ?b then _ else _] => destruct b
      | context [let '(_, _) := pop ?a ?b ?c in _] => destruct (pop a b c)
      | context [match find ?f ?l with _ => _ end] => destruct (find f l)
      | context [sum_view ?v] => destruct (sum_view v)
      end;
      injection E as <- <-;
      cbn [w_db set_ln set_spent set_pending set_sigs set_mq set_lq set_ks d_spent d_sigs burn sign];
      unfold rows_val, sigs_val; rewrite ?map_app, ?tsum_app; lia.
Qed.

(* the credit of a residual program: on every path it signs at most c more than it burns *)
Fixpoint within {R} (c : Z) (p : prog R) : Prop :=
  0 <= c /\ match p with Do cm k => forall r, within (c + burn cm r - sign cm r) (k r) | _ => True end.

Lemma within_nonneg {R} c (p : prog R) : within c p -> 0 <= c.
Proof. destruct p; cbn [within]; tauto. Qed.

Lemma within_mono {R} (p : prog R) : forall a b, a <= b -> within a p -> within b p.
Proof.
  induction p as [r|cm k IH|]; intros a b Hab H; cbn [within] in *; try (split; [lia|exact I]).
  destruct H as [H0 H]. split; [lia|]. intros r. apply (IH r (a + burn cm r - sign cm r)); [lia|apply H].
Qed.

Lemma within_bind {X Y} (p : prog X) (g : X -> prog Y) : forall c,
  within c p -> (forall x c', 0 <= c' -> within c' (g x)) -> within c (bind p g).
Proof.
  induction p as [x|cm k IH|]; intros c H Hg; cbn [bind within] in *.
  - apply Hg. tauto.
  - destruct H as [H0 H]. split; [exact H0|]. intros r. apply IH; [apply H|exact Hg].
  - exact H.
Qed.

(* a thread that never saves proofs or signatures keeps whatever credit it has *)
Lemma within_only {R} allowed (p : prog R) :
  only allowed p -> (forall cm, allowed cm = true -> c_sigs cm = false /\ match cm with SaveProofs _ => False | _ => True end) ->
  forall c, 0 <= c -> within c p.
Proof.
  intros Ho Ha. induction Ho as [r| |cm k Hc Hk IH]; intros c Hc0; cbn [within]; try (split; [exact Hc0|exact I]).
  split; [exact Hc0|]. intros r. destruct (Ha cm Hc) as [H1 H2].
  assert (E : burn cm r = 0 /\ sign cm r = 0) by (destruct cm; cbn in *; try discriminate; try contradiction; split; reflexivity).
  destruct E as [-> ->]. replace (c + 0 - 0) with c by lia. apply IH. exact Hc0.
Qed.

(* Swap: burns its inputs first, then signs at most their value *)
Lemma within_swap mem_ks active ins outs sg :
  Forall (fun x => 0 <= x < two64) (map b_amount outs) -> within 0 (swap mem_ks active ins outs sg).
Proof.
  intros Hu. unfold swap.
  destruct (amount_checked (map b_amount outs) 0) as [oa|] eqn:Eoa; [|cbn; split; [lia|exact I]].
  destruct (nodupb (map b_B outs)) eqn:Edo; cbn [negb]; [|cbn; split; [lia|exact I]].
  destruct (sum64 (map p_amount ins) <? tx_fees mem_ks ins) eqn:Ef; [cbn; split; [lia|exact I]|].
  destruct (sum64 (map p_amount ins) - tx_fees mem_ks ins <? oa) eqn:Ei; [cbn; split; [lia|exact I]|].
  assert (Hgate : swap_gate mem_ks ins outs <> None).
  { unfold swap_gate. rewrite Eoa, Edo. cbn [negb]. rewrite Ef, Ei. discriminate. }
  unfold verify_proofs. destruct ins as [|p0 ins']; [cbn; split; [lia|exact I]|]. set (ins := p0 :: ins') in *.
  cbn [bind within burn sign]. split; [lia|]. intros r1. replace (0 + 0 - 0) with 0 by lia.
  destruct r1 as [[|x xs]|]; cbn [bind fail within]; try (split; [lia|exact I]).
  split; [lia|]. intros r2. cbn [burn sign]. replace (0 + 0 - 0) with 0 by lia.
  destruct r2 as [[|y ys]|]; cbn [bind fail within]; try (split; [lia|exact I]).
  destruct (negb (nodupb (map p_secret ins))); cbn [bind fail within]; [split; [lia|exact I]|].
  destruct (check_proofs mem_ks ins) as [e|] eqn:Ecp; cbn [bind fail within]; [split; [lia|exact I]|].
  destruct (gate_balanced mem_ks ins outs Hgate Ecp Hu) as [Hin Hbal]. pose proof (tx_fees_nonneg mem_ks ins) as F0.
  split; [lia|]. intros r3. cbn [burn sign]. replace (0 + 0 - 0) with 0 by lia.
  destruct r3 as [[|z zs]|]; cbn [fail within]; try (split; [lia|exact I]).
  destruct (existsb p_sigall ins && negb sg); cbn [fail within]; [split; [lia|exact I]|].
  destruct (check_outputs mem_ks active outs); cbn [fail within]; [split; [lia|exact I]|].
  split; [lia|]. intros r4. cbn [burn sign]. unfold rows_val. rewrite tsum_to_row.
  destruct r4 as [u|]; cbn [fail within]; [|split; [lia|exact I]].
  split; [lia|]. intros r5. cbn [burn sign]. unfold sigs_val. rewrite tsum_sig_rows.
  destruct r5 as [u2|]; cbn [fail within]; (split; [lia|exact I]).
Qed.

(* the requests of a batch this file covers *)
Definition calm (o : op) : Prop :=
  match o with
  | OSwap _ outs _ => Forall (fun x => 0 <= x < two64) (map b_amount outs)
  | OMint _ _ _ | OMelt _ _ | OMeltState _ | OCheck _ => False
  | _ => True
  end.

Lemma within_op cfg mem_ks active o : calm o -> within 0 (op_prog cfg mem_ks active o).
Proof.
  intros Hc.
  assert (Hq : forall (a : cmd -> bool), only a (op_prog cfg mem_ks active o) ->
            (forall cm, a cm = true -> c_sigs cm = false /\ match cm with SaveProofs _ => False | _ => True end) ->
            within 0 (op_prog cfg mem_ks active o)).
  { intros a Ho Ha. apply (within_only a); [exact Ho|exact Ha|lia]. }
  destruct o; cbn [calm] in Hc; try contradiction; try (cbn [op_prog within]; split; [lia|exact I]).
  - apply (Hq (fp_op (OMintQuote unit_ok amount pubkey newid newhash))); [apply only_op|]. intros cm H; destruct cm; cbn in *; try discriminate; split; auto.
  - apply (Hq (fp_op (OMintState id))); [apply only_op|]. intros cm H; destruct cm; cbn in *; try discriminate; split; auto.
  - cbn [op_prog]. unfold lift. apply within_bind; [apply within_swap; exact Hc|]. intros x c' Hc'. cbn [within]. split; [exact Hc'|exact I].
  - apply (Hq (fp_op (OMeltQuote unit_ok decodes req h msat mpp newid))); [apply only_op|]. intros cm H; destruct cm; cbn in *; try discriminate; split; auto.
  - apply (Hq (fp_op (ORestore bs))); [apply only_op|]. intros cm H; destruct cm; cbn in *; try discriminate; split; auto.
  - apply (Hq (fp_op (ORotate fee))); [apply only_op|]. intros cm H; destruct cm; cbn in *; try discriminate; split; auto.
  - apply (Hq (fp_op (ORestart fee rotate))); [apply only_op|]. intros cm H; destruct cm; cbn in *; try discriminate; split; auto.
  - apply (Hq (fp_op (OWatcher id))); [apply only_op|]. intros cm H; destruct cm; cbn in *; try discriminate; split; auto.
  - apply (Hq (fp_op OBalance)); [apply only_op|]. intros cm H; destruct cm; cbn in *; try discriminate; split; auto.
  - apply (Hq (fp_op OInfo)); [apply only_op|]. intros cm H; destruct cm; cbn in *; try discriminate; split; auto.
Qed.

(* ---------- one turn of a thread, a whole schedule, the rest of the batch ---------- *)

Definition excess (w : world) : Z := vS w - vR w.

Lemma exec_excess c fault w : excess (fst (exec c fault w)) = excess w + sign c (snd (exec c fault w)) - burn c (snd (exec c fault w)).
Proof. unfold excess. destruct (exec_value c fault w) as [H1 H2]. rewrite H1, H2. lia. Qed.

Lemma step_thread_within (p : prog opres) : forall c w,
  within c p ->
  exists c', within c' (snd (step_thread p w)) /\ excess (fst (step_thread p w)) + c' = excess w + c.
Proof.
  induction p as [r|cm k IH|]; intros c w H; cbn [step_thread fst snd]; try (exists c; split; [exact H|reflexivity]).
  cbn [within] in H. destruct H as [H0 H].
  pose proof (exec_excess cm false w) as He. destruct (exec cm false w) as [w' r]. cbn [fst snd] in He. specialize (H r).
  destruct (is_call cm); cbn [fst snd].
  - exists (c + burn cm r - sign cm r). split; [exact H|lia].
  - destruct (IH r _ w' H) as [c' [Hw Hx]]. exists c'. split; [exact Hw|lia].
Qed.

Lemma run_within (p : prog opres) : forall c f w, within c p -> excess (fst (run p f w)) <= excess w + c.
Proof.
  induction p as [r|cm k IH|]; intros c f w H; cbn [run fst]; try (apply within_nonneg in H; lia).
  cbn [within] in H. destruct H as [H0 H].
  pose proof (exec_excess cm (f (w_calls w) && is_call cm) w) as He. destruct (exec cm (f (w_calls w) && is_call cm) w) as [w' r]. cbn [fst snd] in He.
  specialize (IH r _ f w' (H r)). lia.
Qed.

Inductive credits : list Z -> list (prog opres) -> Prop :=
| cr_nil : credits [] []
| cr_cons c p cs ts : within c p -> credits cs ts -> credits (c :: cs) (p :: ts).

Lemma credits_nth cs ts : credits cs ts -> forall i p, nth_error ts i = Some p -> exists c, nth_error cs i = Some c /\ within c p.
Proof.
  induction 1 as [|c p0 cs ts Hw Hc IH]; intros i p Hn; [destruct i; discriminate|].
  destruct i as [|i]; cbn [nth_error] in *; [injection Hn as <-; exists c; split; [reflexivity|exact Hw]|apply IH; exact Hn].
Qed.

Lemma credits_upd cs ts : credits cs ts -> forall i c c' p', nth_error cs i = Some c -> within c' p' ->
  credits (upd_nth i c' cs) (upd_nth i p' ts) /\ tsum (upd_nth i c' cs) = tsum cs - c + c'.
Proof.
  induction 1 as [|c0 p0 cs ts Hw Hc IH]; intros i c c' p' Hn Hw'; [destruct i; discriminate|].
  destruct i as [|i]; cbn [nth_error upd_nth] in *.
  - injection Hn as <-. split; [constructor; assumption|]. rewrite !tsum_cons. lia.
  - destruct (IH i c c' p' Hn Hw') as [H1 H2]. split; [constructor; assumption|]. rewrite !tsum_cons, H2. lia.
Qed.

Lemma credits_nonneg cs ts : credits cs ts -> 0 <= tsum cs.
Proof.
  induction 1 as [|c p cs ts Hw Hc IH]; [rewrite tsum_nil; lia|]. rewrite tsum_cons. apply within_nonneg in Hw. lia.
Qed.

(* at every point of every schedule: the excess plus the outstanding credits is what it was *)
Lemma interleave_within sched : forall ts w cs,
  credits cs ts ->
  exists cs', credits cs' (snd (interleave sched ts w)) /\ excess (fst (interleave sched ts w)) + tsum cs' = excess w + tsum cs.
Proof.
  induction sched as [|i r IH]; intros ts w cs Hc; cbn [interleave fst snd]; [exists cs; split; [exact Hc|reflexivity]|].
  destruct (nth_error ts i) as [p|] eqn:En; [|apply IH; exact Hc].
  destruct (credits_nth cs ts Hc i p En) as [c [Hn Hw]].
  destruct (step_thread_within p c w Hw) as [c' [Hw' Hx]].
  destruct (step_thread p w) as [w' p']. cbn [fst snd] in *.
  destruct (credits_upd cs ts Hc i c c' p' Hn Hw') as [Hc' Hs].
  destruct (IH (upd_nth i p' ts) w' (upd_nth i c' cs) Hc') as [cs' [H1 H2]].
  exists cs'. split; [exact H1|lia].
Qed.

Lemma finish_all_within ts : forall w cs, credits cs ts -> excess (fst (finish_all ts w)) <= excess w + tsum cs.
Proof.
  induction ts as [|p r IH]; intros w cs Hc; cbn [finish_all fst].
  - pose proof (credits_nonneg cs [] Hc). lia.
  - inversion Hc as [|c p0 cs0 ts0 Hw Hc0]; subst.
    pose proof (run_within p c no_fault w Hw) as Hr. destruct (run p no_fault w) as [w1 x]. cbn [fst] in Hr.
    specialize (IH w1 cs0 Hc0). destruct (finish_all r w1) as [w2 xs]. cbn [fst] in *. rewrite tsum_cons. lia.
Qed.

Lemma credits_zero cfg mem_ks active ops : Forall calm ops ->
  credits (map (fun _ => 0) ops) (map (op_prog cfg mem_ks active) ops) /\ tsum (map (fun _ : op => 0) ops) = 0.
Proof.
  induction 1 as [|o r Ho Hr IH]; cbn [map]; [split; [constructor|reflexivity]|].
  destruct IH as [H1 H2]. split; [constructor; [apply within_op; exact Ho|exact H1]|rewrite tsum_cons, H2; lia].
Qed.

(* C01/C02: any batch of swaps and non-value requests, any schedule - at every prefix of the schedule and at the end, the
   mint has not issued more than it has redeemed since the batch started *)
Theorem concurrent_swaps_never_inflate cfg w ops sched :
  Forall calm ops ->
  let w0 := reset_calls w in
  let ts := map (op_prog cfg (w_mem w0) (w_active w0)) ops in
  (forall k, vS (fst (interleave (firstn k sched) ts w0)) - vR (fst (interleave (firstn k sched) ts w0)) <= vS w - vR w) /\
  vS (fst (run_concurrent cfg w ops sched)) - vR (fst (run_concurrent cfg w ops sched)) <= vS w - vR w.
Proof.
  intros Hc. cbv zeta. destruct (credits_zero cfg (w_mem (reset_calls w)) (w_active (reset_calls w)) ops Hc) as [Hcr Hz].
  assert (E0 : excess (reset_calls w) = vS w - vR w) by reflexivity.
  split.
  - intros k. destruct (interleave_within (firstn k sched) _ (reset_calls w) _ Hcr) as [cs' [H1 H2]].
    pose proof (credits_nonneg _ _ H1). unfold excess in *. lia.
  - unfold run_concurrent.
    destruct (interleave_within sched _ (reset_calls w) _ Hcr) as [cs' [H1 H2]].
    destruct (interleave sched _ (reset_calls w)) as [w1 ts1]. cbn [fst snd] in *.
    pose proof (finish_all_within ts1 w1 cs' H1) as Hf. unfold excess in *. lia.
Qed.

(* ---------- non-vacuity: two swaps of the same proof and a quote request race; one swap wins, nothing is created ---------- *)

Definition cv_prefix : list hitem :=
  [ HNormal (ORestart 0 false);
    HNormal (OMintQuote true 64 0 101 102); HNormal (ESettle 102);
    HNormal (OMint 101 [mkBmsg 104 64 0 0 true 103] 0) ].
Definition cv_proof : proof := mkProof 103 64 0 (CSig 0 64 103) 0 false true false.
Definition cv_ops : list op :=
  [ OSwap [cv_proof] [mkBmsg 108 64 0 0 true 107] true; OSwap [cv_proof] [mkBmsg 110 32 0 0 true 109; mkBmsg 112 32 0 0 true 111] true;
    OMintQuote true 8 0 121 122 ].
Definition cv_sched : list nat := [0; 1; 2; 0; 1; 0; 1; 2; 1; 0; 0; 1; 1; 0]%nat.

Example concurrent_swaps_example :
  let cfg := mkCfg 0 0 0 false 1 in
  let w0 := hrun cfg world0 cv_prefix in
  Forall calm cv_ops /\
  let '(w, rs) := run_concurrent cfg w0 cv_ops cv_sched in
  (vS w0, vR w0) = (64, 0) /\ (vS w, vR w) = (128, 64) /\
  length (filter (fun r => match r with RSigs _ => true | _ => false end) rs) = 1%nat.
Proof.
  cbv zeta. split.
  - unfold cv_ops. repeat (constructor; [cbn; unfold two64; repeat constructor; lia|]). constructor.
  - vm_compute. repeat split.
Qed.

(* ---------- frames of a concurrent batch ---------- *)

Section ConcRel.
  Variable allowed : cmd -> bool.
  Variable Rel : world -> world -> Prop.
  Hypothesis Rel_refl : forall w, Rel w w.
  Hypothesis Rel_trans : forall a b c, Rel a b -> Rel b c -> Rel a c.
  Hypothesis Rel_exec : forall c fault w, allowed c = true -> Rel w (fst (exec c fault w)).

  Lemma interleave_only sched : forall ts w, Forall (only allowed) ts ->
    Rel w (fst (interleave sched ts w)) /\ Forall (only allowed) (snd (interleave sched ts w)).
  Proof.
    induction sched as [|i r IH]; intros ts w Ho; cbn [interleave fst snd]; [split; [apply Rel_refl|exact Ho]|].
    destruct (nth_error ts i) as [p|] eqn:En; [|apply IH; exact Ho].
    assert (Hp : only allowed p) by (rewrite Forall_forall in Ho; apply Ho; eapply nth_error_In; exact En).
    destruct (step_thread_only allowed Rel Rel_refl Rel_trans Rel_exec p Hp w) as [H1 H2].
    destruct (step_thread p w) as [w' p']. cbn [fst snd] in *.
    assert (Ho' : Forall (only allowed) (upd_nth i p' ts)).
    { clear - Ho H2. revert i. induction Ho as [|x l Hx Hl IHl]; intros i; [destruct i; constructor|].
      destruct i; cbn [upd_nth]; constructor; auto. }
    destruct (IH (upd_nth i p' ts) w' Ho') as [H3 H4]. split; [eapply Rel_trans; eassumption|exact H4].
  Qed.

  Lemma finish_all_only ts : forall w, Forall (only allowed) ts -> Rel w (fst (finish_all ts w)).
  Proof.
    induction ts as [|p r IH]; intros w Ho; cbn [finish_all fst]; [apply Rel_refl|].
    inversion Ho as [|? ? Hp Hr]; subst.
    pose proof (run_only allowed Rel Rel_refl Rel_trans Rel_exec p Hp no_fault w) as H1.
    destruct (run p no_fault w) as [w1 x]. cbn [fst] in H1.
    specialize (IH w1 Hr). destruct (finish_all r w1) as [w2 xs]. cbn [fst] in *. eapply Rel_trans; eassumption.
  Qed.

  Lemma run_concurrent_only cfg w ops sched :
    (forall o, In o ops -> forall c, fp_op o c = true -> allowed c = true) ->
    Rel (reset_calls w) (fst (run_concurrent cfg w ops sched)).
  Proof.
    intros Hops. unfold run_concurrent.
    assert (Ho : Forall (only allowed) (map (op_prog cfg (w_mem (reset_calls w)) (w_active (reset_calls w))) ops)).
    { apply Forall_forall. intros p Hp. apply in_map_iff in Hp as [o [<- Ho]].
      eapply only_weaken; [apply (Hops o Ho)|apply only_op]. }
    destruct (interleave_only sched _ (reset_calls w) Ho) as [H1 H2].
    destruct (interleave sched _ (reset_calls w)) as [w1 ts1]. cbn [fst snd] in *.
    eapply Rel_trans; [exact H1|apply finish_all_only; exact H2].
  Qed.
End ConcRel.

(* ---------- spent and pending stay disjoint under concurrent swaps ---------- *)

(* what a thread may assume about a response, given the (constant) set of locked secrets *)
Definition consistent (pend : list Z) (cm : cmd) : resp cm -> Prop :=
  match cm return resp cm -> Prop with
  | GetPending ys => fun r => r = ROk [] -> forall y, In y ys -> ~ In y pend
  | _ => fun _ => True
  end.

(* on every path whose responses are consistent: the thread never writes the pending table and only spends unlocked secrets *)
Fixpoint safe {R} (pend : list Z) (p : prog R) : Prop :=
  match p with
  | Do cm k =>
      match cm with
      | SaveProofs ps => forall y, In y (ys_of ps) -> ~ In y pend
      | AddPending _ | RemovePending _ => False
      | _ => True
      end /\ forall r, consistent pend cm r -> safe pend (k r)
  | _ => True
  end.

Lemma safe_bind {X Y} pend (p : prog X) (g : X -> prog Y) :
  safe pend p -> (forall x, safe pend (g x)) -> safe pend (bind p g).
Proof.
  induction p as [x|cm k IH|]; intros H Hg; cbn [bind safe] in *; [apply Hg| |exact I].
  destruct H as [H1 H2]. split; [exact H1|]. intros r Hr. apply IH; [apply H2; exact Hr|exact Hg].
Qed.

Lemma safe_only {R} allowed pend (p : prog R) :
  only allowed p -> (forall cm, allowed cm = true -> c_sp cm = false) -> safe pend p.
Proof.
  intros Ho Ha. induction Ho as [r| |cm k Hc Hk IH]; cbn [safe]; try exact I.
  split; [|intros r _; apply IH]. specialize (Ha cm Hc). destruct cm; cbn in Ha; try discriminate; exact I.
Qed.

Lemma safe_swap pend mem_ks active ins outs sg : safe pend (swap mem_ks active ins outs sg).
Proof.
  unfold swap.
  destruct (amount_checked _ _); [|exact I]. destruct (negb _); [exact I|].
  destruct (_ <? _); [exact I|]. destruct (_ <? _); [exact I|].
  unfold verify_proofs. destruct ins as [|p0 ins']; [exact I|]. set (ins := p0 :: ins') in *.
  cbn [bind safe]. split; [exact I|]. intros r1 Hr1.
  destruct r1 as [[|x xs]|]; cbn [bind fail safe]; try exact I.
  cbn [consistent] in Hr1. specialize (Hr1 eq_refl).
  split; [exact I|]. intros r2 _. destruct r2 as [[|y ys]|]; cbn [bind fail safe]; try exact I.
  destruct (negb _); cbn [bind fail safe]; [exact I|].
  destruct (check_proofs mem_ks ins); cbn [bind fail safe]; [exact I|].
  split; [exact I|]. intros r3 _. destruct r3 as [[|z0 zs]|]; cbn [fail safe]; try exact I.
  destruct (_ && _); cbn [fail safe]; [exact I|].
  destruct (check_outputs _ _ _); cbn [fail safe]; [exact I|].
  split.
  { intros y Hy. apply Hr1. unfold ys_of in Hy. rewrite map_map in Hy. exact Hy. }
  intros r4 _. destruct r4; cbn [fail safe]; [|exact I].
  split; [exact I|]. intros r5 _. destruct r5; exact I.
Qed.

(* a batch this section covers: swaps and pure reads *)
Definition swapish (o : op) : Prop :=
  match o with
  | OSwap _ outs _ => Forall (fun x => 0 <= x < two64) (map b_amount outs)
  | ORestore _ | OBalance | OInfo => True
  | _ => False
  end.

Lemma swapish_calm o : swapish o -> calm o.
Proof. destruct o; cbn; tauto. Qed.

Lemma safe_op pend cfg mem_ks active o : swapish o -> safe pend (op_prog cfg mem_ks active o).
Proof.
  intros Hs. destruct o; cbn [swapish] in Hs; try contradiction; cbn [op_prog]; unfold lift.
  - apply safe_bind; [apply safe_swap|intros x; exact I].
  - apply (safe_only (fp_op (ORestore bs))); [apply (only_op cfg mem_ks active (ORestore bs))|]. intros cm H; destruct cm; cbn in *; congruence.
  - apply (safe_only (fp_op OBalance)); [apply (only_op cfg mem_ks active OBalance)|]. intros cm H; destruct cm; cbn in *; congruence.
  - apply (safe_only (fp_op OInfo)); [apply (only_op cfg mem_ks active OInfo)|]. intros cm H; destruct cm; cbn in *; congruence.
Qed.

Definition dis_inv (pend : list Z) (w : world) : Prop :=
  ys_of (d_pending (w_db w)) = pend /\ Disjoint (w_db w).

(* one command of a safe thread: its response is consistent, the pending table is untouched, disjointness is kept *)
Lemma exec_safe pend cm (k : resp cm -> prog opres) fault w :
  safe pend (Do cm k) -> dis_inv pend w ->
  dis_inv pend (fst (exec cm fault w)) /\ safe pend (k (snd (exec cm fault w))).
Proof.
  intros [Hcm Hk] [Hp Hd].
  assert (Hcons : consistent pend cm (snd (exec cm fault w))).
  { destruct cm; cbn [consistent]; try exact I.
    unfold exec. destruct (fault && is_storage (GetPending ys)); cbn [snd fault_resp]; [discriminate|].
    cbn [is_call exec_db snd w_db]. intros E y Hy Hin. injection E as E.
    rewrite <- Hp in Hin. unfold ys_of in Hin. apply in_map_iff in Hin as [r [Hr Hin]].
    assert (Hf : In r (filter (fun r0 => mem (r_y r0) ys) (d_pending (w_db w)))).
    { apply filter_In. split; [exact Hin|]. apply mem_In. rewrite Hr. exact Hy. }
    rewrite E in Hf. destruct Hf. }
  split; [|apply Hk; exact Hcons].
  destruct (exec_world cm fault w) as [_ [_ [Hdb|[_ Hdb]]]]; unfold dis_inv; rewrite Hdb; [split; assumption|].
  destruct cm; try (destruct Hcm); cbn [exec_db fst];
    repeat match goal with |- context [if ?b then _ else _] => destruct b end;
    cbn [fst set_spent set_pending set_sigs set_mq set_lq set_ks d_spent d_pending]; try (split; assumption).
  (* SaveProofs *)
  split; [exact Hp|]. intros y Hy Hpe. cbn [set_spent d_spent d_pending] in Hy, Hpe. unfold ys_of in Hy. rewrite map_app in Hy. apply in_app_or in Hy as [Hy|Hy].
  - exact (Hd y Hy Hpe).
  - apply (Hcm y Hy). rewrite <- Hp. exact Hpe.
Qed.

Lemma step_thread_safe pend (p : prog opres) : forall w,
  safe pend p -> dis_inv pend w -> dis_inv pend (fst (step_thread p w)) /\ safe pend (snd (step_thread p w)).
Proof.
  induction p as [r|cm k IH|]; intros w Hs Hi; cbn [step_thread fst snd]; try (split; assumption).
  destruct (exec_safe pend cm k false w Hs Hi) as [H1 H2].
  destruct (exec cm false w) as [w' r]. cbn [fst snd] in *.
  destruct (is_call cm); cbn [fst snd]; [split; assumption|apply IH; assumption].
Qed.

Lemma run_safe pend (p : prog opres) : forall f w, safe pend p -> dis_inv pend w -> dis_inv pend (fst (run p f w)).
Proof.
  induction p as [r|cm k IH|]; intros f w Hs Hi; cbn [run fst]; try exact Hi.
  destruct (exec_safe pend cm k (f (w_calls w) && is_call cm) w Hs Hi) as [H1 H2].
  destruct (exec cm (f (w_calls w) && is_call cm) w) as [w' r]. cbn [fst snd] in *. apply IH; assumption.
Qed.

Lemma interleave_safe pend sched : forall ts w, Forall (safe pend) ts -> dis_inv pend w ->
  dis_inv pend (fst (interleave sched ts w)) /\ Forall (safe pend) (snd (interleave sched ts w)).
Proof.
  induction sched as [|i r IH]; intros ts w Hs Hi; cbn [interleave fst snd]; [split; assumption|].
  destruct (nth_error ts i) as [p|] eqn:En; [|apply IH; assumption].
  assert (Hp : safe pend p) by (rewrite Forall_forall in Hs; apply Hs; eapply nth_error_In; exact En).
  destruct (step_thread_safe pend p w Hp Hi) as [H1 H2].
  destruct (step_thread p w) as [w' p']. cbn [fst snd] in *.
  apply IH; [|exact H1].
  clear - Hs H2. revert i. induction Hs as [|x l Hx Hl IHl]; intros i; [destruct i; constructor|].
  destruct i; cbn [upd_nth]; constructor; auto.
Qed.

Lemma finish_all_safe pend ts : forall w, Forall (safe pend) ts -> dis_inv pend w -> dis_inv pend (fst (finish_all ts w)).
Proof.
  induction ts as [|p r IH]; intros w Hs Hi; cbn [finish_all fst]; [exact Hi|].
  inversion Hs as [|? ? Hp Hr]; subst.
  pose proof (run_safe pend p no_fault w Hp Hi) as H1. destruct (run p no_fault w) as [w1 x]. cbn [fst] in H1.
  specialize (IH w1 Hr H1). destruct (finish_all r w1) as [w2 xs]. exact IH.
Qed.

(* C01: a batch of concurrent swaps under any schedule keeps every key invariant and never spends a locked proof *)
Theorem concurrent_swaps_keep_good cfg w ops sched :
  Forall swapish ops -> Good w -> Good (fst (run_concurrent cfg w ops sched)).
Proof.
  intros Hs [Hi Hd]. split; [apply run_concurrent_inv; exact Hi|].
  set (pend := ys_of (d_pending (w_db w))).
  assert (H0 : dis_inv pend (reset_calls w)) by (split; [reflexivity|exact Hd]).
  assert (Hsafe : Forall (safe pend) (map (op_prog cfg (w_mem (reset_calls w)) (w_active (reset_calls w))) ops)).
  { apply Forall_forall. intros p Hp. apply in_map_iff in Hp as [o [<- Ho]]. apply safe_op. rewrite Forall_forall in Hs. apply Hs. exact Ho. }
  unfold run_concurrent.
  destruct (interleave_safe pend sched _ (reset_calls w) Hsafe H0) as [H1 H2].
  destruct (interleave sched _ (reset_calls w)) as [w1 ts1]. cbn [fst snd] in *.
  apply (finish_all_safe pend ts1 w1 H2 H1).
Qed.
