(* C01 / C03 under schedules: the two races of the code, exhibited on the model by computation.  The same schedules are
   run on the real mint by the c01-sched / c03-sched streams (known findings: there is no lock and no compare-and-set). *)
From Coq Require Import ZArith List Bool Lia.
From Verif Require Import Model Sem InvDb Cuts.
Import ListNotations.
Open Scope Z_scope.

Definition cfg1 : config := mkCfg 0 0 0 false 1.

(* 64 sat minted; a swap and a melt (20-sat invoice) of the same proof run concurrently *)
Definition race_prefix : list hitem :=
  [ HNormal (ORestart 0 false);
    HNormal (OMintQuote true 64 0 101 102); HNormal (ESettle 102);
    HNormal (OMint 101 [bm 104 64 103] 0);
    HNormal (OMeltQuote true true 106 106 20000 None 105) ].

Definition race_ops : list op := [ OSwap [pr 103 64] [bm 108 64 107] true; OMelt 105 [pr 103 64] ].
Definition race_sched : list nat := [1; 1; 1; 0; 0; 1; 1; 1; 0; 1; 0; 0; 1; 1]%nat.

(* the swap returns signatures for 64 sat AND the backend is asked to pay the invoice with the same proof as the only input:
   128 sat of signatures exist, 64 sat were redeemed, 64 sat came in, and a payment went out *)
Example swap_melt_race :
  let w0 := hrun cfg1 world0 race_prefix in
  let '(w, rs) := run_concurrent cfg1 w0 race_ops race_sched in
  (exists sigs, nth_error rs 0 = Some (RSigs sigs) /\ sigs <> []) /\
  length (l_calls (w_ln w)) = 1%nat /\ issuedZ w = 128 /\ redeemedZ w = 64.
Proof. vm_compute. split; [eexists; split; [reflexivity|discriminate]|repeat split]. Qed.

(* two MintTokens with different outputs on one PAID 8-sat quote: both read PAID before either writes PENDING *)
Definition mint_race_prefix : list hitem :=
  [ HNormal (ORestart 0 false);
    HNormal (OMintQuote true 8 0 101 102); HNormal (ESettle 102); HNormal (OMintState 101) ].
Definition mint_race_ops : list op := [ OMint 101 [bm 104 8 103] 0; OMint 101 [bm 106 8 105] 0 ].
Definition mint_race_sched : list nat := [1; 0; 1; 0; 1; 1; 0; 0; 0; 0; 1; 1]%nat.

Example mint_mint_race :
  let w0 := hrun cfg1 world0 mint_race_prefix in
  let '(w, rs) := run_concurrent cfg1 w0 mint_race_ops mint_race_sched in
  issuedZ w = 16 /\ map mq_amount (d_mq (w_db w)) = [8] /\
  (exists a b, rs = [RSigs a; RSigs b] /\ a <> [] /\ b <> []).
Proof. vm_compute. split; [reflexivity|]. split; [reflexivity|]. eexists _, _. split; [reflexivity|split; discriminate]. Qed.
