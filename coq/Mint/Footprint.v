(* Footprints: which storage/Lightning commands a program can issue, on every path and for every
   response (so: under every fault oracle, at every crash cut and under every interleaving), and
   what that implies for the tables it leaves untouched. *)
From Coq Require Import ZArith List Bool Lia.
From Verif Require Import Model Sem InvDb InvSwap.
Import ListNotations.
Open Scope Z_scope.

Inductive only {R} (allowed : cmd -> bool) : prog R -> Prop :=
| only_ret r : only allowed (Ret r)
| only_panic : only allowed Panic
| only_do c k : allowed c = true -> (forall r, only allowed (k r)) -> only allowed (Do c k).

Lemma only_bind {X Y} allowed (p : prog X) (f : X -> prog Y) :
  only allowed p -> (forall x, only allowed (f x)) -> only allowed (bind p f).
Proof.
  intros Hp Hf. induction Hp as [r| |c k Hc Hk IH]; cbn [bind]; [apply Hf|constructor|].
  constructor; [exact Hc|]. intros r. apply IH.
Qed.

Lemma only_weaken {R} (a b : cmd -> bool) (p : prog R) :
  (forall c, a c = true -> b c = true) -> only a p -> only b p.
Proof.
  intros Hab Hp. induction Hp as [r| |c k Hc Hk IH]; constructor; auto.
Qed.

(* a relation between worlds that every allowed command respects is respected by the whole run *)
Section Preserve.
  Variable allowed : cmd -> bool.
  Variable Rel : world -> world -> Prop.
  Hypothesis Rel_refl : forall w, Rel w w.
  Hypothesis Rel_trans : forall a b c, Rel a b -> Rel b c -> Rel a c.
  Hypothesis Rel_exec : forall c fault w, allowed c = true -> Rel w (fst (exec c fault w)).

  Lemma run_only {R} (p : prog R) : only allowed p -> forall f w, Rel w (fst (run p f w)).
  Proof.
    intros Hp. induction Hp as [r| |c k Hc Hk IH]; intros f w; cbn [run fst]; try apply Rel_refl.
    destruct (exec c (f (w_calls w) && is_call c) w) as [w' r] eqn:E.
    eapply Rel_trans; [|apply IH]. change w' with (fst (w', r)). rewrite <- E. apply Rel_exec. exact Hc.
  Qed.

  Lemma run_n_only {R} (p : prog R) : only allowed p -> forall n f w, Rel w (fst (run_n n p f w)).
  Proof.
    intros Hp. induction Hp as [r| |c k Hc Hk IH]; intros n f w; cbn [run_n fst]; try apply Rel_refl.
    destruct (is_call c).
    - destruct n as [|n']; [apply Rel_refl|].
      destruct (exec c (f (w_calls w)) w) as [w' r] eqn:E.
      eapply Rel_trans; [|apply IH]. change w' with (fst (w', r)). rewrite <- E. apply Rel_exec. exact Hc.
    - destruct (exec c false w) as [w' r] eqn:E.
      eapply Rel_trans; [|apply IH]. change w' with (fst (w', r)). rewrite <- E. apply Rel_exec. exact Hc.
  Qed.

  Lemma step_thread_only (p : prog opres) : only allowed p -> forall w,
    Rel w (fst (step_thread p w)) /\ only allowed (snd (step_thread p w)).
  Proof.
    intros Hp. induction Hp as [r| |c k Hc Hk IH]; intros w; cbn [step_thread fst snd];
      try (split; [apply Rel_refl|constructor]).
    destruct (exec c false w) as [w' r] eqn:E.
    assert (Hw : Rel w w') by (change w' with (fst (w', r)); rewrite <- E; apply Rel_exec; exact Hc).
    destruct (is_call c); cbn [fst snd].
    - split; [exact Hw|apply Hk].
    - destruct (IH r w') as [H1 H2]. split; [eapply Rel_trans; eassumption|exact H2].
  Qed.
End Preserve.

(* ------------------------------------------------------------------ command classes *)

Definition c_reads (c : cmd) : bool :=
  match c with
  | GetPending _ | GetUsed _ | GetPendingByQuote _ | GetSigs _ | GetSig _ | GetMintQuote _ | GetMintQuoteByHash _
  | GetMeltQuote _ | GetMeltQuoteByReq _ | GetIssued | GetRedeemed | GetKeysets | GetSeed => true
  | _ => false
  end.

Definition c_ln (c : cmd) : bool :=
  match c with LnCreateInvoice _ _ | LnInvoiceStatus _ | LnPay _ _ _ _ _ | LnLookup _ => true | _ => false end.

Definition c_sp (c : cmd) : bool := match c with SaveProofs _ | AddPending _ | RemovePending _ => true | _ => false end.
Definition c_sigs (c : cmd) : bool := match c with SaveSigs _ => true | _ => false end.
Definition c_mq (c : cmd) : bool := match c with SaveMintQuote _ | UpdateMintQuote _ _ => true | _ => false end.
Definition c_lq (c : cmd) : bool := match c with SaveMeltQuote _ | UpdateMeltQuote _ _ _ => true | _ => false end.
Definition c_ks (c : cmd) : bool := match c with SaveKeyset _ | UpdateKeysetActive _ _ | MemSetKeysets _ _ => true | _ => false end.

(* relations: "these tables are the same" *)
Definition same_sp (w w' : world) : Prop :=
  d_spent (w_db w') = d_spent (w_db w) /\ d_pending (w_db w') = d_pending (w_db w).
Definition same_sigs (w w' : world) : Prop := d_sigs (w_db w') = d_sigs (w_db w).
Definition same_mq (w w' : world) : Prop := d_mq (w_db w') = d_mq (w_db w).
Definition same_lq (w w' : world) : Prop := d_lq (w_db w') = d_lq (w_db w).
Definition same_ks (w w' : world) : Prop :=
  d_ks (w_db w') = d_ks (w_db w) /\ w_mem w' = w_mem w /\ w_active w' = w_active w.
Definition same_lnw (w w' : world) : Prop := w_ln w' = w_ln w.
Definition same_db (w w' : world) : Prop := w_db w' = w_db w.

Lemma exec_world c fault w :
  let w' := fst (exec c fault w) in
  (c_ln c = false -> w_ln w' = w_ln w) /\
  ((match c with MemSetKeysets _ _ => false | _ => true end) = true -> w_mem w' = w_mem w /\ w_active w' = w_active w) /\
  (w_db w' = w_db w \/ (c_ln c = false /\ w_db w' = fst (exec_db c (w_db w)))).
Proof.
  cbv zeta. unfold exec. destruct (fault && is_storage c) eqn:Ef; cbn [fst].
  { destruct (is_call c); cbn [w_ln w_mem w_active w_db]; (split; [intros _; reflexivity|]); (split; [intros _; split; reflexivity|]);
      left; reflexivity. }
  assert (Hdb : forall c0 : cmd, c_ln c0 = false ->
            let w1 := if is_call c0 then mkWorld (w_db w) (w_ln w) (w_mem w) (w_active w) (w_calls w + 1) else w in
            forall X : world * resp c0,
            X = (let '(d, r) := exec_db c0 (w_db w1) in (mkWorld d (w_ln w1) (w_mem w1) (w_active w1) (w_calls w1), r)) ->
            (c_ln c0 = false -> w_ln (fst X) = w_ln w) /\
            (w_mem (fst X) = w_mem w /\ w_active (fst X) = w_active w) /\
            (c_ln c0 = false /\ w_db (fst X) = fst (exec_db c0 (w_db w)))).
  { intros c0 Hc0 w1 X ->. assert (Hw1 : w_db w1 = w_db w /\ w_ln w1 = w_ln w /\ w_mem w1 = w_mem w /\ w_active w1 = w_active w).
    { unfold w1. destruct (is_call c0); cbn [w_db w_ln w_mem w_active]; repeat split. }
    destruct Hw1 as [H1 [H2 [H3 H4]]]. rewrite H1. destruct (exec_db c0 (w_db w)) as [d r].
    cbn [fst w_ln w_mem w_active w_db]. repeat split; auto. }
  destruct c;
    try (match goal with |- context [exec_db ?c0 _] =>
           destruct (Hdb c0 eq_refl _ eq_refl) as [A1 [A2 A3]]; split; [exact A1|]; split; [intros _; exact A2|]; right; exact A3
         end).
  - (* MemSetKeysets *)
    cbn [is_call fst w_ln w_mem w_active w_db c_ln]. split; [intros _; reflexivity|]. split; [discriminate|]. left. reflexivity.
  - cbn [is_call c_ln]. split; [discriminate|]. split; [intros _|left].
    + destruct (l_createerr _ || _); cbn [fst w_mem w_active set_ln]; split; reflexivity.
    + destruct (l_createerr _ || _); cbn [fst w_db set_ln]; reflexivity.
  - cbn [is_call c_ln]. split; [discriminate|]. split; [intros _|left].
    + destruct (l_inverr _); [cbn [fst w_mem w_active]; split; reflexivity|]. destruct (find _ _); cbn [fst w_mem w_active]; split; reflexivity.
    + destruct (l_inverr _); [reflexivity|]. destruct (find _ _); reflexivity.
  - cbn [is_call c_ln]. split; [discriminate|]. destruct (pop _ _ _) as [a rest]. cbn [fst w_mem w_active w_db set_ln].
    split; [intros _; split; reflexivity|left; reflexivity].
  - cbn [is_call c_ln]. split; [discriminate|]. destruct (pop _ _ _) as [a rest]. cbn [fst w_mem w_active w_db set_ln].
    split; [intros _; split; reflexivity|left; reflexivity].
Qed.

Lemma exec_db_frames c d :
  let d' := fst (exec_db c d) in
  (c_sp c = false -> d_spent d' = d_spent d /\ d_pending d' = d_pending d) /\
  (c_sigs c = false -> d_sigs d' = d_sigs d) /\
  (c_mq c = false -> d_mq d' = d_mq d) /\
  (c_lq c = false -> d_lq d' = d_lq d) /\
  (c_ks c = false -> d_ks d' = d_ks d).
Proof.
  destruct c; cbn [exec_db fst c_sp c_sigs c_mq c_lq c_ks];
    repeat match goal with |- context [if ?b then _ else _] => destruct b end;
    cbn [fst set_spent set_pending set_sigs set_mq set_lq set_ks d_spent d_pending d_sigs d_mq d_lq d_ks];
    repeat split; auto; discriminate.
Qed.

Section Frames.
  Variable allowed : cmd -> bool.

  Lemma frame_sp {R} (p : prog R) : only allowed p -> (forall c, allowed c = true -> c_sp c = false) ->
    forall f w, same_sp w (fst (run p f w)).
  Proof.
    intros Hp Ha. apply (run_only allowed same_sp); [intros w0; split; reflexivity| | |assumption].
    - intros a b c [H1 H2] [H3 H4]. split; congruence.
    - intros c fault w Hc. destruct (exec_world c fault w) as [_ [_ [Hd|[_ Hd]]]]; unfold same_sp; rewrite Hd; [split; reflexivity|].
      apply exec_db_frames. apply Ha. exact Hc.
  Qed.

  Lemma frame_sigs {R} (p : prog R) : only allowed p -> (forall c, allowed c = true -> c_sigs c = false) ->
    forall f w, same_sigs w (fst (run p f w)).
  Proof.
    intros Hp Ha. apply (run_only allowed same_sigs); [intros w0; reflexivity| | |assumption].
    - unfold same_sigs. intros a b c H1 H2. congruence.
    - intros c fault w Hc. destruct (exec_world c fault w) as [_ [_ [Hd|[_ Hd]]]]; unfold same_sigs; rewrite Hd; [reflexivity|].
      apply exec_db_frames. apply Ha. exact Hc.
  Qed.

  Lemma frame_mq {R} (p : prog R) : only allowed p -> (forall c, allowed c = true -> c_mq c = false) ->
    forall f w, same_mq w (fst (run p f w)).
  Proof.
    intros Hp Ha. apply (run_only allowed same_mq); [intros w0; reflexivity| | |assumption].
    - unfold same_mq. intros a b c H1 H2. congruence.
    - intros c fault w Hc. destruct (exec_world c fault w) as [_ [_ [Hd|[_ Hd]]]]; unfold same_mq; rewrite Hd; [reflexivity|].
      apply exec_db_frames. apply Ha. exact Hc.
  Qed.

  Lemma frame_lq {R} (p : prog R) : only allowed p -> (forall c, allowed c = true -> c_lq c = false) ->
    forall f w, same_lq w (fst (run p f w)).
  Proof.
    intros Hp Ha. apply (run_only allowed same_lq); [intros w0; reflexivity| | |assumption].
    - unfold same_lq. intros a b c H1 H2. congruence.
    - intros c fault w Hc. destruct (exec_world c fault w) as [_ [_ [Hd|[_ Hd]]]]; unfold same_lq; rewrite Hd; [reflexivity|].
      apply exec_db_frames. apply Ha. exact Hc.
  Qed.

  Lemma frame_ks {R} (p : prog R) : only allowed p -> (forall c, allowed c = true -> c_ks c = false) ->
    forall f w, same_ks w (fst (run p f w)).
  Proof.
    intros Hp Ha. apply (run_only allowed same_ks); [intros w0; repeat split| | |assumption].
    - unfold same_ks. intros a b c [H1 [H2 H3]] [H4 [H5 H6]]. repeat split; congruence.
    - intros c fault w Hc. specialize (Ha c Hc).
      destruct (exec_world c fault w) as [_ [Hm Hd]]. unfold same_ks.
      assert (Hmm : w_mem (fst (exec c fault w)) = w_mem w /\ w_active (fst (exec c fault w)) = w_active w).
      { apply Hm. destruct c; try reflexivity. discriminate. }
      destruct Hd as [Hd|[_ Hd]]; rewrite Hd; [tauto|]. split; [|exact Hmm]. apply exec_db_frames. exact Ha.
  Qed.

  Lemma frame_ln {R} (p : prog R) : only allowed p -> (forall c, allowed c = true -> c_ln c = false) ->
    forall f w, same_lnw w (fst (run p f w)).
  Proof.
    intros Hp Ha. apply (run_only allowed same_lnw); [intros w0; reflexivity| | |assumption].
    - unfold same_lnw. intros a b c H1 H2. congruence.
    - intros c fault w Hc. destruct (exec_world c fault w) as [Hl _]. apply Hl. apply Ha. exact Hc.
  Qed.
End Frames.

(* ------------------------------------------------------------------ the footprint of every operation *)

Ltac fp :=
  repeat first
    [ apply only_ret | apply only_panic
    | (apply only_do; [reflexivity | intro])
    | (apply only_bind; [|intro])
    | match goal with |- only _ (match ?x with _ => _ end) => destruct x end
    | match goal with |- only _ (if ?x then _ else _) => destruct x end
    | progress (cbn [fail lift]) ].

Definition fp_verify (c : cmd) : bool := match c with GetPending _ | GetUsed _ => true | _ => false end.
Lemma only_verify mem_ks ins : only fp_verify (verify_proofs mem_ks ins).
Proof. unfold verify_proofs. fp. Qed.

Definition fp_swap (c : cmd) : bool :=
  match c with GetPending _ | GetUsed _ | GetSigs _ | SaveProofs _ | SaveSigs _ => true | _ => false end.
Lemma only_swap mem_ks active ins outs sg : only fp_swap (swap mem_ks active ins outs sg).
Proof.
  unfold swap. fp.
  all: try (eapply only_weaken; [|apply only_verify]; intros c; destruct c; cbn; congruence).
Qed.

Definition fp_balance (c : cmd) : bool := match c with GetIssued | GetRedeemed | GetSeed => true | _ => false end.
Lemma only_balance : only fp_balance total_balance.
Proof. unfold total_balance. fp. Qed.

Definition fp_mint_quote (c : cmd) : bool :=
  match c with GetIssued | GetRedeemed | LnCreateInvoice _ _ | SaveMintQuote _ => true | _ => false end.
Lemma only_request_mint_quote cfg u a pk id h : only fp_mint_quote (request_mint_quote cfg u a pk id h).
Proof.
  unfold request_mint_quote. fp.
  all: try (eapply only_weaken; [|apply only_balance]; intros c; destruct c; cbn; congruence).
Qed.

Definition fp_mint_state (c : cmd) : bool :=
  match c with GetMintQuote _ | LnInvoiceStatus _ | UpdateMintQuote _ _ => true | _ => false end.
Lemma only_mint_state id : only fp_mint_state (get_mint_quote_state id).
Proof. unfold get_mint_quote_state. fp. Qed.

Lemma only_watcher id : only fp_mint_state (watcher_fire id).
Proof. unfold watcher_fire. fp. Qed.

Definition fp_mint (c : cmd) : bool :=
  match c with GetMintQuote _ | LnInvoiceStatus _ | UpdateMintQuote _ _ | GetSigs _ | SaveSigs _ => true | _ => false end.
Lemma only_mint mem_ks active id outs sig : only fp_mint (mint_tokens mem_ks active id outs sig).
Proof.
  unfold mint_tokens. apply only_bind.
  - eapply only_weaken; [|apply only_mint_state]. intros c; destruct c; cbn; congruence.
  - intros g. fp.
Qed.

Definition fp_melt_quote (c : cmd) : bool :=
  match c with GetMintQuoteByHash _ | GetMeltQuoteByReq _ | SaveMeltQuote _ => true | _ => false end.
Lemma only_request_melt_quote cfg u d req h msat mpp id : only fp_melt_quote (request_melt_quote cfg u d req h msat mpp id).
Proof. unfold request_melt_quote. fp. Qed.

Definition fp_poll (c : cmd) : bool :=
  match c with
  | GetMeltQuote _ | LnLookup _ | GetPendingByQuote _ | RemovePending _ | SaveProofs _ | UpdateMeltQuote _ _ _ => true
  | _ => false
  end.
Lemma only_poll id : only fp_poll (get_melt_quote_state id).
Proof. unfold get_melt_quote_state, remove_pending_for_quote. fp. Qed.

Definition fp_melt (c : cmd) : bool :=
  match c with
  | GetMeltQuote _ | GetPending _ | GetUsed _ | AddPending _ | UpdateMeltQuote _ _ _ | GetMintQuoteByHash _
  | LnInvoiceStatus _ | UpdateMintQuote _ _ | RemovePending _ | SaveProofs _ | LnPay _ _ _ _ _ | LnLookup _ => true
  | _ => false
  end.
Lemma only_melt cfg mem_ks id ins : only fp_melt (melt_tokens cfg mem_ks id ins).
Proof.
  unfold melt_tokens, finish_paid, settle_proofs, release. fp.
  all: try (eapply only_weaken; [|apply only_verify]; intros c; destruct c; cbn; congruence).
Qed.

Definition fp_check (c : cmd) : bool :=
  match c with
  | GetPending _ | GetUsed _ | GetMeltQuote _ | LnLookup _ | GetPendingByQuote _ | RemovePending _ | SaveProofs _
  | UpdateMeltQuote _ _ _ => true
  | _ => false
  end.
Lemma only_for_each {X} allowed (l : list X) (f : X -> prog (result unit)) :
  (forall x, only allowed (f x)) -> only allowed (for_each l f).
Proof.
  intros Hf. induction l as [|x r IH]; cbn [for_each]; [constructor|].
  apply only_bind; [apply Hf|]. intros v. destruct v; [exact IH|constructor].
Qed.
Lemma only_check ys : only fp_check (proofs_state_check ys).
Proof.
  unfold proofs_state_check. apply only_do; [reflexivity|]. intros r. destruct r as [pend|]; [|constructor].
  apply only_bind.
  - apply only_for_each. intros q. apply only_bind.
    + eapply only_weaken; [|apply only_poll]. intros c; destruct c; cbn; congruence.
    + intros g. destruct g; constructor.
  - intros v. fp.
Qed.

Definition fp_restore (c : cmd) : bool := match c with GetSig _ => true | _ => false end.
Lemma only_restore bs : forall acc, only fp_restore (restore_sigs bs acc).
Proof.
  induction bs as [|b r IH]; intros acc; cbn [restore_sigs]; [constructor|].
  apply only_do; [reflexivity|]. intros s. destruct s as [[row|]|]; [apply IH|apply IH|constructor].
Qed.

Definition fp_rotate (c : cmd) : bool :=
  match c with GetSeed | GetKeysets | MemSetKeysets _ _ | UpdateKeysetActive _ _ | SaveKeyset _ => true | _ => false end.
Lemma only_rotate mem_ks active fee : only fp_rotate (rotate_keyset mem_ks active fee).
Proof. unfold rotate_keyset. fp. Qed.
Lemma only_load fee rot : only fp_rotate (load_mint fee rot).
Proof.
  unfold load_mint. fp.
  all: try apply only_rotate.
Qed.

Lemma only_info cfg : only fp_balance (info_disabled cfg).
Proof.
  unfold info_disabled. apply only_do; [reflexivity|]. intros sd. destruct sd; [|constructor].
  apply only_bind; [apply only_balance|]. intros b. destruct b; constructor.
Qed.

(* the footprint of a whole request *)
Definition fp_op (o : op) : cmd -> bool :=
  match o with
  | OMintQuote _ _ _ _ _ => fp_mint_quote
  | OMintState _ | OWatcher _ => fp_mint_state
  | OMint _ _ _ => fp_mint
  | OSwap _ _ _ => fp_swap
  | OMeltQuote _ _ _ _ _ _ _ => fp_melt_quote
  | OMeltState _ => fp_poll
  | OMelt _ _ => fp_melt
  | OCheck _ => fp_check
  | ORestore _ => fp_restore
  | ORotate _ | ORestart _ _ => fp_rotate
  | OBalance | OInfo => fp_balance
  | _ => fun _ => false
  end.

Theorem only_op cfg mem_ks active o : only (fp_op o) (op_prog cfg mem_ks active o).
Proof.
  destruct o; cbn [op_prog fp_op]; unfold lift;
    try (apply only_bind; [|intros r; constructor]); try apply only_ret.
  - apply only_request_mint_quote.
  - apply only_mint_state.
  - apply only_mint.
  - apply only_swap.
  - apply only_request_melt_quote.
  - apply only_poll.
  - apply only_melt.
  - apply only_check.
  - apply only_restore.
  - apply only_rotate.
  - apply only_load.
  - apply only_watcher.
  - apply only_balance.
  - apply only_info.
Qed.
