(* C06 over the model: no request program has a reachable Panic leaf (whatever the store and the backend answer, whatever
   faults are injected), and a request that is refused in a fault-free run leaves every table as it was - up to the lazily
   recorded payment of a settled quote, which is what a state poll would have reported anyway. *)
From Coq Require Import ZArith List Bool Lia.
From Verif Require Import Model Sem InvDb InvSwap InvMint InvMelt Corollaries Queries Footprint Global GlobalQuote GlobalValue.
Import ListNotations.
Open Scope Z_scope.

Inductive nopanic {R} : prog R -> Prop :=
| np_ret r : nopanic (Ret r)
| np_do c k : (forall r, nopanic (k r)) -> nopanic (Do c k).

Lemma nopanic_bind {X Y} (p : prog X) (f : X -> prog Y) : nopanic p -> (forall x, nopanic (f x)) -> nopanic (bind p f).
Proof. intros Hp Hf. induction Hp as [r|c k Hk IH]; cbn [bind]; [apply Hf|constructor; exact IH]. Qed.

Lemma nopanic_run {R} (p : prog R) : nopanic p -> forall f w, snd (run p f w) <> Panicked.
Proof.
  intros Hp. induction Hp as [r|c k Hk IH]; intros f w; cbn [run snd]; [discriminate|].
  destruct (exec c (f (w_calls w) && is_call c) w) as [w' r]. apply IH.
Qed.

Lemma nopanic_run_n {R} (p : prog R) : nopanic p -> forall n f w, snd (run_n n p f w) <> Panicked.
Proof.
  intros Hp. induction Hp as [r|c k Hk IH]; intros n f w; cbn [run_n snd]; [discriminate|].
  destruct (is_call c).
  - destruct n as [|n']; [discriminate|]. destruct (exec c (f (w_calls w)) w) as [w' r]. apply IH.
  - destruct (exec c false w) as [w' r]. apply IH.
Qed.

Ltac np :=
  repeat first
    [ apply np_ret
    | (apply np_do; intro)
    | (apply nopanic_bind; [|intro])
    | match goal with |- nopanic (match ?x with _ => _ end) => destruct x end
    | match goal with |- nopanic (if ?x then _ else _) => destruct x end
    | progress (cbn [fail lift]) ].

Lemma np_verify mem_ks ins : nopanic (verify_proofs mem_ks ins).
Proof. unfold verify_proofs. np. Qed.
Lemma np_swap mem_ks active ins outs sg : nopanic (swap mem_ks active ins outs sg).
Proof. unfold swap. np. all: apply np_verify. Qed.
Lemma np_balance : nopanic total_balance.
Proof. unfold total_balance. np. Qed.
Lemma np_mint_quote cfg u a pk id h : nopanic (request_mint_quote cfg u a pk id h).
Proof. unfold request_mint_quote. np. all: apply np_balance. Qed.
Lemma np_mint_state id : nopanic (get_mint_quote_state id).
Proof. unfold get_mint_quote_state. np. Qed.
Lemma np_watcher id : nopanic (watcher_fire id).
Proof. unfold watcher_fire. np. Qed.
Lemma np_mint mem_ks active id outs sig : nopanic (mint_tokens mem_ks active id outs sig).
Proof. unfold mint_tokens. apply nopanic_bind; [apply np_mint_state|]. intros g. np. Qed.
Lemma np_melt_quote cfg u d req h msat mpp id : nopanic (request_melt_quote cfg u d req h msat mpp id).
Proof. unfold request_melt_quote. np. Qed.
Lemma np_poll id : nopanic (get_melt_quote_state id).
Proof. unfold get_melt_quote_state, remove_pending_for_quote. np. Qed.
Lemma np_melt cfg mem_ks id ins : nopanic (melt_tokens cfg mem_ks id ins).
Proof. unfold melt_tokens, finish_paid, settle_proofs, release. np. all: apply np_verify. Qed.
Lemma np_for_each {X} (l : list X) (f : X -> prog (result unit)) : (forall x, nopanic (f x)) -> nopanic (for_each l f).
Proof.
  intros Hf. induction l as [|x r IH]; cbn [for_each]; [constructor|].
  apply nopanic_bind; [apply Hf|]. intros v. destruct v; [exact IH|constructor].
Qed.
Lemma np_check ys : nopanic (proofs_state_check ys).
Proof.
  unfold proofs_state_check. apply np_do. intros r. destruct r as [pend|]; [|constructor].
  apply nopanic_bind.
  - apply np_for_each. intros q. apply nopanic_bind; [apply np_poll|]. intros g. destruct g; constructor.
  - intros v. np.
Qed.
Lemma np_restore bs : forall acc, nopanic (restore_sigs bs acc).
Proof.
  induction bs as [|b r IH]; intros acc; cbn [restore_sigs]; [constructor|].
  apply np_do. intros s. destruct s as [[row|]|]; [apply IH|apply IH|constructor].
Qed.
Lemma np_info cfg : nopanic (info_disabled cfg).
Proof.
  unfold info_disabled. apply np_do. intros sd. destruct sd; [|constructor].
  apply nopanic_bind; [apply np_balance|]. intros b. destruct b; constructor.
Qed.

(* every request except a rotation or a (re)start: no Panic leaf is reachable, for any store contents, any backend answers,
   any injected storage error and at any crash cut *)
Theorem request_never_panics cfg mem_ks active o :
  match o with ORotate _ | ORestart _ _ => False | _ => True end ->
  nopanic (op_prog cfg mem_ks active o).
Proof.
  intros Hk. destruct o; try (destruct Hk); cbn [op_prog]; unfold lift;
    try (apply nopanic_bind; [|intros r; constructor]); try apply np_ret.
  - apply np_mint_quote.
  - apply np_mint_state.
  - apply np_mint.
  - apply np_swap.
  - apply np_melt_quote.
  - apply np_poll.
  - apply np_melt.
  - apply np_check.
  - apply np_restore.
  - apply np_watcher.
  - apply np_balance.
  - apply np_info.
Qed.

Corollary request_run_never_panics cfg mem_ks active o :
  match o with ORotate _ | ORestart _ _ => False | _ => True end ->
  (forall f w, snd (run (op_prog cfg mem_ks active o) f w) <> Panicked) /\
  (forall n f w, snd (run_n n (op_prog cfg mem_ks active o) f w) <> Panicked).
Proof.
  intros Hk. pose proof (request_never_panics cfg mem_ks active o Hk) as H.
  split; [apply nopanic_run; exact H|intros n; apply nopanic_run_n; exact H].
Qed.

(* ---------- a refused request changes nothing ---------- *)

(* the only thing a refusal may leave behind: an UNPAID quote whose invoice the backend reports settled is recorded as PAID *)
Definition quiet (w w' : world) : Prop :=
  d_spent (w_db w') = d_spent (w_db w) /\ d_pending (w_db w') = d_pending (w_db w) /\
  d_sigs (w_db w') = d_sigs (w_db w) /\ d_lq (w_db w') = d_lq (w_db w) /\ d_ks (w_db w') = d_ks (w_db w) /\
  (d_mq (w_db w') = d_mq (w_db w) \/
   exists id q, find_mq id (d_mq (w_db w)) = Some q /\ (mq_state q = 1 \/ (mq_state q = 0 /\ settled w (mq_hash q) = true)) /\
                d_mq (w_db w') = upd_mq id 1 (d_mq (w_db w))).

Lemma quiet_db w w' : w_db w' = w_db w -> quiet w w'.
Proof. intros H. unfold quiet. rewrite H. repeat split. left. reflexivity. Qed.

Ltac finq := let H := fresh in intros H; inversion H; subst; first [reflexivity | assumption | (cbn [w_db] in *; congruence)].

Lemma mint_quote_err_quiet cfg u a pk id h w w' e :
  run (request_mint_quote cfg u a pk id h) no_fault w = (w', Done (Err e)) -> w_db w' = w_db w.
Proof.
  unfold request_mint_quote. destruct u; cbn [negb]; [|finq].
  destruct (pk <? 0); [finq|].
  destruct ((0 <? c_max_mint cfg) && (c_max_mint cfg <? a)); [finq|].
  rewrite run_bind.
  assert (Hb : exists wb rb, run (if 0 <? c_max_balance cfg then total_balance else Ret (Ok 0)) no_fault w = (wb, Done rb) /\ same_but_calls w wb).
  { destruct (0 <? c_max_balance cfg).
    - unfold total_balance. destruct w as [d l m ac n]. sx.
      destruct (sum_view _); sx; [|eexists _, _; split; [reflexivity|repeat split]].
      destruct (sum_view _); sx; eexists _, _; (split; [reflexivity|repeat split]).
    - eexists _, _. split; [reflexivity|apply sbc_refl]. }
  destruct Hb as [wb [rb [Hrb [Hdb [Hlb _]]]]]. rewrite Hrb.
  destruct rb as [b|eb]; [|intros H; inversion H; subst; exact Hdb].
  destruct ((0 <? c_max_balance cfg) && (c_max_balance cfg <? add64 b a)); [finq|].
  destruct wb as [d l m ac n]. cbn [w_db w_ln] in *. sx.
  destruct (l_createerr l || _); [sx; finq|]. sx.
  cbn [mq_amount mq_id].
  destruct (sql_int_ok a && negb (mem id (map mq_id (d_mq d)))); sx; finq.
Qed.

Lemma melt_quote_err_quiet cfg u d req h msat mpp id w w' e :
  run (request_melt_quote cfg u d req h msat mpp id) no_fault w = (w', Done (Err e)) -> w_db w' = w_db w.
Proof.
  unfold request_melt_quote. destruct u; cbn [negb]; [|intros H; inversion H; reflexivity].
  destruct d; cbn [negb]; [|intros H; inversion H; reflexivity].
  destruct ((msat <=? 0) || (two63 <=? msat)); [intros H; inversion H; reflexivity|].
  destruct w as [db l m a n]. sx.
  set (internal := match same_invoice (ROk (find (fun q => mq_hash q =? h) (d_mq db))) req with Some _ => true | None => false end).
  assert (Hplan : forall (is_mpp : bool) (amount_msat qa : Z) n' wx,
     run (if (0 <? c_max_melt cfg) && (c_max_melt cfg <? qa) then fail EMeltLimit else
          Do (GetMeltQuoteByReq req) (fun ex => match ex with
            | ROk (Some _) => fail EMeltExists
            | _ => call r <- SaveMeltQuote (mkLq id req h qa (if internal then 0 else fee_reserve cfg qa) 0 0 is_mpp amount_msat) ;;
                   match r with RErr => fail EDb | ROk _ => Ret (Ok (mkLq id req h qa (if internal then 0 else fee_reserve cfg qa) 0 0 is_mpp amount_msat)) end
            end)) no_fault (mkWorld db l m a n') = (wx, Done (Err e)) -> w_db wx = db).
  { intros is_mpp amount_msat qa n' wx.
    destruct ((0 <? c_max_melt cfg) && (c_max_melt cfg <? qa)); [intros H; inversion H; reflexivity|].
    sx. destruct (find (fun q => lq_req q =? req) (d_lq db)); [intros H; inversion H; reflexivity|].
    sx. cbn [lq_amount lq_fee lq_msat lq_id].
    destruct (sql_int_ok qa && sql_int_ok (if internal then 0 else fee_reserve cfg qa) && sql_int_ok amount_msat && negb (mem id (map lq_id (d_lq db))));
      sx; intros H; inversion H. reflexivity. }
  destruct mpp as [part|].
  - destruct (c_mpp cfg); [|intros H; inversion H; reflexivity].
    fold internal. destruct internal eqn:Eint; [intros H; inversion H; reflexivity|].
    destruct (msat <=? part); [intros H; inversion H; reflexivity|].
    apply (Hplan true part ((part + 999) / 1000)).
  - apply (Hplan false 0 ((msat + 999) / 1000)).
Qed.

Lemma frame_db_reads {R} allowed (p : prog R) :
  only allowed p -> (forall c, allowed c = true -> c_reads c = true) -> forall f w, w_db (fst (run p f w)) = w_db w.
Proof.
  intros Hp Ha. apply (run_only allowed (fun a b => w_db b = w_db a)); [reflexivity|intros a b c H1 H2; congruence| |exact Hp].
  intros c fault w Hc. specialize (Ha c Hc). destruct (exec_world c fault w) as [_ [_ [Hd|[_ Hd]]]]; rewrite Hd; [reflexivity|].
  destruct c; cbn in Ha; try discriminate Ha; reflexivity.
Qed.

(* polls of existing quotes never fail in a fault-free run *)
Lemma polls_ok (Q : list Z) : forall w,
  Good w -> (forall q, In q Q -> In q (map lq_id (d_lq (w_db w)))) ->
  exists w', run (for_each Q (fun q => perform g <- get_melt_quote_state q ;; match g with Err e => fail e | Ok _ => Ret (Ok tt) end)) no_fault w
             = (w', Done (Ok tt)).
Proof.
  induction Q as [|q Q IH]; intros w Hg HQ; [eexists; reflexivity|].
  change (for_each (q :: Q) ?f) with (bind (f q) (fun v => match v with Err e => fail e | Ok _ => for_each Q f end)).
  rewrite run_bind, run_bind.
  destruct (poll_spec q w (g_inv w Hg) (g_dis w Hg)) as [w1 [r [Hrun [_ Hr]]]]. rewrite Hrun.
  pose proof (poll_good q w Hg) as Hg1. rewrite Hrun in Hg1. cbn [fst] in Hg1.
  assert (Hin : In q (map lq_id (d_lq (w_db w)))) by (apply HQ; left; reflexivity).
  assert (Hok : exists q', r = Ok q' /\ map lq_id (d_lq (w_db w1)) = map lq_id (d_lq (w_db w))).
  { destruct (find_lq q (d_lq (w_db w))) as [lq|] eqn:Ef.
    2:{ exfalso. apply in_map_iff in Hin as [x [Hx Hxin]]. unfold find_lq in Ef.
        apply (find_none _ _ Ef) in Hxin. rewrite Hx, Z.eqb_refl in Hxin. discriminate. }
    cbv zeta in Hr.
    destruct (lq_state lq =? 1); [|destruct Hr as [-> [Hd _]]; eexists; split; [reflexivity|rewrite Hd; reflexivity]].
    destruct ((a_kind (next_look w (lq_hash lq)) =? 3) || (a_kind (next_look w (lq_hash lq)) =? 4));
      [destruct Hr as [-> Hd]; eexists; split; [reflexivity|rewrite Hd; reflexivity]|].
    destruct (a_kind (next_look w (lq_hash lq)) =? 0);
      [destruct Hr as [-> [_ [_ [Hl _]]]]; eexists; split; [reflexivity|rewrite Hl; apply map_upd_lq]|].
    destruct (a_kind (next_look w (lq_hash lq)) =? 1);
      [destruct Hr as [-> [_ [_ [Hl _]]]]; eexists; split; [reflexivity|rewrite Hl; apply map_upd_lq]|].
    destruct Hr as [-> Hd]. eexists; split; [reflexivity|rewrite Hd; reflexivity]. }
  destruct Hok as [q' [-> Hids]]. cbn [run].
  apply IH; [exact Hg1|]. intros x Hx. rewrite Hids. apply HQ. right. exact Hx.
Qed.

Lemma in_dedup x l : In x (dedup l) -> In x l.
Proof.
  induction l as [|y l IH]; cbn [dedup]; [auto|]. intros [->|H]; [left; reflexivity|].
  apply filter_In in H as [H _]. right. apply IH. exact H.
Qed.

Lemma check_never_refused ys w iss :
  Good w -> VInv w iss -> exists w' l, run (proofs_state_check ys) no_fault w = (w', Done (Ok l)).
Proof.
  intros Hg Hv. unfold proofs_state_check. rewrite run_do.
  destruct w as [d l m a n]. sx.
  set (pend := filter (fun r => mem (r_y r) ys) (d_pending d)).
  rewrite run_bind.
  assert (Hg1 : Good (mkWorld d l m a (n + 1))) by (destruct Hg as [Hi Hdj]; split; assumption).
  destruct (polls_ok (dedup (map r_quote pend)) (mkWorld d l m a (n + 1)) Hg1) as [w1 Hr1].
  { intros q Hq. apply in_dedup in Hq. apply in_map_iff in Hq as [r [<- Hr]]. apply filter_In in Hr as [Hr _].
    cbn [w_db]. apply (v_rows _ _ Hv). exact Hr. }
  rewrite Hr1. destruct w1 as [d1 l1 m1 a1 n1]. sx. eexists _, _. reflexivity.
Qed.

(* A request that is refused - for any reason other than an error of the Lightning backend - leaves every table as it was,
   up to the lazily recorded payment of a settled quote. *)
Theorem refusal_changes_nothing cfg w o e iss :
  match o with
  | OMintQuote _ _ _ _ _ | OMintState _ | OMint _ _ _ | OSwap _ _ _ | OMeltQuote _ _ _ _ _ _ _ | OMeltState _ | OMelt _ _
  | OCheck _ | ORestore _ => True
  | _ => False
  end ->
  Good w -> VInv w iss ->
  snd (step cfg no_fault w o) = RFail e -> e = ELn \/ quiet w (fst (step cfg no_fault w o)).
Proof.
  intros Hk Hg Hv. unfold step. destruct (is_env o) eqn:Ee; [destruct o; try discriminate Ee; destruct Hk|].
  set (w0 := prepare o w).
  assert (Hw0 : w_db w0 = w_db w /\ w_ln w0 = w_ln w) by (unfold w0; destruct o; split; reflexivity).
  destruct Hw0 as [Hd0 Hl0].
  assert (Hq0 : forall w', quiet w0 w' -> quiet w w').
  { intros w' Hq. unfold quiet, settled in *. rewrite Hd0, Hl0 in Hq. exact Hq. }
  assert (Hg0 : Good w0) by (apply good_prepare; exact Hg).
  destruct o; try (destruct Hk); cbn [op_prog] in *; rewrite run_lift.
  - destruct (run (request_mint_quote cfg unit_ok amount pubkey newid newhash) no_fault w0) as [w' [[x|e0]| |]] eqn:E; cbn [fst snd of_outcome]; try discriminate.
    intros _. right. apply Hq0. apply quiet_db. eapply mint_quote_err_quiet. exact E.
  - destruct (get_mint_quote_state_spec id w0) as [w' [r [Hrun Hr]]]. rewrite Hrun. destruct r as [q|e0]; cbn [fst snd of_outcome]; [discriminate|].
    intros _. right. apply Hq0. apply quiet_db. apply Hr.
  - destruct (mint_tokens_spec (w_mem w0) (w_active w0) id outs sig w0 (g_inv w0 Hg0)) as [w' [r [Hrun Hr]]]. rewrite Hrun.
    destruct r as [sg|e0]; cbn [fst snd of_outcome]; [discriminate|]. intros _. right. apply Hq0.
    destruct Hr as [Hs|[q [Hf [Hp Ho]]]]; [apply quiet_db; apply Hs|].
    destruct Ho as [_ [_ [_ [H1 [H2 [H3 [H4 [H5 H6]]]]]]]]. unfold quiet. repeat split; try assumption.
    right. exists id, q. repeat split; assumption.
  - destruct (swap_spec (w_mem w0) (w_active w0) ins outs outs_signed w0 (g_inv w0 Hg0)) as [w' [r [Hrun Hr]]]. rewrite Hrun.
    destruct r as [sg|e0]; cbn [fst snd of_outcome]; [discriminate|]. intros _. right. apply Hq0. apply quiet_db. apply Hr.
  - destruct (run (request_melt_quote cfg unit_ok decodes req h msat mpp newid) no_fault w0) as [w' [[x|e0]| |]] eqn:E; cbn [fst snd of_outcome]; try discriminate.
    intros _. right. apply Hq0. apply quiet_db. eapply melt_quote_err_quiet. exact E.
  - destruct (poll_spec id w0 (g_inv w0 Hg0) (g_dis w0 Hg0)) as [w' [r [Hrun [_ Hr]]]]. rewrite Hrun.
    destruct r as [q|e0]; cbn [fst snd of_outcome]; [discriminate|]. intros _. right. apply Hq0.
    destruct (find_lq id (d_lq (w_db w0))) as [q|]; [|apply quiet_db; apply Hr].
    cbv zeta in Hr.
    destruct (lq_state q =? 1); [|destruct Hr as [Hr _]; discriminate Hr].
    destruct ((a_kind (next_look w0 (lq_hash q)) =? 3) || (a_kind (next_look w0 (lq_hash q)) =? 4)); [destruct Hr as [Hr _]; discriminate Hr|].
    destruct (a_kind (next_look w0 (lq_hash q)) =? 0); [destruct Hr as [Hr _]; discriminate Hr|].
    destruct (a_kind (next_look w0 (lq_hash q)) =? 1); destruct Hr as [Hr _]; discriminate Hr.
  - destruct (melt_tokens_spec cfg (w_mem w0) id ins w0 (g_inv w0 Hg0)) as [w' [r [Hrun [_ Hr]]]]. rewrite Hrun.
    destruct r as [q|e0]; cbn [fst snd of_outcome]; [discriminate|]. intros He. inversion He; subst e0.
    destruct Hr as [[Hd _]|[HeLn _]]; [right; apply Hq0; apply quiet_db; exact Hd|left; exact HeLn].
  - (* checkstate: never refused in a fault-free run from a reachable state *)
    intros H. exfalso. assert (Hv0 : VInv w0 iss) by (apply (vinv_db_same w); assumption).
    destruct (check_never_refused ys w0 iss Hg0 Hv0) as [w' [l Hr]]. rewrite Hr in H. cbn [snd of_outcome] in H. discriminate.
  - intros H. exfalso. destruct (restore_exact bs w0) as [w' [Hr _]]. rewrite Hr in H. cbn [snd of_outcome] in H. discriminate.
Qed.
