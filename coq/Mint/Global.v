(* Invariants of every sequential, fault-free history of requests (run_history / reach), by induction
   over the history with the per-operation specifications, and their property-level consequences. *)
From Coq Require Import ZArith List Bool Lia.
From Verif Require Import Model Sem InvDb InvSwap InvMint InvMelt Corollaries Queries Footprint.
Import ListNotations.
Open Scope Z_scope.

Record Good (w : world) : Prop := mkGood { g_inv : WInv w; g_dis : Disjoint (w_db w) }.

Lemma Good0 : Good world0.
Proof. split; [apply DbInv0|]. intros y H. destruct H. Qed.

Lemma disjoint_same_sp w w' : same_sp w w' -> Disjoint (w_db w) -> Disjoint (w_db w').
Proof. intros [H1 H2] Hd y Hs Hp. rewrite H1 in Hs. rewrite H2 in Hp. exact (Hd y Hs Hp). Qed.

(* a run whose footprint has no spent/pending write keeps Good *)
Lemma good_frame {R} allowed (p : prog R) w :
  only allowed p -> (forall c, allowed c = true -> c_sp c = false) ->
  Good w -> Good (fst (run p no_fault w)).
Proof.
  intros Ho Ha [Hi Hd]. split; [apply run_inv; exact Hi|].
  eapply disjoint_same_sp; [apply (frame_sp allowed p Ho Ha)|exact Hd].
Qed.

Lemma in_ys_filter (f : prow -> bool) l y : In y (ys_of (filter f l)) -> In y (ys_of l).
Proof.
  unfold ys_of. intros H. apply in_map_iff in H as [r [Hr Hin]]. apply filter_In in Hin as [Hin _].
  apply in_map_iff. exists r. split; assumption.
Qed.

Lemma poll_good id w : Good w -> Good (fst (run (get_melt_quote_state id) no_fault w)).
Proof.
  intros [Hi Hd]. split; [apply run_inv; exact Hi|].
  destruct (poll_spec id w Hi Hd) as [w' [r [Hrun [_ Hr]]]]. rewrite Hrun. cbn [fst].
  destruct (find_lq id (d_lq (w_db w))) as [q|].
  2:{ destruct Hr as [_ [Hdb _]]. rewrite Hdb. exact Hd. }
  destruct (lq_state q =? 1).
  2:{ destruct Hr as [_ [Hdb _]]. rewrite Hdb. exact Hd. }
  cbv zeta in Hr.
  destruct ((a_kind (next_look w (lq_hash q)) =? 3) || (a_kind (next_look w (lq_hash q)) =? 4)).
  { destruct Hr as [_ Hdb]. rewrite Hdb. exact Hd. }
  destruct (a_kind (next_look w (lq_hash q)) =? 0).
  { destruct Hr as [_ [Hs [Hp _]]]. intros y Hy Hpy. rewrite Hs in Hy. rewrite Hp in Hpy.
    unfold ys_of in Hy. rewrite map_app in Hy. apply in_app_or in Hy as [Hy|Hy].
    - apply (Hd y Hy). eapply in_ys_filter. exact Hpy.
    - fold (ys_of (map unquote (rows_of_quote id (w_db w)))) in Hy. rewrite ys_unquote in Hy.
      unfold ys_of in Hpy. apply in_map_iff in Hpy as [r0 [Hr0 Hin]]. apply filter_In in Hin as [_ Hneg].
      apply negb_true_iff in Hneg. apply mem_false in Hneg. apply Hneg. rewrite Hr0. exact Hy. }
  destruct (a_kind (next_look w (lq_hash q)) =? 1).
  { destruct Hr as [_ [Hs [Hp _]]]. intros y Hy Hpy. rewrite Hs in Hy. rewrite Hp in Hpy.
    apply (Hd y Hy). eapply in_ys_filter. exact Hpy. }
  destruct Hr as [_ Hdb]. rewrite Hdb. exact Hd.
Qed.

Lemma melt_good cfg mem_ks id ins w : Good w -> Good (fst (run (melt_tokens cfg mem_ks id ins) no_fault w)).
Proof.
  intros [Hi Hd]. split; [apply run_inv; exact Hi|].
  destruct (melt_tokens_spec cfg mem_ks id ins w Hi) as [w' [r [Hrun [_ Hr]]]]. rewrite Hrun. cbn [fst].
  assert (Heff : forall q st pre, melt_validated mem_ks q ins w -> melt_effect id ins w w' st pre -> Disjoint (w_db w')).
  { intros q st pre Hval [_ [_ [_ Hcases]]].
    destruct Hval as [_ [_ [_ [Hfresh _]]]].
    destruct Hcases as [[_ [Hs Hp]]|[[_ [Hs Hp]]|[_ [Hs Hp]]]]; intros y Hy Hpy; rewrite Hs in Hy; rewrite Hp in Hpy.
    - unfold ys_of in Hy. rewrite map_app in Hy. apply in_app_or in Hy as [Hy|Hy]; [exact (Hd y Hy Hpy)|].
      rewrite map_map in Hy. apply in_map_iff in Hy as [p [Hyp Hin]]. cbn [to_row r_y] in Hyp. subst y.
      destruct (Hfresh p Hin) as [_ H2]. exact (H2 Hpy).
    - unfold ys_of in Hpy. rewrite map_app in Hpy. apply in_app_or in Hpy as [Hpy|Hpy]; [exact (Hd y Hy Hpy)|].
      rewrite map_map in Hpy. apply in_map_iff in Hpy as [p [Hyp Hin]]. cbn [to_row r_y] in Hyp. subst y.
      destruct (Hfresh p Hin) as [H1 _]. exact (H1 Hy).
    - exact (Hd y Hy Hpy). }
  destruct r as [q'|e].
  - destruct Hr as [q [_ [Hval Hr]]].
    destruct (internal_mq q (w_db w)).
    + destruct Hr as [pre [_ [He _]]]. eapply Heff; eassumption.
    + destruct Hr as [_ [He _]]. eapply Heff; eassumption.
  - destruct Hr as [[Hdb _]|[_ [q [_ [Hval [He _]]]]]]; [rewrite Hdb; exact Hd|]. eapply Heff; eassumption.
Qed.

Lemma run_bind_fst {X Y} (p : prog X) (g : X -> prog Y) w :
  fst (run (bind p g) no_fault w) =
  match run p no_fault w with
  | (w', Done x) => fst (run (g x) no_fault w')
  | (w', _) => w'
  end.
Proof. rewrite run_bind. destruct (run p no_fault w) as [w' [x| |]]; reflexivity. Qed.

Lemma good_bind {X Y} (p : prog X) (g : X -> prog Y) w :
  Good (fst (run p no_fault w)) -> (forall x w', Good w' -> Good (fst (run (g x) no_fault w'))) ->
  Good (fst (run (bind p g) no_fault w)).
Proof.
  intros Hp Hg. rewrite run_bind_fst. destruct (run p no_fault w) as [w' [x| |]]; cbn [fst] in *; auto.
Qed.

Lemma for_each_good {X} (l : list X) (f : X -> prog (result unit)) :
  (forall x w, Good w -> Good (fst (run (f x) no_fault w))) ->
  forall w, Good w -> Good (fst (run (for_each l f) no_fault w)).
Proof.
  intros Hf. induction l as [|x r IH]; intros w Hw; [exact Hw|].
  change (for_each (x :: r) f) with (bind (f x) (fun v => match v with Err e => fail e | Ok _ => for_each r f end)).
  apply good_bind; [apply Hf; exact Hw|]. intros v w' Hw'. destruct v; [apply IH; exact Hw'|exact Hw'].
Qed.

Lemma good_reads {R} (k : prog R) allowed w :
  only allowed k -> (forall c, allowed c = true -> c_sp c = false) -> Good w -> Good (fst (run k no_fault w)).
Proof. apply good_frame. Qed.

Lemma check_good ys w : Good w -> Good (fst (run (proofs_state_check ys) no_fault w)).
Proof.
  intros Hw. unfold proofs_state_check. rewrite run_do.
  destruct (exec (GetPending ys) false w) as [w1 r1] eqn:E1.
  assert (H1 : Good w1).
  { change w1 with (fst (w1, r1)). rewrite <- E1.
    apply (good_frame (fun c => match c with GetPending _ => true | _ => false end) (Do (GetPending ys) (fun _ => Ret tt)) w) in Hw.
    - rewrite run_do in Hw. destruct (exec (GetPending ys) false w) as [wa ra]. exact Hw.
    - constructor; [reflexivity|]. intros; constructor.
    - intros c; destruct c; cbn; congruence. }
  destruct r1 as [pend|]; cbv beta iota; [|exact H1].
  apply good_bind.
  - apply for_each_good; [|exact H1]. intros q w0 Hw0. apply good_bind; [apply poll_good; exact Hw0|].
    intros g w2 Hw2. destruct g; exact Hw2.
  - intros v w2 Hw2. destruct v as [u|e]; [|exact Hw2].
    apply (good_frame (fun c => match c with GetPending _ | GetUsed _ => true | _ => false end)); [|intros c; destruct c; cbn; congruence|exact Hw2].
    fp.
Qed.

Lemma good_prepare o w : Good w -> Good (prepare o w).
Proof. intros [Hi Hd]. destruct o; split; assumption. Qed.

Lemma good_env o w : Good w -> Good (apply_env o w).
Proof. intros [Hi Hd]. split; unfold WInv; rewrite apply_env_db; assumption. Qed.

(* one fault-free request keeps the tables duplicate-free and spent/pending disjoint *)
Theorem step_good cfg w o : Good w -> Good (fst (step cfg no_fault w o)).
Proof.
  intros Hw. unfold step. destruct (is_env o) eqn:Eenv; cbn [fst]; [apply good_env; exact Hw|].
  pose proof (good_prepare o w Hw) as H0. set (w0 := prepare o w) in *.
  assert (G : Good (fst (run (op_prog cfg (w_mem w0) (w_active w0) o) no_fault w0))).
  { assert (Hnsp : forall a : cmd -> bool, (forall c0, a c0 = true -> c_sp c0 = false) -> forall R (p : prog R), only a p ->
                      Good (fst (run p no_fault w0))).
    { intros a Ha R p Hp. eapply good_frame; eassumption. }
    destruct o; cbn [op_prog]; unfold lift; try (apply good_bind; [|intros x w' Hw'; exact Hw']); try exact H0.
    - apply (Hnsp fp_mint_quote); [intros c0; destruct c0; cbn; congruence|apply only_request_mint_quote].
    - apply (Hnsp fp_mint_state); [intros c0; destruct c0; cbn; congruence|apply only_mint_state].
    - apply (Hnsp fp_mint); [intros c0; destruct c0; cbn; congruence|apply only_mint].
    - split; [apply run_inv; apply H0|apply swap_keeps_disjoint; apply H0].
    - apply (Hnsp fp_melt_quote); [intros c0; destruct c0; cbn; congruence|apply only_request_melt_quote].
    - apply poll_good; exact H0.
    - apply melt_good; exact H0.
    - apply check_good; exact H0.
    - apply (Hnsp fp_restore); [intros c0; destruct c0; cbn; congruence|apply only_restore].
    - apply (Hnsp fp_rotate); [intros c0; destruct c0; cbn; congruence|apply only_rotate].
    - apply (Hnsp fp_rotate); [intros c0; destruct c0; cbn; congruence|apply only_load].
    - apply (Hnsp fp_mint_state); [intros c0; destruct c0; cbn; congruence|apply only_watcher].
    - apply (Hnsp fp_balance); [intros c0; destruct c0; cbn; congruence|apply only_balance].
    - apply (Hnsp fp_balance); [intros c0; destruct c0; cbn; congruence|apply only_info]. }
  destruct (run (op_prog cfg (w_mem w0) (w_active w0) o) no_fault w0) as [w' r]. exact G.
Qed.

Lemma run_history_fst cfg w o h :
  fst (run_history cfg w (o :: h)) = fst (run_history cfg (fst (step cfg no_fault w o)) h).
Proof.
  cbn [run_history]. destruct (step cfg no_fault w o) as [w1 x]. cbn [fst].
  destruct (run_history cfg w1 h) as [w2 xs]. reflexivity.
Qed.

Theorem history_good cfg h : forall w, Good w -> Good (fst (run_history cfg w h)).
Proof.
  induction h as [|o r IH]; intros w Hw; [exact Hw|]. rewrite run_history_fst. apply IH. apply step_good. exact Hw.
Qed.

Theorem reach_good cfg h : Good (reach cfg h).
Proof. unfold reach. apply history_good. apply Good0. Qed.

(* ------------------------------------------------------------------ C01: at most once *)

Lemma run_lift {X} (f : X -> opres) (p : prog (result X)) w :
  run (lift f p) no_fault w =
  match run p no_fault w with
  | (w', Done (Ok x)) => (w', Done (f x))
  | (w', Done (Err e)) => (w', Done (RFail e))
  | (w', Crashed) => (w', Crashed)
  | (w', Panicked) => (w', Panicked)
  end.
Proof.
  unfold lift. rewrite run_bind. destruct (run p no_fault w) as [w' [[x|e]| |]]; reflexivity.
Qed.

(* the secrets a successful request consumed: inputs of an accepted swap, inputs of a melt answered PAID *)
Definition consumed (o : op) (r : opres) : list Z :=
  match o, r with
  | OSwap ins _ _, RSigs _ => map p_secret ins
  | OMelt _ ins, RLq q => if lq_state q =? 2 then map p_secret ins else []
  | _, _ => []
  end.

Fixpoint consumed_all (h : list op) (rs : list opres) : list Z :=
  match h, rs with
  | o :: h', r :: rs' => consumed o r ++ consumed_all h' rs'
  | _, _ => []
  end.

Lemma with_state_state q st pre : lq_state (with_state q st pre) = st.
Proof. reflexivity. Qed.

Lemma step_consumed cfg w o :
  Good w ->
  NoDup (consumed o (snd (step cfg no_fault w o))) /\
  (forall y, In y (consumed o (snd (step cfg no_fault w o))) -> ~ In y (ys_of (d_spent (w_db w)))) /\
  incl (consumed o (snd (step cfg no_fault w o))) (ys_of (d_spent (w_db (fst (step cfg no_fault w o))))).
Proof.
  intros Hw.
  assert (Hnil : forall l : list Z, l = [] -> NoDup l /\ (forall y, In y l -> ~ In y (ys_of (d_spent (w_db w)))) /\
                                  incl l (ys_of (d_spent (w_db (fst (step cfg no_fault w o)))))).
  { intros l ->. split; [constructor|]. split; [intros y []|intros y []]. }
  destruct o; try (apply Hnil; destruct (snd (step cfg no_fault w _)); reflexivity).
  - (* swap *)
    unfold step. cbn [is_env prepare op_prog]. rewrite run_lift.
    set (w0 := reset_calls w).
    assert (H0 : WInv w0) by (apply Hw).
    destruct (swap_spec (w_mem w0) (w_active w0) ins outs outs_signed w0 H0) as [w' [r [Hrun Hr]]]. rewrite Hrun.
    destruct r as [sigs|e]; cbn [fst snd of_outcome consumed].
    2:{ split; [constructor|]. split; [intros y []|intros y []]. }
    destruct Hr as [_ [_ [Hfresh [Hnd [_ [_ [_ [_ [_ [Hsp _]]]]]]]]]].
    split; [exact Hnd|]. split.
    + intros y Hy. apply in_map_iff in Hy as [p [<- Hin]]. apply (Hfresh p Hin).
    + intros y Hy. rewrite Hsp. unfold ys_of. rewrite map_app. apply in_or_app. right. rewrite map_map. exact Hy.
  - (* melt *)
    unfold step. cbn [is_env prepare op_prog]. rewrite run_lift.
    set (w0 := reset_calls w).
    assert (H0 : WInv w0) by (apply Hw).
    destruct (melt_tokens_spec cfg (w_mem w0) id ins w0 H0) as [w' [r [Hrun [_ Hr]]]]. rewrite Hrun.
    destruct r as [q'|e]; cbn [fst snd of_outcome consumed].
    2:{ split; [constructor|]. split; [intros y []|intros y []]. }
    destruct (lq_state q' =? 2) eqn:E2.
    2:{ split; [constructor|]. split; [intros y []|intros y []]. }
    apply Z.eqb_eq in E2.
    destruct Hr as [q [_ [Hval Hr]]].
    assert (Heff : exists pre, melt_effect id ins w0 w' 2 pre).
    { destruct (internal_mq q (w_db w0)).
      - destruct Hr as [pre [_ [He _]]]. exists pre. exact He.
      - destruct Hr as [Hq' [He _]]. rewrite Hq', with_state_state in E2. rewrite E2 in He. eexists. exact He. }
    destruct Heff as [pre [_ [_ [_ Hcases]]]].
    destruct Hval as [_ [_ [_ [Hfresh [Hnd _]]]]].
    split; [exact Hnd|]. split.
    + intros y Hy. apply in_map_iff in Hy as [p [<- Hin]]. apply (Hfresh p Hin).
    + destruct Hcases as [[_ [Hs _]]|[[Hc _]|[Hc _]]]; try discriminate Hc.
      intros y Hy. rewrite Hs. unfold ys_of. rewrite map_app. apply in_or_app. right. rewrite map_map. exact Hy.
Qed.

Lemma run_history_cons cfg w o h :
  run_history cfg w (o :: h) =
  (fst (run_history cfg (fst (step cfg no_fault w o)) h),
   snd (step cfg no_fault w o) :: snd (run_history cfg (fst (step cfg no_fault w o)) h)).
Proof.
  cbn [run_history]. destruct (step cfg no_fault w o) as [w1 x]. cbn [fst snd].
  destruct (run_history cfg w1 h) as [w2 xs]. reflexivity.
Qed.

Lemma step_spent_incl cfg w o : incl (ys_of (d_spent (w_db w))) (ys_of (d_spent (w_db (fst (step cfg no_fault w o))))).
Proof.
  destruct (step_ext cfg no_fault w o) as [[l Hl] _]. rewrite Hl. unfold ys_of. rewrite map_app.
  intros y Hy. apply in_or_app. left. exact Hy.
Qed.

Lemma NoDup_app_intro {X} (a b : list X) :
  NoDup a -> NoDup b -> (forall x, In x b -> ~ In x a) -> NoDup (a ++ b).
Proof.
  intros Ha Hb Hd. induction Ha as [|x a Hx Ha IH]; cbn [app]; [exact Hb|].
  constructor.
  - intro Hin. apply in_app_or in Hin as [Hin|Hin]; [exact (Hx Hin)|]. apply (Hd x Hin). left. reflexivity.
  - apply IH. intros y Hy Hya. apply (Hd y Hy). right. exact Hya.
Qed.

Lemma at_most_once_gen cfg h : forall w acc,
  Good w -> NoDup acc -> incl acc (ys_of (d_spent (w_db w))) ->
  NoDup (acc ++ consumed_all h (snd (run_history cfg w h))).
Proof.
  induction h as [|o r IH]; intros w acc Hw Hacc Hincl.
  - cbn [run_history snd consumed_all]. rewrite app_nil_r. exact Hacc.
  - rewrite run_history_cons. cbn [snd consumed_all]. rewrite app_assoc.
    destruct (step_consumed cfg w o Hw) as [Hnd [Hfresh Hin]].
    apply IH.
    + apply step_good. exact Hw.
    + apply NoDup_app_intro; [exact Hacc|exact Hnd|]. intros y Hy Hya. exact (Hfresh y Hy (Hincl y Hya)).
    + intros y Hy. apply in_app_or in Hy as [Hy|Hy]; [apply step_spent_incl; apply Hincl; exact Hy|apply Hin; exact Hy].
Qed.

(* No secret is consumed by two successful operations of a sequential history: not twice inside one request,
   not by two swaps, two melts, or a swap and a melt, whatever the other fields of the presented proofs are. *)
Theorem at_most_once cfg h : NoDup (consumed_all h (snd (run_history cfg world0 h))).
Proof.
  apply (at_most_once_gen cfg h world0 []); [apply Good0|constructor|intros y []].
Qed.

(* while a secret is locked by an in-flight melt or spent, every request presenting it is refused and changes nothing *)
Theorem locked_or_spent_refused cfg h ins outs sg :
  let w := reach cfg h in
  (exists p, In p ins /\ (In (p_secret p) (ys_of (d_spent (w_db w))) \/ In (p_secret p) (ys_of (d_pending (w_db w))))) ->
  (exists w' e, run (swap (w_mem w) (w_active w) ins outs sg) no_fault w = (w', Done (Err e)) /\ same_but_calls w w') /\
  (forall id, exists w' e, run (melt_tokens cfg (w_mem w) id ins) no_fault w = (w', Done (Err e)) /\ w_db w' = w_db w /\ w_ln w' = w_ln w).
Proof.
  intros w Hrep. pose proof (reach_good cfg h) as [Hi _]. fold w in Hi. split.
  - apply swap_rejects_represented; assumption.
  - intros id. apply melt_rejects_represented; assumption.
Qed.
