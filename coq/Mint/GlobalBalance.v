(* C16 over whole histories: the balance is never negative.
   Under the unforgeability reading of the symbolic model - every genuine proof a client presents was unblinded from a signature
   the mint returned earlier, and a wallet never blinds the same secret twice - the proofs the mint has consumed or locked
   are worth at most the signatures it has handed out, in every reachable state; so TotalBalance = issued - redeemed is exact
   (total_balance_exact) and non-negative. *)
From Coq Require Import ZArith List Bool Lia.
From Verif Require Import Model Sem InvDb InvSwap InvMint InvMelt Corollaries Queries Footprint Global GlobalQuote GlobalValue GlobalErr.
Import ListNotations.
Open Scope Z_scope.

Definition entry := (Z * Z)%type.   (* secret, amount *)

Definition outs_entries (outs : list bmsg) : list entry := map (fun o => (b_secret o, b_amount o)) outs.

Definition issued_by (o : op) (r : opres) : list entry :=
  match o, r with
  | OSwap _ outs _, RSigs (_ :: _) | OMint _ outs _, RSigs (_ :: _) => outs_entries outs
  | _, _ => []
  end.

(* what the environment is assumed to do at one step, given what has been issued so far *)
Definition honest_client (issued : list entry) (o : op) : Prop :=
  match o with
  | OSwap ins outs _ =>
      (forall p, In p ins -> p_C p = CSig (p_ks p) (p_amount p) (p_secret p) -> In (p_secret p, p_amount p) issued) /\
      NoDup (map b_secret outs) /\ (forall x, In x outs -> ~ In (b_secret x) (map fst issued)) /\
      Forall (fun x => 0 <= x < two64) (map b_amount outs)
  | OMint _ outs _ =>
      NoDup (map b_secret outs) /\ (forall x, In x outs -> ~ In (b_secret x) (map fst issued)) /\
      Forall (fun x => 0 <= x < two64) (map b_amount outs)
  | OMelt _ ins => forall p, In p ins -> p_C p = CSig (p_ks p) (p_amount p) (p_secret p) -> In (p_secret p, p_amount p) issued
  | _ => True
  end.

Definition row_entries (l : list prow) : list entry := map (fun r => (r_y r, r_amount r)) l.

Record BInv (w : world) (issued : list entry) : Prop := mkBInv {
  b_nodup : NoDup (map fst issued);
  b_pos : forall e, In e issued -> 0 <= snd e;
  b_sum : tsum (map snd issued) = vS w;
  b_rows : forall e, In e (row_entries (d_spent (w_db w)) ++ row_entries (d_pending (w_db w))) -> In e issued;
  b_sigs : Forall (fun x => 0 <= x) (map s_amount (d_sigs (w_db w)))
}.

(* an injective sub-family is worth at most the whole *)
Lemma tsum_sub (a b : list entry) :
  NoDup (map fst a) -> NoDup (map fst b) -> (forall e, In e a -> In e b) -> (forall e, In e b -> 0 <= snd e) ->
  tsum (map snd a) <= tsum (map snd b).
Proof.
  revert b. induction a as [|x a IH]; intros b Ha Hb Hin Hpos.
  - cbn [map]. rewrite tsum_nil. apply tsum_nonneg. apply Forall_forall. intros v Hv. apply in_map_iff in Hv as [e [<- He]]. apply Hpos. exact He.
  - cbn [map] in *. inversion Ha as [|? ? Hx Ha']; subst.
    assert (Hxb : In x b) by (apply Hin; left; reflexivity).
    apply in_split in Hxb as [b1 [b2 ->]].
    assert (Hb' : NoDup (map fst (b1 ++ b2))).
    { rewrite map_app in *. cbn [map] in Hb. apply NoDup_remove_1 in Hb. exact Hb. }
    assert (Hin' : forall e, In e a -> In e (b1 ++ b2)).
    { intros e He. assert (Hne : fst e <> fst x). { intro Heq. apply Hx. rewrite <- Heq. apply in_map. exact He. }
      specialize (Hin e (or_intror He)). apply in_app_or in Hin as [Hi|[Hi|Hi]]; [apply in_or_app; left; exact Hi|subst e; congruence|apply in_or_app; right; exact Hi]. }
    assert (Hpos' : forall e, In e (b1 ++ b2) -> 0 <= snd e).
    { intros e He. apply Hpos. apply in_app_or in He as [He|He]; apply in_or_app; [left|right; right]; exact He. }
    specialize (IH (b1 ++ b2) Ha' Hb' Hin' Hpos').
    rewrite !map_app, !tsum_app in *. cbn [map]. rewrite !tsum_cons. lia.
Qed.

Lemma row_entries_fst l : map fst (row_entries l) = ys_of l.
Proof. unfold row_entries, ys_of. rewrite map_map. reflexivity. Qed.
Lemma row_entries_snd l : map snd (row_entries l) = map r_amount l.
Proof. unfold row_entries. rewrite map_map. reflexivity. Qed.

(* the consumed and locked proofs are worth at most what was issued *)
Theorem binv_bound w issued : Good w -> BInv w issued -> vR w + vP w <= vS w.
Proof.
  intros [Hi Hd] [B1 B2 B3 B4 B5]. rewrite <- B3. unfold vR, vP.
  rewrite <- !row_entries_snd, <- tsum_app, <- map_app.
  apply tsum_sub; [|exact B1|exact B4|exact B2].
  rewrite map_app, !row_entries_fst.
  apply NoDup_app_intro; [apply Hi|apply Hi|]. intros y Hp Hs. exact (Hd y Hs Hp).
Qed.

Definition BI (issued : list entry) (w : world) : Prop := Good w /\ BInv w issued.

Lemma binv_frame w w' issued :
  same_sp w w' -> same_sigs w w' -> BInv w issued -> BInv w' issued.
Proof.
  intros [H1 H2] H3 [B1 B2 B3 B4 B5]. split; try assumption.
  - unfold vS in *. rewrite H3. exact B3.
  - rewrite H1, H2. exact B4.
  - rewrite H3. exact B5.
Qed.

Lemma binv_db_same w w' issued : w_db w' = w_db w -> BInv w issued -> BInv w' issued.
Proof. intros Hd [B1 B2 B3 B4 B5]. split; unfold vS in *; rewrite ?Hd; assumption. Qed.

Lemma bi_frame {R} allowed (p : prog R) issued w :
  only allowed p -> (forall c, allowed c = true -> c_sp c = false /\ c_sigs c = false) ->
  BI issued w -> BI issued (fst (run p no_fault w)).
Proof.
  intros Ho Ha [Hg Hb]. split; [eapply good_frame; [exact Ho|intros c Hc; apply Ha; exact Hc|exact Hg]|].
  apply (binv_frame w); [| |exact Hb].
  - apply (frame_sp allowed); [exact Ho|intros c Hc; apply Ha; exact Hc].
  - apply (frame_sigs allowed); [exact Ho|intros c Hc; apply Ha; exact Hc].
Qed.

Lemma genuine_of_checked mem_ks ins p : check_proofs mem_ks ins = None -> In p ins -> p_C p = CSig (p_ks p) (p_amount p) (p_secret p).
Proof. intros Hc Hp. apply check_proofs_forall with (p := p) in Hc; [|exact Hp]. apply check_proof_iff in Hc. apply Hc. Qed.

Lemma in_row_entries_to_row q ins e : In e (row_entries (map (to_row q) ins)) -> exists p, In p ins /\ e = (p_secret p, p_amount p).
Proof.
  unfold row_entries. rewrite map_map. intros H. apply in_map_iff in H as [p [<- Hp]]. exists p. split; [exact Hp|reflexivity].
Qed.

Lemma poll_bi id issued w : BI issued w -> BI issued (fst (run (get_melt_quote_state id) no_fault w)).
Proof.
  intros [Hg Hb]. split; [apply poll_good; exact Hg|].
  destruct Hg as [Hi Hd]. destruct (poll_spec id w Hi Hd) as [w' [r [Hrun [_ Hr]]]]. rewrite Hrun. cbn [fst].
  destruct (find_lq id (d_lq (w_db w))) as [q|]; [|apply (binv_db_same w); [apply Hr|exact Hb]].
  destruct (lq_state q =? 1); [|apply (binv_db_same w); [apply Hr|exact Hb]]. cbv zeta in Hr.
  destruct ((a_kind (next_look w (lq_hash q)) =? 3) || (a_kind (next_look w (lq_hash q)) =? 4)); [apply (binv_db_same w); [apply Hr|exact Hb]|].
  destruct Hb as [B1 B2 B3 B4 B5].
  assert (Hsub : forall f, incl (row_entries (filter f (d_pending (w_db w)))) (row_entries (d_pending (w_db w)))).
  { intros f e He. unfold row_entries in *. apply in_map_iff in He as [x [<- Hx]]. apply filter_In in Hx as [Hx _]. apply in_map_iff. exists x. split; [reflexivity|exact Hx]. }
  destruct (a_kind (next_look w (lq_hash q)) =? 0).
  - destruct Hr as [_ [Hs [Hp [_ [Hsg _]]]]]. split; try assumption; [| |rewrite Hsg; exact B5].
    + unfold vS in *. rewrite Hsg. exact B3.
    + rewrite Hs, Hp. intros e He. apply B4. apply in_app_or in He as [He|He].
      * unfold row_entries in He. rewrite map_app in He. apply in_app_or in He as [He|He]; [apply in_or_app; left; exact He|].
        apply in_or_app. right. rewrite map_map in He. apply in_map_iff in He as [x [<- Hx]].
        unfold rows_of_quote in Hx. apply filter_In in Hx as [Hx _]. unfold row_entries. apply in_map_iff. exists x. split; [reflexivity|exact Hx].
      * apply in_or_app. right. apply (Hsub _ e He).
  - destruct (a_kind (next_look w (lq_hash q)) =? 1).
    + destruct Hr as [_ [Hs [Hp [_ [Hsg _]]]]]. split; try assumption; [| |rewrite Hsg; exact B5].
      * unfold vS in *. rewrite Hsg. exact B3.
      * rewrite Hs, Hp. intros e He. apply B4. apply in_app_or in He as [He|He]; apply in_or_app; [left; exact He|right; apply (Hsub _ e He)].
    + apply (binv_db_same w); [apply Hr|split; assumption].
Qed.

Lemma melt_bi cfg mem_ks id ins issued w :
  (forall p, In p ins -> p_C p = CSig (p_ks p) (p_amount p) (p_secret p) -> In (p_secret p, p_amount p) issued) ->
  BI issued w -> BI issued (fst (run (melt_tokens cfg mem_ks id ins) no_fault w)).
Proof.
  intros Hhon [Hg Hb]. split; [apply melt_good; exact Hg|].
  destruct (melt_tokens_spec cfg mem_ks id ins w (g_inv w Hg)) as [w' [r [Hrun [_ Hr]]]]. rewrite Hrun. cbn [fst].
  assert (Heff : forall q st pre, melt_validated mem_ks q ins w -> melt_effect id ins w w' st pre -> BInv w' issued).
  { intros q st pre Hval [Hsg [_ [_ Hcases]]]. destruct Hb as [B1 B2 B3 B4 B5].
    destruct Hval as [_ [_ [_ [_ [_ [Hcp _]]]]]].
    assert (Hnew : forall qq e, In e (row_entries (map (to_row qq) ins)) -> In e issued).
    { intros qq e He. apply in_row_entries_to_row in He as [p [Hp ->]]. apply Hhon; [exact Hp|]. eapply genuine_of_checked; eassumption. }
    split; try assumption; [unfold vS in *; rewrite Hsg; exact B3| |rewrite Hsg; exact B5].
    destruct Hcases as [[_ [Hs Hp]]|[[_ [Hs Hp]]|[_ [Hs Hp]]]]; rewrite Hs, Hp; intros e He.
    - apply in_app_or in He as [He|He]; [|apply B4; apply in_or_app; right; exact He].
      unfold row_entries in He. rewrite map_app in He. apply in_app_or in He as [He|He]; [apply B4; apply in_or_app; left; exact He|apply (Hnew 0 e He)].
    - apply in_app_or in He as [He|He]; [apply B4; apply in_or_app; left; exact He|].
      unfold row_entries in He. rewrite map_app in He. apply in_app_or in He as [He|He]; [apply B4; apply in_or_app; right; exact He|apply (Hnew id e He)].
    - apply B4. exact He. }
  destruct r as [q'|e].
  - destruct Hr as [q [_ [Hval Hr]]]. destruct (internal_mq q (w_db w)).
    + destruct Hr as [pre [_ [He _]]]. eapply Heff; eassumption.
    + destruct Hr as [_ [He _]]. eapply Heff; eassumption.
  - destruct Hr as [[Hd _]|[_ [q [_ [Hval [He _]]]]]]; [apply (binv_db_same w); assumption|eapply Heff; eassumption].
Qed.

Lemma check_bi ys issued w : BI issued w -> BI issued (fst (run (proofs_state_check ys) no_fault w)).
Proof.
  intros Hw. unfold proofs_state_check. rewrite run_do.
  destruct (exec (GetPending ys) false w) as [w1 r1] eqn:E1.
  assert (H1 : BI issued w1).
  { change w1 with (fst (w1, r1)). rewrite <- E1.
    pose proof (bi_frame (fun c => match c with GetPending _ => true | _ => false end) (Do (GetPending ys) (fun _ => Ret tt)) issued w) as H.
    rewrite run_do in H. destruct (exec (GetPending ys) false w) as [wa ra]. apply H; [|intros c Hc; destruct c; cbn in *; split; congruence|exact Hw].
    constructor; [reflexivity|]. intros; constructor. }
  destruct r1 as [pend|]; cbv beta iota; [|exact H1].
  apply (inv_bind (BI issued)).
  - apply (for_each_inv (BI issued)); [|exact H1]. intros q w0 Hw0. apply (inv_bind (BI issued)); [apply poll_bi; exact Hw0|].
    intros g w2 Hw2. destruct g; exact Hw2.
  - intros v w2 Hw2. destruct v as [u|e]; [|exact Hw2].
    apply (bi_frame (fun c => match c with GetPending _ | GetUsed _ => true | _ => false end)); [|intros c Hc; destruct c; cbn in *; split; congruence|exact Hw2].
    fp.
Qed.

Lemma outs_entries_sum outs : tsum (map snd (outs_entries outs)) = tsum (map b_amount outs).
Proof. unfold outs_entries. rewrite map_map. reflexivity. Qed.

Lemma binv_issue w w' issued outs :
  d_sigs (w_db w') = d_sigs (w_db w) ++ sig_rows outs ->
  NoDup (map b_secret outs) -> (forall x, In x outs -> ~ In (b_secret x) (map fst issued)) ->
  Forall (fun x => 0 <= x < two64) (map b_amount outs) ->
  (forall e, In e (row_entries (d_spent (w_db w')) ++ row_entries (d_pending (w_db w'))) -> In e (outs_entries outs ++ issued)) ->
  BInv w issued -> BInv w' (outs_entries outs ++ issued).
Proof.
  intros Hsg Hnd Hfresh Hu Hrows [B1 B2 B3 B4 B5]. split.
  - rewrite map_app. apply NoDup_app_intro; [|exact B1|].
    + unfold outs_entries. rewrite map_map. exact Hnd.
    + intros x Hx Hnew. unfold outs_entries in Hnew. rewrite map_map in Hnew. apply in_map_iff in Hnew as [o [<- Ho]]. exact (Hfresh o Ho Hx).
  - intros e He. apply in_app_or in He as [He|He]; [|apply B2; exact He].
    unfold outs_entries in He. apply in_map_iff in He as [o [<- Ho]]. cbn [snd].
    rewrite Forall_forall in Hu. apply (Hu (b_amount o)). apply in_map. exact Ho.
  - unfold vS in *. rewrite Hsg, !map_app, !tsum_app, outs_entries_sum, tsum_sig_rows. unfold entry in *. rewrite B3. lia.
  - exact Hrows.
  - rewrite Hsg, map_app. apply Forall_app. split; [exact B5|]. unfold sig_rows. rewrite map_map. cbn [s_amount].
    apply Forall_forall. intros a Ha. apply in_map_iff in Ha as [o [<- Ho]]. rewrite Forall_forall in Hu.
    specialize (Hu (b_amount o) (in_map _ _ _ Ho)). cbn [s_amount]. lia.
Qed.

Theorem step_bi cfg w o issued :
  honest_client issued o -> BI issued w ->
  BI (issued_by o (snd (step cfg no_fault w o)) ++ issued) (fst (step cfg no_fault w o)).
Proof.
  intros Hh Hw.
  assert (Hnoev : (match o with OSwap _ _ _ | OMint _ _ _ => False | _ => True end) -> issued_by o (snd (step cfg no_fault w o)) = []).
  { intros Hk. destruct o; try reflexivity; destruct Hk. }
  unfold step in *. destruct (is_env o) eqn:Eenv; cbn [fst snd] in *.
  { rewrite Hnoev by (destruct o; try exact I; discriminate Eenv). cbn [app].
    destruct Hw as [Hg Hb]. split; [apply good_env; exact Hg|apply (binv_db_same w); [apply apply_env_db|exact Hb]]. }
  assert (H0 : BI issued (prepare o w)).
  { destruct Hw as [Hg Hb]. split; [apply good_prepare; exact Hg|apply (binv_db_same w); [apply prepare_db|exact Hb]]. }
  set (w0 := prepare o w) in *.
  assert (Hfr : forall (a : cmd -> bool) R (p : prog R), only a p ->
            (forall c, a c = true -> c_sp c = false /\ c_sigs c = false) -> BI issued (fst (run p no_fault w0))).
  { intros a R p Hp Ha. eapply bi_frame; eassumption. }
  destruct o; try discriminate Eenv; cbn [op_prog issued_by honest_client] in *; unfold lift.
  all: try (rewrite run_bind; cbn [app]).
  - pose proof (Hfr fp_mint_quote _ _ (only_request_mint_quote cfg unit_ok amount pubkey newid newhash) ltac:(intros c Hc; destruct c; cbn in *; split; congruence)) as G.
    destruct (run (request_mint_quote cfg unit_ok amount pubkey newid newhash) no_fault w0) as [w' [[x|e]| |]]; exact G.
  - pose proof (Hfr fp_mint_state _ _ (only_mint_state id) ltac:(intros c Hc; destruct c; cbn in *; split; congruence)) as G.
    destruct (run (get_mint_quote_state id) no_fault w0) as [w' [[x|e]| |]]; exact G.
  - (* OMint *)
    destruct H0 as [Hg Hb]. destruct Hh as [Hnd [Hfresh Hu]].
    assert (Hg' : Good (fst (run (mint_tokens (w_mem w0) (w_active w0) id outs sig) no_fault w0))).
    { apply (good_frame fp_mint); [apply only_mint|intros c Hc; destruct c; cbn in *; congruence|exact Hg]. }
    destruct (mint_tokens_spec (w_mem w0) (w_active w0) id outs sig w0 (g_inv w0 Hg)) as [w' [r [Hrun Hr]]]. rewrite Hrun in *. cbn [fst snd] in *.
    destruct r as [sigs|e]; cbn [run fst snd of_outcome].
    + destruct Hr as [q [_ [[_ [_ [_ [_ [_ [_ [Hsigs [Hsg [_ [Hsp [Hpe _]]]]]]]]]]]|[_ [-> Hs]]]]].
      * subst sigs. destruct (sig_rows outs) as [|s0 rest] eqn:Es.
        -- cbn [app]. split; [exact Hg'|]. apply (binv_frame w0); [split; assumption|unfold same_sigs; rewrite Hsg, app_nil_r; reflexivity|exact Hb].
        -- split; [exact Hg'|]. rewrite <- Es in Hsg. apply (binv_issue w0 w' issued outs Hsg Hnd Hfresh Hu); [|exact Hb].
           rewrite Hsp, Hpe. intros e He. apply in_or_app. right. apply Hb. exact He.
      * cbn [app]. split; [exact Hg'|]. apply (binv_db_same w0); [apply Hs|exact Hb].
    + cbn [app]. split; [exact Hg'|]. destruct Hr as [Hs|[q [_ [_ Ho]]]]; [apply (binv_db_same w0); [apply Hs|exact Hb]|].
      destruct Ho as [_ [_ [_ [Hsp [Hpe [Hsg _]]]]]]. apply (binv_frame w0); [split; assumption|exact Hsg|exact Hb].
  - (* OSwap *)
    destruct H0 as [Hg Hb]. destruct Hh as [Hhon [Hnd [Hfresh Hu]]].
    assert (Hg' : Good (fst (run (swap (w_mem w0) (w_active w0) ins outs outs_signed) no_fault w0))).
    { split; [apply run_inv; apply Hg|apply swap_keeps_disjoint; apply Hg]. }
    destruct (swap_spec (w_mem w0) (w_active w0) ins outs outs_signed w0 (g_inv w0 Hg)) as [w' [r [Hrun Hr]]]. rewrite Hrun in *. cbn [fst snd] in *.
    destruct r as [sigs|e]; cbn [run fst snd of_outcome].
    2:{ cbn [app]. split; [exact Hg'|]. apply (binv_db_same w0); [apply Hr|exact Hb]. }
    destruct Hr as [_ [_ [_ [_ [Hcp [_ [_ [_ [Hsigs [Hsp [Hsg [_ [_ [_ [Hpe _]]]]]]]]]]]]]]].
    assert (Hrows : forall tail, (forall e, In e issued -> In e tail) ->
              forall e, In e (row_entries (d_spent (w_db w')) ++ row_entries (d_pending (w_db w'))) -> In e tail).
    { intros tail Hincl e He. rewrite Hsp, Hpe in He. apply in_app_or in He as [He|He]; [|apply Hincl; apply Hb; apply in_or_app; right; exact He].
      unfold row_entries in He. rewrite map_app in He. apply in_app_or in He as [He|He]; [apply Hincl; apply Hb; apply in_or_app; left; exact He|].
      apply in_row_entries_to_row in He as [p [Hp ->]]. apply Hincl. apply Hhon; [exact Hp|]. eapply genuine_of_checked; eassumption. }
    subst sigs. destruct (sig_rows outs) as [|s0 rest] eqn:Es.
    + cbn [app]. split; [exact Hg'|]. destruct Hb as [B1 B2 B3 B4 B5]. split; try assumption.
      * unfold vS in *. rewrite Hsg, app_nil_r. exact B3.
      * apply (Hrows issued). auto.
      * rewrite Hsg, app_nil_r. exact B5.
    + split; [exact Hg'|]. rewrite <- Es in Hsg. apply (binv_issue w0 w' issued outs Hsg Hnd Hfresh Hu); [|exact Hb].
      apply Hrows. intros e He. apply in_or_app. right. exact He.
  - pose proof (Hfr fp_melt_quote _ _ (only_request_melt_quote cfg unit_ok decodes req h msat mpp newid) ltac:(intros c Hc; destruct c; cbn in *; split; congruence)) as G.
    destruct (run (request_melt_quote cfg unit_ok decodes req h msat mpp newid) no_fault w0) as [w' [[x|e]| |]]; exact G.
  - pose proof (poll_bi id issued w0 H0) as G.
    destruct (run (get_melt_quote_state id) no_fault w0) as [w' [[x|e]| |]]; exact G.
  - pose proof (melt_bi cfg (w_mem w0) id ins issued w0 Hh H0) as G.
    destruct (run (melt_tokens cfg (w_mem w0) id ins) no_fault w0) as [w' [[x|e]| |]]; exact G.
  - pose proof (check_bi ys issued w0 H0) as G.
    destruct (run (proofs_state_check ys) no_fault w0) as [w' [[x|e]| |]]; exact G.
  - pose proof (Hfr fp_restore _ _ (only_restore bs []) ltac:(intros c Hc; destruct c; cbn in *; split; congruence)) as G.
    destruct (run (restore_sigs bs []) no_fault w0) as [w' [[x|e]| |]]; exact G.
  - pose proof (Hfr fp_rotate _ _ (only_rotate (w_mem w0) (w_active w0) fee) ltac:(intros c Hc; destruct c; cbn in *; split; congruence)) as G.
    destruct (run (rotate_keyset (w_mem w0) (w_active w0) fee) no_fault w0) as [w' [[x|e]| |]]; exact G.
  - pose proof (Hfr fp_rotate _ _ (only_load fee rotate) ltac:(intros c Hc; destruct c; cbn in *; split; congruence)) as G.
    destruct (run (load_mint fee rotate) no_fault w0) as [w' [[x|e]| |]]; exact G.
  - pose proof (Hfr fp_mint_state _ _ (only_watcher id) ltac:(intros c Hc; destruct c; cbn in *; split; congruence)) as G.
    destruct (run (watcher_fire id) no_fault w0) as [w' [x| |]]; exact G.
  - pose proof (Hfr fp_balance _ _ only_balance ltac:(intros c Hc; destruct c; cbn in *; split; congruence)) as G.
    destruct (run total_balance no_fault w0) as [w' [[x|e]| |]]; exact G.
  - pose proof (Hfr fp_balance _ _ (only_info cfg) ltac:(intros c Hc; destruct c; cbn in *; split; congruence)) as G.
    destruct (run (info_disabled cfg) no_fault w0) as [w' [[x|e]| |]]; exact G.
Qed.

(* ---------- whole histories ---------- *)

Fixpoint btrace (cfg : config) (w : world) (h : list op) (issued : list entry) : world * list entry :=
  match h with
  | [] => (w, issued)
  | o :: r => btrace cfg (fst (step cfg no_fault w o)) r (issued_by o (snd (step cfg no_fault w o)) ++ issued)
  end.

Fixpoint clients_honest (cfg : config) (w : world) (h : list op) (issued : list entry) : Prop :=
  match h with
  | [] => True
  | o :: r => honest_client issued o /\
              clients_honest cfg (fst (step cfg no_fault w o)) r (issued_by o (snd (step cfg no_fault w o)) ++ issued)
  end.

Lemma btrace_bi cfg h : forall w issued, clients_honest cfg w h issued -> BI issued w ->
  BI (snd (btrace cfg w h issued)) (fst (btrace cfg w h issued)).
Proof.
  induction h as [|o r IH]; intros w issued Hh Hb; cbn [btrace fst snd]; [exact Hb|].
  destruct Hh as [Ho Hr]. apply IH; [exact Hr|apply step_bi; assumption].
Qed.

Lemma btrace_world cfg h : forall w issued, fst (btrace cfg w h issued) = fst (run_history cfg w h).
Proof.
  induction h as [|o r IH]; intros w issued; [reflexivity|]. cbn [btrace]. rewrite run_history_fst. apply IH.
Qed.

Lemma BI0 : BI [] world0.
Proof. split; [apply Good0|]. split; [constructor|intros e []|reflexivity|intros e []|constructor]. Qed.

(* In every sequential history with honest clients (unforgeability): what the mint has consumed or still holds locked is worth at
   most what it has issued; hence issued - redeemed never wraps and TotalBalance returns exactly that non-negative number. *)
Theorem balance_never_negative cfg h :
  clients_honest cfg world0 h [] ->
  let w := reach cfg h in
  vR w + vP w <= vS w /\
  (vS w < two63 -> exists w', run total_balance no_fault w = (w', Done (Ok (vS w - vR w))) /\ 0 <= vS w - vR w).
Proof.
  intros Hh w. pose proof (btrace_bi cfg h world0 [] Hh BI0) as [Hg Hb].
  rewrite btrace_world in Hg, Hb. fold (reach cfg h) in Hg, Hb. fold w in Hg, Hb.
  set (issued' := snd (btrace cfg world0 h [])) in *.
  pose proof (binv_bound w _ Hg Hb) as Hbound. split; [exact Hbound|].
  intros Hlt.
  destruct Hb as [B1 B2 B3 B4 B5].
  assert (Hrows : forall rows, (forall e, In e (row_entries rows) -> In e issued') -> Forall (fun x => 0 <= x) (map r_amount rows)).
  { intros rows Hin. apply Forall_forall. intros a Ha. apply in_map_iff in Ha as [x [<- Hx]].
    apply (B2 (r_y x, r_amount x)). apply Hin. unfold row_entries. apply in_map_iff. exists x. split; [reflexivity|exact Hx]. }
  assert (Hsp : Forall (fun x => 0 <= x) (map r_amount (d_spent (w_db w)))).
  { apply Hrows. intros e He. apply B4. apply in_or_app. left. exact He. }
  assert (Hpe : Forall (fun x => 0 <= x) (map r_amount (d_pending (w_db w)))).
  { apply Hrows. intros e He. apply B4. apply in_or_app. right. exact He. }
  assert (HP : 0 <= vP w) by (apply tsum_nonneg; exact Hpe).
  destruct (total_balance_exact w B5 Hsp) as [w' [Hrun _]]; [exact Hlt|unfold issued_total, redeemed_total; unfold vS, vR in Hbound; lia|].
  exists w'. split; [exact Hrun|]. lia.
Qed.

(* ---------- a decision procedure for the hypothesis, so that concrete histories can be checked by computation ---------- *)

Definition entry_mem (s a : Z) (issued : list entry) : bool := existsb (fun e => (fst e =? s) && (snd e =? a)) issued.

Lemma entry_mem_In s a issued : entry_mem s a issued = true -> In (s, a) issued.
Proof.
  unfold entry_mem. intros H. apply existsb_exists in H as [[s' a'] [Hin Heq]]. cbn [fst snd] in Heq.
  apply andb_prop in Heq as [H1 H2]. apply Z.eqb_eq in H1, H2. subst. exact Hin.
Qed.

Definition backedb (issued : list entry) (ins : list proof) : bool :=
  forallb (fun p => negb (cterm_eqb (p_C p) (CSig (p_ks p) (p_amount p) (p_secret p))) || entry_mem (p_secret p) (p_amount p) issued) ins.

Definition fresh_outsb (issued : list entry) (outs : list bmsg) : bool :=
  nodupb (map b_secret outs) && forallb (fun x => negb (mem (b_secret x) (map fst issued))) outs &&
  forallb (fun a => (0 <=? a) && (a <? two64)) (map b_amount outs).

Definition honest_clientb (issued : list entry) (o : op) : bool :=
  match o with
  | OSwap ins outs _ => backedb issued ins && fresh_outsb issued outs
  | OMint _ outs _ => fresh_outsb issued outs
  | OMelt _ ins => backedb issued ins
  | _ => true
  end.

Lemma backedb_ok issued ins : backedb issued ins = true ->
  forall p, In p ins -> p_C p = CSig (p_ks p) (p_amount p) (p_secret p) -> In (p_secret p, p_amount p) issued.
Proof.
  unfold backedb. intros H p Hp Hc. rewrite forallb_forall in H. specialize (H p Hp). rewrite Hc in H.
  apply orb_prop in H as [H|H]; [|apply entry_mem_In; exact H].
  exfalso. cbn [cterm_eqb] in H. rewrite !Z.eqb_refl in H. discriminate H.
Qed.

Lemma fresh_outsb_ok issued outs : fresh_outsb issued outs = true ->
  NoDup (map b_secret outs) /\ (forall x, In x outs -> ~ In (b_secret x) (map fst issued)) /\
  Forall (fun x => 0 <= x < two64) (map b_amount outs).
Proof.
  unfold fresh_outsb. intros H. apply andb_prop in H as [H H3]. apply andb_prop in H as [H1 H2].
  split; [apply nodupb_NoDup; exact H1|]. split.
  - intros x Hx Hin. rewrite forallb_forall in H2. specialize (H2 x Hx). apply mem_In in Hin. rewrite Hin in H2. discriminate H2.
  - apply Forall_forall. intros a Ha. rewrite forallb_forall in H3. specialize (H3 a Ha). apply andb_prop in H3 as [Ha1 Ha2]. lia.
Qed.

Lemma honest_clientb_ok issued o : honest_clientb issued o = true -> honest_client issued o.
Proof.
  destruct o; cbn [honest_clientb honest_client]; try (intros _; exact I).
  - apply fresh_outsb_ok.
  - intros H. apply andb_prop in H as [H1 H2]. split; [apply backedb_ok; exact H1|apply fresh_outsb_ok; exact H2].
  - apply backedb_ok.
Qed.

Fixpoint clients_honestb (cfg : config) (w : world) (h : list op) (issued : list entry) : bool :=
  match h with
  | [] => true
  | o :: r => honest_clientb issued o &&
              clients_honestb cfg (fst (step cfg no_fault w o)) r (issued_by o (snd (step cfg no_fault w o)) ++ issued)
  end.

Lemma clients_honestb_ok cfg h : forall w issued, clients_honestb cfg w h issued = true -> clients_honest cfg w h issued.
Proof.
  induction h as [|o r IH]; intros w issued H; cbn [clients_honestb clients_honest] in *; [exact I|].
  apply andb_prop in H as [H1 H2]. split; [apply honest_clientb_ok; exact H1|apply IH; exact H2].
Qed.

(* the hypothesis is satisfiable by a history that mints, swaps and melts *)
Definition honest_history : list op :=
  [ ORestart 0 false; OMintQuote true 64 0 101 102; ESettle 102; OMint 101 [mkBmsg 104 64 0 0 true 103] 0;
    OSwap [mkProof 103 64 0 (CSig 0 64 103) 0 false true false] [mkBmsg 108 32 0 0 true 107; mkBmsg 110 32 0 0 true 109] true;
    OMeltQuote true true 106 106 20000 None 105;
    OMelt 105 [mkProof 107 32 0 (CSig 0 32 107) 0 false true false] ].

Example honest_history_ok :
  clients_honest (mkCfg 0 0 0 false 2) world0 honest_history [] /\
  let w := reach (mkCfg 0 0 0 false 2) honest_history in (vS w, vR w, vP w) = (128, 96, 0).
Proof. split; [apply clients_honestb_ok; vm_compute; reflexivity|vm_compute; reflexivity]. Qed.
