(* Sequential, fault-free behaviour of the mint-quote machine: GetMintQuoteState, MintTokens, the watcher. *)
From Coq Require Import ZArith List Bool Lia.
From Verif Require Import Model Sem InvDb InvSwap.
Import ListNotations.
Open Scope Z_scope.

Lemma find_mq_mem id l q : find_mq id l = Some q -> mem id (map mq_id l) = true /\ mq_id q = id /\ In q l.
Proof.
  unfold find_mq. intros H. apply find_some in H as [Hin He]. apply Z.eqb_eq in He.
  split; [|split; assumption]. apply mem_In. rewrite <- He. apply in_map. exact Hin.
Qed.

Lemma upd_mq_twice id a b l : upd_mq id a (upd_mq id b l) = upd_mq id a l.
Proof.
  unfold upd_mq. rewrite map_map. apply map_ext. intros q.
  destruct (mq_id q =? id) eqn:E; cbn [mq_id]; rewrite E; reflexivity.
Qed.

Lemma map_id_upd_mq id st l : map mq_id (upd_mq id st l) = map mq_id l.
Proof. apply map_upd_mq. Qed.

(* the world after a run differs from w at most in the mint-quote table (and the call counter) *)
Definition only_mq (w w' : world) (mq' : list mquote) : Prop :=
  w_ln w' = w_ln w /\ w_mem w' = w_mem w /\ w_active w' = w_active w /\
  d_spent (w_db w') = d_spent (w_db w) /\ d_pending (w_db w') = d_pending (w_db w) /\
  d_sigs (w_db w') = d_sigs (w_db w) /\ d_lq (w_db w') = d_lq (w_db w) /\ d_ks (w_db w') = d_ks (w_db w) /\
  d_mq (w_db w') = mq'.

Definition settled (w : world) (h : Z) : bool :=
  match find (fun i => (i_hash i =? h) && i_own i) (l_inv (w_ln w)) with
  | Some i => i_settled i
  | None => false
  end.

(* GetMintQuoteState: the only write is UNPAID -> PAID, and only when the backend reports the invoice settled *)
Lemma get_mint_quote_state_spec id w :
  exists w' r, run (get_mint_quote_state id) no_fault w = (w', Done r) /\
  match r with
  | Err _ => same_but_calls w w'
  | Ok q' =>
      exists q, find_mq id (d_mq (w_db w)) = Some q /\
      ((mq_state q <> 0 /\ q' = q /\ same_but_calls w w') \/
       (mq_state q = 0 /\ settled w (mq_hash q) = false /\ q' = q /\ same_but_calls w w') \/
       (mq_state q = 0 /\ settled w (mq_hash q) = true /\
        q' = mkMq (mq_id q) (mq_amount q) (mq_hash q) 1 (mq_pubkey q) /\
        only_mq w w' (upd_mq id 1 (d_mq (w_db w)))))
  end.
Proof.
  unfold get_mint_quote_state. rewrite run_do. destruct w as [d l m a n].
  cbn [exec is_call is_storage andb exec_db w_db w_ln w_mem w_active w_calls].
  destruct (find_mq id (d_mq d)) as [q|] eqn:Eq.
  2:{ eexists _, _. split; [reflexivity|repeat split]. }
  destruct (mq_state q =? 0) eqn:Es.
  2:{ eexists _, _. split; [reflexivity|]. exists q. split; [reflexivity|]. left.
      apply Z.eqb_neq in Es. repeat split; assumption. }
  apply Z.eqb_eq in Es.
  rewrite run_do. cbn [exec is_call is_storage andb w_db w_ln w_mem w_active w_calls].
  destruct (l_inverr l) eqn:Eie.
  { eexists _, _. split; [reflexivity|repeat split]. }
  destruct (find (fun i => (i_hash i =? mq_hash q) && i_own i) (l_inv l)) as [i|] eqn:Ei.
  2:{ eexists _, _. split; [reflexivity|repeat split]. }
  destruct (i_settled i) eqn:Est.
  - rewrite run_do. cbn [exec is_call is_storage andb exec_db w_db w_ln w_mem w_active w_calls].
    destruct (find_mq_mem _ _ _ Eq) as [Hm _]. rewrite Hm.
    eexists _, _. split; [reflexivity|]. exists q. split; [reflexivity|]. right. right.
    split; [exact Es|]. split; [unfold settled; cbn [w_ln]; rewrite Ei; exact Est|]. split; [reflexivity|]. repeat split.
  - eexists _, _. split; [reflexivity|]. exists q. split; [reflexivity|]. right. left.
    split; [exact Es|]. split; [unfold settled; cbn [w_ln]; rewrite Ei; exact Est|]. split; [reflexivity|]. repeat split.
Qed.

(* true sum of the output amounts *)
Definition out_sum (outs : list bmsg) : Z := fold_right Z.add 0 (map b_amount outs).

(* MintTokens, sequentially and without injected faults *)
Theorem mint_tokens_spec mem_ks active id outs sig w :
  WInv w ->
  exists w' r, run (mint_tokens mem_ks active id outs sig) no_fault w = (w', Done r) /\
  match r with
  | Ok sigs =>
      exists q, find_mq id (d_mq (w_db w)) = Some q /\
      ((* issuance: the quote was PAID, or UNPAID with a settled invoice *)
       ((mq_state q = 1 \/ (mq_state q = 0 /\ settled w (mq_hash q) = true)) /\
        (exists oa, amount_checked (map b_amount outs) 0 = Some oa /\ oa <= mq_amount q) /\
        NoDup (map b_B outs) /\
        (forall o, In o outs -> ~ In (b_B o) (map s_B (d_sigs (w_db w)))) /\
        (mq_pubkey q <> 0 -> sig = 1) /\
        check_outputs mem_ks active outs = None /\
        sigs = sig_rows outs /\
        d_sigs (w_db w') = d_sigs (w_db w) ++ sig_rows outs /\
        d_mq (w_db w') = upd_mq id 3 (d_mq (w_db w)) /\
        d_spent (w_db w') = d_spent (w_db w) /\ d_pending (w_db w') = d_pending (w_db w) /\
        d_lq (w_db w') = d_lq (w_db w) /\ w_ln w' = w_ln w)
       \/
       (* a state string the switch does not know: nothing happens *)
       (~ (0 <= mq_state q <= 3) /\ sigs = [] /\ same_but_calls w w'))
  | Err _ =>
      (* refusal: nothing but the lazily recorded payment may change *)
      same_but_calls w w' \/
      (exists q, find_mq id (d_mq (w_db w)) = Some q /\
                 (mq_state q = 1 \/ (mq_state q = 0 /\ settled w (mq_hash q) = true)) /\
                 only_mq w w' (upd_mq id 1 (d_mq (w_db w))))
  end.
Proof.
  intros Hinv. unfold mint_tokens. rewrite run_bind.
  destruct (get_mint_quote_state_spec id w) as [w1 [r1 [Hrun Hg]]]. rewrite Hrun.
  destruct r1 as [q1|e].
  2:{ eexists _, _. split; [reflexivity|]. left. exact Hg. }
  destruct Hg as [q [Hfind Hcases]].
  (* normalise the three cases into: state of q1, and how w1 relates to w *)
  assert (Hq1 : mq_id q1 = id /\ mq_amount q1 = mq_amount q /\ mq_pubkey q1 = mq_pubkey q /\
                ((mq_state q1 = mq_state q /\ same_but_calls w w1 /\ (mq_state q <> 0 \/ settled w (mq_hash q) = false)) \/
                 (mq_state q1 = 1 /\ mq_state q = 0 /\ settled w (mq_hash q) = true /\
                  only_mq w w1 (upd_mq id 1 (d_mq (w_db w)))))).
  { destruct (find_mq_mem _ _ _ Hfind) as [_ [Hid _]].
    destruct Hcases as [[Hs [-> Hsb]]|[[Hs [Hns [-> Hsb]]]|[Hs [Hst [-> Hom]]]]].
    - repeat split; try assumption. left. repeat split; try apply Hsb. left. exact Hs.
    - repeat split; try assumption. left. repeat split; try apply Hsb. right. exact Hns.
    - cbn [mq_id mq_amount mq_pubkey mq_state]. repeat split; try assumption. right. repeat split; try assumption; apply Hom. }
  destruct Hq1 as [Hid1 [Ham1 [Hpk1 Hrel]]].
  destruct (mq_state q1 =? 0) eqn:E0.
  { eexists _, _. split; [reflexivity|].
    destruct Hrel as [[_ [Hsb _]]|[H1 _]]; [left; exact Hsb|]. apply Z.eqb_eq in E0. lia. }
  destruct (mq_state q1 =? 3) eqn:E3.
  { eexists _, _. split; [reflexivity|].
    destruct Hrel as [[_ [Hsb _]]|[H1 _]]; [left; exact Hsb|]. apply Z.eqb_eq in E3. lia. }
  destruct (mq_state q1 =? 2) eqn:E2.
  { eexists _, _. split; [reflexivity|].
    destruct Hrel as [[_ [Hsb _]]|[H1 _]]; [left; exact Hsb|]. apply Z.eqb_eq in E2. lia. }
  destruct (mq_state q1 =? 1) eqn:E1.
  2:{ (* unknown state *)
    eexists _, _. split; [reflexivity|]. exists q. split; [exact Hfind|]. right.
    apply Z.eqb_neq in E0, E3, E2, E1.
    destruct Hrel as [[Hs [Hsb _]]|[H1 _]]; [|lia].
    split; [lia|]. split; [reflexivity|exact Hsb]. }
  apply Z.eqb_eq in E1.
  (* the quote is PAID in w1; its table there *)
  set (mq1 := d_mq (w_db w1)).
  assert (Hpaid : (mq_state q = 1 \/ (mq_state q = 0 /\ settled w (mq_hash q) = true))).
  { destruct Hrel as [[Hs _]|[_ [Hs0 [Hst _]]]]; [left; lia|right; split; assumption]. }
  assert (Hmem1 : mem id (map mq_id mq1) = true).
  { destruct (find_mq_mem _ _ _ Hfind) as [Hm _]. unfold mq1.
    destruct Hrel as [[_ [[Hd _] _]]|[_ [_ [_ Hom]]]].
    - rewrite Hd. exact Hm.
    - destruct Hom as [_ [_ [_ [_ [_ [_ [_ [_ Hmq]]]]]]]]. rewrite Hmq, map_id_upd_mq. exact Hm. }
  assert (Hupd1 : upd_mq id 1 mq1 = upd_mq id 1 (d_mq (w_db w))).
  { unfold mq1. destruct Hrel as [[_ [[Hd _] _]]|[_ [_ [_ Hom]]]].
    - rewrite Hd. reflexivity.
    - destruct Hom as [_ [_ [_ [_ [_ [_ [_ [_ Hmq]]]]]]]]. rewrite Hmq, upd_mq_twice. reflexivity. }
  assert (Hrest : w_ln w1 = w_ln w /\ w_mem w1 = w_mem w /\ w_active w1 = w_active w /\
                  d_spent (w_db w1) = d_spent (w_db w) /\ d_pending (w_db w1) = d_pending (w_db w) /\
                  d_sigs (w_db w1) = d_sigs (w_db w) /\ d_lq (w_db w1) = d_lq (w_db w) /\ d_ks (w_db w1) = d_ks (w_db w)).
  { destruct Hrel as [[_ [[Hd [Hl [Hm Ha]]] _]]|[_ [_ [_ Hom]]]].
    - rewrite Hd. repeat split; assumption.
    - destruct Hom as [H1 [H2 [H3 [H4 [H5 [H6 [H7 [H8 _]]]]]]]]. repeat split; assumption. }
  destruct Hrest as [Rl [Rm [Ra [Rs [Rp [Rg [Rlq Rk]]]]]]].
  destruct w1 as [d1 l1 m1 a1 n1]. cbn [w_db w_ln w_mem w_active] in *. subst l1 m1 a1.
  (* a refusal after the PENDING write: restore PAID *)
  assert (Hrestore : forall (e : err) n',
    exists w' , run (call u <- UpdateMintQuote id 1 ;; match u with RErr => fail EDb | ROk _ => @fail (list srow) e end)
                    no_fault (mkWorld (set_mq d1 (upd_mq id 2 mq1)) (w_ln w) (w_mem w) (w_active w) n') = (w', Done (Err e)) /\
               only_mq w w' (upd_mq id 1 (d_mq (w_db w)))).
  { intros e n'. rewrite run_do. cbn [exec is_call is_storage andb exec_db w_db w_ln w_mem w_active w_calls set_mq d_mq].
    rewrite map_id_upd_mq, Hmem1. eexists. split; [reflexivity|].
    cbn [w_db w_ln w_mem w_active set_mq d_spent d_pending d_sigs d_mq d_lq d_ks].
    rewrite upd_mq_twice, Hupd1. repeat split; assumption. }

  rewrite run_do. cbn [exec is_call is_storage andb exec_db w_db w_ln w_mem w_active w_calls].
  fold mq1. rewrite Hmem1.
  destruct (amount_checked (map b_amount outs) 0) as [oa|] eqn:Eoa.
  2:{ destruct (Hrestore EOutAmount (n1 + 1)) as [w' [Hr Ho]]. eexists _, _. split; [exact Hr|].
      right. exists q. split; [exact Hfind|]. split; [exact Hpaid|exact Ho]. }
  destruct (nodupb (map b_B outs)) eqn:Edo; cbn [negb].
  2:{ destruct (Hrestore EDupOutputs (n1 + 1)) as [w' [Hr Ho]]. eexists _, _. split; [exact Hr|].
      right. exists q. split; [exact Hfind|]. split; [exact Hpaid|exact Ho]. }
  destruct (mq_amount q1 <? oa) eqn:Eov.
  { destruct (Hrestore EOverQuote (n1 + 1)) as [w' [Hr Ho]]. eexists _, _. split; [exact Hr|].
    right. exists q. split; [exact Hfind|]. split; [exact Hpaid|exact Ho]. }
  rewrite run_do. cbn [exec is_call is_storage andb exec_db w_db w_ln w_mem w_active w_calls set_mq d_sigs].
  destruct (filter (fun s => mem (s_B s) (map b_B outs)) (d_sigs d1)) as [|x xs] eqn:Esg.
  2:{ destruct (Hrestore EAlreadySigned (n1 + 1 + 1)) as [w' [Hr Ho]]. eexists _, _. split; [exact Hr|].
      right. exists q. split; [exact Hfind|]. split; [exact Hpaid|exact Ho]. }
  destruct (negb (mq_pubkey q1 =? 0) && negb (sig =? 1)) eqn:Epk.
  { destruct (Hrestore EQuoteSig (n1 + 1 + 1)) as [w' [Hr Ho]]. eexists _, _. split; [exact Hr|].
    right. exists q. split; [exact Hfind|]. split; [exact Hpaid|exact Ho]. }
  destruct (check_outputs mem_ks active outs) as [e|] eqn:Eco.
  { destruct (Hrestore e (n1 + 1 + 1)) as [w' [Hr Ho]]. eexists _, _. split; [exact Hr|].
    right. exists q. split; [exact Hfind|]. split; [exact Hpaid|exact Ho]. }
  rewrite run_do. cbn [exec is_call is_storage andb exec_db w_db w_ln w_mem w_active w_calls set_mq d_mq].
  rewrite map_id_upd_mq, Hmem1.
  rewrite run_do. cbn [exec is_call is_storage andb exec_db w_db w_ln w_mem w_active w_calls set_mq d_sigs d_mq].
  assert (Hfresh_b : forall b, In b (map b_B outs) -> ~ In b (map s_B (d_sigs d1))).
  { intros b Hb Hin. apply in_map_iff in Hin as [r [Hr Hin]].
    assert (In r (filter (fun s => mem (s_B s) (map b_B outs)) (d_sigs d1))) as Hf.
    { apply filter_In. split; [exact Hin|]. apply mem_In. rewrite Hr. exact Hb. }
    rewrite Esg in Hf. destruct Hf. }
  assert (HBs : map s_B (sig_rows outs) = map b_B outs).
  { unfold sig_rows. rewrite map_map. reflexivity. }
  assert (Hsave2 : nodupb (map s_B (sig_rows outs) ++ map s_B (d_sigs d1)) = true).
  { apply nodupb_NoDup. rewrite HBs. apply nodupb_NoDup in Edo.
    destruct Hinv as [_ _ Hsg _ _ _]. rewrite <- Rg in Hsg. clear - Edo Hfresh_b Hsg.
    induction (map b_B outs) as [|y r IH]; cbn; [exact Hsg|].
    inversion Edo; subst. constructor.
    - intro Hin. apply in_app_or in Hin as [Hin|Hin]; [contradiction|]. eapply Hfresh_b; [left; reflexivity|exact Hin].
    - apply IH; [assumption|]. intros y' Hy'. apply Hfresh_b. right. exact Hy'. }
  rewrite Hsave2.
  eexists _, _. split; [reflexivity|]. exists q. split; [exact Hfind|]. left.
  split; [exact Hpaid|].
  split. { exists oa. split; [reflexivity|]. apply Z.ltb_ge in Eov. lia. }
  split; [apply nodupb_NoDup; exact Edo|].
  split. { intros o Ho. rewrite <- Rg. apply Hfresh_b. apply in_map. exact Ho. }
  split.
  { intros Hpk. rewrite <- Hpk1 in Hpk. apply Z.eqb_neq in Hpk. rewrite Hpk in Epk. cbn [negb andb] in Epk.
    apply negb_false_iff in Epk. apply Z.eqb_eq in Epk. exact Epk. }
  split; [reflexivity|]. split; [reflexivity|].
  cbn [w_db w_ln w_mem w_active set_sigs set_mq d_spent d_pending d_sigs d_mq d_lq d_ks].
  rewrite upd_mq_twice. rewrite Rg.
  assert (Hupd3 : upd_mq id 3 mq1 = upd_mq id 3 (d_mq (w_db w))).
  { unfold mq1. cbn [w_db]. destruct Hrel as [[_ [[Hd _] _]]|[_ [_ [_ Hom]]]].
    - cbn [w_db] in Hd. rewrite Hd. reflexivity.
    - destruct Hom as [_ [_ [_ [_ [_ [_ [_ [_ Hmq]]]]]]]]. cbn [w_db] in Hmq. rewrite Hmq, upd_mq_twice. reflexivity. }
  rewrite Hupd3. repeat split; assumption.
Qed.
