(* Reconfiguration: the operator may stop the mint, change its limits / MPP support and start it again on the same store.
   A history is then a list of segments, each run under its own configuration.  Everything that was proved as a step- or
   command-level invariant composes across segments; the statements below are the ones the properties need. *)
From Coq Require Import ZArith List Bool Lia.
From Verif Require Import Model Sem InvDb InvSwap InvMint InvMelt Corollaries Queries Footprint HRel Global GlobalQuote GlobalValue GlobalQuery GlobalLedger.
Import ListNotations.
Open Scope Z_scope.

Fixpoint hrun_cfgs (w : world) (segs : list (config * list hitem)) : world :=
  match segs with
  | [] => w
  | (c, h) :: r => hrun_cfgs (hrun c w h) r
  end.

Theorem reconf_inv segs : forall w, WInv w -> WInv (hrun_cfgs w segs).
Proof. induction segs as [|[c h] r IH]; intros w Hw; cbn [hrun_cfgs]; [exact Hw|]. apply IH. apply hrun_inv. exact Hw. Qed.

Theorem reconf_ext segs : forall w, wext w (hrun_cfgs w segs).
Proof.
  induction segs as [|[c h] r IH]; intros w; cbn [hrun_cfgs]; [apply extends_refl|].
  eapply extends_trans; [apply hrun_ext|apply IH].
Qed.

Theorem reconf_keeps_keysets segs : forall w, ks_ext (d_ks (w_db w)) (d_ks (w_db (hrun_cfgs w segs))).
Proof.
  induction segs as [|[c h] r IH]; intros w; cbn [hrun_cfgs]; [intros k Hk; exists k; repeat split; assumption|].
  intros k Hk. destruct (keysets_never_lost c h w k Hk) as [k1 [H1 [E1 F1]]]. destruct (IH _ k1 H1) as [k2 [H2 [E2 F2]]].
  exists k2. repeat split; congruence.
Qed.

Theorem reconf_keeps_quotes segs : forall w, quotes_ext w (hrun_cfgs w segs).
Proof.
  induction segs as [|[c h] r IH]; intros w; cbn [hrun_cfgs].
  - split; intros x Hx; exists x; split; [assumption|reflexivity|assumption|reflexivity].
  - destruct (quotes_never_altered c h w) as [A1 A2]. destruct (IH (hrun c w h)) as [B1 B2]. split.
    + intros m Hm. destruct (A1 m Hm) as [m1 [H1 E1]]. destruct (B1 m1 H1) as [m2 [H2 E2]]. exists m2. split; [exact H2|congruence].
    + intros q Hq. destruct (A2 q Hq) as [q1 [H1 E1]]. destruct (B2 q1 H1) as [q2 [H2 E2]]. exists q2. split; [exact H2|congruence].
Qed.

(* sequential segments: the ghost traces thread through, the value invariants hold at the end *)
Fixpoint qtrace_cfgs (w : world) (segs : list (config * list op)) (iss cred : list Z) : world * list Z * list Z :=
  match segs with
  | [] => (w, iss, cred)
  | (c, h) :: r => let '(w', iss', cred') := qtrace c w h iss cred in qtrace_cfgs w' r iss' cred'
  end.

Fixpoint segs_ok (w : world) (segs : list (config * list op)) : Prop :=
  match segs with
  | [] => True
  | (c, h) :: r => cfg_ok c /\ honest c w h /\ Forall op_u64 h /\ segs_ok (fst (run_history c w h)) r
  end.

Lemma qtrace_world cfg h : forall w iss cred, fst (fst (qtrace cfg w h iss cred)) = fst (run_history cfg w h).
Proof.
  induction h as [|o r IH]; intros w iss cred; [reflexivity|]. cbn [qtrace]. rewrite run_history_fst. apply IH.
Qed.

Theorem no_inflation_reconf segs : forall w iss cred,
  segs_ok w segs -> QInv w iss cred -> VI iss w ->
  let '(w', iss', cred') := qtrace_cfgs w segs iss cred in
  QInv w' iss' cred' /\ VI iss' w' /\
  vS w' + vOut w' <= vR w' + per_quote (fun m => esett w' m + cnt (mq_id m) cred') (d_mq (w_db w')).
Proof.
  induction segs as [|[c h] r IH]; intros w iss cred Hok Hq Hv; cbn [qtrace_cfgs].
  - split; [exact Hq|]. split; [exact Hv|]. destruct Hq as [Q1 Q2]. destruct Hv as [Hg [[V1 V2 V3 V4] Hi]].
    rewrite (wsum_per_quote iss _ (inv_mq _ (g_inv w Hg))) in V4.
    assert (Hle : per_quote (fun m => cnt (mq_id m) iss) (d_mq (w_db w)) <=
                  per_quote (fun m => esett w m + cnt (mq_id m) cred) (d_mq (w_db w))).
    { apply per_quote_le; [exact V2|]. intros m Hm. destruct (Q1 m Hm) as [Hr [Hz [Ho Hi3]]].
      pose proof (esett_range w m). pose proof (cnt_nonneg (mq_id m) cred).
      assert (Hs : mq_state m = 0 \/ (mq_state m = 1 \/ mq_state m = 2) \/ mq_state m = 3) by lia.
      destruct Hs as [Hs|[Hs|Hs]]; [specialize (Hz Hs)|specialize (Ho Hs)|specialize (Hi3 Hs)]; lia. }
    lia.
  - destruct Hok as [Hc [Hh [Hu Hrest]]].
    pose proof (qtrace_vi c h w iss cred Hc Hh Hu Hq Hv) as H.
    pose proof (qtrace_world c h w iss cred) as Ew.
    destruct (qtrace c w h iss cred) as [[w1 iss1] cred1]. cbn [fst] in Ew. destruct H as [Hq1 Hv1].
    apply IH; [rewrite Ew; exact Hrest|exact Hq1|exact Hv1].
Qed.

(* the ledger form across segments *)
Fixpoint ltrace_cfgs (w : world) (segs : list (config * list op)) (ip : list (Z * Z)) : world * list (Z * Z) :=
  match segs with
  | [] => (w, ip)
  | (c, h) :: r => let '(w', ip') := ltrace c w h ip in ltrace_cfgs w' r ip'
  end.

Fixpoint segs_ln_ok (w : world) (segs : list (config * list op)) : Prop :=
  match segs with
  | [] => True
  | (c, h) :: r => ln_ok c w h /\ segs_ln_ok (fst (run_history c w h)) r
  end.

Lemma ltrace_world cfg h : forall w ip, fst (ltrace cfg w h ip) = fst (run_history cfg w h).
Proof.
  induction h as [|o r IH]; intros w ip; [reflexivity|]. cbn [ltrace]. rewrite run_history_fst. apply IH.
Qed.

Theorem no_inflation_ledger_reconf segs : forall w iss ip,
  segs_ok w segs -> segs_ln_ok w segs -> QInv w iss (map snd ip) -> VI iss w -> LI ip w ->
  let '(w', ip') := ltrace_cfgs w segs ip in
  vS w' + ext_out w' (map fst ip') <= vR w' + per_quote (esett w') (d_mq (w_db w')).
Proof.
  induction segs as [|[c h] r IH]; intros w iss ip Hok Hln Hq Hv Hl; cbn [ltrace_cfgs].
  - exact (ledger_bound w iss ip Hq Hv Hl).
  - destruct Hok as [Hc [Hh [Hu Hrest]]]. destruct Hln as [Hl1 Hlrest].
    pose proof (qtrace_vi c h w iss (map snd ip) Hc Hh Hu Hq Hv) as H.
    pose proof (ltrace_qtrace c h w iss (map snd ip) ip eq_refl) as [Ew Ec].
    pose proof (ltrace_li c h w ip Hl1 Hl) as HL.
    pose proof (ltrace_world c h w ip) as Ew2.
    destruct (qtrace c w h iss (map snd ip)) as [[w1 iss1] cred1]. cbn [fst snd] in Ew, Ec.
    destruct (ltrace c w h ip) as [w2 ip2]. cbn [fst snd] in *. subst w2 cred1.
    destruct H as [Hq1 Hv1].
    apply (IH w1 iss1 ip2); [rewrite Ew2; exact Hrest|rewrite Ew2; exact Hlrest|exact Hq1|exact Hv1|exact HL].
Qed.
