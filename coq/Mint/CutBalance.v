(* C16 + C07: the balance is never negative - also along histories whose requests are cut at any call or hit by storage errors at
   any positions (every request except MeltTokens, the poll of a melt quote and the state check, which run to completion).
   Same reading as GlobalBalance: clients only present genuine proofs they unblinded from signatures the mint stored earlier. *)
From Coq Require Import ZArith List Bool Lia.
From Verif Require Import Model Sem InvDb InvSwap InvMint InvMelt Corollaries Queries Footprint Global GlobalQuote GlobalValue GlobalErr
  GlobalBalance CutValue CutMint CutFrames ConcValue CutHistory.
Import ListNotations.
Open Scope Z_scope.

(* ghost: what a cut / faulted request issued - its outputs, exactly when the signature table grew *)
Definition cut_issued (o : op) (w w' : world) : list entry :=
  match o with
  | OSwap _ outs _ | OMint _ outs _ => if sigs_grew w w' then outs_entries outs else []
  | _ => []
  end.

Lemma bi_frame_n {R} allowed (p : prog R) issued w n f :
  only allowed p -> (forall c, allowed c = true -> c_sp c = false /\ c_sigs c = false) ->
  BI issued w -> BI issued (fst (run_n n p f w)).
Proof.
  intros Ho Ha [Hg Hb].
  assert (Hsp : same_sp w (fst (run_n n p f w))) by (apply (frame_n_sp allowed); [exact Ho|intros c Hc; apply Ha; exact Hc]).
  split.
  - split; [apply run_n_inv; apply Hg|eapply disjoint_same_sp; [exact Hsp|apply Hg]].
  - apply (binv_frame w); [exact Hsp| |exact Hb]. apply (frame_n_sigs allowed); [exact Ho|intros c Hc; apply Ha; exact Hc].
Qed.

Lemma sigs_grew_same w w' : d_sigs (w_db w') = d_sigs (w_db w) -> sigs_grew w w' = false.
Proof. intros H. unfold sigs_grew. rewrite H, Nat.eqb_refl. reflexivity. Qed.

Lemma sigs_grew_app w w' (o : bmsg) outs :
  d_sigs (w_db w') = d_sigs (w_db w) ++ sig_rows (o :: outs) -> sigs_grew w w' = true.
Proof.
  intros H. unfold sigs_grew. rewrite H, app_length. cbn [sig_rows map length].
  destruct (Nat.eqb_spec (length (d_sigs (w_db w)) + S (length (map (fun o0 => mkSrow (b_B o0) (b_amount o0) (b_ks o0)) outs))) (length (d_sigs (w_db w)))) as [E|E];
    [lia|reflexivity].
Qed.

(* the store after: same proof tables up to appended rows that are backed by issued entries; signatures unchanged or exactly the outputs *)
Lemma binv_cut w w' issued outs ev :
  Good w' ->
  (forall e, In e (row_entries (d_spent (w_db w')) ++ row_entries (d_pending (w_db w'))) -> In e issued) ->
  (d_sigs (w_db w') = d_sigs (w_db w) \/ d_sigs (w_db w') = d_sigs (w_db w) ++ sig_rows outs) ->
  ev = (if sigs_grew w w' then outs_entries outs else []) ->
  NoDup (map b_secret outs) -> (forall x, In x outs -> ~ In (b_secret x) (map fst issued)) ->
  Forall (fun x => 0 <= x < two64) (map b_amount outs) ->
  BInv w issued -> BInv w' (ev ++ issued).
Proof.
  intros Hg Hrows Hsg -> Hnd Hfresh Hu Hb.
  assert (Hsame : d_sigs (w_db w') = d_sigs (w_db w) -> BInv w' ((if sigs_grew w w' then outs_entries outs else []) ++ issued)).
  { intros E. rewrite (sigs_grew_same w w' E). cbn [app]. destruct Hb as [B1 B2 B3 B4 B5]. split; try assumption.
    - unfold vS in *. rewrite E. exact B3.
    - rewrite E. exact B5. }
  destruct Hsg as [E|E]; [apply Hsame; exact E|].
  destruct outs as [|o outs']; [apply Hsame; rewrite E; cbn [sig_rows map]; apply app_nil_r|].
  rewrite (sigs_grew_app w w' o outs' E).
  apply (binv_issue w w' issued (o :: outs') E Hnd Hfresh Hu); [|exact Hb].
  intros e He. apply in_or_app. right. apply Hrows. exact He.
Qed.

Lemma swap_cut_bi mem_ks active ins outs sg n f w issued :
  honest_client issued (OSwap ins outs sg) -> BI issued w ->
  let w' := fst (run_n n (swap mem_ks active ins outs sg) f w) in
  BI (cut_issued (OSwap ins outs sg) w w' ++ issued) w'.
Proof.
  intros [Hhon [Hnd [Hfresh Hu]]] [Hg Hb]. cbv zeta.
  pose proof (swap_cut_good mem_ks active ins outs sg n f w Hg) as Hg'.
  destruct (swap_cut_states mem_ks active ins outs sg n f w) as [[_ [_ [_ [Hpe _]]]] Hc].
  set (w' := fst (run_n n (swap mem_ks active ins outs sg) f w)) in *.
  split; [exact Hg'|]. cbn [cut_issued].
  destruct Hc as [[Hsp Hsg]|[Hcp [_ [_ [Hsp Hsg]]]]].
  - apply (binv_cut w w' issued outs); try assumption; [|left; exact Hsg|reflexivity].
    rewrite Hsp, Hpe. apply Hb.
  - apply (binv_cut w w' issued outs); try assumption; [|reflexivity].
    rewrite Hsp, Hpe. intros e He. apply in_app_or in He as [He|He]; [|apply Hb; apply in_or_app; right; exact He].
    unfold row_entries in He. rewrite map_app in He. apply in_app_or in He as [He|He]; [apply Hb; apply in_or_app; left; exact He|].
    apply in_row_entries_to_row in He as [p [Hp ->]]. apply Hhon; [exact Hp|]. eapply genuine_of_checked; eassumption.
Qed.

Lemma mint_cut_bi mem_ks active id outs sig n f w issued :
  honest_client issued (OMint id outs sig) -> BI issued w ->
  let w' := fst (run_n n (mint_tokens mem_ks active id outs sig) f w) in
  BI (cut_issued (OMint id outs sig) w w' ++ issued) w'.
Proof.
  intros [Hnd [Hfresh Hu]] [Hg Hb]. cbv zeta.
  destruct (mint_cut_states mem_ks active id outs sig n f w) as [[_ [_ [_ [Hsp [Hpe _]]]]] Hc].
  pose proof (run_n_inv (mint_tokens mem_ks active id outs sig) n f w (g_inv w Hg)) as Hinv'.
  set (w' := fst (run_n n (mint_tokens mem_ks active id outs sig) f w)) in *.
  assert (Hg' : Good w').
  { split; [exact Hinv'|]. intros y Hy Hp. rewrite Hsp in Hy. rewrite Hpe in Hp. exact (g_dis w Hg y Hy Hp). }
  split; [exact Hg'|]. cbn [cut_issued].
  apply (binv_cut w w' issued outs); try assumption; [rewrite Hsp, Hpe; apply Hb| |reflexivity].
  destruct Hc as [[Hsg _]|[q [_ [_ [[Hsg _]|[Hsg _]]]]]]; [left|left|right]; exact Hsg.
Qed.

(* ---------- histories of items ---------- *)

Definition seq_cut_item (it : hitem) : Prop :=
  match it with HNormal _ => True | HFault o _ | HCrash o _ => cuttable o | HConc _ _ => False end.

Fixpoint hbtrace (cfg : config) (w : world) (h : list hitem) (issued : list entry) : world * list entry :=
  match h with
  | [] => (w, issued)
  | it :: r =>
      match it with
      | HNormal o => hbtrace cfg (hstep cfg w it) r (issued_by o (snd (step cfg no_fault w o)) ++ issued)
      | HFault o _ | HCrash o _ => hbtrace cfg (hstep cfg w it) r (cut_issued o (prepare o w) (hstep cfg w it) ++ issued)
      | HConc _ _ => hbtrace cfg (hstep cfg w it) r issued
      end
  end.

Definition item_op (it : hitem) : option op :=
  match it with HNormal o | HFault o _ | HCrash o _ => Some o | HConc _ _ => None end.

Fixpoint hclients_honest (cfg : config) (w : world) (h : list hitem) (issued : list entry) : Prop :=
  match h with
  | [] => True
  | it :: r =>
      match it with
      | HNormal o => honest_client issued o /\
                     hclients_honest cfg (hstep cfg w it) r (issued_by o (snd (step cfg no_fault w o)) ++ issued)
      | HFault o _ | HCrash o _ => honest_client issued o /\
                     hclients_honest cfg (hstep cfg w it) r (cut_issued o (prepare o w) (hstep cfg w it) ++ issued)
      | HConc _ _ => hclients_honest cfg (hstep cfg w it) r issued
      end
  end.

Lemma hbtrace_world cfg h : forall w issued, fst (hbtrace cfg w h issued) = hrun cfg w h.
Proof.
  induction h as [|it r IH]; intros w issued; cbn [hbtrace hrun fold_left]; [reflexivity|]. destruct it; apply IH.
Qed.

Lemma bi_prepare o issued w : BI issued w -> BI issued (prepare o w).
Proof. intros [Hg Hb]. split; [apply good_prepare; exact Hg|apply (binv_db_same w); [apply prepare_db|exact Hb]]. Qed.

Lemma cut_item_bi cfg w it issued o :
  is_cut_of it o -> cuttable o -> honest_client issued o -> BI issued w ->
  BI (cut_issued o (prepare o w) (hstep cfg w it) ++ issued) (hstep cfg w it).
Proof.
  intros Hit Hc Hh Hw. pose proof (bi_prepare o issued w Hw) as H0. set (w0 := prepare o w) in *.
  assert (Hquiet : forall X (p : prog X) (g : X -> opres),
            is_env o = false -> op_prog cfg (w_mem w0) (w_active w0) o = bind p (fun x => Ret (g x)) ->
            only (fp_op o) p -> (forall c, fp_op o c = true -> c_sp c = false /\ c_sigs c = false) ->
            BI issued (hstep cfg w it)).
  { intros X p g He Hop Ho Ha. destruct (item_as_run_n cfg w o it p g Hit He Hop) as [n [f Hst]]. rewrite Hst.
    apply (bi_frame_n (fp_op o)); assumption. }
  destruct o; try (destruct Hc); cbn [cut_issued app].
  - apply (Hquiet _ (request_mint_quote cfg unit_ok amount pubkey newid newhash) _ eq_refl eq_refl); [apply only_request_mint_quote|].
    intros c H; destruct c; cbn in *; split; congruence.
  - apply (Hquiet _ (get_mint_quote_state id) _ eq_refl eq_refl); [apply only_mint_state|].
    intros c H; destruct c; cbn in *; split; congruence.
  - destruct (item_as_run_n cfg w (OMint id outs sig) it (mint_tokens (w_mem w0) (w_active w0) id outs sig) _ Hit eq_refl eq_refl) as [n [f Hst]].
    rewrite Hst. exact (mint_cut_bi (w_mem w0) (w_active w0) id outs sig n f w0 issued Hh H0).
  - destruct (item_as_run_n cfg w (OSwap ins outs outs_signed) it (swap (w_mem w0) (w_active w0) ins outs outs_signed) _ Hit eq_refl eq_refl) as [n [f Hst]].
    rewrite Hst. exact (swap_cut_bi (w_mem w0) (w_active w0) ins outs outs_signed n f w0 issued Hh H0).
  - apply (Hquiet _ (request_melt_quote cfg unit_ok decodes req h msat mpp newid) _ eq_refl eq_refl); [apply only_request_melt_quote|].
    intros c H; destruct c; cbn in *; split; congruence.
  - apply (Hquiet _ (restore_sigs bs []) _ eq_refl eq_refl); [apply only_restore|].
    intros c H; destruct c; cbn in *; split; congruence.
  - apply (Hquiet _ (rotate_keyset (w_mem w0) (w_active w0) fee) _ eq_refl eq_refl); [apply only_rotate|].
    intros c H; destruct c; cbn in *; split; congruence.
  - apply (Hquiet _ (load_mint fee rotate) _ eq_refl eq_refl); [apply only_load|].
    intros c H; destruct c; cbn in *; split; congruence.
  - apply (Hquiet _ (watcher_fire id) (fun _ => RUnit) eq_refl eq_refl); [apply only_watcher|].
    intros c H; destruct c; cbn in *; split; congruence.
  - apply (Hquiet _ total_balance _ eq_refl eq_refl); [apply only_balance|].
    intros c H; destruct c; cbn in *; split; congruence.
  - apply (Hquiet _ (info_disabled cfg) _ eq_refl eq_refl); [apply only_info|].
    intros c H; destruct c; cbn in *; split; congruence.
Qed.

Lemma hbtrace_bi cfg h : forall w issued,
  Forall seq_cut_item h -> hclients_honest cfg w h issued -> BI issued w ->
  BI (snd (hbtrace cfg w h issued)) (fst (hbtrace cfg w h issued)).
Proof.
  induction h as [|it r IH]; intros w issued Hs Hh Hb; cbn [hbtrace fst snd]; [exact Hb|].
  inversion Hs as [|? ? Hs1 Hs2]; subst.
  destruct it as [o|o f|o k|ops sched]; cbn [hclients_honest] in Hh.
  - destruct Hh as [Ho Hr]. apply IH; [exact Hs2|exact Hr|apply step_bi; assumption].
  - destruct Hh as [Ho Hr]. apply IH; [exact Hs2|exact Hr|].
    apply (cut_item_bi cfg w (HFault o f) issued o (or_introl eq_refl) Hs1 Ho Hb).
  - destruct Hh as [Ho Hr]. apply IH; [exact Hs2|exact Hr|].
    apply (cut_item_bi cfg w (HCrash o k) issued o (or_intror eq_refl) Hs1 Ho Hb).
  - destruct Hs1.
Qed.

(* C16 + C07: redeemed + locked <= issued in every state reached by a history with cuts and storage errors; the balance the mint
   reports there is exact and non-negative *)
Theorem balance_never_negative_with_cuts cfg h :
  Forall seq_cut_item h -> hclients_honest cfg world0 h [] ->
  let w := hrun cfg world0 h in
  vR w + vP w <= vS w /\
  (vS w < two63 -> exists w', run total_balance no_fault w = (w', Done (Ok (vS w - vR w))) /\ 0 <= vS w - vR w).
Proof.
  intros Hs Hh w. pose proof (hbtrace_bi cfg h world0 [] Hs Hh BI0) as [Hg Hb].
  rewrite hbtrace_world in Hg, Hb. fold w in Hg, Hb.
  set (issued' := snd (hbtrace cfg world0 h [])) in *.
  pose proof (binv_bound w _ Hg Hb) as Hbound. split; [exact Hbound|].
  intros Hlt.
  destruct Hb as [B1 B2 B3 B4 B5].
  assert (Hrows : forall rows, (forall e, In e (row_entries rows) -> In e issued') -> Forall (fun x => 0 <= x) (map r_amount rows)).
  { intros rows Hin. apply Forall_forall. intros a Ha. apply in_map_iff in Ha as [x [<- Hx]].
    apply (B2 (r_y x, r_amount x)). apply Hin. unfold row_entries. apply in_map_iff. exists x. split; [reflexivity|exact Hx]. }
  assert (Hsp : Forall (fun x => 0 <= x) (map r_amount (d_spent (w_db w)))).
  { apply Hrows. intros e He. apply B4. apply in_or_app. left. exact He. }
  assert (Hpe : Forall (fun x => 0 <= x) (map r_amount (d_pending (w_db w)))).
  { apply Hrows. intros e He. apply B4. apply in_or_app. right. exact He. }
  assert (HP : 0 <= vP w) by (apply tsum_nonneg; exact Hpe).
  destruct (total_balance_exact w B5 Hsp) as [w' [Hrun _]]; [exact Hlt|unfold issued_total, redeemed_total; unfold vS, vR in Hbound; lia|].
  exists w'. split; [exact Hrun|]. lia.
Qed.

(* ---------- decision procedure for the hypothesis and a non-vacuity check ---------- *)

Fixpoint hclients_honestb (cfg : config) (w : world) (h : list hitem) (issued : list entry) : bool :=
  match h with
  | [] => true
  | it :: r =>
      match it with
      | HNormal o => honest_clientb issued o &&
                     hclients_honestb cfg (hstep cfg w it) r (issued_by o (snd (step cfg no_fault w o)) ++ issued)
      | HFault o _ | HCrash o _ => honest_clientb issued o &&
                     hclients_honestb cfg (hstep cfg w it) r (cut_issued o (prepare o w) (hstep cfg w it) ++ issued)
      | HConc _ _ => hclients_honestb cfg (hstep cfg w it) r issued
      end
  end.

Lemma hclients_honestb_ok cfg h : forall w issued, hclients_honestb cfg w h issued = true -> hclients_honest cfg w h issued.
Proof.
  induction h as [|it r IH]; intros w issued H; cbn [hclients_honestb hclients_honest] in *; [exact I|].
  destruct it; try (apply IH; exact H);
    apply andb_prop in H as [H1 H2]; (split; [apply honest_clientb_ok; exact H1|apply IH; exact H2]).
Qed.

Definition cut_balance_history : list hitem :=
  let p := mkProof 103 64 0 (CSig 0 64 103) 0 false true false in
  [ HNormal (ORestart 0 false); HNormal (OMintQuote true 64 0 101 102); HNormal (ESettle 102);
    HFault (OMint 101 [mkBmsg 104 64 0 0 true 103] 0) (fun k => k =? 6);        (* signature write fails: back to PAID *)
    HNormal (OMint 101 [mkBmsg 104 64 0 0 true 103] 0);
    HCrash (OSwap [p] [mkBmsg 108 32 0 0 true 107; mkBmsg 110 32 0 0 true 109] true) 4;   (* inputs burnt, nothing signed *)
    HNormal (OMintQuote true 32 0 111 112); HNormal (ESettle 112);
    HCrash (OMint 111 [mkBmsg 114 32 0 0 true 113] 0) 7;                        (* all seven calls made: signatures stored *)
    HNormal (OMeltQuote true true 106 106 20000 None 105);
    HNormal (OMelt 105 [mkProof 113 32 0 (CSig 0 32 113) 0 false true false]) ].

Example cut_balance_history_ok :
  let cfg := mkCfg 0 0 0 false 2 in
  Forall seq_cut_item cut_balance_history /\ hclients_honest cfg world0 cut_balance_history [] /\
  let w := hrun cfg world0 cut_balance_history in (vS w, vR w, vP w) = (96, 96, 0).
Proof.
  cbv zeta. split; [unfold cut_balance_history; repeat (constructor; [exact I|]); constructor|].
  split; [apply hclients_honestb_ok; vm_compute; reflexivity|vm_compute; reflexivity].
Qed.
