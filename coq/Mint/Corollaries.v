(* Property-level consequences of the operation specifications. *)
From Coq Require Import ZArith List Bool Lia.
From Verif Require Import Model Sem InvDb InvSwap InvMint InvMelt.
Import ListNotations.
Open Scope Z_scope.

(* ------------------------------------------------------------------ arithmetic of amounts *)

Definition tsum (l : list Z) : Z := fold_right Z.add 0 l.

Lemma two64_pos : 0 < two64. Proof. reflexivity. Qed.

Lemma add64_le a b : 0 <= a -> 0 <= b -> add64 a b <= a + b.
Proof. intros Ha Hb. unfold add64. apply Z.mod_le; [lia|apply two64_pos]. Qed.

Lemma add64_range a b : 0 <= add64 a b < two64.
Proof. unfold add64. apply Z.mod_pos_bound. apply two64_pos. Qed.

Lemma fold_add64_le l : forall acc, 0 <= acc -> Forall (fun x => 0 <= x) l ->
  0 <= fold_left add64 l acc <= acc + tsum l.
Proof.
  induction l as [|x r IH]; intros acc Hacc Hall; cbn [fold_left tsum fold_right]; [lia|].
  inversion Hall; subst.
  assert (H0 : 0 <= add64 acc x) by (apply add64_range).
  specialize (IH (add64 acc x) H0 H2). pose proof (add64_le acc x Hacc H1). fold (tsum r) in *. lia.
Qed.

(* the wrapping sum of the inputs never exceeds their true sum *)
Lemma sum64_le l : Forall (fun x => 0 <= x) l -> 0 <= sum64 l <= tsum l.
Proof. intros H. unfold sum64. pose proof (fold_add64_le l 0 (Z.le_refl 0) H). lia. Qed.

(* AmountChecked returns the true sum, or refuses *)
Lemma amount_checked_sum l : forall acc r, 0 <= acc < two64 -> Forall (fun x => 0 <= x < two64) l ->
  amount_checked l acc = Some r -> r = acc + tsum l.
Proof.
  induction l as [|x t IH]; intros acc r Hacc Hall; cbn [amount_checked tsum fold_right].
  - intros H; inversion H; lia.
  - inversion Hall; subst. destruct ((add64 acc x <? acc) || (add64 acc x <? x)) eqn:E; [discriminate|].
    apply orb_false_iff in E as [E1 E2]. apply Z.ltb_ge in E1, E2.
    assert (Hs : add64 acc x = acc + x).
    { unfold add64 in *. destruct (Z_lt_dec (acc + x) two64) as [Hlt|Hge].
      - apply Z.mod_small. lia.
      - exfalso. assert (Hm : (acc + x) mod two64 = acc + x - two64).
        { symmetry. apply Zmod_unique with (q := 1); unfold two64 in *; lia. }
        rewrite Hm in E1. lia. }
    intros H. apply IH in H; [|rewrite Hs; pose proof (add64_range acc x); rewrite Hs in *; lia|assumption].
    fold (tsum t). lia.
Qed.

(* ------------------------------------------------------------------ C04: the per-proof gate *)

Lemma cterm_eqb_eq a b : cterm_eqb a b = true <-> a = b.
Proof.
  destruct a, b; cbn [cterm_eqb]; try (split; [discriminate|intros H; discriminate H]).
  - rewrite !andb_true_iff, !Z.eqb_eq. split; [intros [[-> ->] ->]; reflexivity|intros H; inversion H; auto].
  - rewrite Z.eqb_eq. split; [intros ->; reflexivity|intros H; inversion H; auto].
  - split; reflexivity.
Qed.

Theorem check_proof_iff mem_ks p :
  check_proof mem_ks p = None <->
  p_long p = false /\ find_ks (p_ks p) mem_ks <> None /\ is_key_amount (p_amount p) = true /\
  p_cond p = true /\ p_C p = CSig (p_ks p) (p_amount p) (p_secret p).
Proof.
  unfold check_proof. destruct (p_long p); [split; [discriminate|intros [H _]; discriminate]|].
  destruct (find_ks (p_ks p) mem_ks) as [k|]; [|split; [discriminate|intros [_ [H _]]; congruence]].
  destruct (is_key_amount (p_amount p)); cbn [negb]; [|split; [discriminate|intros [_ [_ [H _]]]; discriminate]].
  destruct (p_cond p); cbn [negb]; [|split; [discriminate|intros [_ [_ [_ [H _]]]]; discriminate]].
  destruct (p_C p) as [k' a' s'|n|] eqn:EC.
  - destruct (cterm_eqb (CSig k' a' s') (CSig (p_ks p) (p_amount p) (p_secret p))) eqn:E.
    + apply cterm_eqb_eq in E. split; [intros _; repeat split; try discriminate; exact E|reflexivity].
    + split; [discriminate|]. intros [_ [_ [_ [_ H]]]]. apply cterm_eqb_eq in H. congruence.
  - cbn [cterm_eqb]. split; [discriminate|intros [_ [_ [_ [_ H]]]]; discriminate].
  - split; [discriminate|intros [_ [_ [_ [_ H]]]]; discriminate].
Qed.

Lemma check_proofs_forall mem_ks ps :
  check_proofs mem_ks ps = None <-> forall p, In p ps -> check_proof mem_ks p = None.
Proof.
  induction ps as [|p r IH]; cbn [check_proofs]; [split; [intros _ p []|reflexivity]|].
  destruct (check_proof mem_ks p) eqn:E.
  - split; [discriminate|]. intros H. specialize (H p (or_introl eq_refl)). congruence.
  - rewrite IH. split.
    + intros H q [<-|Hq]; [exact E|apply H; exact Hq].
    + intros H q Hq. apply H. right. exact Hq.
Qed.

Lemma check_outputs_active mem_ks active outs :
  check_outputs mem_ks active outs = None ->
  forall o, In o outs -> b_ks o = active /\ find_ks (b_ks o) mem_ks <> None /\ is_key_amount (b_amount o) = true /\ b_point o = true.
Proof.
  induction outs as [|o r IH]; cbn [check_outputs]; [intros _ o []|].
  destruct (find_ks (b_ks o) mem_ks) eqn:Ek; [|discriminate].
  destruct (b_ks o =? active) eqn:Ea; cbn [negb]; [|discriminate].
  destruct (is_key_amount (b_amount o)) eqn:Eam; cbn [negb]; [|discriminate].
  destruct (b_point o) eqn:Ep; cbn [negb]; [|discriminate].
  intros H o' [<-|Ho'].
  - apply Z.eqb_eq in Ea. repeat split; try assumption. congruence.
  - apply IH; assumption.
Qed.

(* ------------------------------------------------------------------ C01 / C06: Swap *)

Theorem swap_rejects_represented mem_ks active ins outs sg w :
  WInv w ->
  (exists p, In p ins /\ (In (p_secret p) (ys_of (d_spent (w_db w))) \/ In (p_secret p) (ys_of (d_pending (w_db w))))) ->
  exists w' e, run (swap mem_ks active ins outs sg) no_fault w = (w', Done (Err e)) /\ same_but_calls w w'.
Proof.
  intros Hinv [p [Hp Hused]].
  destruct (swap_spec mem_ks active ins outs sg w Hinv) as [w' [r [Hrun Hr]]].
  destruct r as [sigs|e]; [|exists w', e; split; assumption].
  exfalso. destruct Hr as [_ [_ [Hfresh _]]]. destruct (Hfresh p Hp) as [H1 H2]. tauto.
Qed.

Theorem swap_rejects_duplicate mem_ks active ins outs sg w :
  WInv w -> ~ NoDup (map p_secret ins) ->
  exists w' e, run (swap mem_ks active ins outs sg) no_fault w = (w', Done (Err e)) /\ same_but_calls w w'.
Proof.
  intros Hinv Hdup.
  destruct (swap_spec mem_ks active ins outs sg w Hinv) as [w' [r [Hrun Hr]]].
  destruct r as [sigs|e]; [|exists w', e; split; assumption].
  exfalso. destruct Hr as [_ [_ [_ [Hnd _]]]]. contradiction.
Qed.

(* atomic and total: an error leaves store, Lightning state and memory untouched; never a panic *)
Theorem swap_atomic mem_ks active ins outs sg w :
  WInv w ->
  exists w' r, run (swap mem_ks active ins outs sg) no_fault w = (w', Done r) /\
               (forall e, r = Err e -> same_but_calls w w').
Proof.
  intros Hinv. destruct (swap_spec mem_ks active ins outs sg w Hinv) as [w' [r [Hrun Hr]]].
  exists w', r. split; [exact Hrun|]. intros e ->. exact Hr.
Qed.

(* C02: outputs + fees never exceed the true value of the inputs *)
Theorem swap_balanced mem_ks active ins outs sg w w' sigs :
  WInv w ->
  run (swap mem_ks active ins outs sg) no_fault w = (w', Done (Ok sigs)) ->
  Forall (fun x => 0 <= x < two64) (map b_amount outs) ->
  tsum (map s_amount sigs) + tx_fees mem_ks ins <= tsum (map p_amount ins).
Proof.
  intros Hinv Hrun Hout.
  destruct (swap_spec mem_ks active ins outs sg w Hinv) as [w2 [r [Hrun2 Hr]]].
  rewrite Hrun in Hrun2. inversion Hrun2; subst w2 r. clear Hrun2.
  destruct Hr as [Hgate [_ [_ [_ [Hcp [_ [_ [_ [Hs _]]]]]]]]]. subst sigs.
  unfold swap_gate in Hgate.
  destruct (amount_checked (map b_amount outs) 0) as [oa|] eqn:Eoa; [|congruence].
  destruct (negb (nodupb (map b_B outs))); [congruence|].
  destruct (sum64 (map p_amount ins) <? tx_fees mem_ks ins) eqn:E1; [congruence|].
  destruct (sum64 (map p_amount ins) - tx_fees mem_ks ins <? oa) eqn:E2; [congruence|].
  apply Z.ltb_ge in E1, E2.
  apply amount_checked_sum in Eoa; [|unfold two64; lia|exact Hout].
  assert (Hin : Forall (fun x => 0 <= x) (map p_amount ins)).
  { apply Forall_forall. intros x Hx. apply in_map_iff in Hx as [p [<- Hp]].
    apply check_proofs_forall with (p := p) in Hcp; [|exact Hp]. apply check_proof_iff in Hcp as [_ [_ [Hk _]]].
    unfold is_key_amount in Hk. apply existsb_exists in Hk as [i [_ Hi]]. apply Z.eqb_eq in Hi. rewrite Hi.
    apply Z.pow_nonneg. lia. }
  pose proof (sum64_le _ Hin) as Hle.
  replace (map s_amount (sig_rows outs)) with (map b_amount outs).
  2:{ unfold sig_rows. rewrite map_map. reflexivity. }
  lia.
Qed.

(* C09: signatures are only ever made on the active keyset *)
Theorem swap_signs_active_only mem_ks active ins outs sg w w' sigs :
  WInv w ->
  run (swap mem_ks active ins outs sg) no_fault w = (w', Done (Ok sigs)) ->
  forall s, In s sigs -> s_ks s = active.
Proof.
  intros Hinv Hrun s Hs.
  destruct (swap_spec mem_ks active ins outs sg w Hinv) as [w2 [r [Hrun2 Hr]]].
  rewrite Hrun in Hrun2. inversion Hrun2; subst w2 r. clear Hrun2.
  destruct Hr as [_ [_ [_ [_ [_ [_ [_ [Hco [Hsig _]]]]]]]]]. subst sigs.
  unfold sig_rows in Hs. apply in_map_iff in Hs as [o [<- Ho]]. cbn [s_ks].
  apply (check_outputs_active _ _ _ Hco o Ho).
Qed.

(* C04: what Swap accepted was genuine *)
Theorem swap_accepts_only_genuine mem_ks active ins outs sg w w' sigs :
  WInv w ->
  run (swap mem_ks active ins outs sg) no_fault w = (w', Done (Ok sigs)) ->
  forall p, In p ins ->
    p_C p = CSig (p_ks p) (p_amount p) (p_secret p) /\ find_ks (p_ks p) mem_ks <> None /\
    is_key_amount (p_amount p) = true /\ p_long p = false /\ p_cond p = true.
Proof.
  intros Hinv Hrun p Hp.
  destruct (swap_spec mem_ks active ins outs sg w Hinv) as [w2 [r [Hrun2 Hr]]].
  rewrite Hrun in Hrun2. inversion Hrun2; subst w2 r. clear Hrun2.
  destruct Hr as [_ [_ [_ [_ [Hcp _]]]]].
  apply check_proofs_forall with (p := p) in Hcp; [|exact Hp]. apply check_proof_iff in Hcp. tauto.
Qed.

(* ------------------------------------------------------------------ C03 / C06: MintTokens *)

Theorem mint_needs_payment mem_ks active id outs sig w w' sigs :
  WInv w ->
  run (mint_tokens mem_ks active id outs sig) no_fault w = (w', Done (Ok sigs)) -> sigs <> [] ->
  exists q, find_mq id (d_mq (w_db w)) = Some q /\
            (mq_state q = 1 \/ (mq_state q = 0 /\ settled w (mq_hash q) = true)).
Proof.
  intros Hinv Hrun Hne.
  destruct (mint_tokens_spec mem_ks active id outs sig w Hinv) as [w2 [r [Hrun2 Hr]]].
  rewrite Hrun in Hrun2. inversion Hrun2; subst w2 r. clear Hrun2.
  destruct Hr as [q [Hf [[Hp _]|[_ [Hs _]]]]]; [exists q; split; assumption|congruence].
Qed.

Theorem mint_within_quote mem_ks active id outs sig w w' sigs :
  WInv w ->
  run (mint_tokens mem_ks active id outs sig) no_fault w = (w', Done (Ok sigs)) ->
  Forall (fun x => 0 <= x < two64) (map b_amount outs) ->
  exists q, find_mq id (d_mq (w_db w)) = Some q /\ tsum (map s_amount sigs) <= mq_amount q \/ sigs = [].
Proof.
  intros Hinv Hrun Hout.
  destruct (mint_tokens_spec mem_ks active id outs sig w Hinv) as [w2 [r [Hrun2 Hr]]].
  rewrite Hrun in Hrun2. inversion Hrun2; subst w2 r. clear Hrun2.
  destruct Hr as [q [Hf [[_ [[oa [Hoa Hle]] [_ [_ [_ [_ [Hs _]]]]]]]|[_ [Hs _]]]]].
  - exists q. left. split; [exact Hf|]. subst sigs.
    apply amount_checked_sum in Hoa; [|unfold two64; lia|exact Hout].
    replace (map s_amount (sig_rows outs)) with (map b_amount outs); [lia|].
    unfold sig_rows. rewrite map_map. reflexivity.
  - exists q. right. exact Hs.
Qed.

(* once ISSUED, every further mint request for the quote fails and changes nothing *)
Theorem mint_once mem_ks active id outs sig w q :
  WInv w -> find_mq id (d_mq (w_db w)) = Some q -> mq_state q = 3 ->
  exists w' e, run (mint_tokens mem_ks active id outs sig) no_fault w = (w', Done (Err e)) /\ same_but_calls w w'.
Proof.
  intros Hinv Hf H3.
  destruct (mint_tokens_spec mem_ks active id outs sig w Hinv) as [w' [r [Hrun Hr]]].
  destruct r as [sigs|e].
  - exfalso. destruct Hr as [q' [Hf' Hc]]. rewrite Hf in Hf'. inversion Hf'; subst q'.
    destruct Hc as [[[H1|[H0 _]] _]|[Hu _]]; lia.
  - exists w', e. split; [exact Hrun|].
    destruct Hr as [Hs|[q' [Hf' [[H1|[H0 _]] _]]]]; [exact Hs| |]; rewrite Hf in Hf'; inversion Hf'; subst q'; lia.
Qed.

(* a successful issuance leaves the quote ISSUED *)
Theorem mint_marks_issued mem_ks active id outs sig w w' sigs :
  WInv w ->
  run (mint_tokens mem_ks active id outs sig) no_fault w = (w', Done (Ok sigs)) -> sigs <> [] ->
  d_mq (w_db w') = upd_mq id 3 (d_mq (w_db w)).
Proof.
  intros Hinv Hrun Hne.
  destruct (mint_tokens_spec mem_ks active id outs sig w Hinv) as [w2 [r [Hrun2 Hr]]].
  rewrite Hrun in Hrun2. inversion Hrun2; subst w2 r. clear Hrun2.
  destruct Hr as [q [Hf [[_ [_ [_ [_ [_ [_ [_ [_ [Hm _]]]]]]]]]|[_ [Hs _]]]]]; [exact Hm|congruence].
Qed.

Lemma find_upd_mq id st l q :
  find_mq id l = Some q -> exists q', find_mq id (upd_mq id st l) = Some q' /\ mq_state q' = st.
Proof.
  unfold find_mq, upd_mq. induction l as [|x r IH]; cbn [find map]; [discriminate|].
  destruct (mq_id x =? id) eqn:E.
  - intros _. cbn [mq_id]. rewrite E. eexists. split; [reflexivity|reflexivity].
  - rewrite E. exact IH.
Qed.

(* NUT-20: a quote locked to a key is only issued with a valid signature over exactly the outputs *)
Theorem mint_nut20 mem_ks active id outs sig w w' sigs :
  WInv w ->
  run (mint_tokens mem_ks active id outs sig) no_fault w = (w', Done (Ok sigs)) -> sigs <> [] ->
  exists q, find_mq id (d_mq (w_db w)) = Some q /\ (mq_pubkey q <> 0 -> sig = 1).
Proof.
  intros Hinv Hrun Hne.
  destruct (mint_tokens_spec mem_ks active id outs sig w Hinv) as [w2 [r [Hrun2 Hr]]].
  rewrite Hrun in Hrun2. inversion Hrun2; subst w2 r. clear Hrun2.
  destruct Hr as [q [Hf [[_ [_ [_ [_ [Hpk _]]]]]|[_ [Hs _]]]]]; [exists q; split; assumption|congruence].
Qed.

(* the invoice watcher (after the repair) never moves a quote that is not UNPAID *)
Theorem watcher_only_unpaid id w q :
  find_mq id (d_mq (w_db w)) = Some q -> mq_state q <> 0 ->
  w_db (fst (run (watcher_fire id) no_fault w)) = w_db w.
Proof.
  intros Hf Hs. unfold watcher_fire. destruct w as [d l m a n]. cbn [w_db] in Hf.
  cbn [run bind no_fault exec is_call is_storage andb exec_db w_db w_ln w_mem w_active w_calls].
  rewrite Hf. cbn [run bind no_fault exec is_call is_storage andb exec_db w_db w_ln w_mem w_active w_calls].
  rewrite Hf. apply Z.eqb_neq in Hs. rewrite Hs. reflexivity.
Qed.

(* ------------------------------------------------------------------ C01 / C02 / C05 / C06: melt *)

Theorem melt_rejects_represented cfg mem_ks id ins w :
  WInv w ->
  (exists p, In p ins /\ (In (p_secret p) (ys_of (d_spent (w_db w))) \/ In (p_secret p) (ys_of (d_pending (w_db w))))) ->
  exists w' e, run (melt_tokens cfg mem_ks id ins) no_fault w = (w', Done (Err e)) /\ w_db w' = w_db w /\ w_ln w' = w_ln w.
Proof.
  intros Hinv [p [Hp Hused]].
  destruct (melt_tokens_spec cfg mem_ks id ins w Hinv) as [w' [r [Hrun [_ Hr]]]].
  destruct r as [q'|e].
  - exfalso. destruct Hr as [q [_ [[_ [_ [_ [Hfresh _]]]] _]]]. destruct (Hfresh p Hp). tauto.
  - exists w', e. split; [exact Hrun|]. destruct Hr as [H|[_ [q [_ [[_ [_ [_ [Hfresh _]]]] _]]]]]; [exact H|].
    exfalso. destruct (Hfresh p Hp). tauto.
Qed.

(* the inputs cover amount + fee reserve + input fees (in the mint's own 64-bit arithmetic), and their true value is at least that *)
Theorem melt_burns_enough cfg mem_ks id ins w w' q' :
  WInv w ->
  run (melt_tokens cfg mem_ks id ins) no_fault w = (w', Done (Ok q')) ->
  exists q, find_lq id (d_lq (w_db w)) = Some q /\
            add64 (add64 (lq_amount q) (lq_fee q)) (tx_fees mem_ks ins) <= tsum (map p_amount ins).
Proof.
  intros Hinv Hrun.
  destruct (melt_tokens_spec cfg mem_ks id ins w Hinv) as [w2 [r [Hrun2 [_ Hr]]]].
  rewrite Hrun in Hrun2. inversion Hrun2; subst w2 r. clear Hrun2.
  destruct Hr as [q [Hf [[_ [_ [_ [_ [_ [Hcp [Hle _]]]]]]] _]]]. exists q. split; [exact Hf|].
  assert (Hin : Forall (fun x => 0 <= x) (map p_amount ins)).
  { apply Forall_forall. intros x Hx. apply in_map_iff in Hx as [p [<- Hp]].
    apply check_proofs_forall with (p := p) in Hcp; [|exact Hp]. apply check_proof_iff in Hcp as [_ [_ [Hk _]]].
    unfold is_key_amount in Hk. apply existsb_exists in Hk as [i [_ Hi]]. apply Z.eqb_eq in Hi. rewrite Hi.
    apply Z.pow_nonneg. lia. }
  pose proof (sum64_le _ Hin). lia.
Qed.

(* the fee limit handed to the backend is the fee reserve of the quote (plain payments) *)
Theorem melt_fee_limit cfg mem_ks id ins w w' q' :
  WInv w ->
  run (melt_tokens cfg mem_ks id ins) no_fault w = (w', Done (Ok q')) ->
  exists q, find_lq id (d_lq (w_db w)) = Some q /\
   (l_calls (w_ln w') = l_calls (w_ln w) \/
    (l_calls (w_ln w') = l_calls (w_ln w) ++ [the_pay_call cfg q] /\
     (lq_mpp q = false -> pc_maxfee (the_pay_call cfg q) = lq_fee q))).
Proof.
  intros Hinv Hrun.
  destruct (melt_tokens_spec cfg mem_ks id ins w Hinv) as [w2 [r [Hrun2 [_ Hr]]]].
  rewrite Hrun in Hrun2. inversion Hrun2; subst w2 r. clear Hrun2.
  destruct Hr as [q [Hf [_ Hm]]]. exists q. split; [exact Hf|].
  destruct (internal_mq q (w_db w)).
  - left. destruct Hm as [pre [_ [_ [_ Hl]]]]. rewrite Hl. reflexivity.
  - right. destruct Hm as [_ [_ [_ Hc]]]. split; [exact Hc|].
    intros Hmpp. unfold the_pay_call, the_fee_limit. cbn [pc_maxfee]. rewrite Hmpp. reflexivity.
Qed.

Lemma fee_reserve_mono cfg a b : 0 <= c_feepct cfg -> a <= b -> fee_reserve cfg a <= fee_reserve cfg b.
Proof.
  intros Hp Hab. unfold fee_reserve. apply Z.div_le_mono; [lia|]. nia.
Qed.

(* MPP: the limit is the reserve of the floored partial amount, which the reserve of the (rounded-up) quote amount covers *)
Theorem melt_fee_limit_mpp cfg q :
  0 <= c_feepct cfg -> 0 <= lq_msat q ->
  lq_mpp q = true -> lq_fee q = fee_reserve cfg ((lq_msat q + 999) / 1000) ->
  pc_maxfee (the_pay_call cfg q) <= lq_fee q.
Proof.
  intros Hp Hm Hmpp Hfee. unfold the_pay_call, the_fee_limit. cbn [pc_maxfee]. rewrite Hmpp, Hfee.
  apply fee_reserve_mono; [exact Hp|]. apply Z.div_le_mono; lia.
Qed.

(* melt quotes made by RequestMeltQuote carry exactly that reserve *)
Theorem request_melt_quote_fee cfg u dc req h msat part newid w w' q :
  run (request_melt_quote cfg u dc req h msat (Some part) newid) no_fault w = (w', Done (Ok q)) ->
  lq_mpp q = true /\ lq_msat q = part /\ lq_fee q = fee_reserve cfg ((part + 999) / 1000) /\ lq_amount q = (part + 999) / 1000.
Proof.
  unfold request_melt_quote. destruct u; cbn [negb]; [|cbn [run]; intros H; inversion H].
  destruct dc; cbn [negb]; [|cbn [run]; intros H; inversion H].
  destruct ((msat <=? 0) || (two63 <=? msat)); [cbn [run]; intros H; inversion H|].
  destruct w as [d l m a n]. sx.
  destruct (same_invoice (ROk (find (fun q0 => mq_hash q0 =? h) (d_mq d))) req) as [mq0|].
  - destruct (c_mpp cfg); sx; intros H; inversion H.
  - destruct (c_mpp cfg); [|sx; intros H; inversion H].
    destruct (msat <=? part); [sx; intros H; inversion H|].
    destruct ((0 <? c_max_melt cfg) && (c_max_melt cfg <? (part + 999) / 1000)); [sx; intros H; inversion H|].
    sx. destruct (find (fun q0 => lq_req q0 =? req) (d_lq d)); [sx; intros H; inversion H|].
    sx. destruct (_ && _); sx; intros H; inversion H. subst q. cbn [lq_mpp lq_msat lq_fee lq_amount]. repeat split.
Qed.

(* C05: the poll and the melt itself follow the backend's answers (restated from the specifications) *)
Definition poll_follows_backend := poll_spec.
Definition melt_follows_backend := melt_tokens_spec.

(* an ambiguous answer never releases and never spends *)
Theorem poll_ambiguous_noop id w q :
  WInv w -> Disjoint (w_db w) ->
  find_lq id (d_lq (w_db w)) = Some q -> lq_state q = 1 ->
  let a := next_look w (lq_hash q) in
  (a_kind a = 2 \/ a_kind a = 3 \/ a_kind a = 4) ->
  w_db (fst (run (get_melt_quote_state id) no_fault w)) = w_db w.
Proof.
  intros Hinv Hdis Hf Hs a Ha.
  destruct (poll_spec id w Hinv Hdis) as [w' [r [Hrun [_ Hr]]]]. rewrite Hrun. cbn [fst].
  rewrite Hf in Hr. rewrite Hs in Hr. cbn [Z.eqb Pos.eqb] in Hr. fold a in Hr.
  destruct Ha as [Ha|[Ha|Ha]]; rewrite Ha in Hr; cbn in Hr; tauto.
Qed.

(* Disjointness of spent and pending is kept by the three operations that move proofs *)
Theorem swap_keeps_disjoint mem_ks active ins outs sg w :
  WInv w -> Disjoint (w_db w) -> Disjoint (w_db (fst (run (swap mem_ks active ins outs sg) no_fault w))).
Proof.
  intros Hinv Hdis. destruct (swap_spec mem_ks active ins outs sg w Hinv) as [w' [r [Hrun Hr]]]. rewrite Hrun. cbn [fst].
  destruct r as [sigs|e]; [|destruct Hr as [Hd _]; rewrite Hd; exact Hdis].
  destruct Hr as [_ [_ [Hfresh [_ [_ [_ [_ [_ [_ [Hsp [_ [_ [_ [_ [Hpe _]]]]]]]]]]]]]]].
  intros y Hy Hp. rewrite Hsp in Hy. rewrite Hpe in Hp. unfold ys_of in Hy. rewrite map_app in Hy.
  apply in_app_or in Hy as [Hy|Hy]; [exact (Hdis y Hy Hp)|].
  rewrite map_map in Hy. apply in_map_iff in Hy as [p [Hyp Hin]]. cbn [to_row r_y] in Hyp. subst y.
  destruct (Hfresh p Hin) as [_ H2]. exact (H2 Hp).
Qed.
