(* State check, restore, balances and limits, keysets: specifications (sequential, fault-free). *)
From Coq Require Import ZArith List Bool Lia.
From Verif Require Import Model Sem InvDb InvSwap InvMint InvMelt Corollaries.
Import ListNotations.
Open Scope Z_scope.

(* ------------------------------------------------------------------ C15: restore *)

Definition lookup_sig (d : db) (b : Z) : option srow := find (fun s => s_B s =? b) (d_sigs d).

Fixpoint restore_spec (d : db) (bs : list Z) : list srow :=
  match bs with
  | [] => []
  | b :: r => match lookup_sig d b with Some row => row :: restore_spec d r | None => restore_spec d r end
  end.

Lemma restore_sigs_run bs : forall acc w,
  exists w', run (restore_sigs bs acc) no_fault w = (w', Done (Ok (rev acc ++ restore_spec (w_db w) bs))) /\
             same_but_calls w w'.
Proof.
  induction bs as [|b r IH]; intros acc w; cbn [restore_sigs restore_spec].
  - exists w. rewrite app_nil_r. split; [reflexivity|apply sbc_refl].
  - destruct w as [d l m a n]. sx. unfold lookup_sig. cbn [w_db].
    destruct (find (fun s => s_B s =? b) (d_sigs d)) as [row|].
    + destruct (IH (row :: acc) (mkWorld d l m a (n + 1))) as [w' [Hr Hs]]. exists w'. cbn [w_db] in Hr.
      rewrite Hr. cbn [rev]. rewrite <- app_assoc. cbn [app]. split; [reflexivity|].
      destruct Hs as [H1 [H2 [H3 H4]]]. repeat split; assumption.
    + destruct (IH acc (mkWorld d l m a (n + 1))) as [w' [Hr Hs]]. exists w'. cbn [w_db] in Hr.
      rewrite Hr. split; [reflexivity|]. destruct Hs as [H1 [H2 [H3 H4]]]. repeat split; assumption.
Qed.

(* restore answers with exactly the stored signature rows of the requested messages, in request order *)
Theorem restore_exact bs w :
  exists w', run (restore_sigs bs []) no_fault w = (w', Done (Ok (restore_spec (w_db w) bs))) /\ same_but_calls w w'.
Proof. destruct (restore_sigs_run bs [] w) as [w' [H1 H2]]. exists w'. split; assumption. Qed.

(* a row returned by Swap or MintTokens is found by restore, now and after any further history *)
Lemma lookup_sig_in d b row : NoDup (map s_B (d_sigs d)) -> In row (d_sigs d) -> s_B row = b -> lookup_sig d b = Some row.
Proof.
  unfold lookup_sig. induction (d_sigs d) as [|x r IH]; intros Hnd Hin Hb; [destruct Hin|].
  cbn [find]. cbn [map] in Hnd. inversion Hnd; subst.
  destruct Hin as [->|Hin].
  - rewrite Z.eqb_refl. reflexivity.
  - destruct (s_B x =? s_B row) eqn:E.
    + exfalso. apply Z.eqb_eq in E. apply H1. rewrite E. apply in_map. exact Hin.
    + apply IH; auto.
Qed.

Theorem restore_finds_issued cfg w h row :
  WInv w -> In row (d_sigs (w_db w)) ->
  lookup_sig (w_db (hrun cfg w h)) (s_B row) = Some row.
Proof.
  intros Hinv Hin. apply lookup_sig_in; [|apply sig_forever; exact Hin|reflexivity].
  apply (hrun_inv cfg h w Hinv).
Qed.

(* ------------------------------------------------------------------ C15: state check *)

Definition state_of (d : db) (y : Z) : Z * Z * Z :=
  match find (fun r => r_y r =? y) (d_spent d) with
  | Some r => (y, 2, r_wit r)
  | None => match find (fun r => r_y r =? y) (d_pending d) with
            | Some r => (y, 1, r_wit r)
            | None => (y, 0, 0)
            end
  end.

Lemma find_filter_mem (l : list prow) ys y :
  In y ys -> find (fun r => r_y r =? y) (filter (fun r => mem (r_y r) ys) l) = find (fun r => r_y r =? y) l.
Proof.
  intros Hy. induction l as [|x r IH]; [reflexivity|]. cbn [filter find].
  destruct (mem (r_y x) ys) eqn:Em.
  - cbn [find]. destruct (r_y x =? y); [reflexivity|exact IH].
  - destruct (r_y x =? y) eqn:E; [|exact IH]. apply Z.eqb_eq in E. apply mem_false in Em. subst y. contradiction.
Qed.

(* when none of the queried Ys is locked by a melt, the answer is the table lookup, in request order *)
Theorem check_state_exact ys w :
  filter (fun r => mem (r_y r) ys) (d_pending (w_db w)) = [] ->
  exists w', run (proofs_state_check ys) no_fault w = (w', Done (Ok (map (state_of (w_db w)) ys))) /\ same_but_calls w w'.
Proof.
  intros Hp. unfold proofs_state_check. destruct w as [d l m a n]. cbn [w_db] in Hp. sx. rewrite Hp.
  cbn [map dedup for_each]. sx. rewrite Hp. sx.
  eexists. split.
  { apply f_equal2; [reflexivity|]. apply f_equal. apply f_equal. apply map_ext_in. intros y Hy. unfold state_of. cbn [w_db].
    rewrite (find_filter_mem _ _ _ Hy). cbn [find].
    destruct (find (fun r => r_y r =? y) (d_spent d)); [reflexivity|].
    assert (Hnone : find (fun r => r_y r =? y) (d_pending d) = None).
    { rewrite <- (find_filter_mem _ ys y Hy). rewrite Hp. reflexivity. }
    rewrite Hnone. reflexivity. }
  repeat split.
Qed.

(* a spent Y is reported SPENT by the table lookup, in every later state *)
Theorem state_of_spent_forever cfg w h y :
  WInv w -> In y (ys_of (d_spent (w_db w))) -> exists wit, state_of (w_db (hrun cfg w h)) y = (y, 2, wit).
Proof.
  intros Hinv Hy. pose proof (spent_forever cfg h w y Hy) as Hy'.
  unfold state_of. destruct (find (fun r => r_y r =? y) (d_spent (w_db (hrun cfg w h)))) as [r|] eqn:E.
  - exists (r_wit r). reflexivity.
  - exfalso. unfold ys_of in Hy'. apply in_map_iff in Hy' as [r [Hr Hin]].
    apply (find_none _ _ E) in Hin. rewrite Hr, Z.eqb_refl in Hin. discriminate.
Qed.

(* ------------------------------------------------------------------ C16: balances and limits *)

Lemma ins_ks_total k a acc : tsum (map snd (ins_ks k a acc)) = tsum (map snd acc) + a.
Proof.
  induction acc as [|[k' a'] t IHt]; cbn [ins_ks map tsum fold_right snd]; [lia|].
  destruct (k =? k'); cbn [map tsum fold_right snd]; fold (tsum (map snd t)) in *; [lia|].
  fold (tsum (map snd (ins_ks k a t))). rewrite IHt. lia.
Qed.

Lemma sum_by_ks_total l : forall acc,
  tsum (map snd (sum_by_ks l acc)) = tsum (map snd acc) + tsum (map snd l).
Proof.
  induction l as [|[k a] r IH]; intros acc; cbn [sum_by_ks map snd].
  - change (tsum (@nil Z)) with 0. lia.
  - rewrite IH, ins_ks_total. change (tsum (a :: map snd r)) with (a + tsum (map snd r)). lia.
Qed.

Definition issued_total (d : db) : Z := tsum (map s_amount (d_sigs d)).
Definition redeemed_total (d : db) : Z := tsum (map r_amount (d_spent d)).

(* the per-keyset views add up to the plain sums over the two tables *)
Theorem issued_view_total d :
  tsum (map snd (sum_by_ks (map (fun s => (s_ks s, s_amount s)) (d_sigs d)) [])) = issued_total d.
Proof. rewrite sum_by_ks_total. cbn [map tsum fold_right]. rewrite map_map. reflexivity. Qed.

Theorem redeemed_view_total d :
  tsum (map snd (sum_by_ks (map (fun r => (r_ks r, r_amount r)) (d_spent d)) [])) = redeemed_total d.
Proof. rewrite sum_by_ks_total. cbn [map tsum fold_right]. rewrite map_map. reflexivity. Qed.

Lemma tsum_nil : tsum [] = 0. Proof. reflexivity. Qed.
Lemma tsum_cons x l : tsum (x :: l) = x + tsum l. Proof. reflexivity. Qed.

Lemma tsum_nonneg l : Forall (fun x => 0 <= x) l -> 0 <= tsum l.
Proof. intros H. induction H; [rewrite tsum_nil; lia|rewrite tsum_cons; lia]. Qed.

Lemma sum64_small l : Forall (fun x => 0 <= x) l -> tsum l < two64 -> sum64 l = tsum l.
Proof.
  unfold sum64. intros Hall Hlt.
  assert (G : forall l acc, Forall (fun x => 0 <= x) l -> 0 <= acc -> acc + tsum l < two64 -> fold_left add64 l acc = acc + tsum l).
  { clear. induction l as [|x r IH]; intros acc Hall Hacc Hlt; cbn [fold_left].
    - rewrite tsum_nil. lia.
    - rewrite tsum_cons in *. inversion Hall; subst.
      assert (Hr : 0 <= tsum r) by (apply tsum_nonneg; assumption).
      assert (Hs : add64 acc x = acc + x) by (unfold add64; apply Z.mod_small; unfold two64 in *; lia).
      rewrite Hs. rewrite IH; [lia|assumption|lia|lia]. }
  rewrite G; [lia|assumption|lia|lia].
Qed.

(* the views hold non-negative entries because the rows do *)
Lemma ins_ks_nonneg k a acc : 0 <= a -> Forall (fun x => 0 <= x) (map snd acc) -> Forall (fun x => 0 <= x) (map snd (ins_ks k a acc)).
Proof.
  intros Ha0. induction acc as [|[k' a'] t IHt]; intros Ha; cbn [ins_ks map snd].
  - constructor; [assumption|constructor].
  - cbn [map snd] in Ha. inversion Ha; subst.
    destruct (k =? k'); cbn [map snd]; constructor; try lia; auto.
Qed.

Lemma sum_by_ks_nonneg l : forall acc, Forall (fun x => 0 <= x) (map snd l) -> Forall (fun x => 0 <= x) (map snd acc) ->
  Forall (fun x => 0 <= x) (map snd (sum_by_ks l acc)).
Proof.
  induction l as [|[k a] r IH]; intros acc Hl Ha; cbn [sum_by_ks]; [exact Ha|].
  cbn [map snd] in Hl. inversion Hl; subst. apply IH; [assumption|]. apply ins_ks_nonneg; assumption.
Qed.

Lemma in_le_tsum l x : Forall (fun y => 0 <= y) l -> In x l -> x <= tsum l.
Proof.
  induction l as [|y l IH]; intros Hall Hin; [destruct Hin|]. inversion Hall; subst. rewrite tsum_cons.
  destruct Hin as [->|Hin]; [pose proof (tsum_nonneg l H2); lia|specialize (IH H2 Hin); lia].
Qed.

(* a view whose total is below 2^63 is returned as it is (SQLite's SUM does not overflow) *)
Lemma sum_view_ok v : Forall (fun x => 0 <= x) (map snd v) -> tsum (map snd v) < two63 -> sum_view v = ROk v.
Proof.
  intros Hnn Hlt. unfold sum_view.
  destruct (existsb (fun x => two63 <=? snd x) v) eqn:E; [|reflexivity].
  exfalso. apply existsb_exists in E as [x [Hx Hb]]. apply Z.leb_le in Hb.
  pose proof (in_le_tsum (map snd v) (snd x) Hnn (in_map snd v x Hx)). lia.
Qed.

(* TotalBalance is issued - redeemed, exactly, whenever the totals fit an int64 (the SUM views) and redeemed <= issued *)
Theorem total_balance_exact w :
  Forall (fun x => 0 <= x) (map s_amount (d_sigs (w_db w))) ->
  Forall (fun x => 0 <= x) (map r_amount (d_spent (w_db w))) ->
  issued_total (w_db w) < two63 -> redeemed_total (w_db w) <= issued_total (w_db w) ->
  exists w', run total_balance no_fault w = (w', Done (Ok (issued_total (w_db w) - redeemed_total (w_db w)))) /\ same_but_calls w w'.
Proof.
  intros Hs Hr Hlt Hle. unfold total_balance. destruct w as [d l m a n]. cbn [w_db] in *.
  pose proof (issued_view_total d) as Hi. pose proof (redeemed_view_total d) as Hre.
  set (vi := sum_by_ks (map (fun s => (s_ks s, s_amount s)) (d_sigs d)) []) in *.
  set (vr := sum_by_ks (map (fun r => (r_ks r, r_amount r)) (d_spent d)) []) in *.
  assert (Hiv : Forall (fun x => 0 <= x) (map snd vi)).
  { apply sum_by_ks_nonneg; [rewrite map_map; cbn [snd]; exact Hs|constructor]. }
  assert (Hrv : Forall (fun x => 0 <= x) (map snd vr)).
  { apply sum_by_ks_nonneg; [rewrite map_map; cbn [snd]; exact Hr|constructor]. }
  assert (Hrn : 0 <= redeemed_total d) by (apply tsum_nonneg; exact Hr).
  assert (Ei : sum_view vi = ROk vi) by (apply sum_view_ok; [exact Hiv|lia]).
  assert (Er : sum_view vr = ROk vr) by (apply sum_view_ok; [exact Hrv|lia]).
  sx. fold vi. rewrite Ei. sx. fold vr. rewrite Er. sx.
  eexists. split; [|shelve]. apply f_equal2; [reflexivity|]. apply f_equal. apply f_equal.
  rewrite (sum64_small (map snd vi) Hiv) by (unfold two63, two64 in *; lia).
  rewrite (sum64_small (map snd vr) Hrv) by (unfold two63, two64 in *; lia).
  rewrite Hi, Hre. unfold sub64. apply Z.mod_small. unfold two63, two64 in *. lia.
  Unshelve. repeat split.
Qed.

(* beyond that the mint does not report a wrong balance, it reports none: one keyset's total of 2^63 or more makes the view fail
   (before the fix of the unchecked rows.Err() the views came back EMPTY and the balance was 0) *)
Theorem total_balance_overflow_fails w :
  (exists x, In x (sum_by_ks (map (fun s => (s_ks s, s_amount s)) (d_sigs (w_db w))) []) /\ two63 <= snd x) ->
  exists w', run total_balance no_fault w = (w', Done (Err EDb)) /\ same_but_calls w w'.
Proof.
  intros [x [Hx Hb]]. unfold total_balance. destruct w as [d l m a n]. cbn [w_db] in *.
  assert (E : sum_view (sum_by_ks (map (fun s => (s_ks s, s_amount s)) (d_sigs d)) []) = RErr).
  { unfold sum_view. assert (Hex : existsb (fun y => two63 <=? snd y) (sum_by_ks (map (fun s => (s_ks s, s_amount s)) (d_sigs d)) []) = true).
    { apply existsb_exists. exists x. split; [exact Hx|apply Z.leb_le; exact Hb]. }
    rewrite Hex. reflexivity. }
  sx. rewrite E. sx. eexists. split; [reflexivity|repeat split].
Qed.

(* limits: a mint-quote request above the configured maximum is refused before anything happens *)
Theorem mint_limit_enforced cfg amount pk newid newhash w :
  0 < c_max_mint cfg -> c_max_mint cfg < amount -> 0 <= pk ->
  run (request_mint_quote cfg true amount pk newid newhash) no_fault w = (w, Done (Err EMintLimit)).
Proof.
  intros H1 H2 Hpk. unfold request_mint_quote. cbn [negb].
  apply Z.ltb_lt in H1, H2. apply Z.ltb_ge in Hpk. rewrite Hpk, H1, H2. reflexivity.
Qed.

Theorem melt_limit_enforced cfg req h msat newid w :
  0 < c_max_melt cfg -> c_max_melt cfg < (msat + 999) / 1000 -> 0 < msat < two63 ->
  exists w', run (request_melt_quote cfg true true req h msat None newid) no_fault w = (w', Done (Err EMeltLimit)) /\
             same_but_calls w w'.
Proof.
  intros H1 H2 Hm. unfold request_melt_quote. cbn [negb].
  assert (Hg : (msat <=? 0) || (two63 <=? msat) = false) by (apply orb_false_iff; split; [apply Z.leb_gt|apply Z.leb_gt]; lia).
  rewrite Hg. apply Z.ltb_lt in H1, H2. destruct w as [d l m a n]. sx. rewrite H1, H2. cbn [andb]. sx.
  eexists. split; [reflexivity|repeat split].
Qed.

(* an invoice whose amount is missing or does not fit an int64 of millisatoshi gets no quote at all (before fix 49b3272 the
   round-up to sat wrapped to 0 for amounts of 2^64-999 .. 2^64-1 msat and the melt maximum was compared with that 0) *)
Theorem melt_amount_must_fit cfg mpp req h msat newid w :
  msat <= 0 \/ two63 <= msat ->
  run (request_melt_quote cfg true true req h msat mpp newid) no_fault w = (w, Done (Err EInvoice)).
Proof.
  intros Hm. unfold request_melt_quote. cbn [negb].
  assert (Hg : (msat <=? 0) || (two63 <=? msat) = true) by (apply orb_true_iff; destruct Hm; [left|right]; apply Z.leb_le; assumption).
  rewrite Hg. reflexivity.
Qed.

(* the balance limit: refused exactly when balance + amount (in the mint's 64-bit arithmetic) exceeds it *)
Theorem balance_limit_enforced cfg amount pk newid newhash w bal w1 :
  0 < c_max_balance cfg -> 0 <= pk -> ~ (0 < c_max_mint cfg /\ c_max_mint cfg < amount) ->
  run total_balance no_fault w = (w1, Done (Ok bal)) ->
  c_max_balance cfg < add64 bal amount ->
  run (request_mint_quote cfg true amount pk newid newhash) no_fault w = (w1, Done (Err EMintDisabled)).
Proof.
  intros Hb Hpk Hmax Hbal Hover. unfold request_mint_quote. cbn [negb].
  apply Z.ltb_ge in Hpk. rewrite Hpk.
  destruct ((0 <? c_max_mint cfg) && (c_max_mint cfg <? amount)) eqn:E.
  { exfalso. apply andb_true_iff in E as [E1 E2]. apply Z.ltb_lt in E1, E2. tauto. }
  apply Z.ltb_lt in Hb. rewrite Hb. rewrite run_bind, Hbal. cbn [andb].
  apply Z.ltb_lt in Hover. rewrite Hover. reflexivity.
Qed.

(* amounts with the high bit set never become a quote: the SQL driver refuses them *)
Theorem huge_quote_refused q d : two63 <= mq_amount q -> exec_db (SaveMintQuote q) d = (d, RErr).
Proof.
  intros H. cbn [exec_db]. unfold sql_int_ok.
  assert (E : (mq_amount q <? two63) = false) by (apply Z.ltb_ge; exact H).
  rewrite E. rewrite andb_false_r. reflexivity.
Qed.

(* RetrieveMintInfo reads the seed (one more storage call), then the balance *)
Definition after_seed (w : world) : world := fst (exec GetSeed false w).

Theorem info_disabled_iff cfg w bal w1 :
  run total_balance no_fault (after_seed w) = (w1, Done (Ok bal)) ->
  exists b, run (info_disabled cfg) no_fault w = (w1, Done (Ok b)) /\
            (b = true <-> 0 < c_max_balance cfg /\ c_max_balance cfg <= bal).
Proof.
  intros Hbal. unfold info_disabled. rewrite run_do. unfold after_seed in Hbal.
  destruct (exec GetSeed false w) as [w0 sd] eqn:E. cbn [fst] in Hbal.
  assert (Hsd : exists u, sd = ROk u).
  { unfold exec in E. cbn [is_call is_storage andb exec_db] in E. destruct w. cbn in E. inversion E. eexists. reflexivity. }
  destruct Hsd as [u ->]. rewrite run_bind, Hbal. eexists. split; [reflexivity|].
  rewrite andb_true_iff, Z.ltb_lt, Z.leb_le. reflexivity.
Qed.

(* ------------------------------------------------------------------ C09: keysets *)

(* a runtime rotation: the old keyset is kept (inactive, same fee), a new one with the next index becomes active *)
Theorem rotate_spec mem_ks active fee w a :
  fee < two63 ->
  find_ks active mem_ks = Some a -> k_id a = active ->
  mem active (map k_id (d_ks (w_db w))) = true -> mem (active + 1) (map k_id (d_ks (w_db w))) = false ->
  exists w', run (rotate_keyset mem_ks active fee) no_fault w = (w', Done (Ok tt)) /\
    w_active w' = active + 1 /\
    w_mem w' = filter (fun k => negb (k_id k =? active + 1))
                 (map (fun k => if k_id k =? active then mkKs active (k_fee a) false else k) mem_ks) ++ [mkKs (active + 1) fee true] /\
    d_ks (w_db w') = map (fun k => if k_id k =? active then mkKs (k_id k) (k_fee k) false else k) (d_ks (w_db w)) ++ [mkKs (active + 1) fee true] /\
    d_spent (w_db w') = d_spent (w_db w) /\ d_pending (w_db w') = d_pending (w_db w) /\ d_sigs (w_db w') = d_sigs (w_db w).
Proof.
  intros Hfee Hf Hid Hm1 Hm2. unfold rotate_keyset. destruct w as [d l m ac n]. cbn [w_db] in *. sx.
  apply Z.leb_gt in Hfee. rewrite Hfee. rewrite Hf. sx. rewrite Hid. rewrite Hm1. sx. dbx.
  assert (E : mem (active + 1) (map k_id (map (fun k => if k_id k =? active then mkKs (k_id k) (k_fee k) false else k) (d_ks d))) = false).
  { rewrite map_map. replace (map (fun x => k_id (if k_id x =? active then mkKs (k_id x) (k_fee x) false else x)) (d_ks d)) with (map k_id (d_ks d)); [exact Hm2|].
    apply map_ext. intros x. destruct (k_id x =? active); reflexivity. }
  cbn [k_id]. rewrite E. sx. dbx.
  eexists. split; [reflexivity|]. cbn [w_active w_mem w_db]. dbx. repeat split.
Qed.

(* a fee that does not fit the signed 64-bit column of the keysets table is refused and nothing changes (before the fix the rotation
   went through, the fee was stored as a negative number and no later start could read the keysets) *)
Theorem rotate_fee_must_fit mem_ks active fee w :
  two63 <= fee ->
  exists w', run (rotate_keyset mem_ks active fee) no_fault w = (w', Done (Err EDb)) /\ same_but_calls w w'.
Proof.
  intros Hfee. unfold rotate_keyset. destruct w as [d l m ac n]. sx. apply Z.leb_le in Hfee. rewrite Hfee. sx.
  eexists. split; [reflexivity|repeat split].
Qed.


(* a restart rebuilds memory from the stored rows: same ids, fees and flags *)
Theorem load_spec fee w rows :
  d_ks (w_db w) = rows -> rows <> [] -> 0 <= last_active rows ->
  exists w', run (load_mint fee false) no_fault (prepare (ORestart fee false) w) = (w', Done (Ok tt)) /\
             w_mem w' = rows /\ w_active w' = last_active rows /\ w_db w' = w_db w.
Proof.
  intros Hr Hne Ha. unfold load_mint, prepare. destruct w as [d l m ac n]. cbn [w_db] in *. sx. rewrite Hr.
  destruct rows as [|r0 rs]; [congruence|]. sx.
  apply Z.ltb_ge in Ha. rewrite Ha. sx. eexists. split; [reflexivity|]. repeat split.
Qed.

(* fees: each input is charged its own keyset's ppk, the total rounded up once - in true integers, whatever the fees are, up to
   the saturation of the sum at the largest uint (a fee no input can pay) *)
Definition fee_of (mem_ks : list ksrow) (p : proof) : Z :=
  match find_ks (p_ks p) mem_ks with Some k => k_fee k | None => 0 end.
Definition true_ppk (mem_ks : list ksrow) (ins : list proof) : Z := tsum (map (fee_of mem_ks) ins).

Lemma fold_sat_add mem_ks ins : forall acc,
  (forall p, In p ins -> 0 <= fee_of mem_ks p) -> 0 <= acc <= two64 - 1 ->
  fold_left (fun acc p => sat_add64 acc (fee_of mem_ks p)) ins acc = Z.min (acc + true_ppk mem_ks ins) (two64 - 1).
Proof.
  unfold true_ppk. induction ins as [|p r IH]; intros acc Hnn Ha; cbn [fold_left map].
  - rewrite tsum_nil. lia.
  - rewrite tsum_cons. assert (Hp : 0 <= fee_of mem_ks p) by (apply Hnn; left; reflexivity).
    assert (Hr : 0 <= tsum (map (fee_of mem_ks) r)).
    { apply tsum_nonneg. apply Forall_forall. intros x Hx. apply in_map_iff in Hx as [q [<- Hq]]. apply Hnn. right. exact Hq. }
    rewrite IH; [|intros q Hq; apply Hnn; right; exact Hq|unfold sat_add64; lia].
    unfold sat_add64. lia.
Qed.

Lemma ceil_div_1000 s : 0 <= s -> (if s mod 1000 =? 0 then s / 1000 else s / 1000 + 1) = (s + 999) / 1000.
Proof.
  intros Hs. pose proof (Z.div_mod s 1000 ltac:(lia)) as Hd. pose proof (Z.mod_pos_bound s 1000 ltac:(lia)) as Hm.
  destruct (s mod 1000 =? 0) eqn:E; [apply Z.eqb_eq in E|apply Z.eqb_neq in E].
  - apply Z.div_unique with (r := 999); lia.
  - apply Z.div_unique with (r := s mod 1000 - 1); lia.
Qed.

Theorem tx_fees_per_keyset mem_ks ins :
  (forall p, In p ins -> 0 <= fee_of mem_ks p) ->
  tx_fees mem_ks ins = (Z.min (true_ppk mem_ks ins) (two64 - 1) + 999) / 1000.
Proof.
  intros Hnn. unfold tx_fees. fold (fee_of mem_ks).
  change (fun acc p => sat_add64 acc (match find_ks (p_ks p) mem_ks with Some k => k_fee k | None => 0 end))
    with (fun acc p => sat_add64 acc (fee_of mem_ks p)).
  rewrite (fold_sat_add mem_ks ins 0 Hnn) by (unfold two64; lia). cbv zeta. rewrite Z.add_0_l.
  apply ceil_div_1000.
  assert (0 <= true_ppk mem_ks ins).
  { unfold true_ppk. apply tsum_nonneg. apply Forall_forall. intros x Hx. apply in_map_iff in Hx as [q [<- Hq]]. apply Hnn. exact Hq. }
  unfold two64. lia.
Qed.

(* before fix 99983ec the sum and the +999 were plain uint additions: two inputs of a keyset whose input_fee_ppk is 2^63-1 (the
   largest value the admin RPC accepts) were charged nothing *)
Definition tx_fees_wrapping (mem_ks : list ksrow) (ins : list proof) : Z :=
  add64 (fold_left (fun acc p => add64 acc (fee_of mem_ks p)) ins 0) 999 / 1000.

Example tx_fees_wrapping_refuted :
  let ks := [mkKs 0 9223372036854775807 true] in
  let p := mkProof 1 64 0 (CSig 0 64 1) 0 false true false in
  tx_fees_wrapping ks [p; p] = 0 /\ tx_fees ks [p; p] = 18446744073709552.
Proof. vm_compute. split; reflexivity. Qed.


