(* C03 over whole histories: a mint quote is issued at most once per payment.
   Ghost accounting along a sequential, fault-free history: issuance events (a MintTokens that returned
   signatures), credit events (a melt that settled the quote's invoice internally), and the backend's
   "settled" flag of the quote's invoice.  Invariant per quote (potential function):
       UNPAID           : issued <= credits
       PAID / PENDING   : issued + 1 <= settled + credits
       ISSUED           : issued <= settled + credits                                              *)
From Coq Require Import ZArith List Bool Lia.
From Verif Require Import Model Sem InvDb InvSwap InvMint InvMelt Corollaries Queries Footprint Global.
Import ListNotations.
Open Scope Z_scope.

Definition cnt (id : Z) (l : list Z) : Z := Z.of_nat (count_occ Z.eq_dec l id).

Lemma cnt_nil id : cnt id [] = 0. Proof. reflexivity. Qed.
Lemma cnt_cons id x l : cnt id (x :: l) = (if x =? id then 1 else 0) + cnt id l.
Proof.
  unfold cnt. cbn [count_occ]. destruct (Z.eq_dec x id) as [->|Hne].
  - rewrite Z.eqb_refl. lia.
  - apply Z.eqb_neq in Hne. rewrite Hne. lia.
Qed.
Lemma cnt_app id a b : cnt id (a ++ b) = cnt id a + cnt id b.
Proof. unfold cnt. rewrite count_occ_app. lia. Qed.
Lemma cnt_nonneg id l : 0 <= cnt id l. Proof. unfold cnt. lia. Qed.
Lemma cnt_notin id l : ~ In id l -> cnt id l = 0.
Proof. intros H. unfold cnt. apply (count_occ_not_In Z.eq_dec) in H. rewrite H. reflexivity. Qed.

Definition esett (w : world) (m : mquote) : Z := if settled w (mq_hash m) then 1 else 0.

Definition qok (e i c s : Z) : Prop :=
  0 <= s <= 3 /\ (s = 0 -> i <= c) /\ (s = 1 \/ s = 2 -> i + 1 <= e + c) /\ (s = 3 -> i <= e + c).

Definition QInv (w : world) (iss cred : list Z) : Prop :=
  (forall m, In m (d_mq (w_db w)) -> qok (esett w m) (cnt (mq_id m) iss) (cnt (mq_id m) cred) (mq_state m)) /\
  (forall id, In id iss -> In id (map mq_id (d_mq (w_db w)))).

Definition settled_mono (w w' : world) : Prop := forall h, settled w h = true -> settled w' h = true.

Lemma esett_mono w w' m : settled_mono w w' -> esett w m <= esett w' m.
Proof.
  intros H. unfold esett. destruct (settled w (mq_hash m)) eqn:E; [rewrite (H _ E); lia|].
  destruct (settled w' (mq_hash m)); lia.
Qed.

Lemma esett_range w m : 0 <= esett w m <= 1.
Proof. unfold esett. destruct (settled w (mq_hash m)); lia. Qed.

Lemma qok_mono e e' i c s : e <= e' -> qok e i c s -> qok e' i c s.
Proof.
  intros He [H0 [H1 [H2 H3]]]. split; [exact H0|]. split; [exact H1|].
  split; intros Hs; [specialize (H2 Hs)|specialize (H3 Hs)]; lia.
Qed.

(* ---------- settled is monotone along every run ---------- *)

Lemma find_app_first {X} (f : X -> bool) l x : find f (l ++ [x]) = match find f l with Some y => Some y | None => if f x then Some x else None end.
Proof. induction l as [|a l IH]; cbn [app find]; [reflexivity|]. destruct (f a); [reflexivity|exact IH]. Qed.

Lemma exec_settled_mono c fault w : settled_mono w (fst (exec c fault w)).
Proof.
  intros h Hs. unfold exec. destruct (fault && is_storage c); cbn [fst].
  { destruct (is_call c); exact Hs. }
  destruct c; cbn [is_call fst];
    try (match goal with |- context [exec_db ?c0 ?d] => destruct (exec_db c0 d) as [d' r'] end; exact Hs);
    try exact Hs.
  - destruct (l_createerr _ || _); cbn [fst]; [exact Hs|]. unfold settled in *. cbn [w_ln set_ln l_inv] in *.
    rewrite find_app_first. destruct (find _ (l_inv (w_ln w))) as [i|]; [exact Hs|discriminate].
  - destruct (l_inverr _); cbn [fst]; [exact Hs|]. destruct (find _ _); exact Hs.
  - destruct (pop _ _ _) as [a rest]. exact Hs.
  - destruct (pop _ _ _) as [a rest]. exact Hs.
Qed.

Lemma run_settled_mono {R} (p : prog R) : forall f w, settled_mono w (fst (run p f w)).
Proof.
  induction p as [r|c k IH|]; intros f w; cbn [run fst]; try (intros h Hs; exact Hs).
  destruct (exec c (f (w_calls w) && is_call c) w) as [w' r] eqn:E.
  intros h Hs. apply IH. change w' with (fst (w', r)). rewrite <- E. apply exec_settled_mono. exact Hs.
Qed.

Lemma settle_env_mono h0 w : settled_mono w (apply_env (ESettle h0) w).
Proof.
  intros h Hs. unfold settled in *. cbn [apply_env upd_ln set_ln w_ln l_inv] in *.
  induction (l_inv (w_ln w)) as [|i l IH]; cbn [map find] in *; [exact Hs|].
  destruct (i_hash i =? h0) eqn:Eh; cbn [i_hash i_own].
  - destruct ((i_hash i =? h) && i_own i); [reflexivity|exact (IH Hs)].
  - destruct ((i_hash i =? h) && i_own i); [exact Hs|exact (IH Hs)].
Qed.

Lemma step_settled_mono cfg w o : settled_mono w (fst (step cfg no_fault w o)).
Proof.
  unfold step. destruct (is_env o) eqn:Ee; cbn [fst].
  - destruct o; try discriminate Ee; try apply settle_env_mono;
      intros h0 Hs; unfold settled in *; cbn [apply_env upd_ln set_ln w_ln l_inv] in *; exact Hs.
  - destruct (run _ no_fault (prepare o w)) as [w' r] eqn:E.
    intros h Hs. change w' with (fst (w', r)). rewrite <- E. apply run_settled_mono.
    destruct o; exact Hs.
Qed.

(* ---------- preservation lemmas ---------- *)

Lemma qinv_same w w' iss cred :
  d_mq (w_db w') = d_mq (w_db w) -> settled_mono w w' -> QInv w iss cred -> QInv w' iss cred.
Proof.
  intros Hd Hm [H1 H2]. split; rewrite Hd; [|exact H2].
  intros m Hin. eapply qok_mono; [apply esett_mono; exact Hm|apply H1; exact Hin].
Qed.

Lemma in_upd_mq id st l m' :
  In m' (upd_mq id st l) -> exists m, In m l /\ m' = (if mq_id m =? id then mkMq (mq_id m) (mq_amount m) (mq_hash m) st (mq_pubkey m) else m).
Proof. unfold upd_mq. intros H. apply in_map_iff in H as [m [Hm Hin]]. exists m. split; [exact Hin|symmetry; exact Hm]. Qed.

(* one quote changes state; the event lists may grow by entries for that quote only *)
Lemma qinv_upd w w' iss cred di dc id st :
  d_mq (w_db w') = upd_mq id st (d_mq (w_db w)) -> settled_mono w w' ->
  (forall x, In x di -> x = id) -> (forall x, In x dc -> x = id) ->
  In id (map mq_id (d_mq (w_db w))) ->
  (forall m, In m (d_mq (w_db w)) -> mq_id m = id ->
     qok (esett w m) (cnt id iss) (cnt id cred) (mq_state m) ->
     qok (esett w' m) (cnt id di + cnt id iss) (cnt id dc + cnt id cred) st) ->
  QInv w iss cred -> QInv w' (di ++ iss) (dc ++ cred).
Proof.
  intros Hd Hm Hdi Hdc Hid Hob [H1 H2]. split.
  - rewrite Hd. intros m' Hin. apply in_upd_mq in Hin as [m [Hin ->]].
    destruct (mq_id m =? id) eqn:E.
    + apply Z.eqb_eq in E. cbn [mq_id mq_state]. rewrite E, !cnt_app.
      assert (He : esett w' (mkMq id (mq_amount m) (mq_hash m) st (mq_pubkey m)) = esett w' m) by reflexivity.
      rewrite He. apply (Hob m Hin E). rewrite <- E. apply H1. exact Hin.
    + apply Z.eqb_neq in E. rewrite !cnt_app.
      rewrite (cnt_notin (mq_id m) di), (cnt_notin (mq_id m) dc).
      * eapply qok_mono; [apply esett_mono; exact Hm|apply H1; exact Hin].
      * intros Hc. apply Hdc in Hc. contradiction.
      * intros Hc. apply Hdi in Hc. contradiction.
  - rewrite Hd, map_upd_mq. intros x Hx. apply in_app_or in Hx as [Hx|Hx]; [rewrite (Hdi x Hx); exact Hid|apply H2; exact Hx].
Qed.

(* unpaid quotes with fresh ids are appended *)
Lemma qinv_append w w' iss cred l :
  d_mq (w_db w') = d_mq (w_db w) ++ l -> Forall (fun q => mq_state q = 0) l ->
  NoDup (map mq_id (d_mq (w_db w'))) -> settled_mono w w' -> QInv w iss cred -> QInv w' iss cred.
Proof.
  intros Hd Hl Hnd Hm [H1 H2]. split.
  - rewrite Hd. intros m Hin. apply in_app_or in Hin as [Hin|Hin].
    + eapply qok_mono; [apply esett_mono; exact Hm|apply H1; exact Hin].
    + rewrite Forall_forall in Hl. specialize (Hl m Hin).
      assert (Hfresh : ~ In (mq_id m) (map mq_id (d_mq (w_db w)))).
      { rewrite Hd, map_app in Hnd. intro Hc. eapply NoDup_app_disjoint; [exact Hnd|exact Hc|apply in_map; exact Hin]. }
      assert (Hi : cnt (mq_id m) iss = 0) by (apply cnt_notin; intro Hc; apply Hfresh; apply H2; exact Hc).
      rewrite Hi, Hl. pose proof (cnt_nonneg (mq_id m) cred). pose proof (esett_range w' m).
      repeat split; intros; lia.
  - intros x Hx. rewrite Hd, map_app. apply in_or_app. left. apply H2. exact Hx.
Qed.

(* ---------- the events of one step ---------- *)

Definition issue_ev (o : op) (r : opres) : list Z :=
  match o, r with OMint id _ _, RSigs (_ :: _) => [id] | _, _ => [] end.

(* w: the world before the step *)
Definition credit_ev (w : world) (o : op) (r : opres) : list Z :=
  match o, r with
  | OMelt id _, RLq q' =>
      if lq_state q' =? 2 then
        match find_lq id (d_lq (w_db w)) with
        | Some q => match internal_mq q (w_db w) with Some m => [mq_id m] | None => [] end
        | None => []
        end
      else []
  | _, _ => []
  end.

(* the environment assumption: the invoice subscription only ever reports invoices that are settled *)
Definition watcher_honest (w : world) (o : op) : Prop :=
  match o with
  | OWatcher id => match find_mq id (d_mq (w_db w)) with
                   | Some q => mq_state q = 0 -> settled w (mq_hash q) = true
                   | None => True
                   end
  | _ => True
  end.

(* request_mint_quote only appends unpaid quotes *)
Definition fp_mint_quote0 (c : cmd) : bool :=
  match c with GetIssued | GetRedeemed | LnCreateInvoice _ _ => true | SaveMintQuote q => mq_state q =? 0 | _ => false end.

Lemma only_request_mint_quote0 cfg u a pk id h : only fp_mint_quote0 (request_mint_quote cfg u a pk id h).
Proof.
  unfold request_mint_quote. fp.
  all: try (eapply only_weaken; [|apply only_balance]; intros c; destruct c; cbn; congruence).
Qed.

Definition appends_unpaid (w w' : world) : Prop :=
  exists l, d_mq (w_db w') = d_mq (w_db w) ++ l /\ Forall (fun q => mq_state q = 0) l.

Lemma request_mint_quote_appends cfg u a pk id h w :
  appends_unpaid w (fst (run (request_mint_quote cfg u a pk id h) no_fault w)).
Proof.
  apply (run_only fp_mint_quote0 appends_unpaid).
  - intros w0. exists []. rewrite app_nil_r. split; [reflexivity|constructor].
  - intros x y z [l1 [H1 F1]] [l2 [H2 F2]]. exists (l1 ++ l2). rewrite H2, H1, app_assoc. split; [reflexivity|].
    apply Forall_app. split; assumption.
  - intros c fault w0 Hc. destruct (exec_world c fault w0) as [_ [_ [Hd|[_ Hd]]]]; unfold appends_unpaid; rewrite Hd.
    + exists []. rewrite app_nil_r. split; [reflexivity|constructor].
    + destruct c; cbn [fp_mint_quote0] in Hc; try discriminate Hc; cbn [exec_db fst];
        try (exists []; rewrite app_nil_r; split; [reflexivity|constructor]).
      destruct (sql_int_ok (mq_amount q) && negb (mem (mq_id q) (map mq_id (d_mq (w_db w0))))); cbn [fst set_mq d_mq].
      * exists [q]. split; [reflexivity|]. constructor; [apply Z.eqb_eq; exact Hc|constructor].
      * exists []. rewrite app_nil_r. split; [reflexivity|constructor].
  - apply only_request_mint_quote0.
Qed.

Lemma watcher_spec id w :
  let w' := fst (run (watcher_fire id) no_fault w) in
  d_mq (w_db w') = d_mq (w_db w) \/
  (exists q, find_mq id (d_mq (w_db w)) = Some q /\ mq_state q = 0 /\ d_mq (w_db w') = upd_mq id 1 (d_mq (w_db w))).
Proof.
  cbv zeta. unfold watcher_fire. destruct w as [d l m a n]. sx.
  destruct (find_mq id (d_mq d)) as [q|] eqn:Eq; [|left; reflexivity].
  sx. rewrite Eq. destruct (mq_state q =? 0) eqn:E0; [|left; reflexivity].
  sx. destruct (find_mq_mem _ _ _ Eq) as [Hm _]. rewrite Hm. sx.
  right. exists q. split; [reflexivity|]. split; [apply Z.eqb_eq; exact E0|reflexivity].
Qed.

Lemma find_mq_in id l q : find_mq id l = Some q -> In q l /\ mq_id q = id /\ In id (map mq_id l).
Proof.
  intros H. destruct (find_mq_mem _ _ _ H) as [Hm [Hid Hin]]. split; [exact Hin|]. split; [exact Hid|].
  apply mem_In. exact Hm.
Qed.

Lemma unique_by_id l m q : NoDup (map mq_id l) -> In m l -> In q l -> mq_id m = mq_id q -> m = q.
Proof.
  induction l as [|x l IH]; cbn [map]; intros Hnd Hm Hq He; [destruct Hm|].
  inversion Hnd as [|? ? Hx Hnd']; subst.
  destruct Hm as [->|Hm], Hq as [->|Hq]; [reflexivity| | |apply IH; assumption].
  - exfalso. apply Hx. rewrite He. apply in_map. exact Hq.
  - exfalso. apply Hx. rewrite <- He. apply in_map. exact Hm.
Qed.

Lemma sbc_mq w0 w' : same_but_calls w0 w' -> d_mq (w_db w') = d_mq (w_db w0).
Proof. intros [Hd _]. rewrite Hd. reflexivity. Qed.

Lemma step_mq_frame cfg w o :
  match o with OMintQuote _ _ _ _ _ | OMintState _ | OMint _ _ _ | OMelt _ _ | OWatcher _ => False | _ => True end ->
  d_mq (w_db (fst (step cfg no_fault w o))) = d_mq (w_db w).
Proof.
  intros Hk. unfold step. destruct (is_env o) eqn:Ee; cbn [fst]; [rewrite apply_env_db; reflexivity|].
  set (w0 := prepare o w). assert (H0 : d_mq (w_db w0) = d_mq (w_db w)) by (unfold w0; rewrite prepare_db; reflexivity).
  destruct (run _ no_fault w0) as [w' r] eqn:E. cbn [fst]. rewrite <- H0.
  change w' with (fst (w', r)). rewrite <- E.
  apply (frame_mq (fp_op o)); [apply only_op|].
  destruct o; try (destruct Hk); cbn [fp_op]; intros c Hc; destruct c; cbn in *; congruence.
Qed.

Theorem step_qinv cfg w o iss cred :
  Good w -> watcher_honest w o -> QInv w iss cred ->
  QInv (fst (step cfg no_fault w o)) (issue_ev o (snd (step cfg no_fault w o)) ++ iss)
                                     (credit_ev w o (snd (step cfg no_fault w o)) ++ cred).
Proof.
  intros Hg Hw Hq.
  pose proof (step_settled_mono cfg w o) as Hmono.
  pose proof (step_good cfg w o Hg) as Hg'.
  assert (Hsame : (match o with OMintQuote _ _ _ _ _ | OMintState _ | OMint _ _ _ | OMelt _ _ | OWatcher _ => False | _ => True end) ->
                  QInv (fst (step cfg no_fault w o)) (issue_ev o (snd (step cfg no_fault w o)) ++ iss)
                       (credit_ev w o (snd (step cfg no_fault w o)) ++ cred)).
  { intros Hk. assert (E1 : issue_ev o (snd (step cfg no_fault w o)) = []) by (destruct o; try reflexivity; destruct Hk).
    assert (E2 : credit_ev w o (snd (step cfg no_fault w o)) = []) by (destruct o; try reflexivity; destruct Hk).
    rewrite E1, E2. cbn [app]. apply (qinv_same w); [apply step_mq_frame; exact Hk|exact Hmono|exact Hq]. }
  destruct o; try (apply Hsame; exact I).
  - (* OMintQuote *)
    cbn [issue_ev credit_ev app].
    assert (Ha : appends_unpaid w (fst (step cfg no_fault w (OMintQuote unit_ok amount pubkey newid newhash)))).
    { unfold step. cbn [is_env prepare op_prog]. rewrite run_lift.
      pose proof (request_mint_quote_appends cfg unit_ok amount pubkey newid newhash (reset_calls w)) as Hx.
      destruct (run (request_mint_quote cfg unit_ok amount pubkey newid newhash) no_fault (reset_calls w)) as [w' [[x|e]| |]]; exact Hx. }
    destruct Ha as [l [Hl Fl]].
    eapply qinv_append; [exact Hl|exact Fl| |exact Hmono|exact Hq].
    destruct Hg' as [[_ _ _ Hnd _ _] _]. exact Hnd.
  - (* OMintState *)
    cbn [issue_ev credit_ev app].
    unfold step in *. cbn [is_env prepare op_prog] in *. rewrite run_lift in *.
    set (w0 := reset_calls w) in *.
    assert (Hew : forall m0, esett w0 m0 = esett w m0) by reflexivity.
    destruct (get_mint_quote_state_spec id w0) as [w' [r [Hrun Hr]]]. rewrite Hrun in *.
    assert (Hcase : d_mq (w_db w') = d_mq (w_db w) \/
                    exists q, find_mq id (d_mq (w_db w)) = Some q /\ mq_state q = 0 /\ settled w' (mq_hash q) = true /\
                              d_mq (w_db w') = upd_mq id 1 (d_mq (w_db w))).
    { destruct r as [q'|e]; [|left; apply (sbc_mq w0 w' Hr)].
      destruct Hr as [q [Hf [[_ [_ Hs]]|[[_ [_ [_ Hs]]]|[H0 [Hst [_ Ho]]]]]]]; [left; apply (sbc_mq w0 w' Hs)|left; apply (sbc_mq w0 w' Hs)|].
      right. exists q. split; [exact Hf|]. split; [exact H0|]. split.
      - destruct Ho as [Hl _]. unfold settled in *. rewrite Hl. exact Hst.
      - apply Ho. }
    assert (Hw' : fst (match r with Ok x => (w', Done (RMq x)) | Err e => (w', Done (RFail e)) end) = w') by (destruct r; reflexivity).
    destruct r as [q'|e]; cbn [fst snd of_outcome] in *.
    all: destruct Hcase as [Hd|[q [Hf [H0 [Hst Hd]]]]]; [apply (qinv_same w); assumption|].
    all: change iss with ([] ++ iss); change cred with ([] ++ cred);
         destruct (find_mq_in _ _ _ Hf) as [Hin [Hid Hids]];
         eapply qinv_upd; [exact Hd|exact Hmono|intros x []|intros x []|exact Hids| |exact Hq];
         intros m Hm Hmid Hok; rewrite !cnt_nil; cbn [Z.add];
         assert (m = q) by (apply (unique_by_id (d_mq (w_db w))); [apply Hg|exact Hm|exact Hin|congruence]); subst m;
         destruct Hok as [_ [Hz _]]; specialize (Hz H0);
         unfold esett; rewrite Hst; (rewrite ?Hew in *; repeat split; intros; try lia).
  - (* OMint *)
    cbn [credit_ev app].
    unfold step in *. cbn [is_env prepare op_prog] in *. rewrite run_lift in *.
    set (w0 := reset_calls w) in *.
    assert (Hew : forall m0, esett w0 m0 = esett w m0) by reflexivity.
    assert (H0 : WInv w0) by apply Hg.
    destruct (mint_tokens_spec (w_mem w0) (w_active w0) id outs sig w0 H0) as [w' [r [Hrun Hr]]]. rewrite Hrun in *.
    destruct r as [sigs|e]; cbn [fst snd of_outcome issue_ev] in *.
    + destruct Hr as [q [Hf [[Hpaid [_ [_ [_ [_ [_ [Hsig [_ [Hd [_ [_ [_ Hln]]]]]]]]]]]]|[Hunk [-> Hs]]]]].
      * destruct (find_mq_in _ _ _ Hf) as [Hin [Hid Hids]].
        assert (Hev : forall x, In x (match sigs with [] => [] | _ :: _ => [id] end) -> x = id).
        { intros x Hx. destruct sigs; [destruct Hx|destruct Hx as [<-|[]]; reflexivity]. }
        change cred with ([] ++ cred).
        eapply qinv_upd; [exact Hd|exact Hmono|exact Hev|intros x []|exact Hids| |exact Hq].
        intros m Hm Hmid Hok. rewrite cnt_nil. cbn [Z.add].
        assert (m = q) by (apply (unique_by_id (d_mq (w_db w))); [apply Hg|exact Hm|exact Hin|congruence]). subst m.
        assert (He : esett w' q = esett w q \/ esett w q <= esett w' q) by (right; apply esett_mono; exact Hmono).
        assert (Hc : cnt id (match sigs with [] => [] | _ :: _ => [id] end) <= 1).
        { destruct sigs; [rewrite cnt_nil; lia|rewrite cnt_cons, cnt_nil, Z.eqb_refl; lia]. }
        pose proof (cnt_nonneg id (match sigs with [] => [] | _ :: _ => [id] end)) as Hc0.
        pose proof (esett_mono w w' q Hmono) as Hem.
        destruct Hok as [_ [Hz [Ho _]]].
        destruct Hpaid as [H1|[H0' Hst]].
        -- specialize (Ho (or_introl H1)). (rewrite ?Hew in *; repeat split; intros; try lia).
        -- specialize (Hz H0').
           assert (Hst' : esett w' q = 1).
           { unfold esett. rewrite (Hmono _ Hst). reflexivity. }
           (rewrite ?Hew in *; repeat split; intros; try lia).
      * cbn [app]. apply (qinv_same w); [apply (sbc_mq w0 w' Hs)|exact Hmono|exact Hq].
    + cbn [app]. destruct Hr as [Hs|[q [Hf [Hpaid Ho]]]]; [apply (qinv_same w); [apply (sbc_mq w0 w' Hs)|exact Hmono|exact Hq]|].
      destruct (find_mq_in _ _ _ Hf) as [Hin [Hid Hids]].
      change iss with ([] ++ iss); change cred with ([] ++ cred).
      assert (Hd : d_mq (w_db w') = upd_mq id 1 (d_mq (w_db w))) by apply Ho.
      eapply qinv_upd; [exact Hd|exact Hmono|intros x []|intros x []|exact Hids| |exact Hq].
      intros m Hm Hmid Hok. rewrite !cnt_nil. cbn [Z.add].
      assert (m = q) by (apply (unique_by_id (d_mq (w_db w))); [apply Hg|exact Hm|exact Hin|congruence]). subst m.
      pose proof (esett_mono w w' q Hmono) as Hem.
      destruct Hok as [_ [Hz [Ho1 _]]].
      destruct Hpaid as [H1|[H0' Hst]].
      * specialize (Ho1 (or_introl H1)). (rewrite ?Hew in *; repeat split; intros; try lia).
      * specialize (Hz H0').
        assert (Hst' : esett w' q = 1) by (unfold esett; rewrite (Hmono _ Hst); reflexivity).
        (rewrite ?Hew in *; repeat split; intros; try lia).
  - (* OMelt *)
    cbn [issue_ev app].
    unfold step in *. cbn [is_env prepare op_prog] in *. rewrite run_lift in *.
    set (w0 := reset_calls w) in *.
    assert (Hew : forall m0, esett w0 m0 = esett w m0) by reflexivity.
    assert (H0 : WInv w0) by apply Hg.
    destruct (melt_tokens_spec cfg (w_mem w0) id ins w0 H0) as [w' [r [Hrun [_ Hr]]]]. rewrite Hrun in *.
    destruct r as [q'|e]; cbn [fst snd of_outcome credit_ev] in *.
    2:{ cbn [app]. apply (qinv_same w); [|exact Hmono|exact Hq].
        destruct Hr as [[Hd _]|[_ [q [_ [_ [_ [Hd _]]]]]]]; [rewrite Hd; reflexivity|exact Hd]. }
    destruct Hr as [q [Hf [_ Hr]]].
    change (d_lq (w_db w)) with (d_lq (w_db w0)). rewrite Hf.
    change (internal_mq q (w_db w)) with (internal_mq q (w_db w0)).
    destruct (internal_mq q (w_db w0)) as [mq0|] eqn:Emq.
    + destruct Hr as [pre [-> [_ [Hd _]]]]. rewrite with_state_state. cbn [Z.eqb Pos.eqb].
      apply internal_mq_some in Emq as [Emq _]. apply find_some in Emq as [Hin0 _].
      assert (Hids : In (mq_id mq0) (map mq_id (d_mq (w_db w)))) by (apply in_map; exact Hin0).
      change iss with ([] ++ iss).
      eapply qinv_upd; [exact Hd|exact Hmono|intros x []|intros x [<-|[]]; reflexivity|exact Hids| |exact Hq].
      intros m Hm Hmid Hok. rewrite cnt_nil, cnt_cons, cnt_nil, Z.eqb_refl.
      pose proof (esett_mono w w' m Hmono) as Hem. pose proof (esett_range w m) as Hr0.
      destruct Hok as [Hrange [Hz [Ho1 Ho3]]].
      assert (Hs : mq_state m = 0 \/ (mq_state m = 1 \/ mq_state m = 2) \/ mq_state m = 3) by lia.
      destruct Hs as [Hs|[Hs|Hs]]; [specialize (Hz Hs)|specialize (Ho1 Hs)|specialize (Ho3 Hs)]; (rewrite ?Hew in *; repeat split; intros; try lia).
    + destruct Hr as [_ [_ [Hd _]]].
      destruct (lq_state q' =? 2); cbn [app]; (apply (qinv_same w); [exact Hd|exact Hmono|exact Hq]).
  - (* OWatcher *)
    cbn [issue_ev credit_ev app].
    unfold step in *. cbn [is_env prepare op_prog] in *.
    set (w0 := reset_calls w) in *.
    assert (Hew : forall m0, esett w0 m0 = esett w m0) by reflexivity.
    rewrite run_bind in *.
    pose proof (watcher_spec id w0) as Hws. cbv zeta in Hws.
    destruct (run (watcher_fire id) no_fault w0) as [w' [u| |]] eqn:Erun; cbn [fst snd run of_outcome] in *.
    all: destruct Hws as [Hd|[q [Hf [Hs0 Hd]]]]; [apply (qinv_same w); [exact Hd|exact Hmono|exact Hq]|].
    all: change iss with ([] ++ iss); change cred with ([] ++ cred);
         destruct (find_mq_in _ _ _ Hf) as [Hin [Hid Hids]];
         eapply qinv_upd; [exact Hd|exact Hmono|intros x []|intros x []|exact Hids| |exact Hq];
         intros m Hm Hmid Hok; rewrite !cnt_nil; cbn [Z.add];
         assert (m = q) by (apply (unique_by_id (d_mq (w_db w))); [apply Hg|exact Hm|exact Hin|congruence]); subst m;
         cbn [watcher_honest] in Hw; change (d_mq (w_db w)) with (d_mq (w_db w0)) in Hw; rewrite Hf in Hw; specialize (Hw Hs0);
         assert (Hst' : esett w' q = 1) by (unfold esett; rewrite (Hmono _ Hw); reflexivity);
         destruct Hok as [_ [Hz _]]; specialize (Hz Hs0); (rewrite ?Hew in *; repeat split; intros; try lia).
Qed.

(* ---------- whole histories ---------- *)

Fixpoint qtrace (cfg : config) (w : world) (h : list op) (iss cred : list Z) : world * list Z * list Z :=
  match h with
  | [] => (w, iss, cred)
  | o :: r => qtrace cfg (fst (step cfg no_fault w o)) r
                (issue_ev o (snd (step cfg no_fault w o)) ++ iss) (credit_ev w o (snd (step cfg no_fault w o)) ++ cred)
  end.

Fixpoint honest (cfg : config) (w : world) (h : list op) : Prop :=
  match h with
  | [] => True
  | o :: r => watcher_honest w o /\ honest cfg (fst (step cfg no_fault w o)) r
  end.

Lemma qtrace_inv cfg h : forall w iss cred,
  Good w -> honest cfg w h -> QInv w iss cred ->
  let '(w', iss', cred') := qtrace cfg w h iss cred in Good w' /\ QInv w' iss' cred'.
Proof.
  induction h as [|o r IH]; intros w iss cred Hg Hh Hq; cbn [qtrace]; [split; assumption|].
  destruct Hh as [Hw Hh]. apply IH; [apply step_good; exact Hg|exact Hh|apply step_qinv; assumption].
Qed.

Lemma QInv0 : QInv world0 [] [].
Proof. split; [intros m []|intros id []]. Qed.

(* In every sequential history whose invoice notifications are truthful, every mint quote has been issued at most
   once per payment: its issuances never exceed (1 if the backend reports its invoice settled) + (the number of melts
   that settled its invoice internally); and a quote that is still UNPAID has never been issued beyond its internal credits. *)
Theorem quote_issued_at_most_once_per_payment cfg h :
  honest cfg world0 h ->
  let '(w, iss, cred) := qtrace cfg world0 h [] [] in
  forall m, In m (d_mq (w_db w)) ->
    cnt (mq_id m) iss <= esett w m + cnt (mq_id m) cred /\
    (mq_state m = 0 -> cnt (mq_id m) iss <= cnt (mq_id m) cred).
Proof.
  intros Hh. pose proof (qtrace_inv cfg h world0 [] [] Good0 Hh QInv0) as H.
  destruct (qtrace cfg world0 h [] []) as [[w iss] cred]. destruct H as [_ [H1 _]].
  intros m Hm. destruct (H1 m Hm) as [Hr [Hz [Ho Hi]]]. pose proof (esett_range w m). pose proof (cnt_nonneg (mq_id m) cred).
  split; [|exact Hz].
  assert (Hs : mq_state m = 0 \/ (mq_state m = 1 \/ mq_state m = 2) \/ mq_state m = 3) by lia.
  destruct Hs as [Hs|[Hs|Hs]]; [specialize (Hz Hs)|specialize (Ho Hs)|specialize (Hi Hs)]; lia.
Qed.
