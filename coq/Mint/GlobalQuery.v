(* C15 / C16 / C09 over whole histories: what the query operations report in every reachable state. *)
From Coq Require Import ZArith List Bool Lia.
From Verif Require Import Model Sem InvDb InvSwap InvMint InvMelt Corollaries Queries Footprint Global GlobalQuote GlobalValue GlobalErr HRel.
Import ListNotations.
Open Scope Z_scope.

(* ------------------------------------------------------------------ C15: the state check, in general *)

Definition resolve_polls (ys : list Z) (w : world) : prog (result unit) :=
  for_each (dedup (map r_quote (filter (fun r => mem (r_y r) ys) (d_pending (w_db w)))))
           (fun q => perform g <- get_melt_quote_state q ;; match g with Err e => fail e | Ok _ => Ret (Ok tt) end).

(* ProofsStateCheck first lets every in-flight melt that locks one of the queried Ys adopt the backend's verdict, and then
   reports, in request order and for repeated/unknown Ys alike, exactly what the two tables say *)
Theorem check_state_general ys w iss :
  Good w -> VInv w iss ->
  exists w1 w',
    run (resolve_polls ys w) no_fault (mkWorld (w_db w) (w_ln w) (w_mem w) (w_active w) (w_calls w + 1)) = (w1, Done (Ok tt)) /\
    run (proofs_state_check ys) no_fault w = (w', Done (Ok (map (state_of (w_db w1)) ys))) /\
    w_db w' = w_db w1.
Proof.
  intros Hg Hv. unfold proofs_state_check, resolve_polls. rewrite run_do.
  destruct w as [d l m a n]. sx.
  set (pend := filter (fun r => mem (r_y r) ys) (d_pending d)).
  rewrite run_bind.
  assert (Hg1 : Good (mkWorld d l m a (n + 1))) by (destruct Hg as [Hi Hdj]; split; assumption).
  destruct (polls_ok (dedup (map r_quote pend)) (mkWorld d l m a (n + 1)) Hg1) as [w1 Hr1].
  { intros q Hq. apply in_dedup in Hq. apply in_map_iff in Hq as [r [<- Hr]]. apply filter_In in Hr as [Hr _].
    cbn [w_db]. apply (v_rows _ _ Hv). exact Hr. }
  rewrite Hr1. exists w1. destruct w1 as [d1 l1 m1 a1 n1]. sx.
  eexists. split; [reflexivity|]. split.
  - apply f_equal2; [reflexivity|]. apply f_equal. apply f_equal. apply map_ext_in. intros y Hy. unfold state_of. cbn [w_db].
    rewrite !(find_filter_mem _ _ _ Hy). reflexivity.
  - reflexivity.
Qed.

(* ------------------------------------------------------------------ C15: restore returns exactly what was ever returned *)

(* the signature table is exactly the concatenation, in order, of the signature lists returned by successful swap and mint
   requests: nothing is stored that was not returned, nothing returned is missing *)
Definition returned (o : op) (r : opres) : list srow :=
  match o, r with
  | OSwap _ _ _, RSigs l | OMint _ _ _, RSigs l => l
  | _, _ => []
  end.

Fixpoint returned_all (h : list op) (rs : list opres) : list srow :=
  match h, rs with
  | o :: h', r :: rs' => returned o r ++ returned_all h' rs'
  | _, _ => []
  end.

Lemma step_sigs cfg w o :
  Good w -> d_sigs (w_db (fst (step cfg no_fault w o))) = d_sigs (w_db w) ++ returned o (snd (step cfg no_fault w o)).
Proof.
  intros Hg.
  assert (Hnone : (match o with OSwap _ _ _ | OMint _ _ _ => False | _ => True end) ->
                  d_sigs (w_db (fst (step cfg no_fault w o))) = d_sigs (w_db w) ++ returned o (snd (step cfg no_fault w o))).
  { intros Hk. assert (E : returned o (snd (step cfg no_fault w o)) = []) by (destruct o; try reflexivity; destruct Hk).
    rewrite E, app_nil_r. unfold step. destruct (is_env o) eqn:Ee; cbn [fst]; [rewrite apply_env_db; reflexivity|].
    set (w0 := prepare o w). assert (H0 : d_sigs (w_db w0) = d_sigs (w_db w)) by (unfold w0; rewrite prepare_db; reflexivity).
    destruct (run _ no_fault w0) as [w' r] eqn:E1. cbn [fst]. rewrite <- H0. change w' with (fst (w', r)). rewrite <- E1.
    apply (frame_sigs (fp_op o)); [apply only_op|]. destruct o; try (destruct Hk); cbn [fp_op]; intros c Hc; destruct c; cbn in *; congruence. }
  destruct o; try (apply Hnone; exact I); unfold step; cbn [is_env prepare op_prog]; rewrite run_lift; set (w0 := reset_calls w);
    assert (H0 : WInv w0) by apply Hg.
  - destruct (mint_tokens_spec (w_mem w0) (w_active w0) id outs sig w0 H0) as [w' [r [Hrun Hr]]]. rewrite Hrun.
    destruct r as [sigs|e]; cbn [fst snd of_outcome returned].
    + destruct Hr as [q [_ [[_ [_ [_ [_ [_ [_ [-> [Hsg _]]]]]]]]|[_ [-> Hs]]]]]; [exact Hsg|].
      rewrite app_nil_r. destruct Hs as [Hd _]. rewrite Hd. reflexivity.
    + rewrite app_nil_r. destruct Hr as [[Hd _]|[q [_ [_ Ho]]]]; [rewrite Hd; reflexivity|apply Ho].
  - destruct (swap_spec (w_mem w0) (w_active w0) ins outs outs_signed w0 H0) as [w' [r [Hrun Hr]]]. rewrite Hrun.
    destruct r as [sigs|e]; cbn [fst snd of_outcome returned].
    + destruct Hr as [_ [_ [_ [_ [_ [_ [_ [_ [-> [_ [Hsg _]]]]]]]]]]]. exact Hsg.
    + rewrite app_nil_r. destruct Hr as [Hd _]. rewrite Hd. reflexivity.
Qed.

Theorem signatures_are_exactly_what_was_returned cfg h : forall w,
  Good w -> d_sigs (w_db (fst (run_history cfg w h))) = d_sigs (w_db w) ++ returned_all h (snd (run_history cfg w h)).
Proof.
  induction h as [|o r IH]; intros w Hg; [cbn; rewrite app_nil_r; reflexivity|].
  rewrite run_history_cons. cbn [fst snd returned_all].
  rewrite (IH _ (step_good cfg w o Hg)), (step_sigs cfg w o Hg), app_assoc. reflexivity.
Qed.

(* hence restore, on the reachable store, answers for exactly the returned signatures (restore_exact + this table identity) *)
Corollary restore_is_exact cfg h bs :
  let w := reach cfg h in
  d_sigs (w_db w) = returned_all h (snd (run_history cfg world0 h)) /\
  exists w', run (restore_sigs bs []) no_fault w = (w', Done (Ok (restore_spec (w_db w) bs))).
Proof.
  cbv zeta. split.
  - unfold reach. rewrite (signatures_are_exactly_what_was_returned cfg h world0 Good0). reflexivity.
  - destruct (restore_exact bs (reach cfg h)) as [w' [Hr _]]. exists w'. exact Hr.
Qed.

(* ------------------------------------------------------------------ C09 / C07: keysets *)

(* the keyset table only ever grows, and a stored keyset keeps its id, derivation index (= id) and fee; only its active flag changes:
   command level, so under every fault, cut and schedule *)
Definition ks_ext (a b : list ksrow) : Prop :=
  forall k, In k a -> exists k', In k' b /\ k_id k' = k_id k /\ k_fee k' = k_fee k.

Lemma exec_db_ks_ext c d : ks_ext (d_ks d) (d_ks (fst (exec_db c d))).
Proof.
  destruct c; cbn [exec_db fst];
    repeat match goal with |- context [if ?b then _ else _] => destruct b eqn:? end;
    cbn [fst set_spent set_pending set_sigs set_mq set_lq set_ks d_ks]; try (intros k0 Hk; exists k0; repeat split; assumption).
  - intros k0 Hk. exists k0. split; [apply in_or_app; left; exact Hk|split; reflexivity].
  - intros k0 Hk. exists (if k_id k0 =? id then mkKs (k_id k0) (k_fee k0) act else k0).
    split; [apply in_map_iff; exists k0; split; [reflexivity|exact Hk]|]. destruct (k_id k0 =? id); split; reflexivity.
Qed.

Theorem keysets_never_lost cfg h w : ks_ext (d_ks (w_db w)) (d_ks (w_db (hrun cfg w h))).
Proof.
  apply (rel_hrun (fun a b => ks_ext (d_ks (w_db a)) (d_ks (w_db b)))).
  - intros w0 k Hk. exists k. repeat split; assumption.
  - intros a b c H1 H2 k Hk. destruct (H1 k Hk) as [k1 [Hin1 [E1 F1]]]. destruct (H2 k1 Hin1) as [k2 [Hin2 [E2 F2]]].
    exists k2. repeat split; congruence.
  - intros c fault w0. destruct (exec_world c fault w0) as [_ [_ [Hd|[_ Hd]]]]; rewrite Hd; [intros k Hk; exists k; repeat split; assumption|apply exec_db_ks_ext].
  - intros o w0. rewrite apply_env_db. intros k Hk. exists k. repeat split; assumption.
  - intros o w0. rewrite prepare_db. intros k Hk. exists k. repeat split; assumption.
  - intros w0 k Hk. exists k. repeat split; assumption.
Qed.

(* a mint quote keeps its amount, invoice and locking key for ever; a melt quote its invoice, amount and fee reserve:
   only state (and preimage) columns are ever updated - command level, every history *)
Definition mq_static (m : mquote) := (mq_id m, mq_amount m, mq_hash m, mq_pubkey m).
Definition lq_static (q : lquote) := (lq_id q, lq_req q, lq_hash q, lq_amount q, lq_fee q, lq_mpp q, lq_msat q).

Definition quotes_ext (a b : world) : Prop :=
  (forall m, In m (d_mq (w_db a)) -> exists m', In m' (d_mq (w_db b)) /\ mq_static m' = mq_static m) /\
  (forall q, In q (d_lq (w_db a)) -> exists q', In q' (d_lq (w_db b)) /\ lq_static q' = lq_static q).

Lemma exec_db_quotes_static c d :
  (forall m, In m (d_mq d) -> exists m', In m' (d_mq (fst (exec_db c d))) /\ mq_static m' = mq_static m) /\
  (forall q, In q (d_lq d) -> exists q', In q' (d_lq (fst (exec_db c d))) /\ lq_static q' = lq_static q).
Proof.
  assert (Hsame : forall d', d_mq d' = d_mq d -> d_lq d' = d_lq d ->
            (forall m, In m (d_mq d) -> exists m', In m' (d_mq d') /\ mq_static m' = mq_static m) /\
            (forall q, In q (d_lq d) -> exists q', In q' (d_lq d') /\ lq_static q' = lq_static q)).
  { intros d' H1 H2. rewrite H1, H2. split; intros x Hx; exists x; split; [assumption|reflexivity|assumption|reflexivity]. }
  destruct c; try (apply Hsame; cbn [exec_db fst];
                   repeat match goal with |- context [if ?b then _ else _] => destruct b end; reflexivity).
  - (* SaveMintQuote *)
    cbn [exec_db]. destruct (sql_int_ok (mq_amount q) && negb (mem (mq_id q) (map mq_id (d_mq d)))); [|apply Hsame; reflexivity].
    cbn [fst set_mq d_mq d_lq]. split; [|intros x Hx; exists x; split; [assumption|reflexivity]].
    intros x Hx. exists x. split; [apply in_or_app; left; exact Hx|reflexivity].
  - (* UpdateMintQuote *)
    cbn [exec_db]. destruct (mem id (map mq_id (d_mq d))); [|apply Hsame; reflexivity].
    cbn [fst set_mq d_mq d_lq]. split; [|intros x Hx; exists x; split; [assumption|reflexivity]].
    intros x Hx. exists (if mq_id x =? id then mkMq (mq_id x) (mq_amount x) (mq_hash x) st (mq_pubkey x) else x).
    split; [unfold upd_mq; apply in_map_iff; exists x; split; [reflexivity|exact Hx]|]. destruct (mq_id x =? id); reflexivity.
  - (* SaveMeltQuote *)
    cbn [exec_db]. destruct (sql_int_ok (lq_amount q) && sql_int_ok (lq_fee q) && sql_int_ok (lq_msat q) && negb (mem (lq_id q) (map lq_id (d_lq d)))); [|apply Hsame; reflexivity].
    cbn [fst set_lq d_mq d_lq]. split; [intros x Hx; exists x; split; [assumption|reflexivity]|].
    intros x Hx. exists x. split; [apply in_or_app; left; exact Hx|reflexivity].
  - (* UpdateMeltQuote *)
    cbn [exec_db]. destruct (mem id (map lq_id (d_lq d))); [|apply Hsame; reflexivity].
    cbn [fst set_lq d_mq d_lq]. split; [intros x Hx; exists x; split; [assumption|reflexivity]|].
    intros x Hx. exists (if lq_id x =? id then with_state x st pre else x).
    split; [unfold upd_lq; apply in_map_iff; exists x; split; [reflexivity|exact Hx]|]. destruct (lq_id x =? id); reflexivity.
Qed.

Theorem quotes_never_altered cfg h w : quotes_ext w (hrun cfg w h).
Proof.
  apply (rel_hrun quotes_ext).
  - intros w0. split; intros x Hx; exists x; split; [assumption|reflexivity|assumption|reflexivity].
  - intros a b c [A1 A2] [B1 B2]. split.
    + intros m Hm. destruct (A1 m Hm) as [m1 [H1 E1]]. destruct (B1 m1 H1) as [m2 [H2 E2]]. exists m2. split; [exact H2|congruence].
    + intros q Hq. destruct (A2 q Hq) as [q1 [H1 E1]]. destruct (B2 q1 H1) as [q2 [H2 E2]]. exists q2. split; [exact H2|congruence].
  - intros c fault w0. unfold quotes_ext. destruct (exec_world c fault w0) as [_ [_ [Hd|[_ Hd]]]]; rewrite Hd; [|apply exec_db_quotes_static].
    split; intros x Hx; exists x; split; [assumption|reflexivity|assumption|reflexivity].
  - intros o w0. unfold quotes_ext. rewrite apply_env_db. split; intros x Hx; exists x; split; [assumption|reflexivity|assumption|reflexivity].
  - intros o w0. unfold quotes_ext. rewrite prepare_db. split; intros x Hx; exists x; split; [assumption|reflexivity|assumption|reflexivity].
  - intros w0. split; intros x Hx; exists x; split; [assumption|reflexivity|assumption|reflexivity].
Qed.
