(* C02 against the Lightning ledger alone: internal settlements are NOT inflow.

       issued ecash + commitments (amount + fee reserve) of every PAID melt quote that was paid over Lightning
         <=  redeemed ecash + sum over mint quotes whose invoice the backend reports settled of their amount

   for every sequential fault-free history.  GlobalValue.no_inflation counts every internal settlement as if it were a payment of
   the credited mint quote; that is only sound if the melt burned at least that quote's amount, which the code did NOT ensure
   before fix 80058f3 (it matched the mint quote by payment hash only, so a foreign invoice with the same hash and a smaller
   amount was settled against it).  Here the credit is shown to be matched, one for one, by a PAID melt quote of the same
   amount whose commitment is then left out of the outflow.
   Hypotheses about the environment (ln_ok): the backend hands out an invoice no melt quote was requested for yet, and decoding
   one of the mint's own invoices yields that invoice's payment hash and amount. *)
From Coq Require Import ZArith List Bool Lia.
From Verif Require Import Model Sem InvDb InvSwap InvMint InvMelt Corollaries Queries Footprint Global GlobalQuote GlobalValue GlobalQuery.
Import ListNotations.
Open Scope Z_scope.

Definition ln_ok_op (w : world) (o : op) : Prop :=
  match o with
  | OMintQuote _ _ _ _ newhash => ~ In newhash (map lq_req (d_lq (w_db w)))
  | OMeltQuote _ _ req h msat _ _ =>
      forall m, In m (d_mq (w_db w)) -> mq_hash m = req -> h = req /\ msat = 1000 * mq_amount m
  | _ => True
  end.

Fixpoint ln_ok (cfg : config) (w : world) (h : list op) : Prop :=
  match h with
  | [] => True
  | o :: r => ln_ok_op w o /\ ln_ok cfg (fst (step cfg no_fault w o)) r
  end.

(* ghost: (melt quote, mint quote) for every internal settlement *)
Definition pair_ev (w : world) (o : op) (r : opres) : list (Z * Z) :=
  match o, r with
  | OMelt id _, RLq q' =>
      if lq_state q' =? 2 then
        match find_lq id (d_lq (w_db w)) with
        | Some q => match internal_mq q (w_db w) with Some m => [(id, mq_id m)] | None => [] end
        | None => []
        end
      else []
  | _, _ => []
  end.

Lemma pair_ev_credit w o r : map snd (pair_ev w o r) = credit_ev w o r.
Proof.
  destruct o; try reflexivity. destruct r; try reflexivity. cbn [pair_ev credit_ev].
  destruct (lq_state q =? 2); [|reflexivity]. destruct (find_lq id (d_lq (w_db w))) as [q0|]; [|reflexivity].
  destruct (internal_mq q0 (w_db w)); reflexivity.
Qed.

Fixpoint ltrace (cfg : config) (w : world) (h : list op) (ip : list (Z * Z)) : world * list (Z * Z) :=
  match h with
  | [] => (w, ip)
  | o :: r => ltrace cfg (fst (step cfg no_fault w o)) r (pair_ev w o (snd (step cfg no_fault w o)) ++ ip)
  end.

Lemma ltrace_qtrace cfg h : forall w iss cred ip, cred = map snd ip ->
  fst (fst (qtrace cfg w h iss cred)) = fst (ltrace cfg w h ip) /\
  snd (qtrace cfg w h iss cred) = map snd (snd (ltrace cfg w h ip)).
Proof.
  induction h as [|o r IH]; intros w iss cred ip Hc; cbn [qtrace ltrace fst snd]; [split; [reflexivity|exact Hc]|].
  apply IH. rewrite map_app, pair_ev_credit, Hc. reflexivity.
Qed.

(* ---------- the invariant ---------- *)

Definition L1 (d : db) : Prop :=
  forall q m, In q (d_lq d) -> In m (d_mq d) -> mq_hash m = lq_req q -> lq_amount q = mq_amount m.

Definition pair_ok (d : db) (p : Z * Z) : Prop :=
  exists q m, In q (d_lq d) /\ lq_id q = fst p /\ lq_state q = 2 /\
              In m (d_mq d) /\ mq_id m = snd p /\ mq_amount m = lq_amount q.

Record LInv (d : db) (ip : list (Z * Z)) : Prop := mkLInv {
  l_agree : L1 d;
  l_nodup : NoDup (map fst ip);
  l_pairs : forall p, In p ip -> pair_ok d p
}.

(* ---------- what a command can do to the quote tables ---------- *)

Definition c_safe (c : cmd) : bool :=
  match c with SaveMintQuote _ | SaveMeltQuote _ | UpdateMeltQuote _ _ _ => false | _ => true end.

(* every mint quote afterwards was there before (same id, amount, hash) and vice versa; the melt-quote table keeps all its rows
   and gets none *)
Definition quiet_quotes (a b : db) : Prop :=
  (forall m', In m' (d_mq b) -> exists m, In m (d_mq a) /\ mq_static m = mq_static m') /\
  (forall m, In m (d_mq a) -> exists m', In m' (d_mq b) /\ mq_static m' = mq_static m) /\
  d_lq b = d_lq a.

Lemma quiet_refl a : quiet_quotes a a.
Proof. split; [|split]; [intros m Hm; exists m; split; [exact Hm|reflexivity]..|reflexivity]. Qed.

Lemma quiet_trans a b c : quiet_quotes a b -> quiet_quotes b c -> quiet_quotes a c.
Proof.
  intros [A1 [A2 A3]] [B1 [B2 B3]]. split; [|split].
  - intros m Hm. destruct (B1 m Hm) as [m1 [H1 E1]]. destruct (A1 m1 H1) as [m0 [H0 E0]]. exists m0. split; [exact H0|congruence].
  - intros m Hm. destruct (A2 m Hm) as [m1 [H1 E1]]. destruct (B2 m1 H1) as [m2 [H2 E2]]. exists m2. split; [exact H2|congruence].
  - congruence.
Qed.

Lemma exec_db_quiet c d : c_safe c = true -> quiet_quotes d (fst (exec_db c d)).
Proof.
  intros Hc. destruct c; try discriminate Hc; cbn [exec_db fst];
    repeat match goal with |- context [if ?b then _ else _] => destruct b end;
    unfold quiet_quotes; cbn [fst set_spent set_pending set_sigs set_mq set_lq set_ks d_mq d_lq]; try exact (quiet_refl d).
  (* UpdateMintQuote *)
  split; [|split; [|reflexivity]].
  - intros m' Hm. apply in_upd_mq in Hm as [m [Hin ->]]. exists m. split; [exact Hin|]. destruct (mq_id m =? id); reflexivity.
  - intros m Hm. exists (if mq_id m =? id then mkMq (mq_id m) (mq_amount m) (mq_hash m) st (mq_pubkey m) else m).
    split; [unfold upd_mq; apply in_map_iff; exists m; split; [reflexivity|exact Hm]|]. destruct (mq_id m =? id); reflexivity.
Qed.

Lemma run_quiet {R} allowed (p : prog R) f w :
  only allowed p -> (forall c, allowed c = true -> c_safe c = true) -> quiet_quotes (w_db w) (w_db (fst (run p f w))).
Proof.
  intros Hp Ha.
  apply (run_only allowed (fun a b => quiet_quotes (w_db a) (w_db b))); [intros; apply quiet_refl|intros a b c; apply quiet_trans| |exact Hp].
  intros c fault w0 Hc. destruct (exec_world c fault w0) as [_ [_ [Hd|[_ Hd]]]]; rewrite Hd; [apply quiet_refl|].
  apply exec_db_quiet. apply Ha. exact Hc.
Qed.

Lemma linv_quiet a b ip : quiet_quotes a b -> LInv a ip -> LInv b ip.
Proof.
  intros [Q1 [Q2 Q3]] [L N P]. split; [|exact N|].
  - intros q m Hq Hm He. rewrite Q3 in Hq. destruct (Q1 m Hm) as [m0 [H0 E0]]. unfold mq_static in E0. injection E0 as _ Ea Eh _.
    rewrite <- Ea. apply L; [exact Hq|exact H0|congruence].
  - intros p Hp. destruct (P p Hp) as [q [m [Hq [Hi [Hs [Hm [Hmi Ha]]]]]]].
    destruct (Q2 m Hm) as [m' [Hm' E]]. unfold mq_static in E. injection E as Ei Ea _ _.
    exists q, m'. rewrite Q3. repeat split; try assumption; congruence.
Qed.

(* ---------- RequestMintQuote / RequestMeltQuote: the row they may append ---------- *)

Ltac sx := cbn [run bind no_fault exec is_call is_storage andb exec_db w_db w_ln w_mem w_active w_calls set_ln].
Ltac dbx := cbn [set_spent set_pending set_sigs set_mq set_lq set_ks d_spent d_pending d_sigs d_mq d_lq d_ks].

Lemma request_mint_quote_tables cfg u a pk id h w :
  let w' := fst (run (request_mint_quote cfg u a pk id h) no_fault w) in
  d_lq (w_db w') = d_lq (w_db w) /\
  (d_mq (w_db w') = d_mq (w_db w) \/ d_mq (w_db w') = d_mq (w_db w) ++ [mkMq id a h 0 pk]).
Proof.
  cbv zeta. unfold request_mint_quote.
  destruct u; cbn [negb]; [|split; [reflexivity|left; reflexivity]].
  destruct (pk <? 0); [split; [reflexivity|left; reflexivity]|].
  destruct ((0 <? c_max_mint cfg) && (c_max_mint cfg <? a)); [split; [reflexivity|left; reflexivity]|].
  rewrite run_bind.
  set (P := if 0 <? c_max_balance cfg then total_balance else Ret (Ok 0)).
  assert (HP : only fp_balance P) by (unfold P; destruct (0 <? c_max_balance cfg); [apply only_balance|constructor]).
  pose proof (frame_mq fp_balance P HP ltac:(intros c Hc; destruct c; cbn in *; congruence) no_fault w) as Hm.
  pose proof (frame_lq fp_balance P HP ltac:(intros c Hc; destruct c; cbn in *; congruence) no_fault w) as Hl.
  unfold same_mq, same_lq in *.
  destruct (run P no_fault w) as [w1 [[b|e]| |]]; cbn [fst] in *; try (split; [exact Hl|left; exact Hm]).
  destruct ((0 <? c_max_balance cfg) && (c_max_balance cfg <? add64 b a)); [split; [exact Hl|left; exact Hm]|].
  destruct w1 as [d1 l1 m1 a1 n1]. cbn [w_db] in *. sx.
  destruct (l_createerr l1 || _); [sx; split; [exact Hl|left; exact Hm]|].
  sx. cbn [mq_amount mq_id].
  destruct (sql_int_ok a && negb (mem id (map mq_id (d_mq d1)))); sx; dbx; [|split; [exact Hl|left; exact Hm]].
  split; [exact Hl|right; rewrite Hm; reflexivity].
Qed.

Lemma request_melt_quote_tables cfg u d req h msat mpp newid w :
  let w' := fst (run (request_melt_quote cfg u d req h msat mpp newid) no_fault w) in
  d_mq (w_db w') = d_mq (w_db w) /\
  (d_lq (w_db w') = d_lq (w_db w) \/
   exists q, d_lq (w_db w') = d_lq (w_db w) ++ [q] /\ lq_req q = req /\
             ((exists m, In m (d_mq (w_db w)) /\ mq_hash m = h /\ h = req) -> lq_amount q = (msat + 999) / 1000)).
Proof.
  cbv zeta. split.
  { apply (frame_mq fp_melt_quote); [apply only_request_melt_quote|intros c Hc; destruct c; cbn in *; congruence]. }
  unfold request_melt_quote. destruct u; cbn [negb]; [|left; reflexivity].
  destruct d; cbn [negb]; [|left; reflexivity].
  destruct ((msat <=? 0) || (two63 <=? msat)); [left; reflexivity|].
  destruct w as [db l m a n]. sx.
  set (internal := match same_invoice (ROk (find (fun q => mq_hash q =? h) (d_mq db))) req with Some _ => true | None => false end).
  assert (Hint : (exists m0, In m0 (d_mq db) /\ mq_hash m0 = h /\ h = req) -> internal = true).
  { intros [m0 [Hin [Hh Hr]]]. unfold internal, same_invoice.
    destruct (find (fun q => mq_hash q =? h) (d_mq db)) as [m1|] eqn:Ef.
    - apply find_some in Ef as [_ Ef]. apply Z.eqb_eq in Ef. rewrite Ef, Hr, Z.eqb_refl. reflexivity.
    - exfalso. pose proof (find_none _ _ Ef m0 Hin) as Hn. cbv beta in Hn. apply Z.eqb_neq in Hn. apply Hn. exact Hh. }
  assert (Hplan : forall (is_mpp : bool) (amount_msat qa : Z),
     let k := fun ex : res (option lquote) => match ex with
                | ROk (Some _) => fail EMeltExists
                | _ => call r <- SaveMeltQuote (mkLq newid req h qa (if internal then 0 else fee_reserve cfg qa) 0 0 is_mpp amount_msat) ;;
                       match r with RErr => fail EDb | ROk _ => Ret (Ok (mkLq newid req h qa (if internal then 0 else fee_reserve cfg qa) 0 0 is_mpp amount_msat)) end
                end in
     forall n',
     let w1 := fst (run (if (0 <? c_max_melt cfg) && (c_max_melt cfg <? qa) then fail EMeltLimit else Do (GetMeltQuoteByReq req) k) no_fault (mkWorld db l m a n')) in
     d_lq (w_db w1) = d_lq db \/
     exists q, d_lq (w_db w1) = d_lq db ++ [q] /\ lq_req q = req /\ lq_amount q = qa).
  { intros is_mpp amount_msat qa k n'. cbv zeta.
    destruct ((0 <? c_max_melt cfg) && (c_max_melt cfg <? qa)); [left; reflexivity|].
    sx. unfold k. destruct (find (fun q => lq_req q =? req) (d_lq db)); [left; reflexivity|].
    sx. cbn [lq_amount lq_fee lq_msat lq_id].
    destruct (sql_int_ok qa && sql_int_ok (if internal then 0 else fee_reserve cfg qa) && sql_int_ok amount_msat && negb (mem newid (map lq_id (d_lq db)))); [|left; reflexivity].
    right. eexists. split; [reflexivity|]. split; reflexivity. }
  destruct mpp as [part|].
  - destruct (c_mpp cfg); [|left; reflexivity].
    fold internal. destruct internal eqn:Eint; [left; reflexivity|].
    destruct (msat <=? part); [left; reflexivity|].
    destruct (Hplan true part ((part + 999) / 1000) (n + 1)) as [H|[q [H1 [H2 H3]]]]; [left; exact H|].
    right. exists q. split; [exact H1|]. split; [exact H2|]. intros Hex. discriminate (Hint Hex).
  - destruct (Hplan false 0 ((msat + 999) / 1000) (n + 1)) as [H|[q [H1 [H2 H3]]]]; [left; exact H|].
    right. exists q. split; [exact H1|]. split; [exact H2|]. intros _. exact H3.
Qed.

(* ---------- the invariant under the table changes the operations make ---------- *)

Definition mq_same_static (a b : list mquote) : Prop :=
  (forall m', In m' b -> exists m, In m a /\ mq_static m = mq_static m') /\
  (forall m, In m a -> exists m', In m' b /\ mq_static m' = mq_static m).

Lemma mq_same_static_refl a : mq_same_static a a.
Proof. split; intros m Hm; exists m; split; [exact Hm|reflexivity|exact Hm|reflexivity]. Qed.

Lemma mq_same_static_upd id st a : mq_same_static a (upd_mq id st a).
Proof.
  split.
  - intros m' Hm. apply in_upd_mq in Hm as [m [Hin ->]]. exists m. split; [exact Hin|]. destruct (mq_id m =? id); reflexivity.
  - intros m Hm. exists (if mq_id m =? id then mkMq (mq_id m) (mq_amount m) (mq_hash m) st (mq_pubkey m) else m).
    split; [unfold upd_mq; apply in_map_iff; exists m; split; [reflexivity|exact Hm]|]. destruct (mq_id m =? id); reflexivity.
Qed.

Lemma in_upd_lq_other id pre st l q : In q l -> lq_id q <> id -> In q (upd_lq id pre st l).
Proof.
  intros Hq Hne. unfold upd_lq. apply in_map_iff. exists q. split; [|exact Hq].
  destruct (lq_id q =? id) eqn:E; [apply Z.eqb_eq in E; contradiction|reflexivity].
Qed.

Lemma in_upd_lq_self id pre st l q : In q l -> lq_id q = id -> In (with_state q st pre) (upd_lq id pre st l).
Proof.
  intros Hq He. unfold upd_lq. apply in_map_iff. exists q. split; [|exact Hq]. subst id. rewrite Z.eqb_refl. reflexivity.
Qed.

Lemma linv_upd_lq d d' ip id pre st :
  mq_same_static (d_mq d) (d_mq d') -> d_lq d' = upd_lq id pre st (d_lq d) ->
  (forall q, In q (d_lq d) -> lq_id q = id -> lq_state q <> 2) ->
  LInv d ip -> LInv d' ip.
Proof.
  intros [M1 M2] Hl Hns [L N P]. split; [|exact N|].
  - intros q' m' Hq Hm He. rewrite Hl in Hq. apply in_upd_lq in Hq as [q [Hin ->]].
    destruct (M1 m' Hm) as [m [Hmin E]]. unfold mq_static in E. injection E as _ Ea Eh _.
    assert (Hg : lq_amount q = mq_amount m).
    { apply L; [exact Hin|exact Hmin|]. rewrite Eh, He. destruct (lq_id q =? id); reflexivity. }
    rewrite <- Ea, <- Hg. destruct (lq_id q =? id); reflexivity.
  - intros p Hp. destruct (P p Hp) as [q [m [Hq [Hi [Hs [Hm [Hmi Ha]]]]]]].
    destruct (M2 m Hm) as [m' [Hm' E]]. unfold mq_static in E. injection E as Ei Ea _ _.
    exists q, m'. split; [rewrite Hl; apply in_upd_lq_other; [exact Hq|]|repeat split; try assumption; congruence].
    intros Heq. apply (Hns q Hq Heq). exact Hs.
Qed.

Lemma linv_same_tables d d' ip : d_mq d' = d_mq d -> d_lq d' = d_lq d -> LInv d ip -> LInv d' ip.
Proof.
  intros Hm Hl. apply linv_quiet. split; [|split; [|exact Hl]]; rewrite Hm; intros m H; exists m; split; [exact H|reflexivity|exact H|reflexivity].
Qed.

Lemma linv_add_mq d d' ip m :
  d_lq d' = d_lq d -> d_mq d' = d_mq d ++ [m] -> ~ In (mq_hash m) (map lq_req (d_lq d)) -> LInv d ip -> LInv d' ip.
Proof.
  intros Hl Hm Hfresh [L N P]. split; [|exact N|].
  - intros q m0 Hq Hm0 He. rewrite Hl in Hq. rewrite Hm in Hm0. apply in_app_or in Hm0 as [Hm0|[<-|[]]]; [apply L; assumption|].
    exfalso. apply Hfresh. rewrite He. apply in_map. exact Hq.
  - intros p Hp. destruct (P p Hp) as [q [m0 [Hq [Hi [Hs [Hm0 [Hmi Ha]]]]]]].
    exists q, m0. rewrite Hl, Hm. repeat split; try assumption. apply in_or_app. left. exact Hm0.
Qed.

Lemma linv_add_lq d d' ip q :
  d_mq d' = d_mq d -> d_lq d' = d_lq d ++ [q] ->
  (forall m, In m (d_mq d) -> mq_hash m = lq_req q -> lq_amount q = mq_amount m) -> LInv d ip -> LInv d' ip.
Proof.
  intros Hm Hl Hnew [L N P]. split; [|exact N|].
  - intros q0 m Hq0 Hm0 He. rewrite Hm in Hm0. rewrite Hl in Hq0. apply in_app_or in Hq0 as [Hq0|[<-|[]]]; [apply L; assumption|].
    apply Hnew; assumption.
  - intros p Hp. destruct (P p Hp) as [q0 [m0 [Hq [Hi [Hs [Hm0 [Hmi Ha]]]]]]].
    exists q0, m0. rewrite Hl, Hm. repeat split; try assumption. apply in_or_app. left. exact Hq.
Qed.

Lemma linv_new_pair d ip id mid q m :
  In q (d_lq d) -> lq_id q = id -> lq_state q = 2 -> In m (d_mq d) -> mq_id m = mid -> mq_amount m = lq_amount q ->
  ~ In id (map fst ip) -> LInv d ip -> LInv d ((id, mid) :: ip).
Proof.
  intros Hq Hi Hs Hm Hmi Ha Hfresh [L N P]. split; [exact L|cbn [map fst]; constructor; assumption|].
  intros p [<-|Hp]; [|apply P; exact Hp]. exists q, m. cbn [fst snd]. repeat split; assumption.
Qed.

(* ---------- polls ---------- *)

Definition LI (ip : list (Z * Z)) (w : world) : Prop := Good w /\ LInv (w_db w) ip.

Lemma li_poll id ip w : LI ip w -> LI ip (fst (run (get_melt_quote_state id) no_fault w)).
Proof.
  intros [Hg Hl]. split; [apply poll_good; exact Hg|].
  destruct (poll_spec id w (g_inv w Hg) (g_dis w Hg)) as [w' [r [Hrun [_ Hr]]]]. rewrite Hrun. cbn [fst].
  destruct (find_lq id (d_lq (w_db w))) as [q|] eqn:Ef; [|destruct Hr as [_ [Hd _]]; rewrite Hd; exact Hl].
  destruct (lq_state q =? 1) eqn:E1; [|destruct Hr as [_ [Hd _]]; rewrite Hd; exact Hl]. cbv zeta in Hr.
  assert (Hns : forall q0, In q0 (d_lq (w_db w)) -> lq_id q0 = id -> lq_state q0 <> 2).
  { intros q0 H0 Hid. destruct (find_lq_in _ _ _ Ef) as [Hin Hqid].
    assert (q0 = q) by (apply (unique_lq (d_lq (w_db w))); [apply (inv_lq _ (g_inv w Hg))|exact H0|exact Hin|congruence]).
    subst q0. apply Z.eqb_eq in E1. lia. }
  destruct ((a_kind (next_look w (lq_hash q)) =? 3) || (a_kind (next_look w (lq_hash q)) =? 4)); [destruct Hr as [_ Hd]; rewrite Hd; exact Hl|].
  destruct (a_kind (next_look w (lq_hash q)) =? 0).
  { destruct Hr as [_ [_ [_ [Hlq [_ Hmq]]]]]. refine (linv_upd_lq (w_db w) (w_db w') ip id _ _ _ Hlq Hns Hl). rewrite Hmq. apply mq_same_static_refl. }
  destruct (a_kind (next_look w (lq_hash q)) =? 1).
  { destruct Hr as [_ [_ [_ [Hlq [_ Hmq]]]]]. refine (linv_upd_lq (w_db w) (w_db w') ip id _ _ _ Hlq Hns Hl). rewrite Hmq. apply mq_same_static_refl. }
  destruct Hr as [_ Hd]. rewrite Hd. exact Hl.
Qed.

Lemma li_frame {R} allowed (p : prog R) ip w :
  only allowed p -> (forall c, allowed c = true -> c_safe c = true /\ c_sp c = false) ->
  LI ip w -> LI ip (fst (run p no_fault w)).
Proof.
  intros Ho Ha [Hg Hl]. split; [eapply good_frame; [exact Ho|intros c Hc; apply Ha; exact Hc|exact Hg]|].
  eapply linv_quiet; [|exact Hl]. apply (run_quiet allowed); [exact Ho|intros c Hc; apply Ha; exact Hc].
Qed.

Lemma li_check ys ip w : LI ip w -> LI ip (fst (run (proofs_state_check ys) no_fault w)).
Proof.
  intros Hw. unfold proofs_state_check. rewrite run_do.
  destruct (exec (GetPending ys) false w) as [w1 r1] eqn:E1.
  assert (H1 : LI ip w1).
  { change w1 with (fst (w1, r1)). rewrite <- E1.
    pose proof (li_frame (fun c => match c with GetPending _ => true | _ => false end) (Do (GetPending ys) (fun _ => Ret tt)) ip w) as H.
    rewrite run_do in H. destruct (exec (GetPending ys) false w) as [wa ra]. apply H; [|intros c Hc; destruct c; cbn in *; split; congruence|exact Hw].
    constructor; [reflexivity|]. intros; constructor. }
  destruct r1 as [pend|]; cbv beta iota; [|exact H1].
  apply (inv_bind (LI ip)).
  - apply (for_each_inv (LI ip)); [|exact H1]. intros q w0 Hw0. apply (inv_bind (LI ip)); [apply li_poll; exact Hw0|].
    intros g w2 Hw2. destruct g; exact Hw2.
  - intros v w2 Hw2. destruct v as [u|e]; [|exact Hw2].
    apply (li_frame (fun c => match c with GetPending _ | GetUsed _ => true | _ => false end)); [|intros c Hc; destruct c; cbn in *; split; congruence|exact Hw2].
    fp.
Qed.

(* ---------- melts ---------- *)

Lemma li_melt cfg mem_ks id ins ip w :
  LI ip w ->
  forall w' r, run (melt_tokens cfg mem_ks id ins) no_fault w = (w', Done r) ->
  LInv (w_db w') (match r with
                  | Ok q' => if lq_state q' =? 2 then
                               match find_lq id (d_lq (w_db w)) with
                               | Some q => match internal_mq q (w_db w) with Some m => [(id, mq_id m)] | None => [] end
                               | None => []
                               end
                             else []
                  | Err _ => []
                  end ++ ip).
Proof.
  intros [Hg Hl] w' r Hrun0.
  destruct (melt_tokens_spec cfg mem_ks id ins w (g_inv w Hg)) as [w1 [r1 [Hrun [_ Hr]]]].
  rewrite Hrun in Hrun0. injection Hrun0 as <- <-.
  pose proof (inv_lq _ (g_inv w Hg)) as Hnd.
  assert (Heff : forall q st pre, find_lq id (d_lq (w_db w)) = Some q -> melt_validated mem_ks q ins w ->
                   melt_effect id ins w w1 st pre -> mq_same_static (d_mq (w_db w)) (d_mq (w_db w1)) -> LInv (w_db w1) ip).
  { intros q st pre Hf [Hn2 _] [_ [_ [Hlq _]]] Hms.
    refine (linv_upd_lq (w_db w) (w_db w1) ip id _ _ Hms Hlq _ Hl).
    intros q0 H0 Hid. destruct (find_lq_in _ _ _ Hf) as [Hin Hqid].
    assert (q0 = q) by (apply (unique_lq (d_lq (w_db w))); [exact Hnd|exact H0|exact Hin|congruence]). subst q0. exact Hn2. }
  destruct r1 as [q'|e].
  2:{ cbn [app]. destruct Hr as [[Hd _]|[_ [q [Hf [Hval [He [Hmq _]]]]]]]; [rewrite Hd; exact Hl|].
      apply (Heff q 1 0 Hf Hval He). rewrite Hmq. apply mq_same_static_refl. }
  destruct Hr as [q [Hf [Hval Hr]]]. rewrite Hf.
  destruct (internal_mq q (w_db w)) as [mq0|] eqn:Emq.
  - destruct Hr as [pre [-> [He [Hmq _]]]]. rewrite with_state_state. cbn [Z.eqb Pos.eqb app].
    assert (Hbase : LInv (w_db w1) ip).
    { apply (Heff q 2 pre Hf Hval He). rewrite Hmq. apply mq_same_static_upd. }
    destruct (internal_mq_some _ _ _ Emq) as [Efind Ereq]. apply find_some in Efind as [Hmin _].
    destruct (find_lq_in _ _ _ Hf) as [Hin Hqid].
    destruct He as [_ [_ [Hlq _]]].
    apply (linv_new_pair (w_db w1) ip id (mq_id mq0) (with_state q 2 pre)
             (if mq_id mq0 =? mq_id mq0 then mkMq (mq_id mq0) (mq_amount mq0) (mq_hash mq0) 1 (mq_pubkey mq0) else mq0)).
    + rewrite Hlq. apply in_upd_lq_self; assumption.
    + exact Hqid.
    + reflexivity.
    + rewrite Hmq. unfold upd_mq. apply in_map_iff. exists mq0. split; [reflexivity|exact Hmin].
    + rewrite Z.eqb_refl. reflexivity.
    + rewrite Z.eqb_refl. cbn [mq_amount]. change (lq_amount (with_state q 2 pre)) with (lq_amount q).
      symmetry. apply (l_agree _ _ Hl); [exact Hin|exact Hmin|exact Ereq].
    + intros Hin0. apply in_map_iff in Hin0 as [p [Hp1 Hp2]]. destruct (l_pairs _ _ Hl p Hp2) as [q2 [m2 [Hq2 [Hi2 [Hs2 _]]]]].
      assert (q2 = q) by (apply (unique_lq (d_lq (w_db w))); [exact Hnd|exact Hq2|exact Hin|congruence]). subst q2.
      destruct Hval as [Hn2 _]. contradiction.
    + exact Hbase.
  - destruct Hr as [_ [He [Hmq _]]].
    assert (Hbase : LInv (w_db w1) ip).
    { eapply (Heff q _ _ Hf Hval He). rewrite Hmq. apply mq_same_static_refl. }
    destruct (lq_state q' =? 2); exact Hbase.
Qed.

(* ---------- one step ---------- *)

Theorem step_li cfg w o ip :
  ln_ok_op w o -> LI ip w ->
  LI (pair_ev w o (snd (step cfg no_fault w o)) ++ ip) (fst (step cfg no_fault w o)).
Proof.
  intros Hok [Hg Hl]. split; [apply step_good; exact Hg|].
  assert (Hsame : match o with OMintQuote _ _ _ _ _ | OMeltQuote _ _ _ _ _ _ _ | OMelt _ _ | OMeltState _ | OCheck _ => False | _ => True end ->
                  LInv (w_db (fst (step cfg no_fault w o))) (pair_ev w o (snd (step cfg no_fault w o)) ++ ip)).
  { intros Hk. assert (E : pair_ev w o (snd (step cfg no_fault w o)) = []) by (destruct o; try reflexivity; destruct Hk).
    rewrite E. cbn [app]. unfold step. destruct (is_env o) eqn:Ee; cbn [fst]; [rewrite apply_env_db; exact Hl|].
    eapply linv_quiet; [|rewrite <- (prepare_db o w) in Hl; exact Hl].
    destruct (run _ no_fault (prepare o w)) as [w' r] eqn:Er. cbn [fst]. change w' with (fst (w', r)). rewrite <- Er.
    apply (run_quiet (fp_op o)); [apply only_op|].
    destruct o; try (destruct Hk); cbn [fp_op]; intros c Hc; destruct c; cbn in *; congruence. }
  destruct o; try (apply Hsame; exact I).
  - (* OMintQuote *)
    cbn [pair_ev app]. unfold step. cbn [is_env prepare op_prog]. rewrite run_lift.
    pose proof (request_mint_quote_tables cfg unit_ok amount pubkey newid newhash (reset_calls w)) as [Hlq Hmq].
    assert (Hgoal : LInv (w_db (fst (run (request_mint_quote cfg unit_ok amount pubkey newid newhash) no_fault (reset_calls w)))) ip).
    { destruct Hmq as [Hmq|Hmq]; [apply (linv_same_tables (w_db w)); assumption|].
      apply (linv_add_mq (w_db w) _ ip _ Hlq Hmq); [|exact Hl]. cbn [mq_hash]. exact Hok. }
    destruct (run (request_mint_quote cfg unit_ok amount pubkey newid newhash) no_fault (reset_calls w)) as [w' [[x|e]| |]]; exact Hgoal.
  - (* OMeltQuote *)
    cbn [pair_ev app]. unfold step. cbn [is_env prepare op_prog]. rewrite run_lift.
    pose proof (request_melt_quote_tables cfg unit_ok decodes req h msat mpp newid (reset_calls w)) as [Hmq Hlq].
    assert (Hgoal : LInv (w_db (fst (run (request_melt_quote cfg unit_ok decodes req h msat mpp newid) no_fault (reset_calls w)))) ip).
    { destruct Hlq as [Hlq|[q [Hlq [Hreq Hamt]]]]; [apply (linv_same_tables (w_db w)); assumption|].
      apply (linv_add_lq (w_db w) _ ip q Hmq Hlq); [|exact Hl].
      intros m Hm Hh. rewrite Hreq in Hh. destruct (Hok m Hm Hh) as [Hhr Hms].
      rewrite Hamt; [|exists m; repeat split; [exact Hm|congruence|exact Hhr]].
      rewrite Hms. replace (1000 * mq_amount m + 999) with (999 + mq_amount m * 1000) by lia.
      rewrite Z.div_add by lia. reflexivity. }
    destruct (run (request_melt_quote cfg unit_ok decodes req h msat mpp newid) no_fault (reset_calls w)) as [w' [[x|e]| |]]; exact Hgoal.
  - (* OMeltState *)
    cbn [pair_ev app]. unfold step. cbn [is_env prepare op_prog]. rewrite run_lift.
    assert (H0 : LI ip (reset_calls w)) by (split; [apply (good_prepare (OMeltState id)); exact Hg|exact Hl]).
    pose proof (li_poll id ip _ H0) as [_ G].
    destruct (run (get_melt_quote_state id) no_fault (reset_calls w)) as [w' [[x|e]| |]]; exact G.
  - (* OMelt *)
    unfold step. cbn [is_env prepare op_prog]. rewrite run_lift.
    assert (H0 : LI ip (reset_calls w)) by (split; [apply (good_prepare (OMelt id ins)); exact Hg|exact Hl]).
    destruct (melt_tokens_spec cfg (w_mem (reset_calls w)) id ins (reset_calls w) (g_inv _ (proj1 H0))) as [w' [r [Hrun _]]].
    pose proof (li_melt cfg (w_mem (reset_calls w)) id ins ip _ H0 w' r Hrun) as G.
    rewrite Hrun. destruct r as [q'|e]; cbn [fst snd of_outcome pair_ev]; exact G.
  - (* OCheck *)
    cbn [pair_ev app]. unfold step. cbn [is_env prepare op_prog]. rewrite run_lift.
    assert (H0 : LI ip (reset_calls w)) by (split; [apply (good_prepare (OCheck ys)); exact Hg|exact Hl]).
    pose proof (li_check ys ip _ H0) as [_ G].
    destruct (run (proofs_state_check ys) no_fault (reset_calls w)) as [w' [[x|e]| |]]; exact G.
Qed.

Lemma ltrace_li cfg h : forall w ip, ln_ok cfg w h -> LI ip w -> LI (snd (ltrace cfg w h ip)) (fst (ltrace cfg w h ip)).
Proof.
  induction h as [|o r IH]; intros w ip Hok Hli; cbn [ltrace]; [exact Hli|].
  destruct Hok as [Ho Hr]. apply IH; [exact Hr|apply step_li; assumption].
Qed.

Lemma LI0 : LI [] world0.
Proof. split; [apply Good0|]. split; [intros q m []|constructor|intros p []]. Qed.

(* ---------- sums ---------- *)

Definition ext_out (w : world) (ids : list Z) : Z :=
  tsum (map (fun q => if mem (lq_id q) ids then 0 else commit q) (d_lq (w_db w))).

Definition int_out (l : list lquote) (ids : list Z) : Z :=
  tsum (map (fun q => if mem (lq_id q) ids then commit q else 0) l).

Lemma out_split w ids : vOut w = ext_out w ids + int_out (d_lq (w_db w)) ids.
Proof.
  unfold vOut, ext_out, int_out. induction (d_lq (w_db w)) as [|q l IH]; cbn [map]; [rewrite !tsum_nil; lia|].
  rewrite !tsum_cons, IH. destruct (mem (lq_id q) ids); lia.
Qed.

Lemma sum_single (c : lquote -> Z) a l q :
  NoDup (map lq_id l) -> In q l -> lq_id q = a ->
  tsum (map (fun x => if lq_id x =? a then c x else 0) l) = c q.
Proof.
  induction l as [|x l IH]; intros Hnd Hin Ha; [destruct Hin|]. cbn [map] in *. rewrite tsum_cons.
  inversion Hnd as [|? ? Hx Hnd']; subst.
  assert (Hz : forall l0, (forall y, In y l0 -> lq_id y <> lq_id q) -> tsum (map (fun x0 => if lq_id x0 =? lq_id q then c x0 else 0) l0) = 0).
  { intros l0. induction l0 as [|y l0 IH0]; intros Hne; cbn [map]; [apply tsum_nil|]. rewrite tsum_cons, IH0; [|intros z Hz; apply Hne; right; exact Hz].
    destruct (lq_id y =? lq_id q) eqn:E; [apply Z.eqb_eq in E; exfalso; apply (Hne y (or_introl eq_refl) E)|reflexivity]. }
  destruct Hin as [->|Hin].
  - rewrite Z.eqb_refl, Hz; [lia|]. intros y Hy E. apply Hx. rewrite <- E. apply in_map. exact Hy.
  - destruct (lq_id x =? lq_id q) eqn:E.
    + exfalso. apply Z.eqb_eq in E. apply Hx. rewrite E. apply in_map. exact Hin.
    + rewrite IH; [lia|exact Hnd'|exact Hin|reflexivity].
Qed.

Lemma int_out_cons l a ids q :
  NoDup (map lq_id l) -> In q l -> lq_id q = a -> ~ In a ids ->
  int_out l (a :: ids) = commit q + int_out l ids.
Proof.
  intros Hnd Hin Ha Hna. unfold int_out.
  rewrite <- (sum_single commit a l q Hnd Hin Ha).
  clear Hin Ha Hnd. induction l as [|x l IH]; cbn [map]; [rewrite !tsum_nil; lia|]. rewrite !tsum_cons, IH.
  cbn [mem existsb]. fold (mem (lq_id x) ids).
  destruct (lq_id x =? a) eqn:E; cbn [orb].
  - apply Z.eqb_eq in E. rewrite E. assert (Hm : mem a ids = false) by (apply mem_false; exact Hna). rewrite Hm. lia.
  - destruct (mem (lq_id x) ids); lia.
Qed.

Lemma pairs_covered d ip :
  NoDup (map lq_id (d_lq d)) -> NoDup (map mq_id (d_mq d)) ->
  (forall q, In q (d_lq d) -> 0 <= lq_fee q) ->
  LInv d ip -> wsum (map snd ip) (d_mq d) <= int_out (d_lq d) (map fst ip).
Proof.
  intros Hnl Hnm Hfee [_ N P]. induction ip as [|p ip IH].
  - unfold wsum, int_out. cbn [map]. rewrite tsum_nil.
    assert (H0 : forall l, tsum (map (fun q : lquote => if mem (lq_id q) [] then commit q else 0) l) = 0).
    { intros l. induction l as [|x l IHl]; cbn [map]; [apply tsum_nil|]. rewrite tsum_cons, IHl. reflexivity. }
    rewrite H0. lia.
  - cbn [map] in *. inversion N as [|? ? Hna N']; subst.
    destruct (P p (or_introl eq_refl)) as [q [m [Hq [Hi [Hs [Hm [Hmi Ha]]]]]]].
    rewrite (int_out_cons _ _ _ q Hnl Hq Hi Hna). unfold wsum in *. cbn [map]. rewrite tsum_cons.
    assert (Hrest : tsum (map (fun id => amount_of id (d_mq d)) (map snd ip)) <= int_out (d_lq d) (map fst ip)).
    { apply IH; [exact N'|]. intros p0 Hp0. apply P. right. exact Hp0. }
    assert (Hamt : amount_of (snd p) (d_mq d) = mq_amount m).
    { unfold amount_of. destruct (find_mq (snd p) (d_mq d)) as [m1|] eqn:Ef.
      - destruct (find_mq_in _ _ _ Ef) as [Hin1 [Hid1 _]].
        assert (m1 = m) by (apply (unique_by_id (d_mq d)); [exact Hnm|exact Hin1|exact Hm|congruence]). subst m1. reflexivity.
      - exfalso. unfold find_mq in Ef. pose proof (find_none _ _ Ef m Hm) as Hn. cbv beta in Hn. apply Z.eqb_neq in Hn. contradiction. }
    rewrite Hamt, Ha. unfold commit. apply Z.eqb_eq in Hs. rewrite Hs. specialize (Hfee q Hq). lia.
Qed.

(* ---------- the theorem ---------- *)

(* what the three invariants give together, in any state *)
Lemma ledger_bound w iss ip :
  QInv w iss (map snd ip) -> VI iss w -> LI ip w ->
  vS w + ext_out w (map fst ip) <= vR w + per_quote (esett w) (d_mq (w_db w)).
Proof.
  intros [Q1 Q2] [Hg [[V1 V2 V3 V4] Hi]] [_ HL].
  rewrite (wsum_per_quote iss _ (inv_mq _ (g_inv w Hg))) in V4.
  assert (Hle : per_quote (fun m => cnt (mq_id m) iss) (d_mq (w_db w)) <=
                per_quote (fun m => esett w m + cnt (mq_id m) (map snd ip)) (d_mq (w_db w))).
  { apply per_quote_le; [exact V2|]. intros m Hm. destruct (Q1 m Hm) as [Hr [Hz [Ho Hi3]]].
    pose proof (esett_range w m). pose proof (cnt_nonneg (mq_id m) (map snd ip)).
    assert (Hs : mq_state m = 0 \/ (mq_state m = 1 \/ mq_state m = 2) \/ mq_state m = 3) by lia.
    destruct Hs as [Hs|[Hs|Hs]]; [specialize (Hz Hs)|specialize (Ho Hs)|specialize (Hi3 Hs)]; lia. }
  rewrite per_quote_add in Hle. rewrite <- (wsum_per_quote (map snd ip) _ (inv_mq _ (g_inv w Hg))) in Hle.
  pose proof (pairs_covered (w_db w) ip (inv_lq _ (g_inv w Hg)) (inv_mq _ (g_inv w Hg))
                (fun q Hq => proj1 (proj2 (V1 q Hq))) HL) as Hcov.
  rewrite (out_split w (map fst ip)) in V4. lia.
Qed.

Theorem no_inflation_ledger cfg h :
  cfg_ok cfg -> honest cfg world0 h -> Forall op_u64 h -> ln_ok cfg world0 h ->
  let '(w, ip) := ltrace cfg world0 h [] in
  vS w + ext_out w (map fst ip) <= vR w + per_quote (esett w) (d_mq (w_db w)) /\
  NoDup (map fst ip) /\
  (forall p, In p ip -> exists q, In q (d_lq (w_db w)) /\ lq_id q = fst p /\ lq_state q = 2).
Proof.
  intros Hc Hh Hu Hl.
  pose proof (qtrace_vi cfg h world0 [] [] Hc Hh Hu QInv0 VI0) as H.
  pose proof (ltrace_qtrace cfg h world0 [] [] [] eq_refl) as [Ew Ec].
  pose proof (ltrace_li cfg h world0 [] Hl LI0) as HL.
  destruct (qtrace cfg world0 h [] []) as [[w iss] cred]. cbn [fst snd] in Ew, Ec.
  destruct (ltrace cfg world0 h []) as [w2 ip]. cbn [fst snd] in *. subst w2 cred.
  destruct H as [HQ HV].
  split; [exact (ledger_bound w iss ip HQ HV HL)|]. destruct HL as [_ HL].
  split; [apply (l_nodup _ _ HL)|].
  intros p Hp. destruct (l_pairs _ _ HL p Hp) as [q [m [Hq [Hid [Hs _]]]]]. exists q. repeat split; assumption.
Qed.

(* ---------- the hypotheses are decidable on concrete histories, and satisfiable ---------- *)

Definition ln_ok_opb (w : world) (o : op) : bool :=
  match o with
  | OMintQuote _ _ _ _ newhash => negb (mem newhash (map lq_req (d_lq (w_db w))))
  | OMeltQuote _ _ req h msat _ _ =>
      forallb (fun m => negb (mq_hash m =? req) || ((h =? req) && (msat =? 1000 * mq_amount m))) (d_mq (w_db w))
  | _ => true
  end.

Lemma ln_ok_opb_ok w o : ln_ok_opb w o = true -> ln_ok_op w o.
Proof.
  destruct o; cbn [ln_ok_opb ln_ok_op]; try (intros _; exact I).
  - intros H Hin. apply negb_true_iff in H. apply mem_In in Hin. congruence.
  - intros H m Hm He. rewrite forallb_forall in H. specialize (H m Hm). apply Z.eqb_eq in He. rewrite He in H. cbn [negb orb] in H.
    apply andb_prop in H as [H1 H2]. apply Z.eqb_eq in H1, H2. split; assumption.
Qed.

Definition watcher_honestb (w : world) (o : op) : bool :=
  match o with
  | OWatcher id => match find_mq id (d_mq (w_db w)) with
                   | Some q => negb (mq_state q =? 0) || settled w (mq_hash q)
                   | None => true
                   end
  | _ => true
  end.

Lemma watcher_honestb_ok w o : watcher_honestb w o = true -> watcher_honest w o.
Proof.
  destruct o; cbn [watcher_honestb watcher_honest]; try (intros _; exact I).
  destruct (find_mq id (d_mq (w_db w))) as [q|]; [|intros _; exact I].
  intros H Hs. rewrite Hs in H. cbn [Z.eqb negb orb] in H. exact H.
Qed.

Fixpoint env_okb (cfg : config) (w : world) (h : list op) : bool :=
  match h with
  | [] => true
  | o :: r => ln_ok_opb w o && watcher_honestb w o && env_okb cfg (fst (step cfg no_fault w o)) r
  end.

Lemma env_okb_ok cfg h : forall w, env_okb cfg w h = true -> ln_ok cfg w h /\ honest cfg w h.
Proof.
  induction h as [|o r IH]; intros w H; cbn [env_okb ln_ok honest] in *; [split; exact I|].
  apply andb_prop in H as [H H3]. apply andb_prop in H as [H1 H2]. destruct (IH _ H3) as [A B].
  split; (split; [|assumption]); [apply ln_ok_opb_ok; exact H1|apply watcher_honestb_ok; exact H2].
Qed.

(* 64 sat come in over Lightning and are minted; a second quote of 32 sat is never paid from outside: its own invoice is melted
   (settled internally) with the 64 sat proof, and 32 sat are minted on it *)
Definition ledger_cfg : config := mkCfg 0 1000000 0 false 2.
Definition ledger_history : list op :=
  [ ORestart 0 false; OMintQuote true 64 0 101 102; ESettle 102; OMint 101 [mkBmsg 104 64 0 0 true 103] 0;
    OMintQuote true 32 0 111 112; OMeltQuote true true 112 112 32000 None 113;
    OMelt 113 [mkProof 103 64 0 (CSig 0 64 103) 0 false true false];
    OMint 111 [mkBmsg 116 32 0 0 true 115] 0 ].

Example ledger_history_ok :
  cfg_ok ledger_cfg /\ honest ledger_cfg world0 ledger_history /\ Forall op_u64 ledger_history /\ ln_ok ledger_cfg world0 ledger_history /\
  let '(w, ip) := ltrace ledger_cfg world0 ledger_history [] in
  ip = [(113, 111)] /\ (vS w, vR w, ext_out w (map fst ip), per_quote (esett w) (d_mq (w_db w))) = (96, 64, 0, 64).
Proof.
  assert (He : env_okb ledger_cfg world0 ledger_history = true) by (vm_compute; reflexivity).
  destruct (env_okb_ok _ _ _ He) as [A B].
  split; [unfold cfg_ok, two61; cbn; lia|]. split; [exact B|]. split; [|split; [exact A|vm_compute; split; reflexivity]].
  unfold ledger_history. repeat constructor; cbn; try lia.
Qed.

(* C03: "settled internally by a melt" - every internal credit of a mint quote is a distinct PAID melt quote of exactly that amount *)
Theorem internal_credits_are_melts cfg h :
  ln_ok cfg world0 h ->
  let '(w, iss, cred) := qtrace cfg world0 h [] [] in
  exists ip, cred = map snd ip /\ NoDup (map fst ip) /\ forall p, In p ip -> pair_ok (w_db w) p.
Proof.
  intros Hl.
  pose proof (ltrace_qtrace cfg h world0 [] [] [] eq_refl) as [Ew Ec].
  pose proof (ltrace_li cfg h world0 [] Hl LI0) as [_ HL].
  destruct (qtrace cfg world0 h [] []) as [[w iss] cred]. cbn [fst snd] in Ew, Ec.
  destruct (ltrace cfg world0 h []) as [w2 ip]. cbn [fst snd] in *. subst w2.
  exists ip. split; [exact Ec|]. split; [apply (l_nodup _ _ HL)|apply (l_pairs _ _ HL)].
Qed.
