(* C01 under every schedule: among any number of concurrent requests of any kinds, interleaved in any way at storage/Lightning
   call granularity, at most one request that is answered successfully (a swap that returns signatures, a melt answered PAID)
   has a given secret among its inputs.

   Proof idea: the spent table changes only through successful SaveProofs calls, each of which appends its rows; so the number
   of rows with Y = s in the table is the number there was before plus, summed over the threads, the number of rows with Y = s
   each thread saved.  The table never holds two rows with the same Y (InvDb, every history), and a request that is answered
   successfully has saved every one of its inputs (a fact about the program, for every response it may receive). *)
From Coq Require Import ZArith List Bool Lia.
From Verif Require Import Model Sem InvDb InvSwap Footprint.
Import ListNotations.
Open Scope Z_scope.

Definition cnt_y (s : Z) (l : list prow) : nat := count_occ Z.eq_dec (ys_of l) s.

Lemma cnt_y_app s a b : cnt_y s (a ++ b) = (cnt_y s a + cnt_y s b)%nat.
Proof. unfold cnt_y, ys_of. rewrite map_app, count_occ_app. reflexivity. Qed.

(* rows with Y = s saved by one call, given its response *)
Definition saved_in (s : Z) (c : cmd) : resp c -> nat :=
  match c return resp c -> nat with
  | SaveProofs ps => fun r => match r with ROk _ => cnt_y s ps | RErr => O end
  | _ => fun _ => O
  end.

Lemma exec_db_spent_same c d : (match c with SaveProofs _ => false | _ => true end) = true -> d_spent (fst (exec_db c d)) = d_spent d.
Proof.
  intros Hc. destruct c; try discriminate Hc; cbn [exec_db fst];
    repeat match goal with |- context [if ?b then _ else _] => destruct b end;
    cbn [fst set_spent set_pending set_sigs set_mq set_lq set_ks d_spent]; reflexivity.
Qed.

Lemma exec_saved s c fault w :
  cnt_y s (d_spent (w_db (fst (exec c fault w)))) = (cnt_y s (d_spent (w_db w)) + saved_in s c (snd (exec c fault w)))%nat.
Proof.
  assert (Hother : (match c with SaveProofs _ => false | _ => true end) = true ->
                   d_spent (w_db (fst (exec c fault w))) = d_spent (w_db w)).
  { intros Hc. destruct (exec_world c fault w) as [_ [_ [Hd|[_ Hd]]]]; rewrite Hd; [reflexivity|apply exec_db_spent_same; exact Hc]. }
  destruct c; try (rewrite Hother by reflexivity; cbn [saved_in]; lia).
  (* SaveProofs *)
  clear Hother. unfold exec. destruct (fault && is_storage (SaveProofs ps)); cbn [is_call fst snd w_db fault_resp saved_in]; [lia|].
  cbn [exec_db]. destruct (nodupb (ys_of ps ++ ys_of (d_spent (w_db w)))); cbn [fst snd w_db set_spent d_spent saved_in]; [|lia].
  apply cnt_y_app.
Qed.

(* ---------- instrumented semantics: how many rows with Y = s a thread saved ---------- *)

Fixpoint run_g {R} (s : Z) (p : prog R) (f : oracle) (w : world) : world * outcome R * nat :=
  match p with
  | Ret r => (w, Done r, O)
  | Panic => (w, Panicked, O)
  | Do c k => let '(w', r) := exec c (f (w_calls w) && is_call c) w in
              let '(w2, o, g) := run_g s (k r) f w' in (w2, o, (saved_in s c r + g)%nat)
  end.

Lemma run_g_run {R} s (p : prog R) : forall f w, fst (run_g s p f w) = run p f w.
Proof.
  induction p as [r|c k IH|]; intros f w; cbn [run_g run fst]; try reflexivity.
  destruct (exec c (f (w_calls w) && is_call c) w) as [w' r]. specialize (IH r f w').
  destruct (run_g s (k r) f w') as [[w2 o] g]. cbn [fst] in *. exact IH.
Qed.

Lemma run_g_count {R} s (p : prog R) : forall f w,
  cnt_y s (d_spent (w_db (fst (fst (run_g s p f w))))) = (cnt_y s (d_spent (w_db w)) + snd (run_g s p f w))%nat.
Proof.
  induction p as [r|c k IH|]; intros f w; cbn [run_g fst snd]; try lia.
  pose proof (exec_saved s c (f (w_calls w) && is_call c) w) as He.
  destruct (exec c (f (w_calls w) && is_call c) w) as [w' r]. cbn [fst snd] in He. specialize (IH r f w').
  destruct (run_g s (k r) f w') as [[w2 o] g]. cbn [fst snd] in *. lia.
Qed.

Fixpoint step_thread_g (s : Z) (p : prog opres) (w : world) : world * prog opres * nat :=
  match p with
  | Do c k => let '(w', r) := exec c false w in
              if is_call c then (w', k r, saved_in s c r)
              else let '(w2, p2, g) := step_thread_g s (k r) w' in (w2, p2, (saved_in s c r + g)%nat)
  | _ => (w, p, O)
  end.

Lemma step_thread_g_fst s p : forall w, fst (step_thread_g s p w) = step_thread p w.
Proof.
  induction p as [r|c k IH|]; intros w; cbn [step_thread_g step_thread fst]; try reflexivity.
  destruct (exec c false w) as [w' r]. destruct (is_call c); [reflexivity|].
  specialize (IH r w'). destruct (step_thread_g s (k r) w') as [[w2 p2] g]. cbn [fst] in *. exact IH.
Qed.

Lemma step_thread_g_count s p : forall w,
  cnt_y s (d_spent (w_db (fst (fst (step_thread_g s p w))))) = (cnt_y s (d_spent (w_db w)) + snd (step_thread_g s p w))%nat.
Proof.
  induction p as [r|c k IH|]; intros w; cbn [step_thread_g fst snd]; try lia.
  pose proof (exec_saved s c false w) as He.
  destruct (exec c false w) as [w' r]. cbn [fst snd] in He. destruct (is_call c); cbn [fst snd]; [exact He|].
  specialize (IH r w'). destruct (step_thread_g s (k r) w') as [[w2 p2] g]. cbn [fst snd] in *. lia.
Qed.

(* ---------- what a request has saved when it is answered successfully ---------- *)

(* on every path of p that ends with a result satisfying good, the rows with Y = s saved along the path number at least one *)
Fixpoint ret_saved {R} (s : Z) (good : R -> bool) (acc : nat) (p : prog R) : Prop :=
  match p with
  | Ret r => good r = true -> (1 <= acc)%nat
  | Panic => True
  | Do c k => forall r, ret_saved s good (acc + saved_in s c r) (k r)
  end.

Lemma ret_saved_mono {R} s good (p : prog R) : forall a b, (a <= b)%nat -> ret_saved s good a p -> ret_saved s good b p.
Proof.
  induction p as [r|c k IH|]; intros a b Hab H; cbn [ret_saved] in *; [intros Hg; specialize (H Hg); lia| |exact I].
  intros r. apply (IH r (a + saved_in s c r)%nat); [lia|apply H].
Qed.

Lemma ret_saved_bind {X Y} s (goodY : Y -> bool) (p : prog X) (f : X -> prog Y) : forall acc,
  (forall x acc', (acc <= acc')%nat -> ret_saved s goodY acc' (f x)) -> ret_saved s goodY acc (bind p f).
Proof.
  induction p as [x|c k IH|]; intros acc Hf; cbn [bind ret_saved]; [apply Hf; lia| |exact I].
  intros r. apply IH. intros x acc' Hle. apply Hf. lia.
Qed.

Definition good_sigs (r : opres) : bool := match r with RSigs _ => true | _ => false end.
Definition good_paid (r : opres) : bool := match r with RLq q => lq_state q =? 2 | _ => false end.

Lemma cnt_y_rows s q ins : In s (map p_secret ins) -> (1 <= cnt_y s (map (to_row q) ins))%nat.
Proof.
  intros H. unfold cnt_y, ys_of. rewrite map_map. cbn [to_row r_y].
  apply (count_occ_In Z.eq_dec) in H. change (map (fun x => p_secret x) ins) with (map p_secret ins). lia.
Qed.

Ltac rs_leaf := cbn [ret_saved fail lift good_sigs good_paid]; try (intros Hx; discriminate Hx).

Lemma ret_saved_lift {X} s (f : X -> opres) (goodY : opres -> bool) (p : prog (result X)) : forall acc,
  (forall e, goodY (RFail e) = false) ->
  ret_saved s (fun r => match r with Ok x => goodY (f x) | Err _ => false end) acc p ->
  ret_saved s goodY acc (lift f p).
Proof.
  unfold lift. induction p as [r|c k IH|]; intros acc Hf H; cbn [bind ret_saved] in *; [| |exact I].
  - destruct r as [x|e]; [exact H|rewrite Hf; discriminate].
  - intros r. apply IH; [exact Hf|apply H].
Qed.

Lemma ret_saved_verify {X} s (good : result X -> bool) mem_ks ins acc (k : result unit -> prog (result X)) :
  (forall v acc', (acc <= acc')%nat -> ret_saved s good acc' (k v)) ->
  ret_saved s good acc (bind (verify_proofs mem_ks ins) k).
Proof. intros H. apply ret_saved_bind. exact H. Qed.

(* a swap that returns signatures has saved every one of its inputs *)
Lemma swap_ret_saved mem_ks active ins outs sg s :
  In s (map p_secret ins) -> ret_saved s good_sigs O (lift RSigs (swap mem_ks active ins outs sg)).
Proof.
  intros Hs. apply ret_saved_lift; [reflexivity|]. cbn [good_sigs]. unfold swap.
  destruct (amount_checked _ _); [|rs_leaf]. destruct (negb _); [rs_leaf|].
  destruct (_ <? _); [rs_leaf|]. destruct (_ <? _); [rs_leaf|].
  apply ret_saved_bind. intros v acc1 _. destruct v as [u|e]; [|rs_leaf].
  cbn [ret_saved]. intros r. destruct r as [[|x l]|]; try rs_leaf.
  destruct (_ && _); [rs_leaf|]. destruct (check_outputs _ _ _); [rs_leaf|].
  cbn [ret_saved]. intros r1. destruct r1 as [u1|]; [|rs_leaf].
  cbn [ret_saved]. intros r2. destruct r2 as [u2|]; [|rs_leaf].
  cbn [ret_saved saved_in]. intros _. pose proof (cnt_y_rows s 0 ins Hs). lia.
Qed.

(* a melt that is answered PAID has saved every one of its inputs *)
Lemma melt_ret_saved cfg mem_ks id ins s :
  In s (map p_secret ins) -> ret_saved s good_paid O (lift RLq (melt_tokens cfg mem_ks id ins)).
Proof.
  intros Hs. apply ret_saved_lift; [reflexivity|]. cbn [good_paid].
  pose proof (cnt_y_rows s 0 ins Hs) as Hc.
  unfold melt_tokens, finish_paid, settle_proofs, release.
  cbn [ret_saved]. intros r. destruct r as [[q|]|]; try rs_leaf.
  destruct (lq_state q =? 2); [rs_leaf|]. destruct (lq_state q =? 1); [rs_leaf|].
  apply ret_saved_bind. intros v acc1 _. destruct v as [u|e]; [|rs_leaf].
  destruct (_ <? _); [rs_leaf|]. destruct (existsb _ _); [rs_leaf|].
  cbn [ret_saved]. intros r1. destruct r1 as [u1|]; [|rs_leaf].
  cbn [ret_saved]. intros r2. destruct r2 as [u2|]; [|rs_leaf].
  cbn [ret_saved]. intros r3.
  assert (Hfin : forall acc pre, ret_saved s (fun r : result lquote => match r with Ok x => lq_state x =? 2 | Err _ => false end) acc
            (perform s0 <- (call r <- RemovePending (map p_secret ins) ;; match r with RErr => fail EDb | ROk _ =>
               call s1 <- SaveProofs (map (to_row 0) ins) ;; match s1 with RErr => fail EDb | ROk _ => Ret (Ok tt) end end) ;;
             match s0 with Err e => fail e | Ok _ => call u <- UpdateMeltQuote (lq_id q) pre 2 ;; match u with RErr => fail EDb | ROk _ => Ret (Ok (with_state q 2 pre)) end end)).
  { intros acc pre. cbn [bind ret_saved]. intros r4. destruct r4; cbn [bind ret_saved fail]; [|discriminate].
    intros r5. destruct r5; cbn [bind ret_saved fail]; [|discriminate].
    intros r6. destruct r6; cbn [ret_saved fail saved_in]; [|discriminate]. intros _. lia. }
  assert (Hrel : forall acc, ret_saved s (fun r : result lquote => match r with Ok x => lq_state x =? 2 | Err _ => false end) acc
            (call u <- UpdateMeltQuote (lq_id q) 0 0 ;; match u with RErr => fail EDb | ROk _ =>
               call r <- RemovePending (map p_secret ins) ;; match r with RErr => fail EDb | ROk _ => Ret (Ok (with_state q 0 0)) end end)).
  { intros acc. cbn [ret_saved]. intros r4. destruct r4; cbn [ret_saved fail]; [|discriminate].
    intros r5. destruct r5; cbn [ret_saved fail]; discriminate. }
  assert (Hpend : forall acc, ret_saved s (fun r : result lquote => match r with Ok x => lq_state x =? 2 | Err _ => false end) acc (Ret (Ok (with_state q 1 0)))).
  { intros acc. cbn [ret_saved]. discriminate. }
  assert (Hln : forall acc, ret_saved s (fun r : result lquote => match r with Ok x => lq_state x =? 2 | Err _ => false end) acc
            (call ans <- LnPay (lq_req q) (lq_hash q) (if lq_mpp q then fee_reserve cfg (lq_msat q / 1000) else lq_fee q) (if lq_mpp q then lq_msat q else 0) (lq_mpp q) ;;
             if a_kind ans =? 0 then (perform s0 <- (call r <- RemovePending (map p_secret ins) ;; match r with RErr => fail EDb | ROk _ =>
               call s1 <- SaveProofs (map (to_row 0) ins) ;; match s1 with RErr => fail EDb | ROk _ => Ret (Ok tt) end end) ;;
               match s0 with Err e => fail e | Ok _ => call u <- UpdateMeltQuote (lq_id q) (a_pre ans) 2 ;; match u with RErr => fail EDb | ROk _ => Ret (Ok (with_state q 2 (a_pre ans))) end end)
             else if a_kind ans =? 2 then Ret (Ok (with_state q 1 0))
             else call lk <- LnLookup (lq_hash q) ;;
                  if a_kind lk =? 4 then (call u <- UpdateMeltQuote (lq_id q) 0 0 ;; match u with RErr => fail EDb | ROk _ =>
                       call r <- RemovePending (map p_secret ins) ;; match r with RErr => fail EDb | ROk _ => Ret (Ok (with_state q 0 0)) end end)
                  else if a_kind lk =? 3 then Ret (Ok (with_state q 1 0))
                  else if a_kind lk =? 1 then (call u <- UpdateMeltQuote (lq_id q) 0 0 ;; match u with RErr => fail EDb | ROk _ =>
                       call r <- RemovePending (map p_secret ins) ;; match r with RErr => fail EDb | ROk _ => Ret (Ok (with_state q 0 0)) end end)
                  else if a_kind lk =? 0 then (perform s0 <- (call r <- RemovePending (map p_secret ins) ;; match r with RErr => fail EDb | ROk _ =>
                       call s1 <- SaveProofs (map (to_row 0) ins) ;; match s1 with RErr => fail EDb | ROk _ => Ret (Ok tt) end end) ;;
                       match s0 with Err e => fail e | Ok _ => call u <- UpdateMeltQuote (lq_id q) (a_pre lk) 2 ;; match u with RErr => fail EDb | ROk _ => Ret (Ok (with_state q 2 (a_pre lk))) end end)
                  else Ret (Ok (with_state q 1 0)))).
  { intros acc. cbn [ret_saved]. intros ans. destruct (a_kind ans =? 0); [apply Hfin|]. destruct (a_kind ans =? 2); [apply Hpend|].
    cbn [ret_saved]. intros lk. destruct (a_kind lk =? 4); [apply Hrel|]. destruct (a_kind lk =? 3); [apply Hpend|].
    destruct (a_kind lk =? 1); [apply Hrel|]. destruct (a_kind lk =? 0); [apply Hfin|apply Hpend]. }
  destruct (same_invoice r3 (lq_req q)) as [m|]; [|apply Hln].
  (* internal settlement *)
  cbn [ret_saved]. intros r4. destruct r4 as [[b pre]|]; cbn [ret_saved fail]; [|discriminate].
  intros r5. destruct r5; cbn [ret_saved fail]; [|discriminate].
  intros r6. destruct r6; cbn [ret_saved fail]; [|discriminate].
  intros r7. destruct r7; cbn [ret_saved fail]; [|discriminate].
  intros r8. destruct r8; cbn [ret_saved fail saved_in]; [|discriminate]. intros _. lia.
Qed.

(* ---------- instrumented interleavings ---------- *)

Notation tg := (prog opres * nat)%type.

Fixpoint interleave_g (s : Z) (sched : list nat) (ts : list tg) (w : world) : world * list tg :=
  match sched with
  | [] => (w, ts)
  | i :: r =>
      match nth_error ts i with
      | None => interleave_g s r ts w
      | Some (p, g) => let '(w', p', g') := step_thread_g s p w in interleave_g s r (upd_nth i (p', (g + g')%nat) ts) w'
      end
  end.

Fixpoint finish_all_g (s : Z) (ts : list tg) (w : world) : world * list (opres * nat) :=
  match ts with
  | [] => (w, [])
  | (p, g) :: r => let '(w1, x, g1) := run_g s p no_fault w in
                   let '(w2, xs) := finish_all_g s r w1 in (w2, (of_outcome x, (g + g1)%nat) :: xs)
  end.

Definition gsum (l : list nat) : nat := fold_right Nat.add O l.

Lemma map_upd_nth {X Y} (f : X -> Y) i x (l : list X) : map f (upd_nth i x l) = upd_nth i (f x) (map f l).
Proof. revert i. induction l as [|y l IH]; intros [|i]; cbn [upd_nth map]; try reflexivity. rewrite IH. reflexivity. Qed.

Lemma nth_error_map_fst (ts : list tg) i : nth_error (map fst ts) i = option_map fst (nth_error ts i).
Proof. revert i. induction ts as [|t ts IH]; intros [|i]; cbn; auto. Qed.

Lemma interleave_g_proj s sched : forall ts w,
  interleave sched (map fst ts) w = (fst (interleave_g s sched ts w), map fst (snd (interleave_g s sched ts w))).
Proof.
  induction sched as [|i r IH]; intros ts w; [reflexivity|].
  cbn [interleave interleave_g]. rewrite nth_error_map_fst.
  destruct (nth_error ts i) as [[p g]|] eqn:En; cbn [option_map fst].
  - pose proof (step_thread_g_fst s p w) as Hs. destruct (step_thread_g s p w) as [[w' p'] g']. cbn [fst] in Hs. rewrite <- Hs.
    rewrite <- (IH (upd_nth i (p', (g + g')%nat) ts) w'). rewrite map_upd_nth. reflexivity.
  - apply IH.
Qed.

Lemma finish_all_g_proj s ts : forall w,
  finish_all (map fst ts) w = (fst (finish_all_g s ts w), map fst (snd (finish_all_g s ts w))).
Proof.
  induction ts as [|[p g] r IH]; intros w; cbn [finish_all finish_all_g map fst snd]; [reflexivity|].
  pose proof (run_g_run s p no_fault w) as Hr. destruct (run_g s p no_fault w) as [[w1 x] g1]. cbn [fst] in Hr. rewrite <- Hr.
  rewrite (IH w1). destruct (finish_all_g s r w1) as [w2 xs]. reflexivity.
Qed.

Lemma gsum_upd i (x : tg) ts p g :
  nth_error ts i = Some (p, g) -> gsum (map snd (upd_nth i x ts)) = (gsum (map snd ts) + snd x - g)%nat /\ (g <= gsum (map snd ts))%nat.
Proof.
  revert i. induction ts as [|t ts IH]; intros [|i] H; cbn in H; try discriminate.
  - inversion H; subst t. cbn [upd_nth map gsum fold_right snd]. fold (gsum (map snd ts)). lia.
  - destruct (IH i H) as [H1 H2]. cbn [upd_nth map gsum fold_right]. fold (gsum (map snd (upd_nth i x ts))). fold (gsum (map snd ts)). lia.
Qed.

Lemma interleave_g_count s sched : forall ts w,
  (cnt_y s (d_spent (w_db (fst (interleave_g s sched ts w)))) + gsum (map snd ts) =
   cnt_y s (d_spent (w_db w)) + gsum (map snd (snd (interleave_g s sched ts w))))%nat.
Proof.
  induction sched as [|i r IH]; intros ts w; cbn [interleave_g fst snd]; [lia|].
  destruct (nth_error ts i) as [[p g]|] eqn:En; [|apply IH].
  pose proof (step_thread_g_count s p w) as Hc. destruct (step_thread_g s p w) as [[w' p'] g']. cbn [fst snd] in Hc.
  specialize (IH (upd_nth i (p', (g + g')%nat) ts) w').
  destruct (gsum_upd i (p', (g + g')%nat) ts p g En) as [Hu Hle]. cbn [snd] in Hu. lia.
Qed.

Lemma finish_all_g_count s ts : forall w,
  (cnt_y s (d_spent (w_db (fst (finish_all_g s ts w)))) + gsum (map snd ts) =
   cnt_y s (d_spent (w_db w)) + gsum (map snd (snd (finish_all_g s ts w))))%nat.
Proof.
  induction ts as [|[p g] r IH]; intros w; cbn [finish_all_g fst snd map gsum fold_right]; [lia|].
  pose proof (run_g_count s p no_fault w) as Hc. destruct (run_g s p no_fault w) as [[w1 x] g1]. cbn [fst snd] in Hc.
  specialize (IH w1). destruct (finish_all_g s r w1) as [w2 xs]. cbn [fst snd map gsum fold_right] in *.
  fold (gsum (map snd r)) in *. fold (gsum (map snd xs)) in *. lia.
Qed.

(* ---------- the per-thread guarantee survives every interleaving ---------- *)

Lemma step_thread_g_saved s good p : forall acc w,
  ret_saved s good acc p ->
  ret_saved s good (acc + snd (step_thread_g s p w)) (snd (fst (step_thread_g s p w))).
Proof.
  induction p as [r|c k IH|]; intros acc w H; cbn [step_thread_g fst snd].
  - rewrite Nat.add_0_r. exact H.
  - cbn [ret_saved] in H. destruct (exec c false w) as [w' r]. destruct (is_call c); cbn [fst snd]; [apply H|].
    specialize (IH r (acc + saved_in s c r)%nat w' (H r)).
    destruct (step_thread_g s (k r) w') as [[w2 p2] g]. cbn [fst snd] in *. rewrite Nat.add_assoc. exact IH.
  - exact I.
Qed.

Lemma run_g_saved s good (p : prog opres) : forall acc f w,
  ret_saved s good acc p -> good (of_outcome (snd (fst (run_g s p f w)))) = true ->
  good RPanic = false -> good RCrash = false ->
  (1 <= acc + snd (run_g s p f w))%nat.
Proof.
  induction p as [r|c k IH|]; intros acc f w H Hg Hp Hc; cbn [run_g fst snd of_outcome] in *.
  - specialize (H Hg). lia.
  - destruct (exec c (f (w_calls w) && is_call c) w) as [w' r]. specialize (IH r (acc + saved_in s c r)%nat f w' (H r)).
    destruct (run_g s (k r) f w') as [[w2 o] g]. cbn [fst snd] in *. specialize (IH Hg Hp Hc). lia.
  - rewrite Hp in Hg. discriminate.
Qed.

Definition tinv (s : Z) (good : opres -> bool) (t : tg) : Prop := ret_saved s good (snd t) (fst t).

Lemma Forall2_upd {X Y} (P : X -> Y -> Prop) i y (xs : list X) (ys : list Y) x :
  Forall2 P xs ys -> nth_error xs i = Some x -> P x y -> Forall2 P xs (upd_nth i y ys).
Proof.
  intros H. revert i. induction H as [|a b xs ys Hab H IH]; intros [|i] Hn Hp; cbn in *; try discriminate.
  - inversion Hn; subst. constructor; assumption.
  - constructor; [exact Hab|apply IH; assumption].
Qed.

Lemma Forall2_nth {X Y} (P : X -> Y -> Prop) (xs : list X) (ys : list Y) i y :
  Forall2 P xs ys -> nth_error ys i = Some y -> exists x, nth_error xs i = Some x /\ P x y.
Proof.
  intros H. revert i. induction H as [|a b xs ys Hab H IH]; intros [|i] Hn; cbn in *; try discriminate.
  - inversion Hn; subst. exists a. split; [reflexivity|exact Hab].
  - apply IH. exact Hn.
Qed.

Lemma interleave_g_tinv s sched (goods : list (opres -> bool)) : forall ts w,
  Forall2 (tinv s) goods ts -> Forall2 (tinv s) goods (snd (interleave_g s sched ts w)).
Proof.
  induction sched as [|i r IH]; intros ts w H; cbn [interleave_g snd]; [exact H|].
  destruct (nth_error ts i) as [[p g]|] eqn:En; [|apply IH; exact H].
  destruct (Forall2_nth _ _ _ _ _ H En) as [good [Hgn Hgp]]. unfold tinv in Hgp. cbn [fst snd] in Hgp.
  pose proof (step_thread_g_saved s good p g w Hgp) as Hs.
  destruct (step_thread_g s p w) as [[w' p'] g']. cbn [fst snd] in Hs. apply IH.
  eapply Forall2_upd; [exact H|exact Hgn|]. unfold tinv. cbn [fst snd]. exact Hs.
Qed.

Lemma finish_all_g_saved s (goods : list (opres -> bool)) : forall ts w,
  Forall2 (tinv s) goods ts -> Forall (fun good => good RPanic = false /\ good RCrash = false) goods ->
  Forall2 (fun good (xg : opres * nat) => good (fst xg) = true -> (1 <= snd xg)%nat) goods (snd (finish_all_g s ts w)).
Proof.
  intros ts. revert goods. induction ts as [|[p g] r IH]; intros goods w H Hg; inversion H; subst; cbn [finish_all_g snd]; [constructor|].
  inversion Hg as [|? ? [Hp Hc] Hg']; subst.
  match goal with Ht : tinv s ?good (p, g) |- _ => unfold tinv in Ht; cbn [fst snd] in Ht; pose proof (run_g_saved s good p g no_fault w Ht) as Hr end.
  destruct (run_g s p no_fault w) as [[w1 x0] g1]. cbn [fst snd] in Hr.
  match goal with Hrest : Forall2 (tinv s) ?l r |- _ => specialize (IH l w1 Hrest Hg') end.
  destruct (finish_all_g s r w1) as [w2 xs]. cbn [snd] in *. constructor; [|exact IH].
  cbn [fst snd]. intros Hgood. apply Hr; assumption.
Qed.

(* ---------- the theorem ---------- *)

Definition consumes (s : Z) (o : op) : Prop :=
  match o with OSwap ins _ _ | OMelt _ ins => In s (map p_secret ins) | _ => False end.

Definition success_of (o : op) : opres -> bool :=
  match o with OSwap _ _ _ => good_sigs | OMelt _ _ => good_paid | _ => fun _ => false end.

Lemma success_not_abort o : success_of o RPanic = false /\ success_of o RCrash = false.
Proof. destruct o; split; reflexivity. Qed.

Lemma op_ret_saved cfg mem_ks active o s :
  consumes s o -> ret_saved s (success_of o) O (op_prog cfg mem_ks active o).
Proof.
  destruct o; cbn [consumes]; try (intros []); intros H; cbn [op_prog success_of]; [apply swap_ret_saved|apply melt_ret_saved]; exact H.
Qed.

Definition run_concurrent_g (s : Z) (cfg : config) (w : world) (ops : list op) (sched : list nat) : world * list (opres * nat) :=
  let w0 := reset_calls w in
  let ts := map (fun o => (op_prog cfg (w_mem w0) (w_active w0) o, O)) ops in
  let '(w1, ts1) := interleave_g s sched ts w0 in
  finish_all_g s ts1 w1.

Lemma run_concurrent_g_proj s cfg w ops sched :
  run_concurrent cfg w ops sched = (fst (run_concurrent_g s cfg w ops sched), map fst (snd (run_concurrent_g s cfg w ops sched))).
Proof.
  unfold run_concurrent, run_concurrent_g.
  set (w0 := reset_calls w). set (ts := map (fun o => (op_prog cfg (w_mem w0) (w_active w0) o, O)) ops).
  assert (Hm : map (op_prog cfg (w_mem w0) (w_active w0)) ops = map fst ts) by (unfold ts; rewrite map_map; reflexivity).
  rewrite Hm, (interleave_g_proj s sched ts w0).
  destruct (interleave_g s sched ts w0) as [w1 ts1]. cbn [fst snd]. apply finish_all_g_proj.
Qed.

Lemma gsum_two (l : list nat) i j a b :
  i <> j -> nth_error l i = Some a -> nth_error l j = Some b -> (a + b <= gsum l)%nat.
Proof.
  revert i j. induction l as [|x l IH]; intros [|i] [|j] Hne Hi Hj; cbn in *; try discriminate; try congruence.
  - inversion Hi; subst. assert (b <= gsum l)%nat; [|fold (gsum l); lia].
    clear - Hj. revert j Hj. induction l as [|y l IH]; intros [|j] Hj; cbn in *; try discriminate.
    + inversion Hj; subst. fold (gsum l). lia.
    + specialize (IH j Hj). fold (gsum l). lia.
  - inversion Hj; subst. assert (a <= gsum l)%nat; [|fold (gsum l); lia].
    clear - Hi. revert i Hi. induction l as [|y l IH]; intros [|i] Hi; cbn in *; try discriminate.
    + inversion Hi; subst. fold (gsum l). lia.
    + specialize (IH i Hi). fold (gsum l). lia.
  - assert (i <> j) by congruence. specialize (IH i j H Hi Hj). fold (gsum l). lia.
Qed.

Lemma nodup_cnt_le_1 s (l : list prow) : NoDup (ys_of l) -> (cnt_y s l <= 1)%nat.
Proof. intros H. unfold cnt_y. apply (NoDup_count_occ Z.eq_dec) with (x := s) in H. exact H. Qed.

Lemma ret_saved_false {R} s (p : prog R) : forall acc, ret_saved s (fun _ => false) acc p.
Proof. induction p as [r|c k IH|]; intros acc; cbn [ret_saved]; [discriminate|intros r; apply IH|exact I]. Qed.

Definition consumes_b (s : Z) (o : op) : bool :=
  match o with OSwap ins _ _ | OMelt _ ins => mem s (map p_secret ins) | _ => false end.

Lemma consumes_b_iff s o : consumes_b s o = true <-> consumes s o.
Proof. destruct o; cbn [consumes_b consumes]; try (split; [discriminate|intros []]); apply mem_In. Qed.

Definition good_for (s : Z) (o : op) : opres -> bool := if consumes_b s o then success_of o else fun _ => false.

Lemma nth_error_map_some {X Y} (f : X -> Y) l i x : nth_error l i = Some x -> nth_error (map f l) i = Some (f x).
Proof. intros H. rewrite nth_error_map, H. reflexivity. Qed.

(* Whatever the requests, however many, and however they are interleaved: two different requests that both have the secret s
   among their inputs are never both answered successfully. *)
Theorem concurrent_at_most_once cfg w ops sched s i j oi oj :
  WInv w -> i <> j -> nth_error ops i = Some oi -> nth_error ops j = Some oj -> consumes s oi -> consumes s oj ->
  let rs := snd (run_concurrent cfg w ops sched) in
  forall ri rj, nth_error rs i = Some ri -> nth_error rs j = Some rj ->
  success_of oi ri = true -> success_of oj rj = true -> False.
Proof.
  intros Hinv Hne Hoi Hoj Hci Hcj rs ri rj Hri Hrj Hsi Hsj.
  unfold rs in *. clear rs. rewrite (run_concurrent_g_proj s) in Hri, Hrj. cbn [snd] in Hri, Hrj.
  pose proof (run_concurrent_inv cfg w ops sched Hinv) as Hinv'. rewrite (run_concurrent_g_proj s) in Hinv'. cbn [fst] in Hinv'.
  unfold run_concurrent_g in *.
  set (w0 := reset_calls w) in *. set (ts := map (fun o => (op_prog cfg (w_mem w0) (w_active w0) o, O)) ops) in *.
  set (goods := map (good_for s) ops).
  assert (Hinit : Forall2 (tinv s) goods ts).
  { unfold goods, ts. clear. induction ops as [|o r IH]; cbn [map]; constructor; [|exact IH].
    unfold tinv, good_for. cbn [fst snd]. destruct (consumes_b s o) eqn:E; [|apply ret_saved_false].
    apply op_ret_saved. apply consumes_b_iff. exact E. }
  assert (Hgoods : Forall (fun good => good RPanic = false /\ good RCrash = false) goods).
  { unfold goods. apply Forall_forall. intros g Hg. apply in_map_iff in Hg as [o [<- _]]. unfold good_for.
    destruct (consumes_b s o); [apply success_not_abort|split; reflexivity]. }
  pose proof (interleave_g_count s sched ts w0) as Hc1.
  pose proof (interleave_g_tinv s sched goods ts w0 Hinit) as Ht1.
  destruct (interleave_g s sched ts w0) as [w1 ts1]. cbn [fst snd] in *.
  pose proof (finish_all_g_count s ts1 w1) as Hc2.
  pose proof (finish_all_g_saved s goods ts1 w1 Ht1 Hgoods) as Hsv.
  destruct (finish_all_g s ts1 w1) as [w2 xs]. cbn [fst snd] in *.
  (* initial counts are all zero *)
  assert (H0 : gsum (map snd ts) = O).
  { unfold ts. clear. induction ops as [|o r IH]; cbn [map gsum fold_right snd]; [reflexivity|]. fold (gsum (map snd (map (fun o0 => (op_prog cfg (w_mem w0) (w_active w0) o0, O)) r))). rewrite IH. reflexivity. }
  assert (Hle : (cnt_y s (d_spent (w_db w2)) <= 1)%nat) by (apply nodup_cnt_le_1; apply Hinv').
  (* the two successful threads have each saved a row with Y = s *)
  assert (Hget : forall k ok rk, nth_error ops k = Some ok -> consumes s ok -> nth_error (map fst xs) k = Some rk -> success_of ok rk = true ->
                 exists g, nth_error (map snd xs) k = Some g /\ (1 <= g)%nat).
  { intros k ok rk Hok Hck Hrk Hsk.
    assert (Hgk : nth_error goods k = Some (success_of ok)).
    { unfold goods. rewrite (nth_error_map_some (good_for s) ops k ok Hok). unfold good_for.
      apply consumes_b_iff in Hck. rewrite Hck. reflexivity. }
    rewrite nth_error_map in Hrk. destruct (nth_error xs k) as [[x g]|] eqn:Ex; [|discriminate]. cbn in Hrk. inversion Hrk; subst x.
    exists g. split; [rewrite nth_error_map, Ex; reflexivity|].
    destruct (Forall2_nth _ _ _ _ _ Hsv Ex) as [good [Hgn Hgp]]. rewrite Hgk in Hgn. inversion Hgn; subst good.
    apply Hgp. exact Hsk. }
  destruct (Hget i oi ri Hoi Hci Hri Hsi) as [gi [Hgi Hgi1]].
  destruct (Hget j oj rj Hoj Hcj Hrj Hsj) as [gj [Hgj Hgj1]].
  pose proof (gsum_two (map snd xs) i j gi gj Hne Hgi Hgj) as Hsum.
  lia.
Qed.
