(* The mint as a state machine over its storage and Lightning interface.
   Every Mint method of /repo/mint/mint.go is a program (free monad over storage/LN
   commands) that follows the Go text call by call; one definition gives the sequential
   semantics, crash after k calls, fault injection and interleavings (Sem.v).

   Identifiers are what the code compares (DESIGN §3): secrets, Ys, B_s, quote ids,
   invoices are integer handles; Y is an injective function of the secret, so the
   secret's handle doubles as its Y.  A blind signature is symbolic: the C of a proof
   is genuine iff it is the term CSig keyset amount secret. *)
From Coq Require Import ZArith List Bool Lia.
Import ListNotations.
Open Scope Z_scope.

(* ------------------------------------------------------------------ data *)

Definition two64 : Z := 18446744073709551616.
Definition two63 : Z := 9223372036854775808.
Definition add64 (a b : Z) : Z := (a + b) mod two64.
Definition sub64 (a b : Z) : Z := (a - b) mod two64.

(* C field of a proof *)
Inductive cterm :=
| CSig (ks amount secret : Z)   (* k_{ks,amount} * hash_to_curve(secret) *)
| CJunk (n : Z)                 (* some other curve point *)
| CBad.                         (* not hex / not a point *)

Definition cterm_eqb (a b : cterm) : bool :=
  match a, b with
  | CSig k a s, CSig k' a' s' => (k =? k') && (a =? a') && (s =? s')
  | CJunk n, CJunk m => n =? m
  | CBad, CBad => true
  | _, _ => false
  end.

(* an input proof as the mint sees it *)
Record proof := mkProof {
  p_secret : Z;        (* handle of the secret string; also its Y *)
  p_amount : Z;
  p_ks : Z;            (* keyset id handle = derivation index; negative: unknown id *)
  p_C : cterm;
  p_wit : Z;           (* witness string handle *)
  p_long : bool;       (* secret longer than MAX_SECRET_LENGTH bytes *)
  p_cond : bool;       (* result of the NUT-10/11/14 evaluation of (secret, witness), see Cond.v *)
  p_sigall : bool      (* IsSigAll of the secret *)
}.

(* a blinded message *)
Record bmsg := mkBmsg {
  b_B : Z;             (* handle of the B_ string *)
  b_amount : Z;
  b_ks : Z;
  b_wit : Z;
  b_point : bool;      (* B_ is valid hex of a curve point *)
  b_secret : Z         (* ghost: the secret blinded inside B_ (the mint never sees it) *)
}.

(* rows *)
Record prow := mkProw { r_y : Z; r_amount : Z; r_ks : Z; r_wit : Z; r_quote : Z }.
Record srow := mkSrow { s_B : Z; s_amount : Z; s_ks : Z }.

(* mint quote states: 0 UNPAID 1 PAID 2 PENDING 3 ISSUED (4: unknown string) *)
Record mquote := mkMq { mq_id : Z; mq_amount : Z; mq_hash : Z; mq_state : Z; mq_pubkey : Z }.
(* melt quote states: 0 UNPAID 1 PENDING 2 PAID *)
Record lquote := mkLq {
  lq_id : Z; lq_req : Z; lq_hash : Z; lq_amount : Z; lq_fee : Z; lq_state : Z;
  lq_preimage : Z; lq_mpp : bool; lq_msat : Z
}.
Record ksrow := mkKs { k_id : Z; k_fee : Z; k_active : bool }.

Record db := mkDb {
  d_spent : list prow;
  d_pending : list prow;
  d_sigs : list srow;
  d_mq : list mquote;
  d_lq : list lquote;
  d_ks : list ksrow
}.

Definition db0 : db := mkDb [] [] [] [] [] [].

(* Lightning environment *)
Record invoice := mkInv { i_hash : Z; i_amount : Z; i_settled : bool; i_own : bool; i_msat : Z }.
(* answers: 0 succeeded(preimage) 1 failed 2 pending 3 error 4 not-found *)
Record answer := mkAns { a_kind : Z; a_pre : Z }.
Record paycall := mkPay { pc_hash : Z; pc_maxfee : Z; pc_msat : Z; pc_partial : bool }.

Record ln := mkLn {
  l_inv : list invoice;
  l_pay : list (Z * answer);   (* scripted answers to pay calls, keyed by payment hash; default: succeeded with preimage 1 *)
  l_look : list (Z * answer);  (* scripted answers to status lookups, keyed by payment hash; default: error *)
  l_calls : list paycall;    (* every pay call made, oldest first *)
  l_inverr : bool;           (* InvoiceStatus answers with an error *)
  l_createerr : bool
}.

Definition ln0 : ln := mkLn [] [] [] [] false false.

(* configuration *)
Record config := mkCfg {
  c_max_mint : Z; c_max_melt : Z; c_max_balance : Z; c_mpp : bool; c_feepct : Z
}.
(* fee reserve of the scripted backend: ceil(amount * pct / 100) *)
Definition fee_reserve (c : config) (a : Z) : Z := (a * c_feepct c + 99) / 100.

Record world := mkWorld {
  w_db : db;
  w_ln : ln;
  w_mem : list ksrow;         (* Mint.keysets *)
  w_active : Z;               (* id of Mint.activeKeyset; -1: nil *)
  w_calls : Z                 (* storage/LN calls made so far (position for faults and crashes) *)
}.

Definition world0 : world := mkWorld db0 ln0 [] (-1) 0.

(* ------------------------------------------------------------------ commands *)

Inductive res (X : Type) := ROk (x : X) | RErr.
Arguments ROk {X} x.
Arguments RErr {X}.

Inductive cmd : Type :=
| GetPending (ys : list Z)
| GetUsed (ys : list Z)
| GetPendingByQuote (q : Z)
| SaveProofs (ps : list prow)
| AddPending (ps : list prow)
| RemovePending (ys : list Z)
| GetSigs (bs : list Z)
| GetSig (b : Z)
| SaveSigs (ss : list srow)
| SaveMintQuote (q : mquote)
| GetMintQuote (id : Z)
| GetMintQuoteByHash (h : Z)
| UpdateMintQuote (id st : Z)
| SaveMeltQuote (q : lquote)
| GetMeltQuote (id : Z)
| GetMeltQuoteByReq (r : Z)
| UpdateMeltQuote (id pre st : Z)
| GetIssued
| GetRedeemed
| GetKeysets
| SaveKeyset (k : ksrow)
| UpdateKeysetActive (id : Z) (act : bool)
| GetSeed
| MemSetKeysets (ks : list ksrow) (active : Z)   (* assignment to Mint.keysets / activeKeyset: not a storage call *)
| LnCreateInvoice (amount h : Z)       (* h: the handle the harness gives the new invoice *)
| LnInvoiceStatus (h : Z)
| LnPay (req h maxfee msat : Z) (partial : bool)
| LnLookup (h : Z).

Definition resp (c : cmd) : Type :=
  match c with
  | GetPending _ | GetUsed _ | GetPendingByQuote _ => res (list prow)
  | SaveProofs _ | AddPending _ | RemovePending _ | SaveSigs _ => res unit
  | GetSigs _ => res (list srow)
  | GetSig _ => res (option srow)
  | SaveMintQuote _ | UpdateMintQuote _ _ | SaveMeltQuote _ | UpdateMeltQuote _ _ _ => res unit
  | GetMintQuote _ | GetMintQuoteByHash _ => res (option mquote)
  | GetMeltQuote _ | GetMeltQuoteByReq _ => res (option lquote)
  | GetIssued | GetRedeemed => res (list (Z * Z))
  | GetKeysets => res (list ksrow)
  | SaveKeyset _ | UpdateKeysetActive _ _ => res unit
  | GetSeed => res unit
  | MemSetKeysets _ _ => unit
  | LnCreateInvoice _ _ => res (Z * Z)           (* request handle, payment hash handle *)
  | LnInvoiceStatus _ => res (bool * Z)          (* settled, preimage *)
  | LnPay _ _ _ _ _ => answer
  | LnLookup _ => answer
  end.

(* is this a storage call (can be hit by an injected storage error)? *)
Definition is_storage (c : cmd) : bool :=
  match c with
  | MemSetKeysets _ _ | LnCreateInvoice _ _ | LnInvoiceStatus _ | LnPay _ _ _ _ _ | LnLookup _ => false
  | _ => true
  end.

(* does the call count as a position (storage or Lightning call)? *)
Definition is_call (c : cmd) : bool :=
  match c with MemSetKeysets _ _ => false | _ => true end.

Definition mem (y : Z) (l : list Z) : bool := existsb (Z.eqb y) l.

Fixpoint nodupb (l : list Z) : bool :=
  match l with [] => true | x :: r => negb (mem x r) && nodupb r end.

Definition ys_of (l : list prow) : list Z := map r_y l.

Fixpoint ins_ks (k a : Z) (acc : list (Z * Z)) : list (Z * Z) :=
  match acc with
  | [] => [(k, a)]
  | (k', a') :: t => if k =? k' then (k', a' + a) :: t else (k', a') :: ins_ks k a t
  end.

Fixpoint sum_by_ks (l : list (Z * Z)) (acc : list (Z * Z)) : list (Z * Z) :=
  match l with
  | [] => acc
  | (k, a) :: r => sum_by_ks r (ins_ks k a acc)
  end.

Definition find_mq (id : Z) (l : list mquote) : option mquote := find (fun q => mq_id q =? id) l.
Definition find_lq (id : Z) (l : list lquote) : option lquote := find (fun q => lq_id q =? id) l.

Definition upd_mq (id st : Z) (l : list mquote) : list mquote :=
  map (fun q => if mq_id q =? id then mkMq (mq_id q) (mq_amount q) (mq_hash q) st (mq_pubkey q) else q) l.
Definition upd_lq (id pre st : Z) (l : list lquote) : list lquote :=
  map (fun q => if lq_id q =? id
                then mkLq (lq_id q) (lq_req q) (lq_hash q) (lq_amount q) (lq_fee q) st pre (lq_mpp q) (lq_msat q)
                else q) l.

Definition set_spent d x := mkDb x (d_pending d) (d_sigs d) (d_mq d) (d_lq d) (d_ks d).
Definition set_pending d x := mkDb (d_spent d) x (d_sigs d) (d_mq d) (d_lq d) (d_ks d).
Definition set_sigs d x := mkDb (d_spent d) (d_pending d) x (d_mq d) (d_lq d) (d_ks d).
Definition set_mq d x := mkDb (d_spent d) (d_pending d) (d_sigs d) x (d_lq d) (d_ks d).
Definition set_lq d x := mkDb (d_spent d) (d_pending d) (d_sigs d) (d_mq d) x (d_ks d).
Definition set_ks d x := mkDb (d_spent d) (d_pending d) (d_sigs d) (d_mq d) (d_lq d) x.

(* the SQL driver refuses uint64 arguments with the high bit set *)
Definition sql_int_ok (z : Z) : bool := (0 <=? z) && (z <? two63).

(* storage semantics: each call is atomic; inserts fail as a whole on a key clash *)
(* the views total_issued / total_redeemed are SUM(amount) GROUP BY keyset_id: SQLite's SUM over integers raises "integer overflow"
   when a group's sum does not fit an int64, and (since fix 6b60522) the error of the row iteration is returned *)
Definition sum_view (v : list (Z * Z)) : res (list (Z * Z)) :=
  if existsb (fun x => two63 <=? snd x) v then RErr else ROk v.

Definition exec_db (c : cmd) (d : db) : db * resp c :=
  match c return db * resp c with
  | GetPending ys => (d, ROk (filter (fun r => mem (r_y r) ys) (d_pending d)))
  | GetUsed ys => (d, ROk (filter (fun r => mem (r_y r) ys) (d_spent d)))
  | GetPendingByQuote q => (d, ROk (filter (fun r => r_quote r =? q) (d_pending d)))
  | SaveProofs ps =>
      if nodupb (ys_of ps ++ ys_of (d_spent d)) then (set_spent d (d_spent d ++ ps), ROk tt) else (d, RErr)
  | AddPending ps =>
      if nodupb (ys_of ps ++ ys_of (d_pending d)) then (set_pending d (d_pending d ++ ps), ROk tt) else (d, RErr)
  | RemovePending ys => (set_pending d (filter (fun r => negb (mem (r_y r) ys)) (d_pending d)), ROk tt)
  | GetSigs bs => (d, ROk (filter (fun s => mem (s_B s) bs) (d_sigs d)))
  | GetSig b => (d, ROk (find (fun s => s_B s =? b) (d_sigs d)))
  | SaveSigs ss =>
      if nodupb (map s_B ss ++ map s_B (d_sigs d)) then (set_sigs d (d_sigs d ++ ss), ROk tt) else (d, RErr)
  | SaveMintQuote q =>
      if sql_int_ok (mq_amount q) && negb (mem (mq_id q) (map mq_id (d_mq d)))
      then (set_mq d (d_mq d ++ [q]), ROk tt) else (d, RErr)
  | GetMintQuote id => (d, ROk (find_mq id (d_mq d)))
  | GetMintQuoteByHash h => (d, ROk (find (fun q => mq_hash q =? h) (d_mq d)))
  | UpdateMintQuote id st =>
      if mem id (map mq_id (d_mq d)) then (set_mq d (upd_mq id st (d_mq d)), ROk tt) else (d, RErr)
  | SaveMeltQuote q =>
      if sql_int_ok (lq_amount q) && sql_int_ok (lq_fee q) && sql_int_ok (lq_msat q)
         && negb (mem (lq_id q) (map lq_id (d_lq d)))
      then (set_lq d (d_lq d ++ [q]), ROk tt) else (d, RErr)
  | GetMeltQuote id => (d, ROk (find_lq id (d_lq d)))
  | GetMeltQuoteByReq r => (d, ROk (find (fun q => lq_req q =? r) (d_lq d)))
  | UpdateMeltQuote id pre st =>
      if mem id (map lq_id (d_lq d)) then (set_lq d (upd_lq id pre st (d_lq d)), ROk tt) else (d, RErr)
  | GetIssued => (d, sum_view (sum_by_ks (map (fun s => (s_ks s, s_amount s)) (d_sigs d)) []))
  | GetRedeemed => (d, sum_view (sum_by_ks (map (fun r => (r_ks r, r_amount r)) (d_spent d)) []))
  | GetKeysets => (d, ROk (d_ks d))
  | SaveKeyset k =>
      if mem (k_id k) (map k_id (d_ks d)) then (d, RErr) else (set_ks d (d_ks d ++ [k]), ROk tt)
  | UpdateKeysetActive id act =>
      if mem id (map k_id (d_ks d))
      then (set_ks d (map (fun k => if k_id k =? id then mkKs (k_id k) (k_fee k) act else k) (d_ks d)), ROk tt)
      else (d, RErr)
  | GetSeed => (d, ROk tt)
  | MemSetKeysets _ _ => (d, tt)
  | LnCreateInvoice _ _ => (d, RErr)
  | LnInvoiceStatus _ => (d, RErr)
  | LnPay _ _ _ _ _ => (d, mkAns 3 0)
  | LnLookup _ => (d, mkAns 3 0)
  end.

(* the value a storage call returns when an error is injected instead of executing it *)
Definition fault_resp (c : cmd) : resp c :=
  match c return resp c with
  | GetPending _ | GetUsed _ | GetPendingByQuote _ => RErr
  | SaveProofs _ | AddPending _ | RemovePending _ | SaveSigs _ => RErr
  | GetSigs _ => RErr
  | GetSig _ => RErr
  | SaveMintQuote _ | UpdateMintQuote _ _ | SaveMeltQuote _ | UpdateMeltQuote _ _ _ => RErr
  | GetMintQuote _ | GetMintQuoteByHash _ => RErr
  | GetMeltQuote _ | GetMeltQuoteByReq _ => RErr
  | GetIssued | GetRedeemed => RErr
  | GetKeysets => RErr
  | SaveKeyset _ | UpdateKeysetActive _ _ => RErr
  | GetSeed => RErr
  | MemSetKeysets _ _ => tt
  | LnCreateInvoice _ _ => RErr
  | LnInvoiceStatus _ => RErr
  | LnPay _ _ _ _ _ => mkAns 3 0
  | LnLookup _ => mkAns 3 0
  end.

Definition set_ln (w : world) (l : ln) : world := mkWorld (w_db w) l (w_mem w) (w_active w) (w_calls w).

(* first scripted answer for payment hash h, removed from the script *)
Fixpoint pop (h : Z) (l : list (Z * answer)) (dflt : answer) : answer * list (Z * answer) :=
  match l with
  | [] => (dflt, [])
  | (h', a) :: r => if h' =? h then (a, r) else let '(x, r') := pop h r dflt in (x, (h', a) :: r')
  end.

(* one command on the world; fault: inject a storage error at this call *)
Definition exec (c : cmd) (fault : bool) (w : world) : world * resp c :=
  let w1 := if is_call c then mkWorld (w_db w) (w_ln w) (w_mem w) (w_active w) (w_calls w + 1) else w in
  if fault && is_storage c then (w1, fault_resp c) else
  match c return world * resp c with
  | MemSetKeysets ks act => (mkWorld (w_db w1) (w_ln w1) ks act (w_calls w1), tt)
  | LnCreateInvoice amount h =>
      (* a node does not make an invoice whose amount in millisatoshi does not fit 64 bits *)
      if l_createerr (w_ln w1) || (two64 <=? amount * 1000) then (w1, RErr) else
      let l := w_ln w1 in
      (set_ln w1 (mkLn (l_inv l ++ [mkInv h amount false true (amount * 1000)]) (l_pay l) (l_look l) (l_calls l) (l_inverr l) (l_createerr l)),
       ROk (h, h))
  | LnInvoiceStatus h =>
      if l_inverr (w_ln w1) then (w1, RErr) else
      match find (fun i => (i_hash i =? h) && i_own i) (l_inv (w_ln w1)) with
      | Some i => (w1, ROk (i_settled i, i_hash i))
      | None => (w1, RErr)
      end
  | LnPay req h maxfee msat partial =>
      let l := w_ln w1 in
      let '(a, rest) := pop h (l_pay l) (mkAns 0 1) in
      (set_ln w1 (mkLn (l_inv l) rest (l_look l) (l_calls l ++ [mkPay h maxfee msat partial]) (l_inverr l) (l_createerr l)), a)
  | LnLookup h =>
      let l := w_ln w1 in
      let '(a, rest) := pop h (l_look l) (mkAns 3 0) in
      (set_ln w1 (mkLn (l_inv l) (l_pay l) rest (l_calls l) (l_inverr l) (l_createerr l)), a)
  | c' =>
      let '(d, r) := exec_db c' (w_db w1) in
      (mkWorld d (w_ln w1) (w_mem w1) (w_active w1) (w_calls w1), r)
  end.

(* ------------------------------------------------------------------ programs *)

Inductive prog (R : Type) : Type :=
| Ret (r : R)
| Do (c : cmd) (k : resp c -> prog R)
| Panic.
Arguments Ret {R} r.
Arguments Do {R} c k.
Arguments Panic {R}.

Fixpoint bind {X Y} (p : prog X) (f : X -> prog Y) : prog Y :=
  match p with
  | Ret x => f x
  | Do c k => Do c (fun r => bind (k r) f)
  | Panic => Panic
  end.

Notation "'perform' x <- p ;; q" := (bind p (fun x => q)) (at level 200, x name, p at level 100, q at level 200, right associativity).
Notation "'call' x <- c ;; q" := (Do c (fun x => q)) (at level 200, x pattern, c at level 100, q at level 200, right associativity).

(* error causes: the cashu.Error the Go code returns (code + which one), see Http.v for the mapping *)
Inductive err :=
| EDb | ELn                                   (* internal: storage / Lightning backend *)
| EUnit | EBadPubkey | EMintLimit | EMintDisabled | EMeltLimit
| EQuoteNotExist | ENotPaid | EIssued | EQuotePending | EMeltPaid
| EOutAmount | EDupOutputs | EOverQuote | EAlreadySigned | EQuoteSig
| EUnknownKeyset | EInactiveKeyset | EBadB
| ENoProofs | EProofPending | EProofUsed | EDupProofs | ESecretLong | EInvalidProof | EBadC | ECond
| EProofAmount | EInsufficient | ESigAllMelt | ESigAllOutputs
| EInvoice | EMeltExists | EMpp.

Inductive result (X : Type) := Ok (x : X) | Err (e : err).
Arguments Ok {X} x.
Arguments Err {X} e.

Definition fail {X} (e : err) : prog (result X) := Ret (Err e).

(* ------------------------------------------------------------------ pure helpers of mint.go *)

Definition is_key_amount (a : Z) : bool :=
  existsb (fun i => a =? 2 ^ Z.of_nat i) (seq 0 60).

Definition find_ks (id : Z) (ks : list ksrow) : option ksrow := find (fun k => k_id k =? id) ks.
Definition active_ks (ks : list ksrow) : option ksrow := find k_active ks.   (* as LoadMint picks it from the rows *)

Definition sum64 (l : list Z) : Z := fold_left add64 l 0.

(* BlindedMessages.AmountChecked *)
Fixpoint amount_checked (l : list Z) (acc : Z) : option Z :=
  match l with
  | [] => Some acc
  | a :: r => let s := add64 acc a in if (s <? acc) || (s <? a) then None else amount_checked r s
  end.

(* TransactionFees: unknown keysets contribute the zero value; the sum saturates at the largest uint, and the division by
   1000 rounds up without adding to it *)
(* uint addition that saturates (input_fee_ppk is a uint: the lower clamp is never reached) *)
Definition sat_add64 (a b : Z) : Z := Z.max 0 (Z.min (a + b) (two64 - 1)).
Definition tx_fees (mem_ks : list ksrow) (ins : list proof) : Z :=
  let s := fold_left (fun acc p => sat_add64 acc (match find_ks (p_ks p) mem_ks with Some k => k_fee k | None => 0 end)) ins 0 in
  if s mod 1000 =? 0 then s / 1000 else s / 1000 + 1.

Definition to_row (q : Z) (p : proof) : prow := mkProw (p_secret p) (p_amount p) (p_ks p) (p_wit p) q.

(* per-proof gate of verifyProofs *)
Definition check_proof (mem_ks : list ksrow) (p : proof) : option err :=
  if p_long p then Some ESecretLong else
  match find_ks (p_ks p) mem_ks with
  | None => Some EUnknownKeyset
  | Some _ =>
      if negb (is_key_amount (p_amount p)) then Some EInvalidProof else
      if negb (p_cond p) then Some ECond else
      match p_C p with
      | CBad => Some EBadC
      | c => if cterm_eqb c (CSig (p_ks p) (p_amount p) (p_secret p)) then None else Some EInvalidProof
      end
  end.

Fixpoint check_proofs (mem_ks : list ksrow) (ps : list proof) : option err :=
  match ps with
  | [] => None
  | p :: r => match check_proof mem_ks p with Some e => Some e | None => check_proofs mem_ks r end
  end.

(* signBlindedMessages: per-message gate, in order *)
Fixpoint check_outputs (mem_ks : list ksrow) (active : Z) (outs : list bmsg) : option err :=
  match outs with
  | [] => None
  | o :: r =>
      match find_ks (b_ks o) mem_ks with
      | None => Some EUnknownKeyset
      | Some _ =>
          if negb (b_ks o =? active) then Some EInactiveKeyset
          else if negb (is_key_amount (b_amount o)) then Some EOutAmount
          else if negb (b_point o) then Some EBadB
          else check_outputs mem_ks active r
      end
  end.

Definition sig_rows (outs : list bmsg) : list srow := map (fun o => mkSrow (b_B o) (b_amount o) (b_ks o)) outs.

(* ------------------------------------------------------------------ verifyProofs *)

Definition verify_proofs (mem_ks : list ksrow) (ins : list proof) : prog (result unit) :=
  match ins with
  | [] => fail ENoProofs
  | _ =>
    let ys := map p_secret ins in
    call r1 <- GetPending ys ;;
    match r1 with
    | RErr => fail EDb
    | ROk (_ :: _) => fail EProofPending
    | ROk [] =>
      call r2 <- GetUsed ys ;;
      match r2 with
      | RErr => fail EDb
      | ROk (_ :: _) => fail EProofUsed
      | ROk [] =>
          if negb (nodupb ys) then fail EDupProofs else
          match check_proofs mem_ks ins with
          | Some e => fail e
          | None => Ret (Ok tt)
          end
      end
    end
  end.

(* ------------------------------------------------------------------ Swap *)

(* outs_signed: the result of verifyBlindedMessages on this request (Cond.v) *)
Definition swap (mem_ks : list ksrow) (active : Z) (ins : list proof) (outs : list bmsg) (outs_signed : bool)
  : prog (result (list srow)) :=
  let proofs_amount := sum64 (map p_amount ins) in
  match amount_checked (map b_amount outs) 0 with
  | None => fail EOutAmount
  | Some out_amount =>
    if negb (nodupb (map b_B outs)) then fail EDupOutputs else
    let fees := tx_fees mem_ks ins in
    if proofs_amount <? fees then fail EProofAmount else
    if proofs_amount - fees <? out_amount then fail EInsufficient else
    perform v <- verify_proofs mem_ks ins ;;
    match v with
    | Err e => fail e
    | Ok _ =>
      call r <- GetSigs (map b_B outs) ;;
      match r with
      | RErr => fail EDb
      | ROk (_ :: _) => fail EAlreadySigned
      | ROk [] =>
        if existsb p_sigall ins && negb outs_signed then fail ESigAllOutputs else
        match check_outputs mem_ks active outs with
        | Some e => fail e
        | None =>
          call r1 <- SaveProofs (map (to_row 0) ins) ;;
          match r1 with
          | RErr => fail EDb
          | ROk _ =>
            call r2 <- SaveSigs (sig_rows outs) ;;
            match r2 with
            | RErr => fail EDb
            | ROk _ => Ret (Ok (sig_rows outs))
            end
          end
        end
      end
    end
  end.

(* ------------------------------------------------------------------ mint quotes *)

Definition total_balance : prog (result Z) :=
  call r1 <- GetIssued ;;
  match r1 with
  | RErr => fail EDb
  | ROk iss =>
    call r2 <- GetRedeemed ;;
    match r2 with
    | RErr => fail EDb
    | ROk red => Ret (Ok (sub64 (sum64 (map snd iss)) (sum64 (map snd red))))
    end
  end.

(* pubkey: 0 none, > 0 a valid key handle, < 0 malformed *)
Definition request_mint_quote (cfg : config) (unit_ok : bool) (amount pubkey newid newhash : Z) : prog (result mquote) :=
  if negb unit_ok then fail EUnit else
  if pubkey <? 0 then fail EBadPubkey else
  if (0 <? c_max_mint cfg) && (c_max_mint cfg <? amount) then fail EMintLimit else
  perform b <- (if 0 <? c_max_balance cfg then total_balance else Ret (Ok 0)) ;;
  match b with
  | Err e => fail e
  | Ok balance =>
    if (0 <? c_max_balance cfg) && (c_max_balance cfg <? add64 balance amount) then fail EMintDisabled else
    call inv <- LnCreateInvoice amount newhash ;;
    match inv with
    | RErr => fail ELn
    | ROk (req, h) =>
      let q := mkMq newid amount h 0 pubkey in
      call r <- SaveMintQuote q ;;
      match r with
      | RErr => fail EDb
      | ROk _ => Ret (Ok q)
      end
    end
  end.

Definition get_mint_quote_state (id : Z) : prog (result mquote) :=
  call r <- GetMintQuote id ;;
  match r with
  | RErr | ROk None => fail EQuoteNotExist
  | ROk (Some q) =>
    if mq_state q =? 0 then
      call st <- LnInvoiceStatus (mq_hash q) ;;
      match st with
      | RErr => fail ELn
      | ROk (true, _) =>
          call u <- UpdateMintQuote id 1 ;;
          match u with
          | RErr => fail EDb
          | ROk _ => Ret (Ok (mkMq (mq_id q) (mq_amount q) (mq_hash q) 1 (mq_pubkey q)))
          end
      | ROk (false, _) => Ret (Ok q)
      end
    else Ret (Ok q)
  end.

(* the invoice watcher's reaction to a settled notification (after the repair: re-read, only UNPAID -> PAID) *)
Definition watcher_fire (id : Z) : prog unit :=
  call r0 <- GetMintQuote id ;;          (* read when the watcher starts; it then waits for the notification *)
  match r0 with
  | ROk (Some _) =>
    call r <- GetMintQuote id ;;
    match r with
    | ROk (Some q) =>
        if mq_state q =? 0 then call _ <- UpdateMintQuote id 1 ;; Ret tt else Ret tt
    | _ => Ret tt
    end
  | _ => Ret tt
  end.

(* sig: 0 no signature given, 1 valid signature by the quote's key over exactly these outputs, 2 anything else *)
Definition mint_tokens (mem_ks : list ksrow) (active : Z) (id : Z) (outs : list bmsg) (sig : Z) : prog (result (list srow)) :=
  perform g <- get_mint_quote_state id ;;
  match g with
  | Err e => fail e
  | Ok q =>
    if mq_state q =? 0 then fail ENotPaid else
    if mq_state q =? 3 then fail EIssued else
    if mq_state q =? 2 then fail EQuotePending else
    if mq_state q =? 1 then
      let restore (e : err) : prog (result (list srow)) :=
        call u <- UpdateMintQuote id 1 ;;
        match u with RErr => fail EDb | ROk _ => fail e end in
      call u0 <- UpdateMintQuote id 2 ;;
      match u0 with
      | RErr => restore EDb
      | ROk _ =>
        match amount_checked (map b_amount outs) 0 with
        | None => restore EOutAmount
        | Some out_amount =>
          if negb (nodupb (map b_B outs)) then restore EDupOutputs else
          if mq_amount q <? out_amount then restore EOverQuote else
          call r <- GetSigs (map b_B outs) ;;
          match r with
          | RErr => restore EDb
          | ROk (_ :: _) => restore EAlreadySigned
          | ROk [] =>
            if negb (mq_pubkey q =? 0) && negb (sig =? 1) then restore EQuoteSig else
            match check_outputs mem_ks active outs with
            | Some e => restore e
            | None =>
              call u1 <- UpdateMintQuote id 3 ;;
              match u1 with
              | RErr => restore EDb
              | ROk _ =>
                call s <- SaveSigs (sig_rows outs) ;;
                match s with
                | RErr => restore EDb
                | ROk _ => Ret (Ok (sig_rows outs))
                end
              end
            end
          end
        end
      end
    else Ret (Ok [])   (* unknown state string: the Go switch falls through and returns no signatures *)
  end.

(* ------------------------------------------------------------------ melt *)

(* invoice handle req: amount in msat (0: no amount), payment hash; decodes: false = not a bolt11 invoice *)
(* "a mint quote exists with the same invoice": the quote found by payment hash must carry the very request string of the melt
   quote.  Handles: the request handle of one of the mint's own invoices IS its payment-hash handle (an own invoice and its
   hash determine each other); any other invoice - one that merely carries that hash included - has a request handle of its own. *)
Definition same_invoice (mq : res (option mquote)) (req : Z) : option mquote :=
  match mq with
  | ROk (Some m) => if mq_hash m =? req then Some m else None
  | _ => None
  end.

Definition internal_mq (q : lquote) (d : db) : option mquote :=
  same_invoice (ROk (find (fun m => mq_hash m =? lq_hash q) (d_mq d))) (lq_req q).

Definition request_melt_quote (cfg : config) (unit_ok decodes : bool) (req h msat : Z) (mpp : option Z) (newid : Z)
  : prog (result lquote) :=
  if negb unit_ok then fail EUnit else
  if negb decodes then fail EInvoice else
  (* the decoder reports the amount as an int64 (the harness passes it on as the uint64 of the same bits): 0 = no amount,
     2^63 and above = a negative number, an amount that does not fit *)
  if (msat <=? 0) || (two63 <=? msat) then fail EInvoice else
  let invoice_sat := (msat + 999) / 1000 in
  call mq <- GetMintQuoteByHash h ;;
  (* a failed lookup is a storage error, not "no such mint quote" (fix: an own invoice must never be quoted as a foreign one) *)
  match mq with RErr => fail EDb | ROk _ =>
  let internal := match same_invoice mq req with Some _ => true | None => false end in
  let plan : result (bool * Z * Z) :=
    match mpp with
    | None => Ok (false, 0, invoice_sat)
    | Some part =>
        if c_mpp cfg then
          if internal then Err EMpp
          else if msat <=? part then Err EMpp
          else Ok (true, part, (part + 999) / 1000)
        else Err EMpp
    end in
  match plan with
  | Err e => fail e
  | Ok (is_mpp, amount_msat, quote_amount) =>
    if (0 <? c_max_melt cfg) && (c_max_melt cfg <? quote_amount) then fail EMeltLimit else
    call ex <- GetMeltQuoteByReq req ;;
    match ex with
    | ROk (Some _) => fail EMeltExists
    | _ =>
      let fee := if internal then 0 else fee_reserve cfg quote_amount in
      let q := mkLq newid req h quote_amount fee 0 0 is_mpp amount_msat in
      call r <- SaveMeltQuote q ;;
      match r with
      | RErr => fail EDb
      | ROk _ => Ret (Ok q)
      end
    end
  end
  end.

Definition with_state (q : lquote) (st pre : Z) : lquote :=
  mkLq (lq_id q) (lq_req q) (lq_hash q) (lq_amount q) (lq_fee q) st pre (lq_mpp q) (lq_msat q).

(* removePendingProofsForQuote *)
Definition remove_pending_for_quote (id : Z) : prog (result (list prow)) :=
  call r <- GetPendingByQuote id ;;
  match r with
  | RErr => fail EDb
  | ROk rows =>
    call d <- RemovePending (ys_of rows) ;;
    match d with
    | RErr => fail EDb
    | ROk _ => Ret (Ok rows)
    end
  end.

Definition get_melt_quote_state (id : Z) : prog (result lquote) :=
  call r <- GetMeltQuote id ;;
  match r with
  | RErr | ROk None => fail EQuoteNotExist
  | ROk (Some q) =>
    if lq_state q =? 1 then
      call a <- LnLookup (lq_hash q) ;;
      if (a_kind a =? 3) || (a_kind a =? 4) then Ret (Ok q)      (* any error, incl. not found: leave pending *)
      else if a_kind a =? 0 then
        perform rp <- remove_pending_for_quote id ;;
        match rp with
        | Err e => fail e
        | Ok rows =>
          call s <- SaveProofs (map (fun r => mkProw (r_y r) (r_amount r) (r_ks r) (r_wit r) 0) rows) ;;
          match s with
          | RErr => fail EDb
          | ROk _ =>
            call u <- UpdateMeltQuote id (a_pre a) 2 ;;
            match u with
            | RErr => fail EDb
            | ROk _ => Ret (Ok (with_state q 2 (a_pre a)))
            end
          end
        end
      else if a_kind a =? 1 then
        call u <- UpdateMeltQuote id 0 0 ;;
        match u with
        | RErr => fail EDb
        | ROk _ =>
          perform rp <- remove_pending_for_quote id ;;
          match rp with
          | Err e => fail e
          | Ok _ => Ret (Ok (with_state q 0 0))
          end
        end
      else Ret (Ok q)     (* still in flight *)
    else Ret (Ok q)
  end.

Definition settle_proofs (ins : list proof) : prog (result unit) :=
  call r <- RemovePending (map p_secret ins) ;;
  match r with
  | RErr => fail EDb
  | ROk _ =>
    call s <- SaveProofs (map (to_row 0) ins) ;;
    match s with RErr => fail EDb | ROk _ => Ret (Ok tt) end
  end.

Definition release (q : lquote) (ins : list proof) : prog (result lquote) :=
  call u <- UpdateMeltQuote (lq_id q) 0 0 ;;
  match u with
  | RErr => fail EDb
  | ROk _ =>
    call r <- RemovePending (map p_secret ins) ;;
    match r with
    | RErr => fail EDb
    | ROk _ => Ret (Ok (with_state q 0 0))
    end
  end.

Definition finish_paid (q : lquote) (ins : list proof) (pre : Z) (settle_first : bool) : prog (result lquote) :=
  perform s <- settle_proofs ins ;;
  match s with
  | Err e => fail e
  | Ok _ =>
    call u <- UpdateMeltQuote (lq_id q) pre 2 ;;
    match u with
    | RErr => fail EDb
    | ROk _ => Ret (Ok (with_state q 2 pre))
    end
  end.

Definition melt_tokens (cfg : config) (mem_ks : list ksrow) (id : Z) (ins : list proof) : prog (result lquote) :=
  let proofs_amount := sum64 (map p_amount ins) in
  call r <- GetMeltQuote id ;;
  match r with
  | RErr | ROk None => fail EQuoteNotExist
  | ROk (Some q) =>
    if lq_state q =? 2 then fail EMeltPaid else
    if lq_state q =? 1 then fail EQuotePending else
    perform v <- verify_proofs mem_ks ins ;;
    match v with
    | Err e => fail e
    | Ok _ =>
      let fees := tx_fees mem_ks ins in
      if proofs_amount <? add64 (add64 (lq_amount q) (lq_fee q)) fees then fail EInsufficient else
      if existsb p_sigall ins then fail ESigAllMelt else
      call a <- AddPending (map (to_row id) ins) ;;
      match a with
      | RErr => fail EDb
      | ROk _ =>
        call u <- UpdateMeltQuote id 0 1 ;;
        match u with
        | RErr => fail EDb
        | ROk _ =>
          call mq <- GetMintQuoteByHash (lq_hash q) ;;
          match same_invoice mq (lq_req q) with
          | Some m =>
              (* settleQuotesInternally *)
              call st <- LnInvoiceStatus (mq_hash m) ;;
              match st with
              | RErr => fail ELn
              | ROk (_, pre) =>
                call u1 <- UpdateMeltQuote id pre 2 ;;
                match u1 with
                | RErr => fail EDb
                | ROk _ =>
                  call u2 <- UpdateMintQuote (mq_id m) 1 ;;
                  match u2 with
                  | RErr => fail EDb
                  | ROk _ =>
                    call rp <- RemovePending (map p_secret ins) ;;
                    match rp with
                    | RErr => fail EDb
                    | ROk _ =>
                      call sp <- SaveProofs (map (to_row 0) ins) ;;
                      match sp with
                      | RErr => fail EDb
                      | ROk _ => Ret (Ok (with_state q 2 pre))
                      end
                    end
                  end
                end
              end
          | None =>
              call ans <- LnPay (lq_req q) (lq_hash q)
                                (if lq_mpp q then fee_reserve cfg (lq_msat q / 1000) else lq_fee q)
                                (if lq_mpp q then lq_msat q else 0) (lq_mpp q) ;;
              if a_kind ans =? 0 then finish_paid q ins (a_pre ans) true
              else if a_kind ans =? 2 then Ret (Ok (with_state q 1 0))
              else
                (* failed or error: extra status check *)
                call lk <- LnLookup (lq_hash q) ;;
                if a_kind lk =? 4 then release q ins
                else if a_kind lk =? 3 then Ret (Ok (with_state q 1 0))
                else if a_kind lk =? 1 then release q ins
                else if a_kind lk =? 0 then finish_paid q ins (a_pre lk) true
                else Ret (Ok (with_state q 1 0))
          end
        end
      end
    end
  end.

(* ------------------------------------------------------------------ check state / restore *)

Fixpoint for_each {X} (l : list X) (f : X -> prog (result unit)) : prog (result unit) :=
  match l with
  | [] => Ret (Ok tt)
  | x :: r => perform v <- f x ;; match v with Err e => fail e | Ok _ => for_each r f end
  end.

Fixpoint dedup (l : list Z) : list Z :=
  match l with [] => [] | x :: r => x :: filter (fun y => negb (y =? x)) (dedup r) end.

(* state: 0 UNSPENT 1 PENDING 2 SPENT; with the witness it was recorded with *)
Definition proofs_state_check (ys : list Z) : prog (result (list (Z * Z * Z))) :=
  call r <- GetPending ys ;;
  match r with
  | RErr => fail EDb
  | ROk pend =>
    perform v <- for_each (dedup (map r_quote pend))
           (fun q => perform g <- get_melt_quote_state q ;; match g with Err e => fail e | Ok _ => Ret (Ok tt) end) ;;
    match v with
    | Err e => fail e
    | Ok _ =>
      call r2 <- GetPending ys ;;
      match r2 with
      | RErr => fail EDb
      | ROk pend2 =>
        call r3 <- GetUsed ys ;;
        match r3 with
        | RErr => fail EDb
        | ROk used =>
          Ret (Ok (map (fun y =>
                          match find (fun r => r_y r =? y) used with
                          | Some r => (y, 2, r_wit r)
                          | None => match find (fun r => r_y r =? y) pend2 with
                                    | Some r => (y, 1, r_wit r)
                                    | None => (y, 0, 0)
                                    end
                          end) ys))
        end
      end
    end
  end.

Fixpoint restore_sigs (bs : list Z) (acc : list srow) : prog (result (list srow)) :=
  match bs with
  | [] => Ret (Ok (rev acc))
  | b :: r =>
    call s <- GetSig b ;;
    match s with
    | RErr => fail EDb
    | ROk None => restore_sigs r acc
    | ROk (Some row) => restore_sigs r (row :: acc)
    end
  end.

(* ------------------------------------------------------------------ keysets *)

(* LoadMint on an existing directory (the seed is fixed): rebuild the keysets from the stored rows;
   on an empty store create keyset 0.  mint.activeKeyset is the last row flagged active. *)
Definition last_active (rows : list ksrow) : Z :=
  fold_left (fun acc k => if k_active k then k_id k else acc) rows (-1).

Definition rotate_keyset (mem_ks : list ksrow) (active : Z) (fee : Z) : prog (result unit) :=
  call sd <- GetSeed ;;
  match sd with
  | RErr => fail EDb
  | ROk _ =>
    (* GenerateKeyset refuses a fee the signed 64-bit column of the keysets table cannot hold *)
    if two63 <=? fee then fail EDb else
    match find_ks active mem_ks with
    | None => Panic      (* nil activeKeyset dereferenced *)
    | Some a =>
      let old := mkKs (k_id a) (k_fee a) false in
      let new := mkKs (k_id a + 1) fee true in
      let mem1 := map (fun k => if k_id k =? k_id a then old else k) mem_ks in
      call _ <- MemSetKeysets mem1 active ;;
      call u <- UpdateKeysetActive (k_id a) false ;;
      match u with
      | RErr => fail EDb
      | ROk _ =>
        call _ <- MemSetKeysets (filter (fun k => negb (k_id k =? k_id new)) mem1 ++ [new]) (k_id new) ;;
        call s <- SaveKeyset new ;;
        match s with RErr => fail EDb | ROk _ => Ret (Ok tt) end
      end
    end
  end.

Definition load_mint (fee : Z) (rotate : bool) : prog (result unit) :=
  call sd <- GetSeed ;;
  match sd with
  | RErr => fail EDb
  | ROk _ =>
  call r <- GetKeysets ;;
  match r with
  | RErr => fail EDb
  | ROk [] =>
      let k := mkKs 0 fee true in
      call _ <- MemSetKeysets [k] 0 ;;
      call s <- SaveKeyset k ;;
      match s with RErr => fail EDb | ROk _ => Ret (Ok tt) end
  | ROk rows =>
      call _ <- MemSetKeysets rows (last_active rows) ;;
      if rotate then rotate_keyset rows (last_active rows) fee
      else if last_active rows <? 0 then Panic   (* the logger line dereferences mint.activeKeyset *)
      else Ret (Ok tt)
  end
  end.

(* RetrieveMintInfo: is minting shown as disabled? *)
Definition info_disabled (cfg : config) : prog (result bool) :=
  call sd <- GetSeed ;;          (* the mint's public key is derived from the stored seed on every request *)
  match sd with
  | RErr => fail EDb
  | ROk _ =>
    perform b <- total_balance ;;
    match b with
    | Err e => fail e
    | Ok balance => Ret (Ok ((0 <? c_max_balance cfg) && (c_max_balance cfg <=? balance)))
    end
  end.
