(* C02 + C03 + C07 over whole histories in which Swap and MintTokens requests may be cut at any call or hit by storage errors
   at any positions: the no-inflation inequality of GlobalValue.no_inflation still holds at the end of every such history.
   (Cuts of a MeltTokens are a different matter: Cuts.v exhibits cuts that free paid inputs - the known findings of C07.) *)
From Coq Require Import ZArith List Bool Lia.
From Verif Require Import Model Sem InvDb InvSwap InvMint InvMelt Corollaries Queries Footprint Global GlobalQuote GlobalValue CutValue CutMint CutFrames ConcValue.
Import ListNotations.
Open Scope Z_scope.

(* requests that may be cut or hit by storage errors: all but the three that settle melts (and the environment steps) *)
Definition cuttable (o : op) : Prop :=
  match o with
  | OMelt _ _ | OMeltState _ | OCheck _ => False
  | ESettle _ | EScriptPay _ _ | EScriptLook _ _ | ESetInvErr _ | ESetCreateErr _ => False
  | _ => True
  end.

(* a history item: an ordinary request run to completion, or a cuttable request that is cut after k calls or has storage
   errors injected by an arbitrary oracle *)
Definition cut_item (it : hitem) : Prop :=
  match it with
  | HNormal _ => True
  | HFault o _ | HCrash o _ => cuttable o
  | HConc ops _ => Forall swapish ops
  end.

Definition item_u64 (it : hitem) : Prop :=
  match it with HNormal o | HFault o _ | HCrash o _ => op_u64 o | HConc ops _ => Forall op_u64 ops end.

Definition item_honest (w : world) (it : hitem) : Prop :=
  match it with HNormal o | HFault o _ | HCrash o _ => watcher_honest w o | HConc _ _ => True end.

Fixpoint hhonest (cfg : config) (w : world) (h : list hitem) : Prop :=
  match h with [] => True | it :: r => item_honest w it /\ hhonest cfg (hstep cfg w it) r end.

(* decidable form, for computing that a concrete history meets the hypothesis *)
Definition watcher_honestb (w : world) (o : op) : bool :=
  match o with
  | OWatcher id => match find_mq id (d_mq (w_db w)) with
                   | Some q => negb (mq_state q =? 0) || settled w (mq_hash q)
                   | None => true
                   end
  | _ => true
  end.
Definition item_honestb (w : world) (it : hitem) : bool :=
  match it with HNormal o | HFault o _ | HCrash o _ => watcher_honestb w o | HConc _ _ => true end.
Fixpoint hhonestb (cfg : config) (w : world) (h : list hitem) : bool :=
  match h with [] => true | it :: r => item_honestb w it && hhonestb cfg (hstep cfg w it) r end.

Lemma watcher_honestb_ok w o : watcher_honestb w o = true -> watcher_honest w o.
Proof.
  destruct o; cbn [watcher_honestb watcher_honest]; try (intros _; exact I).
  destruct (find_mq id (d_mq (w_db w))) as [q|]; [|intros _; exact I].
  intros H H0. rewrite H0 in H. cbn [Z.eqb negb orb] in H. exact H.
Qed.

Lemma hhonestb_ok cfg h : forall w, hhonestb cfg w h = true -> hhonest cfg w h.
Proof.
  induction h as [|it r IH]; intros w H; cbn [hhonestb hhonest] in *; [exact I|].
  apply andb_prop in H as [H1 H2]. split; [|apply IH; exact H2].
  destruct it; cbn [item_honestb item_honest] in *; try exact I; apply watcher_honestb_ok; exact H1.
Qed.

(* ghost issuance event of a cut / faulted request: a MintTokens whose signatures reached the store *)
Definition cut_ev (o : op) (w w' : world) : list Z :=
  match o with OMint id _ _ => cut_issue_ev id w w' | _ => [] end.

Fixpoint htrace (cfg : config) (w : world) (h : list hitem) (iss cred : list Z) : world * list Z * list Z :=
  match h with
  | [] => (w, iss, cred)
  | it :: r =>
      match it with
      | HNormal o => htrace cfg (hstep cfg w it) r (issue_ev o (snd (step cfg no_fault w o)) ++ iss)
                                                (credit_ev w o (snd (step cfg no_fault w o)) ++ cred)
      | HFault o _ | HCrash o _ => htrace cfg (hstep cfg w it) r (cut_ev o w (hstep cfg w it) ++ iss) cred
      | HConc _ _ => htrace cfg (hstep cfg w it) r iss cred
      end
  end.

Lemma htrace_world cfg h : forall w iss cred, fst (fst (htrace cfg w h iss cred)) = hrun cfg w h.
Proof.
  induction h as [|it r IH]; intros w iss cred; cbn [htrace hrun fold_left]; [reflexivity|].
  destruct it; apply IH.
Qed.

Definition is_cut_of (it : hitem) (o : op) : Prop :=
  it = HFault o (match it with HFault _ f => f | _ => no_fault end) \/ it = HCrash o (match it with HCrash _ k => k | _ => O end).

(* a cut / faulted request as one run_n of its program from the prepared world *)
Lemma item_as_run_n cfg w o it {X} (p : prog X) (g : X -> opres) :
  is_cut_of it o -> is_env o = false ->
  op_prog cfg (w_mem (prepare o w)) (w_active (prepare o w)) o = bind p (fun x => Ret (g x)) ->
  exists n f, hstep cfg w it = fst (run_n n p f (prepare o w)).
Proof.
  intros Hit He Hop. destruct Hit as [-> | ->]; cbn [hstep].
  - destruct it as [o'|o' f|o' k|ops sched]; unfold step; rewrite He, Hop.
    all: match goal with |- context [run ?P ?F ?W] => destruct (run_as_run_n P F W) as [n Hn']; exists n, F; rewrite Hn';
           destruct (run_n n P F W) as [w' r] eqn:E; cbn [fst]; change w' with (fst (w', r)); rewrite <- E; apply run_n_lift_fst end.
  - destruct it as [o'|o' f|o' k|ops sched]; unfold step_crash; rewrite He, Hop.
    all: match goal with |- context [run_n ?K ?P ?F ?W] => exists K, F;
           destruct (run_n K P F W) as [w' r] eqn:E; cbn [fst]; change w' with (fst (w', r)); rewrite <- E; apply run_n_lift_fst end.
Qed.

Lemma swap_cut_inv mem_ks active ins outs sg n f w iss cred :
  Forall (fun x => 0 <= x < two64) (map b_amount outs) ->
  QInv w iss cred -> VI iss w ->
  let w' := fst (run_n n (swap mem_ks active ins outs sg) f w) in QInv w' iss cred /\ VI iss w'.
Proof.
  intros Hu Hq [Hg [Hvi Hi]]. cbv zeta.
  destruct (swap_cut_states mem_ks active ins outs sg n f w) as [[Hln [_ [_ [_ [Hmq _]]]]] _]. split.
  - destruct Hq as [Q1 Q2]. split.
    + rewrite Hmq. intros m Hm. specialize (Q1 m Hm). unfold esett, settled in *. rewrite Hln. exact Q1.
    + rewrite Hmq. exact Q2.
  - split; [apply swap_cut_good; exact Hg|]. split; [apply swap_cut_vinv; assumption|rewrite Hmq; exact Hi].
Qed.

Lemma qinv_prepare o w iss cred : QInv w iss cred -> QInv (prepare o w) iss cred.
Proof. intros H. destruct o; exact H. Qed.

Lemma cut_item_inv cfg w it iss cred o :
  cfg_ok cfg -> is_cut_of it o -> cut_item it -> item_u64 it -> item_honest w it -> QInv w iss cred -> VI iss w ->
  QInv (hstep cfg w it) (cut_ev o w (hstep cfg w it) ++ iss) cred /\ VI (cut_ev o w (hstep cfg w it) ++ iss) (hstep cfg w it).
Proof.
  intros Hcfg Hit Hc Hu Hh Hq Hv.
  assert (Hc' : cuttable o) by (destruct Hit as [E|E]; rewrite E in Hc; exact Hc).
  assert (Hu' : op_u64 o) by (destruct Hit as [E|E]; rewrite E in Hu; exact Hu).
  assert (Hh' : watcher_honest w o) by (destruct Hit as [E|E]; rewrite E in Hh; exact Hh).
  pose proof (vi_prepare o iss w Hv) as Hv0. pose proof (qinv_prepare o w iss cred Hq) as Hq0.
  set (w0 := prepare o w) in *.
  assert (Hquiet : forall (a : cmd -> bool) X (p : prog X) (g : X -> opres),
            is_env o = false -> op_prog cfg (w_mem w0) (w_active w0) o = bind p (fun x => Ret (g x)) ->
            only a p -> (forall c, a c = true -> c_sp c = false /\ c_sigs c = false /\ c_lq c = false /\ c_mq c = false) ->
            QInv (hstep cfg w it) iss cred /\ VI iss (hstep cfg w it)).
  { intros a X p g He Hop Ho Ha. destruct (item_as_run_n cfg w o it p g Hit He Hop) as [n [f Hst]]. rewrite Hst.
    apply (quiet_cut_inv a); assumption. }
  destruct o; try (destruct Hc'); cbn [cut_ev app].
  - (* OMintQuote *)
    destruct (item_as_run_n cfg w (OMintQuote unit_ok amount pubkey newid newhash) it
                (request_mint_quote cfg unit_ok amount pubkey newid newhash) _ Hit eq_refl eq_refl) as [n [f Hst]].
    rewrite Hst. apply mint_quote_cut_inv; assumption.
  - (* OMintState *)
    destruct (item_as_run_n cfg w (OMintState id) it (get_mint_quote_state id) _ Hit eq_refl eq_refl) as [n [f Hst]].
    rewrite Hst. apply mint_state_cut_inv; assumption.
  - (* OMint *)
    destruct (item_as_run_n cfg w (OMint id outs sig) it (mint_tokens (w_mem w0) (w_active w0) id outs sig) _ Hit eq_refl eq_refl) as [n [f Hst]].
    rewrite Hst.
    exact (mint_cut_inv (w_mem w0) (w_active w0) id outs sig n f w0 iss cred Hu' Hq0 Hv0).
  - (* OSwap *)
    destruct (item_as_run_n cfg w (OSwap ins outs outs_signed) it (swap (w_mem w0) (w_active w0) ins outs outs_signed) _ Hit eq_refl eq_refl) as [n [f Hst]].
    rewrite Hst. apply swap_cut_inv; assumption.
  - (* OMeltQuote *)
    destruct (item_as_run_n cfg w (OMeltQuote unit_ok decodes req h msat mpp newid) it
                (request_melt_quote cfg unit_ok decodes req h msat mpp newid) _ Hit eq_refl eq_refl) as [n [f Hst]].
    rewrite Hst. destruct Hu' as [Hm1 Hm2]. apply melt_quote_cut_inv; assumption.
  - (* ORestore *)
    apply (Hquiet fp_restore _ (restore_sigs bs []) _ eq_refl eq_refl); [apply only_restore|].
    intros c Hc0; destruct c; cbn in *; repeat split; congruence.
  - (* ORotate *)
    apply (Hquiet fp_rotate _ (rotate_keyset (w_mem w0) (w_active w0) fee) _ eq_refl eq_refl); [apply only_rotate|].
    intros c Hc0; destruct c; cbn in *; repeat split; congruence.
  - (* ORestart *)
    apply (Hquiet fp_rotate _ (load_mint fee rotate) _ eq_refl eq_refl); [apply only_load|].
    intros c Hc0; destruct c; cbn in *; repeat split; congruence.
  - (* OWatcher *)
    destruct (item_as_run_n cfg w (OWatcher id) it (watcher_fire id) (fun _ => RUnit) Hit eq_refl eq_refl) as [n [f Hst]].
    rewrite Hst. apply watcher_cut_inv; assumption.
  - (* OBalance *)
    apply (Hquiet fp_balance _ total_balance _ eq_refl eq_refl); [apply only_balance|].
    intros c Hc0; destruct c; cbn in *; repeat split; congruence.
  - (* OInfo *)
    apply (Hquiet fp_balance _ (info_disabled cfg) _ eq_refl eq_refl); [apply only_info|].
    intros c Hc0; destruct c; cbn in *; repeat split; congruence.
Qed.

(* ---------- a concurrent batch of swaps and reads under any schedule ---------- *)

Definition fp_swapish (c : cmd) : bool := fp_swap c || fp_restore c || fp_balance c.

Definition conc_frame (a b : world) : Prop :=
  d_mq (w_db b) = d_mq (w_db a) /\ d_lq (w_db b) = d_lq (w_db a) /\ d_pending (w_db b) = d_pending (w_db a) /\ w_ln b = w_ln a.

Lemma exec_conc_frame c fault w : fp_swapish c = true -> conc_frame w (fst (exec c fault w)).
Proof.
  intros Ha.
  assert (Hc : c_ln c = false /\ c_mq c = false /\ c_lq c = false /\
               (match c with AddPending _ | RemovePending _ => false | _ => true end) = true)
    by (destruct c; cbn in *; try discriminate; repeat split).
  destruct Hc as [H1 [H2 [H3 H4]]]. destruct (exec_world c fault w) as [Hln [_ Hdb]]. unfold conc_frame. rewrite (Hln H1).
  destruct Hdb as [Hdb|[_ Hdb]]; rewrite Hdb; [repeat split|].
  destruct (exec_db_frames c (w_db w)) as [_ [_ [Fm [Fl _]]]]. split; [apply Fm; exact H2|]. split; [apply Fl; exact H3|]. split; [|reflexivity].
  destruct c; cbn in H4; try discriminate; cbn [exec_db fst];
    repeat match goal with |- context [if ?b then _ else _] => destruct b end; reflexivity.
Qed.

Lemma conc_swaps_inv cfg w ops sched iss cred :
  Forall swapish ops -> QInv w iss cred -> VI iss w ->
  let w' := fst (run_concurrent cfg w ops sched) in QInv w' iss cred /\ VI iss w'.
Proof.
  intros Hs Hq [Hg [Hv Hi]]. cbv zeta.
  assert (Hfr : conc_frame (reset_calls w) (fst (run_concurrent cfg w ops sched))).
  { apply (run_concurrent_only fp_swapish conc_frame).
    - intros w0. repeat split.
    - intros a b c [A1 [A2 [A3 A4]]] [B1 [B2 [B3 B4]]]. repeat split; congruence.
    - intros c fault w0 Hc. apply exec_conc_frame. exact Hc.
    - intros o Ho c Hc. rewrite Forall_forall in Hs. specialize (Hs o Ho).
      destruct o; cbn [swapish] in Hs; try contradiction; cbn [fp_op] in Hc; unfold fp_swapish; rewrite Hc, ?orb_true_r; reflexivity. }
  destruct Hfr as [Hmq [Hlq [Hpe Hln]]]. cbn [reset_calls w_db w_ln] in Hmq, Hlq, Hpe, Hln.
  assert (Hcalm : Forall calm ops) by (eapply Forall_impl; [|exact Hs]; intros o; apply swapish_calm).
  destruct (concurrent_swaps_never_inflate cfg w ops sched Hcalm) as [_ Hex].
  pose proof (concurrent_swaps_keep_good cfg w ops sched Hs Hg) as Hg'.
  set (w' := fst (run_concurrent cfg w ops sched)) in *.
  split.
  - destruct Hq as [Q1 Q2]. split.
    + rewrite Hmq. intros m Hm. specialize (Q1 m Hm). unfold esett, settled in *. rewrite Hln. exact Q1.
    + rewrite Hmq. exact Q2.
  - split; [exact Hg'|]. split; [|rewrite Hmq; exact Hi].
    destruct Hv as [V1 V2 V3 V4]. split.
    + rewrite Hlq. intros q Hq0. specialize (V1 q Hq0). unfold lq_ok, rows_sum, rows_of_quote in *. rewrite Hpe. exact V1.
    + rewrite Hmq. exact V2.
    + rewrite Hpe, Hlq. exact V3.
    + unfold vOut in *. rewrite Hlq, Hmq. lia.
Qed.

Lemma htrace_vi cfg h : forall w iss cred,
  cfg_ok cfg -> Forall cut_item h -> hhonest cfg w h -> Forall item_u64 h -> QInv w iss cred -> VI iss w ->
  let '(w', iss', cred') := htrace cfg w h iss cred in QInv w' iss' cred' /\ VI iss' w'.
Proof.
  induction h as [|it r IH]; intros w iss cred Hc Hs Hh Hu Hq Hv; cbn [htrace]; [split; assumption|].
  destruct Hh as [Hw Hh]. inversion Hu as [|? ? Hu1 Hu2]; subst. inversion Hs as [|? ? Hs1 Hs2]; subst.
  destruct it as [o|o f|o k|ops sched].
  - apply IH; try assumption; cbn [hstep].
    + apply step_qinv; [apply Hv|exact Hw|exact Hq].
    + apply step_vi; assumption.
  - destruct (cut_item_inv cfg w (HFault o f) iss cred o Hc (or_introl eq_refl) Hs1 Hu1 Hw Hq Hv) as [Hq' Hv']. apply IH; assumption.
  - destruct (cut_item_inv cfg w (HCrash o k) iss cred o Hc (or_intror eq_refl) Hs1 Hu1 Hw Hq Hv) as [Hq' Hv']. apply IH; assumption.
  - cbn [hstep]. destruct (conc_swaps_inv cfg w ops sched iss cred Hs1 Hq Hv) as [Hq' Hv']. apply IH; assumption.
Qed.

(* C02 + C03 + C07: the no-inflation inequality holds along every history in which every request except MeltTokens, the poll of a
   melt quote and the state check (the three that settle melts) may be cut at any call or hit by storage errors at any
   positions (those three run to completion), and in which batches of swaps and reads run concurrently under any schedule *)
Theorem no_inflation_with_cuts cfg h :
  cfg_ok cfg -> Forall cut_item h -> hhonest cfg world0 h -> Forall item_u64 h ->
  let w := hrun cfg world0 h in
  let '(_, _, cred) := htrace cfg world0 h [] [] in
  vS w + vOut w <= vR w + per_quote (fun m => esett w m + cnt (mq_id m) cred) (d_mq (w_db w)) /\
  (forall q, In q (d_lq (w_db w)) -> lq_state q = 1 -> lq_amount q + lq_fee q <= rows_sum (lq_id q) (w_db w)) /\
  (forall q, In q (d_lq (w_db w)) -> lq_state q <> 1 -> rows_of_quote (lq_id q) (w_db w) = []).
Proof.
  intros Hc Hs Hh Hu. cbv zeta.
  pose proof (htrace_vi cfg h world0 [] [] Hc Hs Hh Hu QInv0 VI0) as H.
  rewrite <- (htrace_world cfg h world0 [] []).
  destruct (htrace cfg world0 h [] []) as [[w iss] cred]. cbn [fst]. destruct H as [[Q1 Q2] [Hg [[V1 V2 V3 V4] Hi]]].
  split; [|split].
  - rewrite (wsum_per_quote iss _ (inv_mq _ (g_inv w Hg))) in V4.
    assert (Hle : per_quote (fun m => cnt (mq_id m) iss) (d_mq (w_db w)) <=
                  per_quote (fun m => esett w m + cnt (mq_id m) cred) (d_mq (w_db w))).
    { apply per_quote_le; [exact V2|]. intros m Hm. destruct (Q1 m Hm) as [Hr [Hz [Ho Hi3]]].
      pose proof (esett_range w m). pose proof (cnt_nonneg (mq_id m) cred).
      assert (Hs' : mq_state m = 0 \/ (mq_state m = 1 \/ mq_state m = 2) \/ mq_state m = 3) by lia.
      destruct Hs' as [Hs'|[Hs'|Hs']]; [specialize (Hz Hs')|specialize (Ho Hs')|specialize (Hi3 Hs')]; lia. }
    lia.
  - intros q Hq Hst. apply (V1 q Hq). exact Hst.
  - intros q Hq Hst. apply (V1 q Hq). exact Hst.
Qed.

(* C03 + C07: along every such history every mint quote has been issued at most once per payment - where "issued" counts the
   completed MintTokens that returned signatures AND the cut or faulted ones whose signatures reached the store *)
Theorem quote_issued_at_most_once_with_cuts cfg h :
  cfg_ok cfg -> Forall cut_item h -> hhonest cfg world0 h -> Forall item_u64 h ->
  let '(w, iss, cred) := htrace cfg world0 h [] [] in
  forall m, In m (d_mq (w_db w)) ->
    cnt (mq_id m) iss <= esett w m + cnt (mq_id m) cred /\
    (mq_state m = 0 -> cnt (mq_id m) iss <= cnt (mq_id m) cred).
Proof.
  intros Hc Hs Hh Hu. pose proof (htrace_vi cfg h world0 [] [] Hc Hs Hh Hu QInv0 VI0) as H.
  destruct (htrace cfg world0 h [] []) as [[w iss] cred]. destruct H as [[H1 _] _].
  intros m Hm. destruct (H1 m Hm) as [Hr [Hz [Ho Hi]]]. pose proof (esett_range w m). pose proof (cnt_nonneg (mq_id m) cred).
  split; [|exact Hz].
  assert (Hs' : mq_state m = 0 \/ (mq_state m = 1 \/ mq_state m = 2) \/ mq_state m = 3) by lia.
  destruct Hs' as [Hs'|[Hs'|Hs']]; [specialize (Hz Hs')|specialize (Ho Hs')|specialize (Hi Hs')]; lia.
Qed.

(* ---------- non-vacuity: cuts and storage errors in swaps and mints, then the requests complete ---------- *)

Definition cut_history : list hitem :=
  let p := mkProof 103 64 0 (CSig 0 64 103) 0 false true false in
  let p2 := mkProof 107 32 0 (CSig 0 32 107) 0 false true false in
  [ HNormal (ORestart 0 false); HNormal (OMintQuote true 64 0 101 102); HNormal (ESettle 102);
    (* dies after the quote was marked ISSUED, before the signatures are stored: nothing issued, the quote is burned *)
    HCrash (OMint 101 [mkBmsg 104 64 0 0 true 103] 0) 6;
    HNormal (OMintQuote true 64 0 121 122); HNormal (ESettle 122);
    (* the signature write fails: the quote goes back to PAID *)
    HFault (OMint 121 [mkBmsg 104 64 0 0 true 103] 0) (fun k => k =? 6);
    HNormal (OMint 121 [mkBmsg 104 64 0 0 true 103] 0);
    (* dies after SaveProofs: the 64 sat are burned, nothing is signed *)
    HCrash (OSwap [p] [mkBmsg 108 32 0 0 true 107; mkBmsg 110 32 0 0 true 109] true) 4;
    HNormal (OMintQuote true 32 0 111 112); HNormal (ESettle 112);
    HNormal (OMint 111 [mkBmsg 108 32 0 0 true 107] 0);
    (* the signature write fails: inputs burned, nothing signed *)
    HFault (OSwap [p2] [mkBmsg 114 32 0 0 true 113] true) (fun k => k =? 4);
    (* two swaps of one proof and a balance query race: one swap wins *)
    HNormal (OMintQuote true 16 0 141 142); HNormal (ESettle 142); HNormal (OMint 141 [mkBmsg 144 16 0 0 true 143] 0);
    HConc [ OSwap [mkProof 143 16 0 (CSig 0 16 143) 0 false true false] [mkBmsg 146 16 0 0 true 145] true;
            OSwap [mkProof 143 16 0 (CSig 0 16 143) 0 false true false] [mkBmsg 148 8 0 0 true 147; mkBmsg 150 8 0 0 true 149] true;
            OBalance ] [0; 1; 2; 0; 1; 0; 1; 2; 1; 0; 0; 1; 1; 0]%nat;
    (* other requests cut or failing anywhere *)
    HCrash (OMeltQuote true true 106 106 20000 None 105) 2; HFault (OMeltQuote true true 106 106 20000 None 105) (fun k => k =? 1);
    HCrash (OMintQuote true 8 0 131 132) 1; HFault (ORotate 100) (fun k => k =? 2); HCrash (ORestart 0 false) 1;
    HFault (OWatcher 131) (fun _ => true); HCrash (OMintState 111) 1; HFault OBalance (fun k => k =? 1);
    HNormal (ORestart 0 false); HNormal (OMeltQuote true true 106 106 20000 None 105) ].

Example cut_history_ok :
  let cfg := mkCfg 0 0 0 false 2 in
  Forall cut_item cut_history /\ Forall item_u64 cut_history /\ hhonest cfg world0 cut_history /\
  let w := hrun cfg world0 cut_history in
  (vS w, vR w, vOut w, map mq_state (d_mq (w_db w))) = (128, 112, 0, [3; 3; 3; 3]).
Proof.
  cbv zeta. split; [|split; [|split; [|vm_compute; reflexivity]]].
  - unfold cut_history.
    repeat (constructor; [first [exact I | (cbn; repeat (constructor; [first [exact I | (cbn; unfold two64; repeat constructor; lia)]|]); constructor)]|]).
    constructor.
  - unfold cut_history. repeat (constructor; [cbn; repeat constructor; cbn; unfold two64; lia|]). constructor.
  - apply hhonestb_ok. vm_compute. reflexivity.
Qed.
