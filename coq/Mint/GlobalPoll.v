(* C05, "exactly when / only when": what can happen to a melt quote, and who can do it.
   A state poll or a proof-state check (any number of quotes polled) leaves every melt quote as it is, except that a PENDING quote may
   become PAID with the preimage of a SUCCESS answer the backend had for its payment hash, or UNPAID on a FAILED answer.
   No other operation changes a PENDING quote at all. *)
From Coq Require Import ZArith List Bool Lia.
From Verif Require Import Model Sem InvDb InvSwap InvMint InvMelt Corollaries Queries Footprint Global GlobalQuote GlobalValue GlobalErr GlobalMelt GlobalLedger.
Import ListNotations.
Open Scope Z_scope.

Definition scripted (w : world) (h : Z) (a : answer) : Prop := In (h, a) (l_look (w_ln w)).
Definition look_sub (w w' : world) : Prop := forall x, In x (l_look (w_ln w')) -> In x (l_look (w_ln w)).

Definition poll_change (w : world) (q q' : lquote) : Prop :=
  q' = q \/
  (lq_state q = 1 /\ exists a, scripted w (lq_hash q) a /\ a_kind a = 0 /\ q' = with_state q 2 (a_pre a)) \/
  (lq_state q = 1 /\ exists a, scripted w (lq_hash q) a /\ a_kind a = 1 /\ q' = with_state q 0 0).

Definition poll_rel (w w' : world) : Prop :=
  look_sub w w' /\
  forall id q, find_lq id (d_lq (w_db w)) = Some q -> exists q', find_lq id (d_lq (w_db w')) = Some q' /\ poll_change w q q'.

Lemma poll_rel_refl w : poll_rel w w.
Proof. split; [intros x Hx; exact Hx|]. intros id q Hq. exists q. split; [exact Hq|left; reflexivity]. Qed.

Lemma poll_rel_trans a b c : poll_rel a b -> poll_rel b c -> poll_rel a c.
Proof.
  intros [S1 R1] [S2 R2]. split; [intros x Hx; apply S1; apply S2; exact Hx|].
  intros id q Hq. destruct (R1 id q Hq) as [q1 [H1 C1]]. destruct (R2 id q1 H1) as [q2 [H2 C2]].
  exists q2. split; [exact H2|].
  assert (Hup : forall x, scripted b (lq_hash q) x -> scripted a (lq_hash q) x) by (intros x Hx; apply S1; exact Hx).
  destruct C1 as [->|[[Hs [x [Hx [Hk ->]]]]|[Hs [x [Hx [Hk ->]]]]]].
  - destruct C2 as [->|[[Hs [x [Hx [Hk ->]]]]|[Hs [x [Hx [Hk ->]]]]]]; [left; reflexivity| |].
    + right. left. split; [exact Hs|]. exists x. repeat split; [apply Hup; exact Hx|exact Hk].
    + right. right. split; [exact Hs|]. exists x. repeat split; [apply Hup; exact Hx|exact Hk].
  - destruct C2 as [->|[[Hs2 _]|[Hs2 _]]]; [|discriminate Hs2|discriminate Hs2].
    right. left. split; [exact Hs|]. exists x. repeat split; assumption.
  - destruct C2 as [->|[[Hs2 _]|[Hs2 _]]]; [|discriminate Hs2|discriminate Hs2].
    right. right. split; [exact Hs|]. exists x. repeat split; assumption.
Qed.

Lemma pop_in h l d a rest : pop h l d = (a, rest) -> a = d \/ In (h, a) l.
Proof.
  revert a rest. induction l as [|[h' x] r IH]; intros a rest; cbn [pop]; [intros H; inversion H; left; reflexivity|].
  destruct (h' =? h) eqn:E.
  - intros H. inversion H; subst. right. left. apply Z.eqb_eq in E. subst. reflexivity.
  - destruct (pop h r d) as [y r'] eqn:Ep. intros H. inversion H; subst.
    destruct (IH a r' eq_refl) as [Hd|Hin]; [left; exact Hd|right; right; exact Hin].
Qed.

Lemma find_lq_upd i id pre st l :
  find_lq i (upd_lq id pre st l) =
  match find_lq i l with Some q => Some (if lq_id q =? id then with_state q st pre else q) | None => None end.
Proof.
  unfold find_lq, upd_lq. induction l as [|x l IH]; cbn [map find]; [reflexivity|].
  destruct (lq_id x =? id) eqn:E; cbn [lq_id]; destruct (lq_id x =? i) eqn:Ei.
  - rewrite E. reflexivity.
  - exact IH.
  - rewrite E. reflexivity.
  - exact IH.
Qed.

Lemma run_look_sub {R} (p : prog R) f w : look_sub w (fst (run p f w)).
Proof.
  apply (run_only (fun _ => true) look_sub); [intros w0 x Hx; exact Hx|intros a b c H1 H2 x Hx; apply H1; apply H2; exact Hx| |apply only_true].
  intros c fault w0 _ x Hx. apply (exec_look_subset c fault w0). exact Hx.
Qed.

Lemma poll_rel_db_same w w' : w_db w' = w_db w -> look_sub w w' -> poll_rel w w'.
Proof.
  intros Hd Hs. split; [exact Hs|]. intros id q Hq. exists q. rewrite Hd. split; [exact Hq|left; reflexivity].
Qed.

(* one poll *)
Lemma poll_poll_rel id w : Good w -> poll_rel w (fst (run (get_melt_quote_state id) no_fault w)).
Proof.
  intros Hg. pose proof (run_look_sub (get_melt_quote_state id) no_fault w) as Hsub.
  destruct (poll_spec id w (g_inv w Hg) (g_dis w Hg)) as [w' [r [Hrun [_ Hr]]]]. rewrite Hrun in *. cbn [fst] in *.
  destruct (find_lq id (d_lq (w_db w))) as [q|] eqn:Ef; [|apply poll_rel_db_same; [apply Hr|exact Hsub]].
  destruct (lq_state q =? 1) eqn:E1; [|apply poll_rel_db_same; [apply Hr|exact Hsub]]. cbv zeta in Hr.
  apply Z.eqb_eq in E1.
  destruct ((a_kind (next_look w (lq_hash q)) =? 3) || (a_kind (next_look w (lq_hash q)) =? 4)) eqn:E34; [apply poll_rel_db_same; [apply Hr|exact Hsub]|].
  apply orb_false_iff in E34 as [E3 E4]. apply Z.eqb_neq in E3.
  assert (Hscr : scripted w (lq_hash q) (next_look w (lq_hash q))).
  { unfold next_look, scripted in *. destruct (pop (lq_hash q) (l_look (w_ln w)) (mkAns 3 0)) as [a rest] eqn:Ep. cbn [fst] in *.
    destruct (pop_in _ _ _ _ _ Ep) as [->|Hin]; [exfalso; apply E3; reflexivity|exact Hin]. }
  assert (Hupd : forall pre st, d_lq (w_db w') = upd_lq id pre st (d_lq (w_db w)) ->
            (forall q0, find_lq id (d_lq (w_db w)) = Some q0 -> poll_change w q0 (with_state q0 st pre)) -> poll_rel w w').
  { intros pre st Hlq Hch. split; [exact Hsub|]. intros i q0 Hq0. rewrite Hlq, find_lq_upd, Hq0. eexists. split; [reflexivity|].
    destruct (lq_id q0 =? id) eqn:Ei; [|left; reflexivity].
    apply Hch. destruct (find_lq_in _ _ _ Hq0) as [_ Hid]. apply Z.eqb_eq in Ei. rewrite Hid in Ei. subst i. exact Hq0. }
  destruct (a_kind (next_look w (lq_hash q)) =? 0) eqn:E0.
  { destruct Hr as [_ [_ [_ [Hlq _]]]]. apply (Hupd _ _ Hlq). intros q0 Hq0. rewrite Ef in Hq0. injection Hq0 as <-.
    right. left. split; [exact E1|]. exists (next_look w (lq_hash q)). repeat split; [exact Hscr|apply Z.eqb_eq; exact E0]. }
  destruct (a_kind (next_look w (lq_hash q)) =? 1) eqn:E1'.
  { destruct Hr as [_ [_ [_ [Hlq _]]]]. apply (Hupd _ _ Hlq). intros q0 Hq0. rewrite Ef in Hq0. injection Hq0 as <-.
    right. right. split; [exact E1|]. exists (next_look w (lq_hash q)). repeat split; [exact Hscr|apply Z.eqb_eq; exact E1']. }
  apply poll_rel_db_same; [apply Hr|exact Hsub].
Qed.

(* any number of polls: the state check *)
Definition PR (w0 : world) (w : world) : Prop := Good w /\ poll_rel w0 w.

Lemma pr_frame_reads {R} allowed (p : prog R) w0 w :
  only allowed p -> (forall c, allowed c = true -> c_reads c = true /\ c_sp c = false) ->
  PR w0 w -> PR w0 (fst (run p no_fault w)).
Proof.
  intros Ho Ha [Hg Hr]. split; [eapply good_frame; [exact Ho|intros c Hc; apply Ha; exact Hc|exact Hg]|].
  eapply poll_rel_trans; [exact Hr|]. apply poll_rel_db_same; [|apply run_look_sub].
  apply (frame_db_reads allowed); [exact Ho|intros c Hc; apply Ha; exact Hc].
Qed.

Lemma check_poll_rel ys w : Good w -> poll_rel w (fst (run (proofs_state_check ys) no_fault w)).
Proof.
  intros Hg. assert (Hw : PR w w) by (split; [exact Hg|apply poll_rel_refl]).
  enough (PR w (fst (run (proofs_state_check ys) no_fault w))) as [_ H] by exact H.
  unfold proofs_state_check. rewrite run_do.
  destruct (exec (GetPending ys) false w) as [w1 r1] eqn:E1.
  assert (H1 : PR w w1).
  { change w1 with (fst (w1, r1)). rewrite <- E1.
    pose proof (pr_frame_reads (fun c => match c with GetPending _ => true | _ => false end) (Do (GetPending ys) (fun _ => Ret tt)) w w) as H.
    rewrite run_do in H. destruct (exec (GetPending ys) false w) as [wa ra]. apply H; [|intros c Hc; destruct c; cbn in *; split; congruence|exact Hw].
    constructor; [reflexivity|]. intros; constructor. }
  destruct r1 as [pend|]; cbv beta iota; [|exact H1].
  apply (inv_bind (PR w)).
  - apply (for_each_inv (PR w)); [|exact H1]. intros q w0 [Hg0 Hr0]. apply (inv_bind (PR w)).
    + split; [apply poll_good; exact Hg0|]. eapply poll_rel_trans; [exact Hr0|apply poll_poll_rel; exact Hg0].
    + intros g w2 Hw2. destruct g; exact Hw2.
  - intros v w2 Hw2. destruct v as [u|e]; [|exact Hw2].
    apply (pr_frame_reads (fun c => match c with GetPending _ | GetUsed _ => true | _ => false end)); [|intros c Hc; destruct c; cbn in *; split; congruence|exact Hw2].
    fp.
Qed.

(* C05: a state poll or a state check changes a melt quote only by adopting a definitive answer the backend had for it *)
Theorem polls_only_adopt_definitive_answers cfg w o :
  Good w -> is_poll o -> poll_rel w (fst (step cfg no_fault w o)).
Proof.
  intros Hg Hp. assert (H0 : Good (reset_calls w)) by (destruct Hg as [Hi Hd]; split; assumption).
  assert (Hrc : poll_rel w (reset_calls w)) by (apply poll_rel_db_same; [reflexivity|intros x Hx; exact Hx]).
  unfold step. destruct o; try (destruct Hp); cbn [is_env prepare op_prog]; rewrite run_lift.
  - pose proof (poll_poll_rel id (reset_calls w) H0) as H1.
    destruct (run (get_melt_quote_state id) no_fault (reset_calls w)) as [w' [[x|e]| |]]; cbn [fst] in *; (eapply poll_rel_trans; [exact Hrc|exact H1]).
  - pose proof (check_poll_rel ys (reset_calls w) H0) as H1.
    destruct (run (proofs_state_check ys) no_fault (reset_calls w)) as [w' [[x|e]| |]]; cbn [fst] in *; (eapply poll_rel_trans; [exact Hrc|exact H1]).
Qed.

Lemma find_app_some {X} (f : X -> bool) l l' x : find f l = Some x -> find f (l ++ l') = Some x.
Proof. induction l as [|y l IH]; cbn [find app]; [discriminate|]. destruct (f y); [auto|exact IH]. Qed.

(* ... and nothing but a poll or a check touches a PENDING quote: requests, melts of other quotes, melts of this quote (refused),
   restarts, rotations, environment steps all leave it exactly as it is *)
Theorem pending_quote_waits_for_a_poll cfg w o id q :
  Good w -> ~ is_poll o -> find_lq id (d_lq (w_db w)) = Some q -> lq_state q = 1 ->
  find_lq id (d_lq (w_db (fst (step cfg no_fault w o)))) = Some q.
Proof.
  intros Hg Hnp Hq Hs.
  assert (Hframe : (forall c, fp_op o c = true -> c_lq c = false) -> d_lq (w_db (fst (step cfg no_fault w o))) = d_lq (w_db w)).
  { intros Ha. unfold step. destruct (is_env o) eqn:Ee; cbn [fst]; [rewrite apply_env_db; reflexivity|].
    destruct (run _ no_fault (prepare o w)) as [w' r] eqn:E. cbn [fst].
    assert (H0 : d_lq (w_db (prepare o w)) = d_lq (w_db w)) by (rewrite prepare_db; reflexivity).
    rewrite <- H0. change w' with (fst (w', r)). rewrite <- E. apply (frame_lq (fp_op o)); [apply only_op|exact Ha]. }
  destruct o; try (rewrite Hframe; [exact Hq|cbn [fp_op]; intros c Hc; destruct c; cbn in *; congruence]).
  - (* OMeltQuote: appends at most one quote with a fresh id *)
    unfold step. cbn [is_env prepare op_prog]. rewrite run_lift.
    pose proof (request_melt_quote_tables cfg unit_ok decodes req h msat mpp newid (reset_calls w)) as [_ Ha].
    destruct (run (request_melt_quote cfg unit_ok decodes req h msat mpp newid) no_fault (reset_calls w)) as [w' [[x|e]| |]]; cbn [fst] in *;
      (destruct Ha as [Ha|[qn [Ha _]]]; rewrite Ha; [exact Hq|unfold find_lq in *; apply find_app_some; exact Hq]).
  - (* OMeltState *) exfalso. apply Hnp. exact I.
  - (* OMelt *)
    unfold step. cbn [is_env prepare op_prog]. rewrite run_lift.
    assert (H0 : WInv (reset_calls w)) by apply Hg.
    destruct (melt_tokens_spec cfg (w_mem (reset_calls w)) id0 ins (reset_calls w) H0) as [w' [r [Hrun [_ Hr]]]]. rewrite Hrun.
    assert (Hother : forall q0 st pre, find_lq id0 (d_lq (w_db w)) = Some q0 -> lq_state q0 <> 1 ->
              d_lq (w_db w') = upd_lq id0 pre st (d_lq (w_db w)) -> find_lq id (d_lq (w_db w')) = Some q).
    { intros q0 st pre Hq0 Hn1 Hlq. rewrite Hlq, find_lq_upd, Hq. destruct (lq_id q =? id0) eqn:E; [|reflexivity].
      exfalso. destruct (find_lq_in _ _ _ Hq) as [Hin Hid]. destruct (find_lq_in _ _ _ Hq0) as [Hin0 Hid0]. apply Z.eqb_eq in E.
      assert (q = q0) by (apply (unique_lq (d_lq (w_db w))); [apply (inv_lq _ (g_inv w Hg))|exact Hin|exact Hin0|congruence]). subst q0. contradiction. }
    destruct r as [q'|e]; cbn [fst].
    + destruct Hr as [q0 [Hf [Hval Hr]]]. cbn [reset_calls w_db] in Hf. destruct Hval as [_ [Hn1 _]].
      destruct (internal_mq q0 (w_db (reset_calls w))).
      * destruct Hr as [pre [_ [[_ [_ [Hlq _]]] _]]]. exact (Hother q0 _ _ Hf Hn1 Hlq).
      * destruct Hr as [_ [[_ [_ [Hlq _]]] _]]. exact (Hother q0 _ _ Hf Hn1 Hlq).
    + destruct Hr as [[Hd _]|[_ [q0 [Hf [Hval [[_ [_ [Hlq _]]] _]]]]]]; [rewrite Hd; exact Hq|].
      cbn [reset_calls w_db] in Hf. destruct Hval as [_ [Hn1 _]]. exact (Hother q0 _ _ Hf Hn1 Hlq).
  - (* OCheck *) exfalso. apply Hnp. exact I.
Qed.

(* the three outcomes exist: a melt whose payment stays in flight is PENDING; a poll adopts a scripted SUCCESS (preimage 9) /
   a scripted FAILURE; an ambiguous answer changes nothing *)
Definition poll_prefix : list op :=
  [ ORestart 0 false; OMintQuote true 64 0 101 102; ESettle 102; OMint 101 [mkBmsg 104 64 0 0 true 103] 0;
    OMeltQuote true true 106 106 20000 None 105; EScriptPay 106 (mkAns 2 0);
    OMelt 105 [mkProof 103 64 0 (CSig 0 64 103) 0 false true false] ].

Example poll_outcomes :
  let cfg := mkCfg 0 0 0 false 1 in
  let w := reach cfg poll_prefix in
  let st v := map lq_state (d_lq (w_db v)) in
  let pre v := map lq_preimage (d_lq (w_db v)) in
  st w = [1] /\
  (let v := fst (run_history cfg w [EScriptLook 106 (mkAns 0 9); OMeltState 105]) in st v = [2] /\ pre v = [9] /\ d_pending (w_db v) = []) /\
  (let v := fst (run_history cfg w [EScriptLook 106 (mkAns 1 0); OCheck [103]]) in st v = [0] /\ d_pending (w_db v) = [] /\ d_spent (w_db v) = []) /\
  (let v := fst (run_history cfg w [EScriptLook 106 (mkAns 2 0); OMeltState 105; OCheck [103]]) in st v = [1] /\ length (d_pending (w_db v)) = 1%nat).
Proof. vm_compute. repeat split. Qed.
