(* The calls a run makes, in order: the observable the correspondence check compares with the calls the Go method made
   (names of storage.MintDB / lightning.Client methods as the harness's wrappers saw them). *)
From Coq Require Import ZArith List Bool.
From Verif Require Import Model Sem.
Import ListNotations.
Open Scope Z_scope.

Definition cmd_tag (c : cmd) : Z :=
  match c with
  | GetPending _ => 1 | GetUsed _ => 2 | GetPendingByQuote _ => 3
  | SaveProofs _ => 4 | AddPending _ => 5 | RemovePending _ => 6
  | GetSigs _ => 7 | GetSig _ => 8 | SaveSigs _ => 9
  | GetMintQuote _ => 10 | GetMintQuoteByHash _ => 11 | SaveMintQuote _ => 12 | UpdateMintQuote _ _ => 13
  | GetMeltQuote _ => 14 | GetMeltQuoteByReq _ => 15 | SaveMeltQuote _ => 16 | UpdateMeltQuote _ _ _ => 17
  | GetIssued => 18 | GetRedeemed => 19
  | GetKeysets => 20 | SaveKeyset _ => 21 | UpdateKeysetActive _ _ => 22 | GetSeed => 23
  | MemSetKeysets _ _ => 0
  | LnCreateInvoice _ _ => 30 | LnInvoiceStatus _ => 31 | LnPay _ _ _ _ partial => if partial then 33 else 32 | LnLookup _ => 34
  end.

Fixpoint run_log {R} (p : prog R) (f : oracle) (w : world) : world * outcome R * list Z :=
  match p with
  | Ret r => (w, Done r, [])
  | Panic => (w, Panicked, [])
  | Do c k => let '(w', r) := exec c (f (w_calls w) && is_call c) w in
              let '(w'', o, l) := run_log (k r) f w' in
              (w'', o, if is_call c then cmd_tag c :: l else l)
  end.

Fixpoint run_n_log {R} (n : nat) (p : prog R) (f : oracle) (w : world) : world * outcome R * list Z :=
  match p with
  | Ret r => (w, Done r, [])
  | Panic => (w, Panicked, [])
  | Do c k =>
      if is_call c then
        match n with
        | O => (w, Crashed, [])
        | S n' => let '(w', r) := exec c (f (w_calls w)) w in
                  let '(w'', o, l) := run_n_log n' (k r) f w' in (w'', o, cmd_tag c :: l)
        end
      else let '(w', r) := exec c false w in run_n_log n (k r) f w'
  end.

Lemma run_log_run {R} (p : prog R) f : forall w, fst (run_log p f w) = run p f w.
Proof.
  induction p as [r|c k IH|]; intros w; cbn [run_log run]; try reflexivity.
  destruct (exec c (f (w_calls w) && is_call c) w) as [w' r]. specialize (IH r w').
  destruct (run_log (k r) f w') as [[w'' o] l]. cbn [fst] in *. exact IH.
Qed.

Lemma run_n_log_run {R} (p : prog R) f : forall n w, fst (run_n_log n p f w) = run_n n p f w.
Proof.
  induction p as [r|c k IH|]; intros n w; cbn [run_n_log run_n]; try reflexivity.
  destruct (is_call c).
  - destruct n as [|n']; [reflexivity|]. destruct (exec c (f (w_calls w)) w) as [w' r]. specialize (IH r n' w').
    destruct (run_n_log n' (k r) f w') as [[w'' o] l]. cbn [fst] in *. exact IH.
  - destruct (exec c false w) as [w' r]. apply IH.
Qed.

(* the number of logged calls is the number of calls *)
Lemma run_log_calls {R} (p : prog R) f : forall w, length (snd (run_log p f w)) = calls_of p f w.
Proof.
  induction p as [r|c k IH|]; intros w; cbn [run_log calls_of]; try reflexivity.
  destruct (exec c (f (w_calls w) && is_call c) w) as [w' r]. specialize (IH r w').
  destruct (run_log (k r) f w') as [[w'' o] l]. cbn [snd] in *. destruct (is_call c); cbn [length]; rewrite IH; reflexivity.
Qed.

Definition step_log (cfg : config) (f : oracle) (w : world) (o : op) : world * opres * list Z :=
  if is_env o then (apply_env o w, RUnit, []) else
  let w0 := prepare o w in
  let '(w', r, l) := run_log (op_prog cfg (w_mem w0) (w_active w0) o) f w0 in
  (w', of_outcome r, l).

Definition step_crash_log (cfg : config) (k : nat) (w : world) (o : op) : world * opres * list Z :=
  if is_env o then (apply_env o w, RUnit, []) else
  let w0 := prepare o w in
  let '(w', r, l) := run_n_log k (op_prog cfg (w_mem w0) (w_active w0) o) no_fault w0 in
  (w', of_outcome r, l).

Theorem step_log_step cfg f w o : fst (step_log cfg f w o) = step cfg f w o.
Proof.
  unfold step_log, step. destruct (is_env o); [reflexivity|].
  pose proof (run_log_run (op_prog cfg (w_mem (prepare o w)) (w_active (prepare o w)) o) f (prepare o w)) as H.
  destruct (run_log _ f (prepare o w)) as [[w' r] l]. cbn [fst] in H. rewrite <- H. reflexivity.
Qed.

Theorem step_crash_log_step cfg k w o : fst (step_crash_log cfg k w o) = step_crash cfg k w o.
Proof.
  unfold step_crash_log, step_crash. destruct (is_env o); [reflexivity|].
  pose proof (run_n_log_run (op_prog cfg (w_mem (prepare o w)) (w_active (prepare o w)) o) no_fault k (prepare o w)) as H.
  destruct (run_n_log k _ no_fault (prepare o w)) as [[w' r] l]. cbn [fst] in H. rewrite <- H. reflexivity.
Qed.
