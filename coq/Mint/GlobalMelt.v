(* C05 for answer scripts of any length: as long as the backend's answers are ambiguous (error, still in flight, not found -
   anything but a definitive success or failure), no sequence of quote polls and proof-state checks, however long, releases
   or spends the inputs of an in-flight melt or changes its quote; the first definitive answer is adopted by the very next
   poll (poll_spec). *)
From Coq Require Import ZArith List Bool Lia.
From Verif Require Import Model Sem InvDb InvSwap InvMint InvMelt Corollaries Queries Footprint Global GlobalQuote GlobalValue GlobalErr HRel.
Import ListNotations.
Open Scope Z_scope.

Definition ambiguous (a : answer) : Prop := a_kind a <> 0 /\ a_kind a <> 1.

Definition look_ambiguous (w : world) : Prop := forall x, In x (l_look (w_ln w)) -> ambiguous (snd x).

Lemma pop_subset h l dflt x : In x (snd (pop h l dflt)) -> In x l.
Proof.
  induction l as [|[h' a] r IH]; cbn [pop snd]; [auto|].
  destruct (h' =? h); cbn [snd]; [intros H; right; exact H|].
  destruct (pop h r dflt) as [y r'] eqn:E. cbn [snd] in *. intros [<-|H]; [left; reflexivity|right; apply IH; exact H].
Qed.

Lemma pop_in h l dflt : fst (pop h l dflt) = dflt \/ In (h, fst (pop h l dflt)) l.
Proof.
  induction l as [|[h' a] r IH]; cbn [pop fst]; [left; reflexivity|].
  destruct (h' =? h) eqn:E; cbn [fst]; [right; left; apply Z.eqb_eq in E; subst; reflexivity|].
  destruct (pop h r dflt) as [y r'] eqn:E2. cbn [fst] in *. destruct IH as [IH|IH]; [left; exact IH|right; right; exact IH].
Qed.

(* no command ever adds a scripted lookup answer: command level *)
Lemma exec_look_subset c fault w x : In x (l_look (w_ln (fst (exec c fault w)))) -> In x (l_look (w_ln w)).
Proof.
  unfold exec. destruct (fault && is_storage c); cbn [fst]; [destruct (is_call c); auto|].
  destruct c; cbn [is_call fst];
    try (match goal with |- context [exec_db ?c0 ?d] => destruct (exec_db c0 d) as [d' r'] end; cbn [fst w_ln]; auto); auto.
  - destruct (l_createerr _ || _); cbn [fst w_ln set_ln l_look]; auto.
  - destruct (l_inverr _); cbn [fst]; auto. destruct (find _ _); cbn [fst]; auto.
  - cbn [w_ln l_pay]. destruct (pop h (l_pay (w_ln w)) (mkAns 0 1)) as [a rest]. cbn [fst w_ln set_ln l_look]. auto.
  - cbn [w_ln l_look]. destruct (pop h (l_look (w_ln w)) (mkAns 3 0)) as [a rest] eqn:E. cbn [fst w_ln set_ln l_look].
    intros H. apply (pop_subset h _ (mkAns 3 0)). rewrite E. exact H.
Qed.

Lemma run_look_ambiguous {R} (p : prog R) f w : look_ambiguous w -> look_ambiguous (fst (run p f w)).
Proof.
  intros H. assert (Hsub : forall x, In x (l_look (w_ln (fst (run p f w)))) -> In x (l_look (w_ln w))).
  { revert f w H. induction p as [r|c k IH|]; intros f w H x; cbn [run fst]; auto.
    destruct (exec c (f (w_calls w) && is_call c) w) as [w' r] eqn:E. intros Hx.
    apply (exec_look_subset c (f (w_calls w) && is_call c) w). rewrite E. cbn [fst].
    apply (IH r f w'); [|exact Hx]. intros y Hy. apply H. apply (exec_look_subset c (f (w_calls w) && is_call c) w). rewrite E. exact Hy. }
  intros x Hx. apply H. apply Hsub. exact Hx.
Qed.

Lemma next_look_ambiguous w h : look_ambiguous w -> ambiguous (next_look w h).
Proof.
  intros H. unfold next_look. destruct (pop_in h (l_look (w_ln w)) (mkAns 3 0)) as [E|Hin].
  - rewrite E. split; discriminate.
  - apply (H _ Hin).
Qed.

Lemma poll_ambiguous_db id w : Good w -> look_ambiguous w -> w_db (fst (run (get_melt_quote_state id) no_fault w)) = w_db w.
Proof.
  intros [Hi Hd] Ha. destruct (poll_spec id w Hi Hd) as [w' [r [Hrun [_ Hr]]]]. rewrite Hrun. cbn [fst].
  destruct (find_lq id (d_lq (w_db w))) as [q|]; [|apply Hr].
  destruct (lq_state q =? 1); [|apply Hr]. cbv zeta in Hr.
  destruct (next_look_ambiguous w (lq_hash q) Ha) as [A0 A1].
  destruct ((a_kind (next_look w (lq_hash q)) =? 3) || (a_kind (next_look w (lq_hash q)) =? 4)); [apply Hr|].
  apply Z.eqb_neq in A0, A1. rewrite A0, A1 in Hr. apply Hr.
Qed.

Definition amb_ok (d : db) (w : world) : Prop := Good w /\ look_ambiguous w /\ w_db w = d.

Lemma poll_amb d id w : amb_ok d w -> amb_ok d (fst (run (get_melt_quote_state id) no_fault w)).
Proof.
  intros [Hg [Ha Hd]]. split; [apply poll_good; exact Hg|]. split; [apply run_look_ambiguous; exact Ha|].
  rewrite poll_ambiguous_db; assumption.
Qed.

Lemma check_amb d ys w : amb_ok d w -> amb_ok d (fst (run (proofs_state_check ys) no_fault w)).
Proof.
  intros Hw. unfold proofs_state_check. rewrite run_do.
  destruct (exec (GetPending ys) false w) as [w1 r1] eqn:E1.
  assert (H1 : amb_ok d w1).
  { destruct Hw as [Hg [Ha Hd]]. assert (Hw1 : w1 = fst (run (Do (GetPending ys) (fun _ => Ret tt)) no_fault w)) by (rewrite run_do, E1; reflexivity).
    rewrite Hw1. split; [|split].
    - apply (good_frame (fun c => match c with GetPending _ => true | _ => false end)); [constructor; [reflexivity|intros; constructor]|intros c; destruct c; cbn; congruence|exact Hg].
    - apply run_look_ambiguous. exact Ha.
    - rewrite (frame_db_reads (fun c => match c with GetPending _ => true | _ => false end)); [exact Hd|constructor; [reflexivity|intros; constructor]|intros c; destruct c; cbn; congruence]. }
  destruct r1 as [pend|]; cbv beta iota; [|exact H1].
  apply (inv_bind (amb_ok d)).
  - apply (for_each_inv (amb_ok d)); [|exact H1]. intros q w0 Hw0. apply (inv_bind (amb_ok d)); [apply poll_amb; exact Hw0|].
    intros g w2 Hw2. destruct g; exact Hw2.
  - intros v w2 [Hg2 [Ha2 Hd2]]. destruct v as [u|e]; [|split; [|split]; assumption].
    set (k := call r2 <- GetPending ys ;; match r2 with RErr => fail EDb | ROk pend2 => call r3 <- GetUsed ys ;; match r3 with RErr => fail EDb | ROk used =>
              Ret (Ok (map (fun y => match find (fun r => r_y r =? y) used with Some r => (y, 2, r_wit r) | None => match find (fun r => r_y r =? y) pend2 with Some r => (y, 1, r_wit r) | None => (y, 0, 0) end end) ys)) end end).
    assert (Hk : only (fun c => match c with GetPending _ | GetUsed _ => true | _ => false end) k) by (unfold k; fp).
    split; [|split].
    + apply (good_frame _ k w2 Hk); [intros c; destruct c; cbn; congruence|exact Hg2].
    + apply run_look_ambiguous. exact Ha2.
    + rewrite (frame_db_reads _ k Hk); [exact Hd2|intros c; destruct c; cbn; congruence].
Qed.

Definition is_poll (o : op) : Prop := match o with OMeltState _ | OCheck _ => True | _ => False end.

(* any number of polls and state checks against a backend that only gives ambiguous answers: the store does not change -
   the inputs stay locked, the quote stays PENDING, nothing is spent, nothing is released *)
Theorem ambiguous_backend_never_resolves cfg h : forall w,
  Good w -> look_ambiguous w -> Forall is_poll h ->
  w_db (fst (run_history cfg w h)) = w_db w.
Proof.
  assert (G : forall hh w d, amb_ok d w -> Forall is_poll hh -> amb_ok d (fst (run_history cfg w hh))).
  { clear h. induction hh as [|o r IH]; intros w d Hw Hp; [exact Hw|]. inversion Hp as [|? ? Ho Hr]; subst.
    rewrite run_history_fst. apply IH; [|exact Hr].
    unfold step. destruct o; try (destruct Ho); cbn [is_env prepare op_prog]; rewrite run_lift.
    - assert (H0 : amb_ok d (reset_calls w)) by (destruct Hw as [[Hi Hdj] [Ha Hd]]; split; [split; assumption|split; assumption]).
      pose proof (poll_amb d id (reset_calls w) H0) as H1.
      destruct (run (get_melt_quote_state id) no_fault (reset_calls w)) as [w' [[x|e]| |]]; exact H1.
    - assert (H0 : amb_ok d (reset_calls w)) by (destruct Hw as [[Hi Hdj] [Ha Hd]]; split; [split; assumption|split; assumption]).
      pose proof (check_amb d ys (reset_calls w) H0) as H1.
      destruct (run (proofs_state_check ys) no_fault (reset_calls w)) as [w' [[x|e]| |]]; exact H1. }
  intros w Hg Ha Hp. apply (G h w (w_db w)); [split; [exact Hg|split; [exact Ha|reflexivity]]|exact Hp].
Qed.
