(* A relation between worlds that is reflexive, transitive, respected by every single command (whatever it returns,
   whatever fault is injected), by environment steps and by the bookkeeping at the start of a request, relates the
   start and the end of EVERY history: requests, injected storage errors, crash cuts, concurrent schedules. *)
From Coq Require Import ZArith List Bool Lia.
From Verif Require Import Model Sem InvDb.
Import ListNotations.
Open Scope Z_scope.

Section HRel.
  Variable Rel : world -> world -> Prop.
  Hypothesis Rel_refl : forall w, Rel w w.
  Hypothesis Rel_trans : forall a b c, Rel a b -> Rel b c -> Rel a c.
  Hypothesis Rel_exec : forall c fault w, Rel w (fst (exec c fault w)).
  Hypothesis Rel_env : forall o w, Rel w (apply_env o w).
  Hypothesis Rel_prepare : forall o w, Rel w (prepare o w).
  Hypothesis Rel_reset : forall w, Rel w (reset_calls w).

  Lemma rel_run {R} (p : prog R) : forall f w, Rel w (fst (run p f w)).
  Proof.
    induction p as [r|c k IH|]; intros f w; cbn [run fst]; try apply Rel_refl.
    destruct (exec c (f (w_calls w) && is_call c) w) as [w' r] eqn:E.
    eapply Rel_trans; [|apply IH]. change w' with (fst (w', r)). rewrite <- E. apply Rel_exec.
  Qed.

  Lemma rel_run_n {R} (p : prog R) : forall n f w, Rel w (fst (run_n n p f w)).
  Proof.
    induction p as [r|c k IH|]; intros n f w; cbn [run_n fst]; try apply Rel_refl.
    destruct (is_call c).
    - destruct n as [|n']; [apply Rel_refl|].
      destruct (exec c (f (w_calls w)) w) as [w' r] eqn:E.
      eapply Rel_trans; [|apply IH]. change w' with (fst (w', r)). rewrite <- E. apply Rel_exec.
    - destruct (exec c false w) as [w' r] eqn:E.
      eapply Rel_trans; [|apply IH]. change w' with (fst (w', r)). rewrite <- E. apply Rel_exec.
  Qed.

  Lemma rel_step_thread (p : prog opres) : forall w, Rel w (fst (step_thread p w)).
  Proof.
    induction p as [r|c k IH|]; intros w; cbn [step_thread fst]; try apply Rel_refl.
    destruct (exec c false w) as [w' r] eqn:E.
    assert (Hw' : Rel w w') by (change w' with (fst (w', r)); rewrite <- E; apply Rel_exec).
    destruct (is_call c); cbn [fst]; [exact Hw'|]. eapply Rel_trans; [exact Hw'|apply IH].
  Qed.

  Lemma rel_interleave sched : forall ts w, Rel w (fst (interleave sched ts w)).
  Proof.
    induction sched as [|i r IH]; intros ts w; cbn [interleave fst]; [apply Rel_refl|].
    destruct (nth_error ts i) as [p|]; [|apply IH].
    destruct (step_thread p w) as [w' p'] eqn:E.
    eapply Rel_trans; [|apply IH]. change w' with (fst (w', p')). rewrite <- E. apply rel_step_thread.
  Qed.

  Lemma rel_finish_all ts : forall w, Rel w (fst (finish_all ts w)).
  Proof.
    induction ts as [|p r IH]; intros w; cbn [finish_all fst]; [apply Rel_refl|].
    destruct (run p no_fault w) as [w1 x] eqn:E.
    assert (H1 : Rel w w1) by (change w1 with (fst (w1, x)); rewrite <- E; apply rel_run).
    destruct (finish_all r w1) as [w2 xs] eqn:E2. cbn [fst].
    eapply Rel_trans; [exact H1|]. change w2 with (fst (w2, xs)). rewrite <- E2. apply IH.
  Qed.

  Lemma rel_step cfg f w o : Rel w (fst (step cfg f w o)).
  Proof.
    unfold step. destruct (is_env o); cbn [fst]; [apply Rel_env|].
    destruct (run _ f (prepare o w)) as [w' r] eqn:E. cbn [fst].
    eapply Rel_trans; [apply Rel_prepare|]. change w' with (fst (w', r)). rewrite <- E. apply rel_run.
  Qed.

  Lemma rel_step_crash cfg k w o : Rel w (fst (step_crash cfg k w o)).
  Proof.
    unfold step_crash. destruct (is_env o); cbn [fst]; [apply Rel_env|].
    destruct (run_n k _ no_fault (prepare o w)) as [w' r] eqn:E. cbn [fst].
    eapply Rel_trans; [apply Rel_prepare|]. change w' with (fst (w', r)). rewrite <- E. apply rel_run_n.
  Qed.

  Lemma rel_concurrent cfg w ops sched : Rel w (fst (run_concurrent cfg w ops sched)).
  Proof.
    unfold run_concurrent.
    destruct (interleave sched _ (reset_calls w)) as [w1 ts1] eqn:E.
    eapply Rel_trans; [apply Rel_reset|]. eapply Rel_trans; [|apply rel_finish_all].
    change w1 with (fst (w1, ts1)). rewrite <- E. apply rel_interleave.
  Qed.

  Theorem rel_hrun cfg h : forall w, Rel w (hrun cfg w h).
  Proof.
    induction h as [|it r IH]; intros w; cbn [hrun fold_left]; [apply Rel_refl|].
    eapply Rel_trans; [|apply IH].
    destruct it; cbn [hstep]; [apply rel_step|apply rel_step|apply rel_step_crash|apply rel_concurrent].
  Qed.
End HRel.
