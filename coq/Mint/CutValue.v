(* C07/C02, value at every cut of a Swap: for every store content, every injected storage error and every crash cut,
   the store after the (partial) Swap is one of exactly three things relative to the store before it:
     (0) unchanged;
     (1) the inputs are in the spent table and nothing was signed (value was burned, never created);
     (2) the inputs are in the spent table and exactly the requested outputs were signed - and then every check of the
         request had passed, so the signed amount plus fees is covered by the inputs.
   Hence Δissued <= Δredeemed at every cut: no crash point or storage error of a Swap creates value. *)
From Coq Require Import ZArith List Bool Lia.
From Verif Require Import Model Sem InvDb InvSwap InvMint InvMelt Corollaries Queries Footprint Global GlobalQuote GlobalValue.
Import ListNotations.
Open Scope Z_scope.

Definition cut_state (mem_ks : list ksrow) (ins : list proof) (outs : list bmsg) (w w' : world) : Prop :=
  ExecKeepsRest w w' /\
  ((d_spent (w_db w') = d_spent (w_db w) /\ d_sigs (w_db w') = d_sigs (w_db w)) \/
   (check_proofs mem_ks ins = None /\ swap_gate mem_ks ins outs <> None /\
    filter (fun r => mem (r_y r) (map p_secret ins)) (d_pending (w_db w)) = [] /\
    d_spent (w_db w') = d_spent (w_db w) ++ map (to_row 0) ins /\
    (d_sigs (w_db w') = d_sigs (w_db w) \/ d_sigs (w_db w') = d_sigs (w_db w) ++ sig_rows outs))).

Ltac fin0 :=
  cbn [run_n fst fail bind];
  split; [repeat split | left; split; reflexivity].

Theorem swap_cut_states mem_ks active ins outs sg n f w :
  cut_state mem_ks ins outs w (fst (run_n n (swap mem_ks active ins outs sg) f w)).
Proof.
  unfold cut_state, swap.
  destruct (amount_checked (map b_amount outs) 0) as [oa|] eqn:Eoa; [|fin0].
  destruct (nodupb (map b_B outs)) eqn:Edo; cbn [negb]; [|fin0].
  destruct (sum64 (map p_amount ins) <? tx_fees mem_ks ins) eqn:Ef; [fin0|].
  destruct (sum64 (map p_amount ins) - tx_fees mem_ks ins <? oa) eqn:Ei; [fin0|].
  assert (Hgate : swap_gate mem_ks ins outs <> None).
  { unfold swap_gate. rewrite Eoa, Edo. cbn [negb]. rewrite Ef, Ei. discriminate. }
  unfold verify_proofs.
  destruct ins as [|p0 ins']; [fin0|]. set (ins := p0 :: ins') in *.
  destruct w as [d l m a nc].
  cbn [bind].
  (* GetPending *)
  destruct n as [|n]; [fin0|]. cbn [run_n is_call w_calls].
  destruct (f nc); cbn [exec is_call is_storage andb fault_resp exec_db w_db w_ln w_mem w_active w_calls]; [fin0|].
  destruct (filter (fun r => mem (r_y r) (map p_secret ins)) (d_pending d)) as [|x xs] eqn:Epend; [|fin0].
  cbn [bind].
  (* GetUsed *)
  destruct n as [|n]; [fin0|]. cbn [run_n is_call w_calls].
  destruct (f (nc + 1)); cbn [exec is_call is_storage andb fault_resp exec_db w_db w_ln w_mem w_active w_calls]; [fin0|].
  destruct (filter (fun r => mem (r_y r) (map p_secret ins)) (d_spent d)) as [|y ys]; [|fin0].
  destruct (nodupb (map p_secret ins)); cbn [negb]; [|fin0].
  destruct (check_proofs mem_ks ins) as [e|] eqn:Ecp; [fin0|].
  cbn [bind].
  (* GetSigs *)
  destruct n as [|n]; [fin0|]. cbn [run_n is_call w_calls].
  destruct (f (nc + 1 + 1)); cbn [exec is_call is_storage andb fault_resp exec_db w_db w_ln w_mem w_active w_calls]; [fin0|].
  destruct (filter (fun s => mem (s_B s) (map b_B outs)) (d_sigs d)) as [|z zs]; [|fin0].
  destruct (existsb p_sigall ins && negb sg); [fin0|].
  destruct (check_outputs mem_ks active outs); [fin0|].
  (* SaveProofs *)
  destruct n as [|n]; [fin0|]. cbn [run_n is_call w_calls].
  destruct (f (nc + 1 + 1 + 1)); cbn [exec is_call is_storage andb fault_resp exec_db w_db w_ln w_mem w_active w_calls]; [fin0|].
  destruct (nodupb (ys_of (map (to_row 0) ins) ++ ys_of (d_spent d))); [|fin0].
  cbn [set_spent d_spent d_pending d_sigs d_mq d_lq d_ks].
  (* SaveSigs *)
  destruct n as [|n].
  { cbn [run_n is_call fst w_db w_ln w_mem w_active set_spent set_sigs d_spent d_pending d_sigs d_mq d_lq d_ks].
    split; [repeat split|]. right. split; [first [assumption|reflexivity]|]. split; [assumption|]. split; [first [exact Epend|reflexivity]|]. split; [reflexivity|]. left; reflexivity. }
  cbn [run_n is_call w_calls].
  destruct (f (nc + 1 + 1 + 1 + 1)); cbn [exec is_call is_storage andb fault_resp exec_db w_db w_ln w_mem w_active w_calls set_spent d_spent d_pending d_sigs d_mq d_lq d_ks].
  { cbn [run_n fst fail w_db w_ln w_mem w_active set_spent set_sigs d_spent d_pending d_sigs d_mq d_lq d_ks].
    split; [repeat split|]. right. split; [first [assumption|reflexivity]|]. split; [assumption|]. split; [first [exact Epend|reflexivity]|]. split; [reflexivity|]. left; reflexivity. }
  destruct (nodupb (map s_B (sig_rows outs) ++ map s_B (d_sigs d))).
  - cbn [run_n fst fail w_db w_ln w_mem w_active set_spent set_sigs d_spent d_pending d_sigs d_mq d_lq d_ks].
    split; [repeat split|]. right. split; [first [assumption|reflexivity]|]. split; [assumption|]. split; [first [exact Epend|reflexivity]|]. split; [reflexivity|]. right; reflexivity.
  - cbn [run_n fst fail w_db w_ln w_mem w_active set_spent set_sigs d_spent d_pending d_sigs d_mq d_lq d_ks].
    split; [repeat split|]. right. split; [first [assumption|reflexivity]|]. split; [assumption|]. split; [first [exact Epend|reflexivity]|]. split; [reflexivity|]. left; reflexivity.
Qed.

(* ---------- value ---------- *)

Lemma gate_balanced mem_ks ins outs :
  swap_gate mem_ks ins outs <> None -> check_proofs mem_ks ins = None ->
  Forall (fun x => 0 <= x < two64) (map b_amount outs) ->
  0 <= tsum (map p_amount ins) /\ tsum (map b_amount outs) + tx_fees mem_ks ins <= tsum (map p_amount ins).
Proof.
  intros Hgate Hcp Hout. unfold swap_gate in Hgate.
  destruct (amount_checked (map b_amount outs) 0) as [oa|] eqn:Eoa; [|congruence].
  destruct (negb (nodupb (map b_B outs))); [congruence|].
  destruct (sum64 (map p_amount ins) <? tx_fees mem_ks ins) eqn:E1; [congruence|].
  destruct (sum64 (map p_amount ins) - tx_fees mem_ks ins <? oa) eqn:E2; [congruence|].
  apply Z.ltb_ge in E1, E2.
  apply amount_checked_sum in Eoa; [|unfold two64; lia|exact Hout].
  assert (Hin : Forall (fun x => 0 <= x) (map p_amount ins)).
  { apply Forall_forall. intros x Hx. apply in_map_iff in Hx as [p [<- Hp]].
    apply check_proofs_forall with (p := p) in Hcp; [|exact Hp]. apply check_proof_iff in Hcp as [_ [_ [Hk _]]].
    unfold is_key_amount in Hk. apply existsb_exists in Hk as [i [_ Hi]]. apply Z.eqb_eq in Hi. rewrite Hi.
    apply Z.pow_nonneg. lia. }
  pose proof (sum64_le _ Hin) as Hle. pose proof (tsum_nonneg _ Hin). lia.
Qed.

(* no cut and no storage error of a Swap creates value: what was signed is covered by what was burned *)
Theorem swap_cut_no_value_created mem_ks active ins outs sg n f w :
  Forall (fun x => 0 <= x < two64) (map b_amount outs) ->
  let w' := fst (run_n n (swap mem_ks active ins outs sg) f w) in
  vS w' - vS w <= vR w' - vR w.
Proof.
  intros Hu. cbv zeta. destruct (swap_cut_states mem_ks active ins outs sg n f w) as [_ [[Hsp Hsg]|[Hcp [Hgate [_ [Hsp Hsg]]]]]];
    unfold vS, vR.
  - rewrite Hsp, Hsg. lia.
  - destruct (gate_balanced mem_ks ins outs Hgate Hcp Hu) as [H0 Hbal]. pose proof (tx_fees_nonneg mem_ks ins) as F0.
    rewrite Hsp. destruct Hsg as [Hsg|Hsg]; rewrite Hsg, !map_app, !tsum_app, tsum_to_row; [lia|].
    rewrite tsum_sig_rows. lia.
Qed.

(* the invariants of the whole-history theorems survive every cut of a Swap *)
Lemma swap_cut_good mem_ks active ins outs sg n f w :
  Good w -> Good (fst (run_n n (swap mem_ks active ins outs sg) f w)).
Proof.
  intros [Hi Hd]. split; [apply run_n_inv; exact Hi|].
  destruct (swap_cut_states mem_ks active ins outs sg n f w) as [[_ [_ [_ [Hpe _]]]] [[Hsp _]|[_ [_ [Hfree [Hsp _]]]]]];
    intros y Hy Hp; rewrite Hsp in Hy; rewrite Hpe in Hp; [exact (Hd y Hy Hp)|].
  unfold ys_of in Hy. rewrite map_app in Hy. apply in_app_or in Hy as [Hy|Hy]; [exact (Hd y Hy Hp)|].
  rewrite map_map in Hy. cbn [to_row r_y] in Hy.
  unfold ys_of in Hp. apply in_map_iff in Hp as [r [Hr Hin]].
  assert (Hf : In r (filter (fun r => mem (r_y r) (map p_secret ins)) (d_pending (w_db w)))).
  { apply filter_In. split; [exact Hin|]. apply mem_In. rewrite Hr. exact Hy. }
  rewrite Hfree in Hf. destruct Hf.
Qed.

Lemma swap_cut_vinv mem_ks active ins outs sg n f w iss :
  Forall (fun x => 0 <= x < two64) (map b_amount outs) ->
  VInv w iss -> VInv (fst (run_n n (swap mem_ks active ins outs sg) f w)) iss.
Proof.
  intros Hu [V1 V2 V3 V4].
  pose proof (swap_cut_no_value_created mem_ks active ins outs sg n f w Hu) as Hval. cbv zeta in Hval.
  destruct (swap_cut_states mem_ks active ins outs sg n f w) as [[_ [_ [_ [Hpe [Hmq [Hlq _]]]]]] _].
  split.
  - rewrite Hlq. intros q Hq. specialize (V1 q Hq). unfold lq_ok, rows_sum, rows_of_quote in *. rewrite Hpe. exact V1.
  - rewrite Hmq. exact V2.
  - rewrite Hpe, Hlq. exact V3.
  - unfold vOut in *. rewrite Hlq, Hmq. lia.
Qed.

(* ---------- histories whose swaps are cut or hit by storage errors anywhere ---------- *)

Lemma run_n_lift_fst {X Y} (g : X -> Y) (p : prog X) : forall n f w,
  fst (run_n n (bind p (fun x => Ret (g x))) f w) = fst (run_n n p f w).
Proof.
  induction p as [r|c k IH|]; intros n f w; cbn [bind run_n]; try reflexivity.
  destruct (is_call c).
  - destruct n as [|n']; [reflexivity|]. destruct (exec c (f (w_calls w)) w) as [w' r]. apply IH.
  - destruct (exec c false w) as [w' r]. apply IH.
Qed.

Lemma run_as_run_n {R} (p : prog R) : forall f w, exists n, run p f w = run_n n p f w.
Proof.
  induction p as [r|c k IH|]; intros f w; cbn [run run_n]; try (exists O; reflexivity).
  destruct (is_call c) eqn:Ec.
  - rewrite andb_true_r. destruct (exec c (f (w_calls w)) w) as [w' r] eqn:E.
    destruct (IH r f w') as [n Hn]. exists (S n). exact Hn.
  - rewrite andb_false_r. destruct (exec c false w) as [w' r] eqn:E.
    destruct (IH r f w') as [n Hn]. exists n. exact Hn.
Qed.

