(* Semantics of programs: sequential run with an injected-fault oracle, crash after k calls,
   interleaving of several programs under a schedule; history operations and their step. *)
From Coq Require Import ZArith List Bool Lia.
From Verif Require Import Model.
Import ListNotations.
Open Scope Z_scope.

(* fault oracle: position of the call within the running operation -> inject a storage error? *)
Definition oracle := Z -> bool.
Definition no_fault : oracle := fun _ => false.

Inductive outcome (R : Type) := Done (r : R) | Crashed | Panicked.
Arguments Done {R} r.
Arguments Crashed {R}.
Arguments Panicked {R}.

(* run with at most n storage/Lightning calls executed (None: unbounded is run_all below) *)
Fixpoint run_n {R} (n : nat) (p : prog R) (f : oracle) (w : world) : world * outcome R :=
  match p with
  | Ret r => (w, Done r)
  | Panic => (w, Panicked)
  | Do c k =>
      if is_call c then
        match n with
        | O => (w, Crashed)
        | S n' => let '(w', r) := exec c (f (w_calls w)) w in run_n n' (k r) f w'
        end
      else let '(w', r) := exec c false w in run_n n (k r) f w'
  end.

Fixpoint run {R} (p : prog R) (f : oracle) (w : world) : world * outcome R :=
  match p with
  | Ret r => (w, Done r)
  | Panic => (w, Panicked)
  | Do c k => let '(w', r) := exec c (f (w_calls w) && is_call c) w in run (k r) f w'
  end.

(* number of storage/Lightning calls a run makes *)
Fixpoint calls_of {R} (p : prog R) (f : oracle) (w : world) : nat :=
  match p with
  | Ret _ | Panic => O
  | Do c k => let '(w', r) := exec c (f (w_calls w) && is_call c) w in
              (if is_call c then 1 else 0)%nat + calls_of (k r) f w'
  end.

(* ------------------------------------------------------------------ operations of a history *)

Inductive op :=
| OMintQuote (unit_ok : bool) (amount pubkey newid newhash : Z)
| OMintState (id : Z)
| OMint (id : Z) (outs : list bmsg) (sig : Z)
| OSwap (ins : list proof) (outs : list bmsg) (outs_signed : bool)
| OMeltQuote (unit_ok decodes : bool) (req h msat : Z) (mpp : option Z) (newid : Z)
| OMeltState (id : Z)
| OMelt (id : Z) (ins : list proof)
| OCheck (ys : list Z)
| ORestore (bs : list Z)
| ORotate (fee : Z)
| ORestart (fee : Z) (rotate : bool)
| OWatcher (id : Z)
| OBalance
| OInfo
(* environment steps *)
| ESettle (h : Z)
| EScriptPay (h : Z) (a : answer)
| EScriptLook (h : Z) (a : answer)
| ESetInvErr (b : bool)
| ESetCreateErr (b : bool).

Inductive opres :=
| RSigs (l : list srow)
| RMq (q : mquote)
| RLq (q : lquote)
| RStates (l : list (Z * Z * Z))
| RUnit
| RBal (z : Z)
| RBool (b : bool)
| RFail (e : err)
| RPanic
| RCrash.

Definition lift {X} (f : X -> opres) (p : prog (result X)) : prog opres :=
  perform r <- p ;; Ret (match r with Ok x => f x | Err e => RFail e end).

Definition is_env (o : op) : bool :=
  match o with
  | ESettle _ | EScriptPay _ _ | EScriptLook _ _ | ESetInvErr _ | ESetCreateErr _ => true
  | _ => false
  end.

(* the program of a request, given the configuration and the in-memory keysets at its start *)
Definition op_prog (cfg : config) (mem_ks : list ksrow) (active : Z) (o : op) : prog opres :=
  match o with
  | OMintQuote u a pk id h => lift RMq (request_mint_quote cfg u a pk id h)
  | OMintState id => lift RMq (get_mint_quote_state id)
  | OMint id outs sig => lift RSigs (mint_tokens mem_ks active id outs sig)
  | OSwap ins outs sg => lift RSigs (swap mem_ks active ins outs sg)
  | OMeltQuote u d req h msat mpp id => lift RLq (request_melt_quote cfg u d req h msat mpp id)
  | OMeltState id => lift RLq (get_melt_quote_state id)
  | OMelt id ins => lift RLq (melt_tokens cfg mem_ks id ins)
  | OCheck ys => lift RStates (proofs_state_check ys)
  | ORestore bs => lift RSigs (restore_sigs bs [])
  | ORotate fee => lift (fun _ => RUnit) (rotate_keyset mem_ks active fee)
  | ORestart fee rot => lift (fun _ => RUnit) (load_mint fee rot)
  | OWatcher id => perform _ <- watcher_fire id ;; Ret RUnit
  | OBalance => lift RBal total_balance
  | OInfo => lift RBool (info_disabled cfg)
  | _ => Ret RUnit
  end.

Definition upd_ln (w : world) (f : ln -> ln) : world := set_ln w (f (w_ln w)).

Definition apply_env (o : op) (w : world) : world :=
  match o with
  | ESettle h =>
      upd_ln w (fun l => mkLn (map (fun i => if i_hash i =? h then mkInv (i_hash i) (i_amount i) true (i_own i) (i_msat i) else i) (l_inv l))
                              (l_pay l) (l_look l) (l_calls l) (l_inverr l) (l_createerr l))
  | EScriptPay h a => upd_ln w (fun l => mkLn (l_inv l) (l_pay l ++ [(h, a)]) (l_look l) (l_calls l) (l_inverr l) (l_createerr l))
  | EScriptLook h a => upd_ln w (fun l => mkLn (l_inv l) (l_pay l) (l_look l ++ [(h, a)]) (l_calls l) (l_inverr l) (l_createerr l))
  | ESetInvErr b => upd_ln w (fun l => mkLn (l_inv l) (l_pay l) (l_look l) (l_calls l) b (l_createerr l))
  | ESetCreateErr b => upd_ln w (fun l => mkLn (l_inv l) (l_pay l) (l_look l) (l_calls l) (l_inverr l) b)
  | _ => w
  end.

(* positions are counted per operation *)
Definition reset_calls (w : world) : world := mkWorld (w_db w) (w_ln w) (w_mem w) (w_active w) 0.

(* a restart forgets the memory of the process *)
Definition prepare (o : op) (w : world) : world :=
  match o with
  | ORestart _ _ => mkWorld (w_db w) (w_ln w) [] (-1) 0
  | _ => reset_calls w
  end.

Definition of_outcome (o : outcome opres) : opres :=
  match o with Done r => r | Crashed => RCrash | Panicked => RPanic end.

(* one operation run to completion, with injected faults *)
Definition step (cfg : config) (f : oracle) (w : world) (o : op) : world * opres :=
  if is_env o then (apply_env o w, RUnit) else
  let w0 := prepare o w in
  let '(w', r) := run (op_prog cfg (w_mem w0) (w_active w0) o) f w0 in
  (w', of_outcome r).

(* one operation cut after k calls (the process dies there) *)
Definition step_crash (cfg : config) (k : nat) (w : world) (o : op) : world * opres :=
  if is_env o then (apply_env o w, RUnit) else
  let w0 := prepare o w in
  let '(w', r) := run_n k (op_prog cfg (w_mem w0) (w_active w0) o) no_fault w0 in
  (w', of_outcome r).

Fixpoint run_history (cfg : config) (w : world) (h : list op) : world * list opres :=
  match h with
  | [] => (w, [])
  | o :: r => let '(w1, x) := step cfg no_fault w o in
              let '(w2, xs) := run_history cfg w1 r in (w2, x :: xs)
  end.

Definition reach (cfg : config) (h : list op) : world := fst (run_history cfg world0 h).

(* ------------------------------------------------------------------ interleavings *)

(* one turn of a thread: its memory assignments up to and including its next storage/Lightning call *)
Fixpoint step_thread (p : prog opres) (w : world) : world * prog opres :=
  match p with
  | Do c k => let '(w', r) := exec c false w in if is_call c then (w', k r) else step_thread (k r) w'
  | _ => (w, p)
  end.

Fixpoint upd_nth {X} (n : nat) (x : X) (l : list X) : list X :=
  match l, n with
  | [], _ => []
  | _ :: r, O => x :: r
  | y :: r, S n' => y :: upd_nth n' x r
  end.

(* schedule: which thread makes its next storage/LN/memory step; threads that are finished ignore their turn *)
Fixpoint interleave (sched : list nat) (ts : list (prog opres)) (w : world) : world * list (prog opres) :=
  match sched with
  | [] => (w, ts)
  | i :: r =>
      match nth_error ts i with
      | None => interleave r ts w
      | Some p => let '(w', p') := step_thread p w in interleave r (upd_nth i p' ts) w'
      end
  end.

(* run every thread to completion in order after the schedule is exhausted *)
Fixpoint finish_all (ts : list (prog opres)) (w : world) : world * list opres :=
  match ts with
  | [] => (w, [])
  | p :: r => let '(w1, x) := run p no_fault w in
              let '(w2, xs) := finish_all r w1 in (w2, of_outcome x :: xs)
  end.

Definition run_concurrent (cfg : config) (w : world) (ops : list op) (sched : list nat) : world * list opres :=
  let w0 := reset_calls w in
  let ts := map (op_prog cfg (w_mem w0) (w_active w0)) ops in
  let '(w1, ts1) := interleave sched ts w0 in
  finish_all ts1 w1.
