(* C07: the invariants of the whole-history value theorems at EVERY crash cut and under EVERY storage-error oracle of the
   requests that never settle a melt: quote requests, quote-state checks of mint quotes, the invoice watcher, restore,
   balance/info queries, keyset rotation and restart.  (Swap: CutValue.v, MintTokens: CutMint.v.) *)
From Coq Require Import ZArith List Bool Lia.
From Verif Require Import Model Sem InvDb InvSwap InvMint InvMelt Corollaries Queries Footprint Global GlobalQuote GlobalValue.
Import ListNotations.
Open Scope Z_scope.

(* ---------- frames of run_n ---------- *)

Lemma run_n_settled_mono {R} (p : prog R) n f w : settled_mono w (fst (run_n n p f w)).
Proof.
  apply (run_n_only (fun _ => true) settled_mono); [intros w0 h H; exact H|intros a b c H1 H2 h H; apply H2; apply H1; exact H| |apply only_true].
  intros c fault w0 _. apply exec_settled_mono.
Qed.

Lemma run_n_mq_ext {R} (p : prog R) n f w : w_mq_ext w (fst (run_n n p f w)).
Proof.
  apply (run_n_only (fun _ => true) w_mq_ext); [intros; apply mq_ext_refl|intros a b c; apply mq_ext_trans| |apply only_true].
  intros c fault w0 _. apply exec_mq_ext.
Qed.

Section FramesN.
  Variable allowed : cmd -> bool.

  Lemma frame_n (sel : cmd -> bool) (Rel : world -> world -> Prop) {R} (p : prog R) :
    (forall w, Rel w w) -> (forall a b c, Rel a b -> Rel b c -> Rel a c) ->
    (forall c fault w, sel c = false -> Rel w (fst (exec c fault w))) ->
    only allowed p -> (forall c, allowed c = true -> sel c = false) ->
    forall n f w, Rel w (fst (run_n n p f w)).
  Proof.
    intros Hr Ht He Hp Ha. apply (run_n_only allowed Rel Hr Ht); [|exact Hp].
    intros c fault w Hc. apply He. apply Ha. exact Hc.
  Qed.

  Lemma exec_same_sp c fault w : c_sp c = false -> same_sp w (fst (exec c fault w)).
  Proof.
    intros Hc. destruct (exec_world c fault w) as [_ [_ [Hd|[_ Hd]]]]; unfold same_sp; rewrite Hd; [split; reflexivity|].
    apply exec_db_frames. exact Hc.
  Qed.
  Lemma exec_same_sigs c fault w : c_sigs c = false -> same_sigs w (fst (exec c fault w)).
  Proof.
    intros Hc. destruct (exec_world c fault w) as [_ [_ [Hd|[_ Hd]]]]; unfold same_sigs; rewrite Hd; [reflexivity|].
    apply exec_db_frames. exact Hc.
  Qed.
  Lemma exec_same_lq c fault w : c_lq c = false -> same_lq w (fst (exec c fault w)).
  Proof.
    intros Hc. destruct (exec_world c fault w) as [_ [_ [Hd|[_ Hd]]]]; unfold same_lq; rewrite Hd; [reflexivity|].
    apply exec_db_frames. exact Hc.
  Qed.
  Lemma exec_same_mq c fault w : c_mq c = false -> same_mq w (fst (exec c fault w)).
  Proof.
    intros Hc. destruct (exec_world c fault w) as [_ [_ [Hd|[_ Hd]]]]; unfold same_mq; rewrite Hd; [reflexivity|].
    apply exec_db_frames. exact Hc.
  Qed.

  Lemma frame_n_sp {R} (p : prog R) : only allowed p -> (forall c, allowed c = true -> c_sp c = false) ->
    forall n f w, same_sp w (fst (run_n n p f w)).
  Proof.
    apply (frame_n c_sp same_sp); [intros w; split; reflexivity|intros a b c [H1 H2] [H3 H4]; split; congruence|apply exec_same_sp].
  Qed.
  Lemma frame_n_sigs {R} (p : prog R) : only allowed p -> (forall c, allowed c = true -> c_sigs c = false) ->
    forall n f w, same_sigs w (fst (run_n n p f w)).
  Proof.
    apply (frame_n c_sigs same_sigs); [intros w; reflexivity|unfold same_sigs; intros a b c H1 H2; congruence|apply exec_same_sigs].
  Qed.
  Lemma frame_n_lq {R} (p : prog R) : only allowed p -> (forall c, allowed c = true -> c_lq c = false) ->
    forall n f w, same_lq w (fst (run_n n p f w)).
  Proof.
    apply (frame_n c_lq same_lq); [intros w; reflexivity|unfold same_lq; intros a b c H1 H2; congruence|apply exec_same_lq].
  Qed.
  Lemma frame_n_mq {R} (p : prog R) : only allowed p -> (forall c, allowed c = true -> c_mq c = false) ->
    forall n f w, same_mq w (fst (run_n n p f w)).
  Proof.
    apply (frame_n c_mq same_mq); [intros w; reflexivity|unfold same_mq; intros a b c H1 H2; congruence|apply exec_same_mq].
  Qed.

  (* no write to the proof tables, the signature table or the melt quotes: Good and VInv survive every cut *)
  Lemma vi_frame_n {R} (p : prog R) iss w n f :
    only allowed p -> (forall c, allowed c = true -> c_sp c = false /\ c_sigs c = false /\ c_lq c = false) ->
    VI iss w -> VI iss (fst (run_n n p f w)).
  Proof.
    intros Ho Ha [Hg [Hv Hi]].
    pose proof (run_n_mq_ext p n f w) as Hmq.
    assert (Hsp : same_sp w (fst (run_n n p f w))) by (apply frame_n_sp; [exact Ho|intros c Hc; apply Ha; exact Hc]).
    split.
    { split; [apply run_n_inv; apply Hg|]. eapply disjoint_same_sp; [exact Hsp|apply Hg]. }
    split; [|eapply ids_mono; eassumption].
    apply (vinv_frame w); [|exact Hmq|exact Hi|exact Hv].
    apply same_value_of_frames; [exact Hsp| |].
    - apply frame_n_sigs; [exact Ho|intros c Hc; apply Ha; exact Hc].
    - apply frame_n_lq; [exact Ho|intros c Hc; apply Ha; exact Hc].
  Qed.

  (* ... and no write to the mint quotes either: QInv survives too *)
  Lemma qinv_frame_n {R} (p : prog R) iss cred w n f :
    only allowed p -> (forall c, allowed c = true -> c_mq c = false) ->
    QInv w iss cred -> QInv (fst (run_n n p f w)) iss cred.
  Proof.
    intros Ho Ha Hq. apply (qinv_same w); [|apply run_n_settled_mono|exact Hq].
    apply frame_n_mq; assumption.
  Qed.
End FramesN.

(* ---------- RequestMintQuote: at every cut, unpaid quotes are appended at most ---------- *)

Lemma request_mint_quote_appends_n cfg u a pk id h n f w :
  appends_unpaid w (fst (run_n n (request_mint_quote cfg u a pk id h) f w)).
Proof.
  apply (run_n_only fp_mint_quote0 appends_unpaid).
  - intros w0. exists []. rewrite app_nil_r. split; [reflexivity|constructor].
  - intros x y z [l1 [H1 F1]] [l2 [H2 F2]]. exists (l1 ++ l2). rewrite H2, H1, app_assoc. split; [reflexivity|].
    apply Forall_app. split; assumption.
  - intros c fault w0 Hc. destruct (exec_world c fault w0) as [_ [_ [Hd|[_ Hd]]]]; unfold appends_unpaid; rewrite Hd.
    + exists []. rewrite app_nil_r. split; [reflexivity|constructor].
    + destruct c; cbn [fp_mint_quote0] in Hc; try discriminate Hc; cbn [exec_db fst];
        try (exists []; rewrite app_nil_r; split; [reflexivity|constructor]).
      destruct (sql_int_ok (mq_amount q) && negb (mem (mq_id q) (map mq_id (d_mq (w_db w0))))); cbn [fst set_mq d_mq].
      * exists [q]. split; [reflexivity|]. constructor; [apply Z.eqb_eq; exact Hc|constructor].
      * exists []. rewrite app_nil_r. split; [reflexivity|constructor].
  - apply only_request_mint_quote0.
Qed.

Lemma mint_quote_cut_inv cfg u a pk id h n f w iss cred :
  QInv w iss cred -> VI iss w ->
  let w' := fst (run_n n (request_mint_quote cfg u a pk id h) f w) in QInv w' iss cred /\ VI iss w'.
Proof.
  intros Hq Hv. cbv zeta. split.
  - destruct (request_mint_quote_appends_n cfg u a pk id h n f w) as [l [Hl Fl]].
    eapply qinv_append; [exact Hl|exact Fl| |apply run_n_settled_mono|exact Hq].
    apply (inv_mq _ (run_n_inv _ n f w (g_inv w (proj1 Hv)))).
  - apply (vi_frame_n fp_mint_quote); [apply only_request_mint_quote| |exact Hv].
    intros c Hc; destruct c; cbn in *; repeat split; congruence.
Qed.

(* ---------- GetMintQuoteState and the watcher: UNPAID -> PAID only, and only for a settled invoice ---------- *)

Definition paid_step (id : Z) (w w' : world) : Prop :=
  d_mq (w_db w') = d_mq (w_db w) \/
  exists q, find_mq id (d_mq (w_db w)) = Some q /\ mq_state q = 0 /\ d_mq (w_db w') = upd_mq id 1 (d_mq (w_db w)).

Lemma get_state_cut id n f w :
  let w' := fst (run_n n (get_mint_quote_state id) f w) in
  d_mq (w_db w') = d_mq (w_db w) \/
  exists q, find_mq id (d_mq (w_db w)) = Some q /\ mq_state q = 0 /\ settled w (mq_hash q) = true /\
            d_mq (w_db w') = upd_mq id 1 (d_mq (w_db w)).
Proof.
  cbv zeta. unfold get_mint_quote_state. destruct w as [d l m a nc].
  set (w0 := {| w_db := d; w_ln := l; w_mem := m; w_active := a; w_calls := nc |}).
  set (P := fun w' : world => d_mq (w_db w') = d_mq (w_db w0) \/
     exists q, find_mq id (d_mq (w_db w0)) = Some q /\ mq_state q = 0 /\ settled w0 (mq_hash q) = true /\
               d_mq (w_db w') = upd_mq id 1 (d_mq (w_db w0))).
  change (P (fst (run_n n (call r <- GetMintQuote id ;;
     match r with
     | RErr | ROk None => fail EQuoteNotExist
     | ROk (Some q) =>
       if mq_state q =? 0 then
         call st <- LnInvoiceStatus (mq_hash q) ;;
         match st with
         | RErr => fail ELn
         | ROk (true, _) =>
             call u <- UpdateMintQuote id 1 ;;
             match u with
             | RErr => fail EDb
             | ROk _ => Ret (Ok (mkMq (mq_id q) (mq_amount q) (mq_hash q) 1 (mq_pubkey q)))
             end
         | ROk (false, _) => Ret (Ok q)
         end
       else Ret (Ok q)
     end) f w0))).
  assert (Hsame : forall W o, w_db W = d -> P (fst (W, o : outcome (result mquote)))) by (intros W o HW; left; cbn [fst]; rewrite HW; reflexivity).
  unfold w0 at 1.
  destruct n as [|n]; [apply Hsame; reflexivity|]. cbn [run_n is_call w_calls].
  destruct (f nc); cbn [exec is_call is_storage andb fault_resp exec_db w_db w_ln w_mem w_active w_calls]; [apply Hsame; reflexivity|].
  destruct (find_mq id (d_mq d)) as [q|] eqn:Ef; [|apply Hsame; reflexivity].
  destruct (mq_state q =? 0) eqn:E0; [|apply Hsame; reflexivity]. apply Z.eqb_eq in E0.
  destruct n as [|n]; [apply Hsame; reflexivity|]. cbn [run_n is_call w_calls].
  unfold exec at 1. cbn [is_call is_storage andb w_db w_ln w_mem w_active w_calls]. rewrite ?andb_false_r.
  destruct (l_inverr l); [apply Hsame; reflexivity|].
  destruct (find (fun i => (i_hash i =? mq_hash q) && i_own i) (l_inv l)) as [i|] eqn:Ei; [|apply Hsame; reflexivity].
  destruct (i_settled i) eqn:Es; [|apply Hsame; reflexivity].
  destruct n as [|n]; [apply Hsame; reflexivity|]. cbn [run_n is_call w_calls].
  destruct (f (nc + 1 + 1)); cbn [exec is_call is_storage andb fault_resp exec_db w_db w_ln w_mem w_active w_calls]; [apply Hsame; reflexivity|].
  destruct (mem id (map mq_id (d_mq d))); [|apply Hsame; reflexivity].
  right. exists q. split; [exact Ef|]. split; [exact E0|]. split; [|reflexivity].
  unfold settled, w0. cbn [w_ln]. rewrite Ei. exact Es.
Qed.

Lemma watcher_cut id n f w : paid_step id w (fst (run_n n (watcher_fire id) f w)).
Proof.
  unfold watcher_fire. destruct w as [d l m a nc].
  set (w0 := {| w_db := d; w_ln := l; w_mem := m; w_active := a; w_calls := nc |}).
  assert (Hsame : forall W o, w_db W = d -> paid_step id w0 (fst (W, o : outcome unit))) by (intros W o HW; left; cbn [fst]; rewrite HW; reflexivity).
  unfold w0 at 2.
  destruct n as [|n]; [apply Hsame; reflexivity|]. cbn [run_n is_call w_calls].
  destruct (f nc); cbn [exec is_call is_storage andb fault_resp exec_db w_db w_ln w_mem w_active w_calls]; [apply Hsame; reflexivity|].
  destruct (find_mq id (d_mq d)) as [q|] eqn:Ef; [|apply Hsame; reflexivity].
  destruct n as [|n]; [apply Hsame; reflexivity|]. cbn [run_n is_call w_calls].
  destruct (f (nc + 1)); cbn [exec is_call is_storage andb fault_resp exec_db w_db w_ln w_mem w_active w_calls]; [apply Hsame; reflexivity|].
  rewrite Ef. destruct (mq_state q =? 0) eqn:E0; [|apply Hsame; reflexivity]. apply Z.eqb_eq in E0.
  destruct n as [|n]; [apply Hsame; reflexivity|]. cbn [run_n is_call w_calls].
  destruct (f (nc + 1 + 1)); cbn [exec is_call is_storage andb fault_resp exec_db w_db w_ln w_mem w_active w_calls]; [apply Hsame; reflexivity|].
  destruct (mem id (map mq_id (d_mq d))); [|apply Hsame; reflexivity].
  right. exists q. split; [exact Ef|]. split; [exact E0|reflexivity].
Qed.

(* a quote goes UNPAID -> PAID while its invoice is settled: QInv is kept *)
Lemma qinv_paid_step id w w' iss cred :
  Good w -> settled_mono w w' ->
  (d_mq (w_db w') = d_mq (w_db w) \/
   exists q, find_mq id (d_mq (w_db w)) = Some q /\ mq_state q = 0 /\ settled w (mq_hash q) = true /\
             d_mq (w_db w') = upd_mq id 1 (d_mq (w_db w))) ->
  QInv w iss cred -> QInv w' iss cred.
Proof.
  intros Hg Hmono [Hd|[q [Hf [H0 [Hst Hd]]]]] Hq; [apply (qinv_same w); assumption|].
  change iss with ([] ++ iss); change cred with ([] ++ cred).
  destruct (find_mq_in _ _ _ Hf) as [Hin [Hid Hids]].
  eapply qinv_upd; [exact Hd|exact Hmono|intros x []|intros x []|exact Hids| |exact Hq].
  intros m Hm Hmid Hok. rewrite !cnt_nil. cbn [Z.add].
  assert (m = q) by (apply (unique_by_id (d_mq (w_db w))); [apply Hg|exact Hm|exact Hin|congruence]). subst m.
  destruct Hok as [_ [Hz _]]. specialize (Hz H0).
  assert (He : esett w' q = 1) by (unfold esett; rewrite (Hmono _ Hst); reflexivity).
  rewrite He. repeat split; intros; lia.
Qed.

Lemma mint_state_cut_inv id n f w iss cred :
  QInv w iss cred -> VI iss w ->
  let w' := fst (run_n n (get_mint_quote_state id) f w) in QInv w' iss cred /\ VI iss w'.
Proof.
  intros Hq Hv. cbv zeta. split.
  - apply (qinv_paid_step id w); [apply Hv|apply run_n_settled_mono|apply get_state_cut|exact Hq].
  - apply (vi_frame_n fp_mint_state); [apply only_mint_state| |exact Hv].
    intros c Hc; destruct c; cbn in *; repeat split; congruence.
Qed.

Lemma watcher_cut_inv id n f w iss cred :
  watcher_honest w (OWatcher id) ->
  QInv w iss cred -> VI iss w ->
  let w' := fst (run_n n (watcher_fire id) f w) in QInv w' iss cred /\ VI iss w'.
Proof.
  intros Hh Hq Hv. cbv zeta. split.
  - apply (qinv_paid_step id w); [apply Hv|apply run_n_settled_mono| |exact Hq].
    destruct (watcher_cut id n f w) as [Hd|[q [Hf [H0 Hd]]]]; [left; exact Hd|].
    right. exists q. split; [exact Hf|]. split; [exact H0|]. split; [|exact Hd].
    cbn [watcher_honest] in Hh. rewrite Hf in Hh. apply Hh. exact H0.
  - apply (vi_frame_n fp_mint_state); [apply only_watcher| |exact Hv].
    intros c Hc; destruct c; cbn in *; repeat split; congruence.
Qed.

(* ---------- RequestMeltQuote: at every cut the melt-quote table is unchanged or one small unpaid quote is appended ---------- *)

Lemma melt_quote_lq_cut cfg u d req h msat mpp newid n f w :
  cfg_ok cfg -> 0 <= msat -> match mpp with Some p => 0 <= p | None => True end ->
  let w' := fst (run_n n (request_melt_quote cfg u d req h msat mpp newid) f w) in
  d_lq (w_db w') = d_lq (w_db w) \/
  exists q, d_lq (w_db w') = d_lq (w_db w) ++ [q] /\ lq_state q = 0 /\
            0 <= lq_amount q /\ 0 <= lq_fee q /\ lq_amount q + lq_fee q < two63 /\
            ~ In (lq_id q) (map lq_id (d_lq (w_db w))).
Proof.
  intros [[Hm0 Hm1] Hpct] Hmsat Hmpp. cbv zeta. unfold request_melt_quote.
  destruct u; cbn [negb]; [|left; reflexivity].
  destruct d; cbn [negb]; [|left; reflexivity].
  destruct ((msat <=? 0) || (two63 <=? msat)); [left; reflexivity|].
  destruct w as [db l m a nc].
  destruct n as [|n]; [left; reflexivity|]. cbn [run_n is_call w_calls].
  assert (Hplan : forall (internal is_mpp : bool) (amount_msat qa : Z) (W : world), 0 <= qa -> w_db W = db ->
     let k := fun ex : res (option lquote) => match ex with
                | ROk (Some _) => fail EMeltExists
                | _ => call r <- SaveMeltQuote (mkLq newid req h qa (if internal then 0 else fee_reserve cfg qa) 0 0 is_mpp amount_msat) ;;
                       match r with RErr => fail EDb | ROk _ => Ret (Ok (mkLq newid req h qa (if internal then 0 else fee_reserve cfg qa) 0 0 is_mpp amount_msat)) end
                end in
     let w1 := fst (run_n n (if (0 <? c_max_melt cfg) && (c_max_melt cfg <? qa) then fail EMeltLimit else Do (GetMeltQuoteByReq req) k) f W) in
     d_lq (w_db w1) = d_lq db \/
     exists q, d_lq (w_db w1) = d_lq db ++ [q] /\ lq_state q = 0 /\ 0 <= lq_amount q /\ 0 <= lq_fee q /\
               lq_amount q + lq_fee q < two63 /\ ~ In (lq_id q) (map lq_id (d_lq db))).
  { intros internal is_mpp amount_msat qa W Hqa HW k. cbv zeta. destruct W as [db' l' m' a' nc']. cbn [w_db] in HW. subst db'.
    destruct ((0 <? c_max_melt cfg) && (c_max_melt cfg <? qa)) eqn:El; [left; reflexivity|].
    assert (Hqmax : qa <= c_max_melt cfg).
    { apply andb_false_iff in El as [El|El]; [apply Z.ltb_ge in El; lia|apply Z.ltb_ge in El; exact El]. }
    destruct n as [|n0]; [left; reflexivity|]. cbn [run_n is_call w_calls].
    set (fee := if internal then 0 else fee_reserve cfg qa).
    assert (Hfee : 0 <= fee <= qa) by (unfold fee; destruct internal; [lia|apply fee_reserve_le; assumption]).
    assert (Hsave : forall n1 W1, w_db W1 = db ->
              let w1 := fst (run_n n1 (call r <- SaveMeltQuote (mkLq newid req h qa fee 0 0 is_mpp amount_msat) ;;
                                       match r with RErr => fail EDb | ROk _ => Ret (Ok (mkLq newid req h qa fee 0 0 is_mpp amount_msat)) end) f W1) in
              d_lq (w_db w1) = d_lq db \/
              exists q, d_lq (w_db w1) = d_lq db ++ [q] /\ lq_state q = 0 /\ 0 <= lq_amount q /\ 0 <= lq_fee q /\
                        lq_amount q + lq_fee q < two63 /\ ~ In (lq_id q) (map lq_id (d_lq db))).
    { intros n1 W1 HW1. cbv zeta. destruct W1 as [db1 l1 m1 a1 nc1]. cbn [w_db] in HW1. subst db1.
      destruct n1 as [|n1]; [left; reflexivity|]. cbn [run_n is_call w_calls].
      destruct (f nc1); cbn [exec is_call is_storage andb fault_resp exec_db w_db w_ln w_mem w_active w_calls]; [left; reflexivity|].
      cbn [lq_amount lq_fee lq_msat lq_id].
      destruct (sql_int_ok qa && sql_int_ok fee && sql_int_ok amount_msat && negb (mem newid (map lq_id (d_lq db)))) eqn:Eg; [|left; reflexivity].
      right. eexists. split; [reflexivity|]. cbn [lq_state lq_amount lq_fee lq_id].
      apply andb_true_iff in Eg as [_ Eg]. apply negb_true_iff in Eg. apply mem_false in Eg.
      unfold two61, two63 in *. repeat split; try lia. exact Eg. }
    unfold k. fold fee.
    destruct (f nc'); cbn [exec is_call is_storage andb fault_resp exec_db w_db w_ln w_mem w_active w_calls].
    - apply Hsave. reflexivity.
    - destruct (find (fun q => lq_req q =? req) (d_lq db)); [left; reflexivity|]. apply Hsave. reflexivity. }
  assert (Hafter : forall (mq : res (option mquote)) (W : world), w_db W = db ->
     let internal := match same_invoice mq req with Some _ => true | None => false end in
     let plan : result (bool * Z * Z) :=
       match mpp with
       | None => Ok (false, 0, (msat + 999) / 1000)
       | Some part => if c_mpp cfg then if internal then Err EMpp else if msat <=? part then Err EMpp else Ok (true, part, (part + 999) / 1000)
                      else Err EMpp
       end in
     let w1 := fst (run_n n
        match plan with
        | Err e => fail e
        | Ok (is_mpp, amount_msat, quote_amount) =>
          if (0 <? c_max_melt cfg) && (c_max_melt cfg <? quote_amount) then fail EMeltLimit else
          call ex <- GetMeltQuoteByReq req ;;
          match ex with
          | ROk (Some _) => fail EMeltExists
          | _ =>
            let fee := if internal then 0 else fee_reserve cfg quote_amount in
            let q := mkLq newid req h quote_amount fee 0 0 is_mpp amount_msat in
            call r <- SaveMeltQuote q ;;
            match r with RErr => fail EDb | ROk _ => Ret (Ok q) end
          end
        end f W) in
     d_lq (w_db w1) = d_lq db \/
     exists q, d_lq (w_db w1) = d_lq db ++ [q] /\ lq_state q = 0 /\ 0 <= lq_amount q /\ 0 <= lq_fee q /\
               lq_amount q + lq_fee q < two63 /\ ~ In (lq_id q) (map lq_id (d_lq db))).
  { intros mq W HW internal. cbv zeta. destruct W as [db' l' m' a' nc']. cbn [w_db] in HW. subst db'.
    destruct mpp as [part|].
    - destruct (c_mpp cfg); [|left; reflexivity].
      destruct internal eqn:Eint; [left; reflexivity|].
      destruct (msat <=? part); [left; reflexivity|].
      apply (Hplan false true part ((part + 999) / 1000)); [apply Z.div_pos; lia|reflexivity].
    - apply (Hplan internal false 0 ((msat + 999) / 1000)); [apply Z.div_pos; lia|reflexivity]. }
  destruct (f nc); cbn [exec is_call is_storage andb fault_resp exec_db w_db w_ln w_mem w_active w_calls].
  - left. reflexivity.
  - apply (Hafter (ROk (find (fun q => mq_hash q =? h) (d_mq db)))). reflexivity.
Qed.

Lemma melt_quote_cut_inv cfg u d req h msat mpp newid n f w iss cred :
  cfg_ok cfg -> 0 <= msat -> match mpp with Some p => 0 <= p | None => True end ->
  QInv w iss cred -> VI iss w ->
  let w' := fst (run_n n (request_melt_quote cfg u d req h msat mpp newid) f w) in QInv w' iss cred /\ VI iss w'.
Proof.
  intros Hcfg Hmsat Hmpp Hq [Hg [Hv Hiss]]. cbv zeta.
  set (p := request_melt_quote cfg u d req h msat mpp newid).
  assert (Hfp : forall c, fp_melt_quote c = true -> c_sp c = false /\ c_sigs c = false /\ c_mq c = false).
  { intros c Hc; destruct c; cbn in *; repeat split; congruence. }
  split.
  { apply (qinv_frame_n fp_melt_quote); [apply only_request_melt_quote|intros c Hc; apply Hfp; exact Hc|exact Hq]. }
  pose proof (run_n_mq_ext p n f w) as Hmqe.
  assert (Hsp : same_sp w (fst (run_n n p f w))).
  { apply (frame_n_sp fp_melt_quote); [apply only_request_melt_quote|intros c Hc; apply Hfp; exact Hc]. }
  assert (Hsg : same_sigs w (fst (run_n n p f w))).
  { apply (frame_n_sigs fp_melt_quote); [apply only_request_melt_quote|intros c Hc; apply Hfp; exact Hc]. }
  pose proof (melt_quote_lq_cut cfg u d req h msat mpp newid n f w Hcfg Hmsat Hmpp) as Hlq. cbv zeta in Hlq. fold p in Hlq.
  split; [split; [apply run_n_inv; apply Hg|eapply disjoint_same_sp; [exact Hsp|apply Hg]]|].
  split; [|eapply ids_mono; eassumption].
  destruct Hv as [V1 V2 V3 V4]. destruct Hsp as [Hs1 Hs2]. unfold same_sigs in Hsg.
  destruct Hlq as [Hl|[q [Hl [Hq0 [Hqa [Hqf [Hqb Hfresh]]]]]]].
  - apply (vinv_frame w); [repeat split; assumption|exact Hmqe|exact Hiss|split; assumption].
  - split.
    + rewrite Hl. intros q0 Hin. apply in_app_or in Hin as [Hin|[<-|[]]].
      * specialize (V1 q0 Hin). unfold lq_ok, rows_sum, rows_of_quote in *. rewrite Hs2. exact V1.
      * unfold lq_ok, rows_sum, rows_of_quote. rewrite Hs2. repeat split; try assumption; try (left; exact Hq0); try lia.
        intros _. apply filter_all_false. intros r Hr. apply Z.eqb_neq. intro He. apply Hfresh. rewrite <- He. apply V3. exact Hr.
    + destruct Hmqe as [_ [Hm _]]. apply Hm. exact V2.
    + rewrite Hs2, Hl, map_app. intros r Hr. apply in_or_app. left. apply V3. exact Hr.
    + unfold vS, vR, vOut in *. rewrite Hsg, Hs1, Hl, (wsum_mq_ext iss _ _ Hmqe Hiss). rewrite map_app, tsum_app. cbn [map].
      rewrite tsum_cons, tsum_nil. unfold commit at 2. rewrite Hq0. cbn [Z.eqb]. lia.
Qed.

(* ---------- read-only requests, rotation and restart ---------- *)

Lemma quiet_cut_inv {R} allowed (p : prog R) n f w iss cred :
  only allowed p ->
  (forall c, allowed c = true -> c_sp c = false /\ c_sigs c = false /\ c_lq c = false /\ c_mq c = false) ->
  QInv w iss cred -> VI iss w ->
  let w' := fst (run_n n p f w) in QInv w' iss cred /\ VI iss w'.
Proof.
  intros Ho Ha Hq Hv. cbv zeta. split.
  - apply (qinv_frame_n allowed); [exact Ho|intros c Hc; apply Ha; exact Hc|exact Hq].
  - apply (vi_frame_n allowed); [exact Ho|intros c Hc; destruct (Ha c Hc) as [H1 [H2 [H3 _]]]; repeat split; assumption|exact Hv].
Qed.
