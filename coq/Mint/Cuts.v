(* C07: what holds at every crash cut and under every injected storage error, and what does not.
   Positive part: consequences of the key invariants (InvDb), of append-only spent/signature tables and of the
   operation footprints (Footprint), all of which hold for run_n (process dies after n calls) and for every fault
   oracle.  Negative part: concrete cuts of the model at which value is inflated or stranded; the same cuts are
   replayed on the implementation by the c07-cuts stream (known findings). *)
From Coq Require Import ZArith List Bool Lia.
From Verif Require Import Model Sem InvDb InvSwap InvMint InvMelt Corollaries Queries Footprint Global.
Import ListNotations.
Open Scope Z_scope.

(* ---------- frames at every cut ---------- *)

Section CutFrames.
  Variable allowed : cmd -> bool.

  Lemma cut_frame {R} (Rel : world -> world -> Prop) (p : prog R) :
    (forall w, Rel w w) -> (forall a b c, Rel a b -> Rel b c -> Rel a c) ->
    (forall c fault w, allowed c = true -> Rel w (fst (exec c fault w))) ->
    only allowed p -> forall n f w, Rel w (fst (run_n n p f w)).
  Proof. intros H1 H2 H3 Hp. apply (run_n_only allowed Rel H1 H2 H3 p Hp). Qed.
End CutFrames.

Lemma exec_same_ks c fault w : c_ks c = false -> same_ks w (fst (exec c fault w)).
Proof.
  intros Ha. destruct (exec_world c fault w) as [_ [Hm Hd]]. unfold same_ks.
  assert (Hmm : w_mem (fst (exec c fault w)) = w_mem w /\ w_active (fst (exec c fault w)) = w_active w).
  { apply Hm. destruct c; try reflexivity. discriminate. }
  destruct Hd as [Hd|[_ Hd]]; rewrite Hd; [tauto|]. split; [|exact Hmm]. apply exec_db_frames. exact Ha.
Qed.

Lemma same_ks_refl w : same_ks w w. Proof. repeat split. Qed.
Lemma same_ks_trans a b c : same_ks a b -> same_ks b c -> same_ks a c.
Proof. unfold same_ks. intros [H1 [H2 H3]] [H4 [H5 H6]]. repeat split; congruence. Qed.

(* whatever request is cut wherever, and whatever storage errors are injected: the keysets - rows, in-memory map and
   active keyset - are exactly what they were, unless the request is a rotation or a restart *)
Theorem cut_keeps_keysets cfg mem_ks active o n f w :
  match o with ORotate _ | ORestart _ _ => False | _ => True end ->
  same_ks w (fst (run_n n (op_prog cfg mem_ks active o) f w)).
Proof.
  intros Hk. apply (cut_frame (fp_op o) same_ks); [apply same_ks_refl|apply same_ks_trans| |apply only_op].
  intros c fault w0 Hc. apply exec_same_ks.
  destruct o; try (destruct Hk); cbn [fp_op] in Hc; destruct c; cbn in *; congruence.
Qed.

(* a cut or faulted swap, state check or restore never touches a quote *)
Theorem cut_keeps_quotes cfg mem_ks active o n f w :
  match o with OSwap _ _ _ | ORestore _ | OBalance | OInfo | ORotate _ | ORestart _ _ => True | _ => False end ->
  d_mq (w_db (fst (run_n n (op_prog cfg mem_ks active o) f w))) = d_mq (w_db w) /\
  d_lq (w_db (fst (run_n n (op_prog cfg mem_ks active o) f w))) = d_lq (w_db w).
Proof.
  intros Hk.
  apply (cut_frame (fp_op o) (fun a b => d_mq (w_db b) = d_mq (w_db a) /\ d_lq (w_db b) = d_lq (w_db a)));
    [intros; split; reflexivity|intros a b c [H1 H2] [H3 H4]; split; congruence| |apply only_op].
  intros c fault w0 Hc.
  destruct (exec_world c fault w0) as [_ [_ [Hd|[_ Hd]]]]; rewrite Hd; [split; reflexivity|].
  assert (Hq : c_mq c = false /\ c_lq c = false).
  { destruct o; try (destruct Hk); cbn [fp_op] in Hc; destruct c; cbn in *; split; congruence. }
  destruct Hq as [Hq1 Hq2]. split; apply exec_db_frames; assumption.
Qed.

(* only issuing operations can add a signature, whatever the cut *)
Theorem cut_signs_only_when_issuing cfg mem_ks active o n f w :
  match o with OSwap _ _ _ | OMint _ _ _ => False | _ => True end ->
  d_sigs (w_db (fst (run_n n (op_prog cfg mem_ks active o) f w))) = d_sigs (w_db w).
Proof.
  intros Hk.
  apply (cut_frame (fp_op o) same_sigs); [intros; reflexivity|unfold same_sigs; intros; congruence| |apply only_op].
  intros c fault w0 Hc. destruct (exec_world c fault w0) as [_ [_ [Hd|[_ Hd]]]]; unfold same_sigs; rewrite Hd; [reflexivity|].
  apply exec_db_frames. destruct o; try (destruct Hk); cbn [fp_op] in Hc; destruct c; cbn in *; congruence.
Qed.

(* ---------- safety and durability after any history with crashes, faults and schedules ---------- *)

(* the tables keep their keys unique, whatever happens *)
Definition tables_consistent_always := hrun_inv.

(* spent proofs and returned signatures are never removed or altered: a spent secret stays spent, a signature that was
   stored stays restorable with the same amount and keyset *)
Definition spent_and_signatures_durable := hrun_ext.

Theorem spent_stays_refused cfg h w ins outs sg :
  WInv w -> (exists p, In p ins /\ In (p_secret p) (ys_of (d_spent (w_db w)))) ->
  let w' := hrun cfg w h in
  (exists w'' e, run (swap (w_mem w') (w_active w') ins outs sg) no_fault w' = (w'', Done (Err e)) /\ same_but_calls w' w'') /\
  (forall id, exists w'' e, run (melt_tokens cfg (w_mem w') id ins) no_fault w' = (w'', Done (Err e)) /\ w_db w'' = w_db w' /\ w_ln w'' = w_ln w').
Proof.
  intros Hi [p [Hp Hs]] w'. pose proof (hrun_inv cfg h w Hi) as Hi'. fold w' in Hi'.
  assert (Hrep : exists p0, In p0 ins /\ (In (p_secret p0) (ys_of (d_spent (w_db w'))) \/ In (p_secret p0) (ys_of (d_pending (w_db w'))))).
  { exists p. split; [exact Hp|]. left. apply spent_forever. exact Hs. }
  split; [apply swap_rejects_represented; assumption|]. intros id. apply melt_rejects_represented; assumption.
Qed.

Theorem stored_signature_stays_restorable cfg h w row :
  WInv w -> In row (d_sigs (w_db w)) ->
  exists w', run (restore_sigs [s_B row] []) no_fault (hrun cfg w h) = (w', Done (Ok [row])).
Proof.
  intros Hi Hin. destruct (restore_exact [s_B row] (hrun cfg w h)) as [w' [Hr _]]. exists w'. rewrite Hr.
  cbn [restore_spec]. rewrite (restore_finds_issued cfg w h row Hi Hin). reflexivity.
Qed.

(* ---------- the cuts at which the model (and the code) lose consistency ---------- *)

Definition tsumZ (l : list Z) : Z := fold_right Z.add 0 l.
Definition issuedZ (w : world) : Z := tsumZ (map s_amount (d_sigs (w_db w))).
Definition redeemedZ (w : world) : Z := tsumZ (map r_amount (d_spent (w_db w))).
Definition lockedZ (w : world) : Z := tsumZ (map r_amount (d_pending (w_db w))).
Definition paid_outZ (w : world) : Z := tsumZ (map (fun c => pc_msat c + pc_maxfee c) (l_calls (w_ln w))).

Definition cfg0 : config := mkCfg 0 0 0 false 2.
Definition pr (s a : Z) : proof := mkProof s a 0 (CSig 0 a s) 0 false true false.
Definition bm (b a s : Z) : bmsg := mkBmsg b a 0 0 true s.

(* 64 sat are minted; a melt of a 32-sat invoice succeeds at the backend; the process dies between the removal of the
   lock and the insertion into the spent table; after the restart the same proof is swapped for fresh ecash *)
Definition cut_melt_history : list hitem :=
  [ HNormal (ORestart 0 false);
    HNormal (OMintQuote true 64 0 101 102); HNormal (ESettle 102);
    HNormal (OMint 101 [bm 104 64 103] 0);
    HNormal (OMeltQuote true true 106 106 32000 None 105);
    HCrash (OMelt 105 [pr 103 64]) 8;
    HNormal (ORestart 0 false);
    HNormal (OSwap [pr 103 64] [bm 108 64 107] true) ].

Example crash_in_settle_inflates :
  let w := hrun cfg0 world0 cut_melt_history in
  issuedZ w = 128 /\ redeemedZ w = 64 /\ lockedZ w = 0 /\ length (l_calls (w_ln w)) = 1%nat /\
  map lq_state (d_lq (w_db w)) = [1].
Proof. vm_compute. repeat split. Qed.

(* a swap cut between its two writes: the inputs are spent, the outputs were never signed *)
Definition cut_swap_history : list hitem :=
  [ HNormal (ORestart 0 false);
    HNormal (OMintQuote true 8 0 101 102); HNormal (ESettle 102);
    HNormal (OMint 101 [bm 104 8 103] 0);
    HCrash (OSwap [pr 103 8] [bm 106 8 105] true) 4;
    HNormal (ORestart 0 false) ].

Example crash_in_swap_strands :
  let w := hrun cfg0 world0 cut_swap_history in
  map r_y (d_spent (w_db w)) = [103] /\ map s_B (d_sigs (w_db w)) = [104] /\
  snd (run (restore_sigs [106] []) no_fault w) = Done (Ok []).
Proof. vm_compute. repeat split. Qed.

(* a mint cut after the PENDING write: the paid quote stays PENDING, every retry is refused *)
Definition cut_mint_history : list hitem :=
  [ HNormal (ORestart 0 false);
    HNormal (OMintQuote true 8 0 101 102); HNormal (ESettle 102); HNormal (OMintState 101);
    HCrash (OMint 101 [bm 104 8 103] 0) 2;
    HNormal (ORestart 0 false) ].

Example crash_in_mint_strands :
  let w := hrun cfg0 world0 cut_mint_history in
  map mq_state (d_mq (w_db w)) = [2] /\ d_sigs (w_db w) = [] /\
  snd (step cfg0 no_fault w (OMint 101 [bm 106 8 105] 0)) = RFail EQuotePending.
Proof. vm_compute. repeat split. Qed.

(* a rotation cut between deactivating the old keyset and saving the new one: no active keyset, LoadMint panics *)
Definition cut_rotate_history : list hitem :=
  [ HNormal (ORestart 0 false); HCrash (ORotate 100) 2 ].

Example crash_in_rotate_bricks :
  snd (step cfg0 no_fault (hrun cfg0 world0 cut_rotate_history) (ORestart 0 false)) = RPanic.
Proof. vm_compute. reflexivity. Qed.
