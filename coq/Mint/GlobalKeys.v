(* C09 over whole histories: after any sequential, fault-free history of requests, rotations and restarts (with or without
   rotation) the stored keyset rows and the in-memory keysets coincide, exactly one keyset is active, it is the one the
   mint signs with, and every other keyset is older (smaller derivation index). *)
From Coq Require Import ZArith List Bool Lia.
From Verif Require Import Model Sem InvDb InvSwap InvMint InvMelt Corollaries Queries Footprint Global.
Import ListNotations.
Open Scope Z_scope.

Record KOk (w : world) : Prop := mkKOk {
  k_mem : w_mem w = d_ks (w_db w);
  k_act : exists a, In a (d_ks (w_db w)) /\ k_id a = w_active w /\ k_active a = true;
  k_uniq : forall k, In k (d_ks (w_db w)) -> k_active k = true -> k_id k = w_active w;
  k_le : forall k, In k (d_ks (w_db w)) -> k_id k <= w_active w
}.

Definition KInv (w : world) : Prop := d_ks (w_db w) <> [] -> KOk w.

Lemma KInv0 : KInv world0.
Proof. intros H. exfalso. apply H. reflexivity. Qed.

Lemma kinv_same_ks w w' : same_ks w w' -> KInv w -> KInv w'.
Proof.
  intros [H1 [H2 H3]] Hk Hne. rewrite H1 in Hne. destruct (Hk Hne) as [A B C D].
  split; rewrite ?H1, ?H2, ?H3; assumption.
Qed.

Lemma last_active_unique rows A :
  (exists a, In a rows /\ k_id a = A /\ k_active a = true) -> (forall k, In k rows -> k_active k = true -> k_id k = A) ->
  last_active rows = A.
Proof.
  intros [a [Hin [Hid Hact]]] Hu. unfold last_active.
  assert (G : forall l acc, (forall k, In k l -> k_active k = true -> k_id k = A) ->
              (acc = A \/ exists a0, In a0 l /\ k_active a0 = true) ->
              fold_left (fun acc k => if k_active k then k_id k else acc) l acc = A).
  { induction l as [|x l IH]; intros acc Hl Hc; cbn [fold_left].
    - destruct Hc as [Hc|[a0 [[] _]]]. exact Hc.
    - apply IH; [intros k Hk; apply Hl; right; exact Hk|].
      destruct (k_active x) eqn:Ex.
      + left. apply Hl; [left; reflexivity|exact Ex].
      + destruct Hc as [Hc|[a0 [[->|Hin0] Ha0]]]; [left; exact Hc|congruence|right; exists a0; split; assumption]. }
  apply G; [exact Hu|]. right. exists a. split; assumption.
Qed.

Lemma find_ks_in id rows a : NoDup (map k_id rows) -> In a rows -> k_id a = id -> find_ks id rows = Some a.
Proof.
  unfold find_ks. induction rows as [|x l IH]; intros Hnd Hin Hid; [destruct Hin|]. cbn [find map] in *.
  inversion Hnd as [|? ? Hx Hnd']; subst.
  destruct Hin as [->|Hin]; [rewrite Z.eqb_refl; reflexivity|].
  destruct (k_id x =? k_id a) eqn:E; [|apply IH; auto].
  exfalso. apply Z.eqb_eq in E. apply Hx. rewrite E. apply in_map. exact Hin.
Qed.

Lemma rotate_kinv fee w :
  WInv w -> KInv w -> KInv (fst (run (rotate_keyset (w_mem w) (w_active w) fee) no_fault w)).
Proof.
  intros Hi Hk. destruct (Z_le_dec two63 fee) as [Hbig|Hsmall].
  { (* a fee that does not fit is refused: nothing changes *)
    destruct (rotate_fee_must_fit (w_mem w) (w_active w) fee w Hbig) as [w' [Hrun [Hd [_ [Hm Ha]]]]]. rewrite Hrun. cbn [fst].
    apply (kinv_same_ks w); [|exact Hk]. unfold same_ks. rewrite Hd, Hm, Ha. repeat split. }
  assert (Hfee : fee < two63) by lia. assert (Hfb : (two63 <=? fee) = false) by (apply Z.leb_gt; exact Hfee).
  destruct (d_ks (w_db w)) as [|r0 rs] eqn:Erows.
  - (* nothing stored: the nil active keyset is dereferenced before anything is written *)
    assert (Hsame : d_ks (w_db (fst (run (rotate_keyset (w_mem w) (w_active w) fee) no_fault w))) = []).
    { unfold rotate_keyset. destruct w as [d l m a n]. cbn [w_db w_mem w_active] in *. sx. rewrite Hfb.
      destruct (find_ks a m); sx; [|exact Erows]. rewrite Erows. cbn [map mem existsb]. sx. exact Erows. }
    intros Hne. exfalso. apply Hne. exact Hsame.
  - assert (Hne : d_ks (w_db w) <> []) by (rewrite Erows; discriminate).
    destruct (Hk Hne) as [Hmem [a [Hain [Haid Haact]]] Hu Hle].
    assert (Hnd : NoDup (map k_id (d_ks (w_db w)))) by apply Hi.
    assert (Hf : find_ks (w_active w) (w_mem w) = Some a) by (rewrite Hmem; apply find_ks_in; assumption).
    assert (Hm1 : mem (w_active w) (map k_id (d_ks (w_db w))) = true) by (apply mem_In; rewrite <- Haid; apply in_map; exact Hain).
    assert (Hm2 : mem (w_active w + 1) (map k_id (d_ks (w_db w))) = false).
    { apply mem_false. intro Hc. apply in_map_iff in Hc as [k [Hkid Hkin]]. specialize (Hle k Hkin). lia. }
    destruct (rotate_spec (w_mem w) (w_active w) fee w a Hfee Hf Haid Hm1 Hm2) as [w' [Hrun [Hact' [Hmem' [Hks' _]]]]].
    rewrite Hrun. cbn [fst]. intros _.
    set (A := w_active w) in *. set (rows := d_ks (w_db w)) in *.
    set (deact := fun k => if k_id k =? A then mkKs (k_id k) (k_fee k) false else k).
    assert (Hmemeq : w_mem w' = map deact rows ++ [mkKs (A + 1) fee true]).
    { rewrite Hmem', Hmem. f_equal. fold rows.
      assert (Hmap : map (fun k => if k_id k =? A then mkKs A (k_fee a) false else k) rows = map deact rows).
      { apply map_ext_in. intros k Hkin. unfold deact. destruct (k_id k =? A) eqn:E; [|reflexivity].
        apply Z.eqb_eq in E. assert (k = a).
        { clear - Hnd Hkin Hain E Haid. fold rows in Hnd. induction rows as [|x l IH]; [destruct Hkin|]. cbn [map] in Hnd. inversion Hnd as [|? ? Hx Hnd']; subst.
          destruct Hkin as [->|Hk], Hain as [->|Ha]; [reflexivity| | |apply IH; assumption].
          - exfalso. apply Hx. rewrite E, <- Haid. apply in_map. exact Ha.
          - exfalso. apply Hx. rewrite Haid, <- E. apply in_map. exact Hk. }
        subst k. rewrite E. reflexivity. }
      rewrite Hmap. apply filter_all_true. intros k Hkin. apply in_map_iff in Hkin as [k0 [<- Hk0]].
      apply negb_true_iff. apply Z.eqb_neq. unfold deact. specialize (Hle k0 Hk0). fold A in Hle.
      destruct (k_id k0 =? A); cbn [k_id]; lia. }
    split.
    + rewrite Hmemeq, Hks'. reflexivity.
    + exists (mkKs (A + 1) fee true). rewrite Hks', Hact'. split; [apply in_or_app; right; left; reflexivity|split; reflexivity].
    + rewrite Hks', Hact'. intros k Hkin Hka. apply in_app_or in Hkin as [Hkin|[<-|[]]]; [|reflexivity].
      exfalso. apply in_map_iff in Hkin as [k0 [<- Hk0]]. destruct (k_id k0 =? A) eqn:E; cbn [k_active] in Hka; [discriminate|].
      apply Z.eqb_neq in E. apply E. apply Hu; assumption.
    + rewrite Hks', Hact'. intros k Hkin. apply in_app_or in Hkin as [Hkin|[<-|[]]]; [|cbn [k_id]; lia].
      apply in_map_iff in Hkin as [k0 [<- Hk0]]. specialize (Hle k0 Hk0). fold A in Hle. destruct (k_id k0 =? A); cbn [k_id]; lia.
Qed.

Lemma load_kinv fee rot w :
  WInv w -> KInv w -> KInv (fst (run (load_mint fee rot) no_fault (prepare (ORestart fee rot) w))).
Proof.
  intros Hi Hk. unfold load_mint, prepare. destruct w as [d l m a n]. cbn [w_db] in *. sx.
  destruct (d_ks d) as [|r0 rs] eqn:Erows.
  - (* first start: keyset 0 is created *)
    sx. rewrite Erows. cbn [map mem existsb]. sx. dbx. intros _.
    cbn [fst]. split; cbn [w_mem w_db w_active set_ks d_ks]; rewrite ?Erows; cbn [app].
    + reflexivity.
    + exists (mkKs 0 fee true). split; [left; reflexivity|split; reflexivity].
    + intros k [<-|[]] _. reflexivity.
    + intros k [<-|[]]. cbn [k_id]. lia.
  - assert (Hne : d_ks d <> []) by (rewrite Erows; discriminate).
    assert (Hk0 : KOk (mkWorld d l m a n)) by (apply Hk; exact Hne).
    destruct Hk0 as [Hmem Hact Hu Hle]. cbn [w_mem w_db w_active] in *.
    assert (Hla : last_active (d_ks d) = a) by (apply last_active_unique; assumption).
    rewrite <- Erows. sx. rewrite Hla.
    set (w1 := mkWorld d l (d_ks d) a (0 + 1 + 1)).
    assert (Hk1 : KInv w1).
    { intros _. split; cbn [w_mem w_db w_active]; [reflexivity|exact Hact|exact Hu|exact Hle]. }
    destruct rot.
    + apply (rotate_kinv fee w1 Hi Hk1).
    + destruct (a <? 0) eqn:Ea; sx; [|exact Hk1].
      (* a negative active id cannot occur: the active keyset exists and ids start at 0 - whatever it is, nothing was written *)
      exact Hk1.
Qed.

Theorem step_kinv cfg w o : WInv w -> KInv w -> KInv (fst (step cfg no_fault w o)).
Proof.
  intros Hi Hk. unfold step. destruct (is_env o) eqn:Ee; cbn [fst].
  { intros Hne. rewrite apply_env_db in Hne. destruct (Hk Hne) as [A B C D].
    split; destruct o; try discriminate Ee; cbn [apply_env upd_ln set_ln w_mem w_active w_db] in *; assumption. }
  destruct o; try discriminate Ee.
  all: try (match goal with |- KInv (fst (let '(w', r) := run (op_prog ?c ?m ?a ?o) no_fault ?w0 in _)) =>
              let H := fresh in
              assert (H : same_ks w0 (fst (run (op_prog c m a o) no_fault w0)));
              [ apply (frame_ks (fp_op o)); [apply only_op|intros c0 Hc; destruct c0; cbn in *; congruence]
              | destruct (run (op_prog c m a o) no_fault w0) as [w' r]; cbn [fst] in *;
                apply (kinv_same_ks w0 w' H); apply (kinv_same_ks w w0); [repeat split|exact Hk] ]
            end).
  - (* ORotate *)
    cbn [prepare op_prog]. rewrite run_lift.
    assert (Hk0 : KInv (reset_calls w)) by (apply (kinv_same_ks w); [repeat split|exact Hk]).
    pose proof (rotate_kinv fee (reset_calls w) Hi Hk0) as G.
    destruct (run (rotate_keyset (w_mem (reset_calls w)) (w_active (reset_calls w)) fee) no_fault (reset_calls w)) as [w' [[x|e]| |]]; exact G.
  - (* ORestart *)
    cbn [op_prog]. rewrite run_lift.
    pose proof (load_kinv fee rotate w Hi Hk) as G.
    destruct (run (load_mint fee rotate) no_fault (prepare (ORestart fee rotate) w)) as [w' [[x|e]| |]]; exact G.
Qed.

Theorem history_kinv cfg h : forall w, WInv w -> KInv w -> KInv (fst (run_history cfg w h)).
Proof.
  induction h as [|o r IH]; intros w Hi Hk; [exact Hk|]. rewrite run_history_fst.
  apply IH; [apply step_inv; exact Hi|apply step_kinv; assumption].
Qed.

(* After every sequential history that has started the mint at least once: memory and store agree on the keysets, exactly one
   keyset is active, it is the mint's signing keyset, all others have smaller derivation indices. *)
Theorem one_active_keyset cfg h :
  let w := reach cfg h in d_ks (w_db w) <> [] -> KOk w.
Proof. intros w. apply history_kinv; [apply DbInv0|apply KInv0]. Qed.
