(* C02 + C07 against the Lightning ledger alone, over histories with cuts, storage errors and concurrent swaps:
   issued + commitments of the PAID melts that went out over Lightning <= redeemed + amounts of the mint quotes whose invoice
   the backend reports settled.  (GlobalLedger.no_inflation_ledger for the item kinds of CutHistory.)
   The proof needs the melt-quote request to REFUSE when the lookup of a mint quote with the same invoice fails: before the fix
   a storage error at that call let an MPP quote for a part of the mint's own invoice through, and settling it internally
   credited the whole mint quote (known finding, repaired). *)
From Coq Require Import ZArith List Bool Lia.
From Verif Require Import Model Sem InvDb InvSwap InvMint InvMelt Corollaries Queries Footprint Global GlobalQuote GlobalValue GlobalQuery
  GlobalLedger CutValue CutMint CutFrames ConcValue CutHistory.
Import ListNotations.
Open Scope Z_scope.

(* ---------- requests that only change the state of mint quotes (or nothing about quotes) ---------- *)

Lemma run_n_quiet {R} allowed (p : prog R) n f w :
  only allowed p -> (forall c, allowed c = true -> c_safe c = true) -> quiet_quotes (w_db w) (w_db (fst (run_n n p f w))).
Proof.
  intros Hp Ha.
  apply (run_n_only allowed (fun a b => quiet_quotes (w_db a) (w_db b))); [intros; apply quiet_refl|intros a b c; apply quiet_trans| |exact Hp].
  intros c fault w0 Hc. destruct (exec_world c fault w0) as [_ [_ [Hd|[_ Hd]]]]; rewrite Hd; [apply quiet_refl|].
  apply exec_db_quiet. apply Ha. exact Hc.
Qed.

(* ---------- RequestMintQuote at every cut: one quote with the fresh hash appended at most ---------- *)

Lemma mint_quote_tables_cut cfg u a pk id h n f w :
  let w' := fst (run_n n (request_mint_quote cfg u a pk id h) f w) in
  d_lq (w_db w') = d_lq (w_db w) /\
  (d_mq (w_db w') = d_mq (w_db w) \/ d_mq (w_db w') = d_mq (w_db w) ++ [mkMq id a h 0 pk]).
Proof.
  cbv zeta. unfold request_mint_quote.
  destruct u; cbn [negb]; [|split; [reflexivity|left; reflexivity]].
  destruct (pk <? 0); [split; [reflexivity|left; reflexivity]|].
  destruct ((0 <? c_max_mint cfg) && (c_max_mint cfg <? a)); [split; [reflexivity|left; reflexivity]|].
  destruct w as [d l m ac nc]. cbn [w_db].
  set (P := fun w1 : world => d_lq (w_db w1) = d_lq d /\ (d_mq (w_db w1) = d_mq d \/ d_mq (w_db w1) = d_mq d ++ [mkMq id a h 0 pk])).
  assert (Hsame : forall W (o : outcome (result mquote)), d_mq (w_db W) = d_mq d -> d_lq (w_db W) = d_lq d -> P (fst (W, o))).
  { intros W o Hm Hl. split; [exact Hl|left; exact Hm]. }
  (* the part after the balance check, from any world with the same tables *)
  assert (Htail : forall b n0 W, d_mq (w_db W) = d_mq d -> d_lq (w_db W) = d_lq d ->
     P (fst (run_n n0
        (if (0 <? c_max_balance cfg) && (c_max_balance cfg <? add64 b a) then fail EMintDisabled else
         call inv <- LnCreateInvoice a h ;;
         match inv with
         | RErr => fail ELn
         | ROk (req, h0) =>
           call r <- SaveMintQuote (mkMq id a h0 0 pk) ;;
           match r with RErr => fail EDb | ROk _ => Ret (Ok (mkMq id a h0 0 pk)) end
         end) f W))).
  { intros b n0 W Hm Hl. destruct W as [d1 l1 m1 a1 nc1]. cbn [w_db] in Hm, Hl.
    destruct ((0 <? c_max_balance cfg) && (c_max_balance cfg <? add64 b a)); [(cbn [run_n is_call fail bind]; apply Hsame; assumption)|].
    destruct n0 as [|n0]; [(cbn [run_n is_call fail bind]; apply Hsame; assumption)|]. cbn [run_n is_call w_calls].
    unfold exec at 1. cbn [is_call is_storage andb w_db w_ln w_mem w_active w_calls]. rewrite ?andb_false_r.
    destruct (l_createerr l1 || (two64 <=? a * 1000)); [(cbn [run_n is_call fail bind]; apply Hsame; assumption)|].
    cbn [set_ln w_db w_ln w_mem w_active w_calls].
    destruct n0 as [|n0]; [(cbn [run_n is_call fail bind]; apply Hsame; assumption)|]. cbn [run_n is_call w_calls set_ln w_db w_ln w_mem w_active].
    destruct (f (nc1 + 1)); cbn [exec is_call is_storage andb fault_resp exec_db set_ln w_db w_ln w_mem w_active w_calls];
      [(cbn [run_n is_call fail bind]; apply Hsame; assumption)|].
    cbn [mq_amount mq_id set_ln w_db].
    destruct (sql_int_ok a && negb (mem id (map mq_id (d_mq d1)))); [|(cbn [run_n is_call fail bind]; apply Hsame; assumption)].
    cbn [run_n fst]. split; cbn [w_db set_mq d_mq d_lq]; [exact Hl|right; rewrite Hm; reflexivity]. }
  change (P (fst (run_n n (perform b <- (if 0 <? c_max_balance cfg then total_balance else Ret (Ok 0)) ;;
     match b with
     | Err e => fail e
     | Ok balance =>
       if (0 <? c_max_balance cfg) && (c_max_balance cfg <? add64 balance a) then fail EMintDisabled else
       call inv <- LnCreateInvoice a h ;;
       match inv with
       | RErr => fail ELn
       | ROk (req, h0) =>
         call r <- SaveMintQuote (mkMq id a h0 0 pk) ;;
         match r with RErr => fail EDb | ROk _ => Ret (Ok (mkMq id a h0 0 pk)) end
       end
     end) f {| w_db := d; w_ln := l; w_mem := m; w_active := ac; w_calls := nc |}))).
  destruct (0 <? c_max_balance cfg).
  - (* TotalBalance first: two reads *)
    unfold total_balance. cbn [bind].
    destruct n as [|n]; [(cbn [run_n is_call fail bind]; apply Hsame; reflexivity)|]. cbn [run_n is_call w_calls].
    destruct (f nc); cbn [exec is_call is_storage andb fault_resp exec_db set_ln w_db w_ln w_mem w_active w_calls]; [(cbn [run_n is_call fail bind]; apply Hsame; reflexivity)|].
    destruct (sum_view _) as [iss|]; cbn [bind fail]; [|(cbn [run_n is_call fail bind]; apply Hsame; reflexivity)].
    destruct n as [|n]; [(cbn [run_n is_call fail bind]; apply Hsame; reflexivity)|]. cbn [run_n is_call w_calls].
    destruct (f (nc + 1)); cbn [exec is_call is_storage andb fault_resp exec_db set_ln w_db w_ln w_mem w_active w_calls]; [(cbn [run_n is_call fail bind]; apply Hsame; reflexivity)|].
    destruct (sum_view _) as [red|]; cbn [bind fail]; [|(cbn [run_n is_call fail bind]; apply Hsame; reflexivity)].
    apply Htail; reflexivity.
  - cbn [bind]. apply Htail; reflexivity.
Qed.

(* ---------- RequestMeltQuote at every cut ---------- *)

Lemma melt_quote_tables_cut cfg u d req h msat mpp newid n f w :
  let w' := fst (run_n n (request_melt_quote cfg u d req h msat mpp newid) f w) in
  d_mq (w_db w') = d_mq (w_db w) /\
  (d_lq (w_db w') = d_lq (w_db w) \/
   exists q, d_lq (w_db w') = d_lq (w_db w) ++ [q] /\ lq_req q = req /\
             ((exists m, In m (d_mq (w_db w)) /\ mq_hash m = h /\ h = req) -> lq_amount q = (msat + 999) / 1000)).
Proof.
  cbv zeta. split.
  { apply (frame_n_mq fp_melt_quote); [apply only_request_melt_quote|intros c Hc; destruct c; cbn in *; congruence]. }
  unfold request_melt_quote. destruct u; cbn [negb]; [|left; reflexivity].
  destruct d; cbn [negb]; [|left; reflexivity].
  destruct ((msat <=? 0) || (two63 <=? msat)); [left; reflexivity|].
  destruct w as [db l m a nc].
  destruct n as [|n]; [left; reflexivity|]. cbn [run_n is_call w_calls].
  destruct (f nc); cbn [exec is_call is_storage andb fault_resp exec_db w_db w_ln w_mem w_active w_calls]; [left; reflexivity|].
  set (internal := match same_invoice (ROk (find (fun q => mq_hash q =? h) (d_mq db))) req with Some _ => true | None => false end).
  assert (Hint : (exists m0, In m0 (d_mq db) /\ mq_hash m0 = h /\ h = req) -> internal = true).
  { intros [m0 [Hin [Hh Hr]]]. unfold internal, same_invoice.
    destruct (find (fun q => mq_hash q =? h) (d_mq db)) as [m1|] eqn:Ef.
    - apply find_some in Ef as [_ Ef]. apply Z.eqb_eq in Ef. rewrite Ef, Hr, Z.eqb_refl. reflexivity.
    - exfalso. pose proof (find_none _ _ Ef m0 Hin) as Hn. cbv beta in Hn. apply Z.eqb_neq in Hn. apply Hn. exact Hh. }
  set (W := {| w_db := db; w_ln := l; w_mem := m; w_active := a; w_calls := nc + 1 |}).
  assert (Hplan : forall (is_mpp : bool) (amount_msat qa : Z),
     let k := fun ex : res (option lquote) => match ex with
                | ROk (Some _) => fail EMeltExists
                | _ => call r <- SaveMeltQuote (mkLq newid req h qa (if internal then 0 else fee_reserve cfg qa) 0 0 is_mpp amount_msat) ;;
                       match r with RErr => fail EDb | ROk _ => Ret (Ok (mkLq newid req h qa (if internal then 0 else fee_reserve cfg qa) 0 0 is_mpp amount_msat)) end
                end in
     let w1 := fst (run_n n (if (0 <? c_max_melt cfg) && (c_max_melt cfg <? qa) then fail EMeltLimit else Do (GetMeltQuoteByReq req) k) f W) in
     d_lq (w_db w1) = d_lq db \/
     exists q, d_lq (w_db w1) = d_lq db ++ [q] /\ lq_req q = req /\ lq_amount q = qa).
  { intros is_mpp amount_msat qa k. cbv zeta. unfold W.
    destruct ((0 <? c_max_melt cfg) && (c_max_melt cfg <? qa)); [left; reflexivity|].
    destruct n as [|n0]; [left; reflexivity|]. cbn [run_n is_call w_calls].
    assert (Hsave : forall n1 W1, w_db W1 = db ->
              let w1 := fst (run_n n1 (call r <- SaveMeltQuote (mkLq newid req h qa (if internal then 0 else fee_reserve cfg qa) 0 0 is_mpp amount_msat) ;;
                         match r with RErr => fail EDb | ROk _ => Ret (Ok (mkLq newid req h qa (if internal then 0 else fee_reserve cfg qa) 0 0 is_mpp amount_msat)) end) f W1) in
              d_lq (w_db w1) = d_lq db \/ exists q, d_lq (w_db w1) = d_lq db ++ [q] /\ lq_req q = req /\ lq_amount q = qa).
    { intros n1 W1 HW1. cbv zeta. destruct W1 as [db1 l1 m1 a1 nc1]. cbn [w_db] in HW1. subst db1.
      destruct n1 as [|n1]; [left; reflexivity|]. cbn [run_n is_call w_calls].
      destruct (f nc1); cbn [exec is_call is_storage andb fault_resp exec_db w_db w_ln w_mem w_active w_calls]; [left; reflexivity|].
      cbn [lq_amount lq_fee lq_msat lq_id].
      destruct (sql_int_ok qa && sql_int_ok (if internal then 0 else fee_reserve cfg qa) && sql_int_ok amount_msat && negb (mem newid (map lq_id (d_lq db))));
        [|left; reflexivity].
      right. eexists. split; [reflexivity|]. split; reflexivity. }
    unfold k.
    destruct (f (nc + 1)); cbn [exec is_call is_storage andb fault_resp exec_db w_db w_ln w_mem w_active w_calls].
    - apply Hsave. reflexivity.
    - destruct (find (fun q => lq_req q =? req) (d_lq db)); [left; reflexivity|]. apply Hsave. reflexivity. }
  fold W.
  destruct mpp as [part|].
  - destruct (c_mpp cfg); [|left; reflexivity].
    fold internal. destruct internal eqn:Eint; [left; reflexivity|].
    destruct (msat <=? part); [left; reflexivity|].
    destruct (Hplan true part ((part + 999) / 1000)) as [H|[q [H1 [H2 H3]]]]; [left; exact H|].
    right. exists q. split; [exact H1|]. split; [exact H2|]. intros Hex. discriminate (Hint Hex).
  - destruct (Hplan false 0 ((msat + 999) / 1000)) as [H|[q [H1 [H2 H3]]]]; [left; exact H|].
    right. exists q. split; [exact H1|]. split; [exact H2|]. intros _. exact H3.
Qed.

(* ---------- one cut / faulted item ---------- *)

Lemma linv_prepare o w ip : LInv (w_db w) ip -> LInv (w_db (prepare o w)) ip.
Proof. rewrite prepare_db. auto. Qed.

Lemma cut_item_linv cfg w it ip o :
  is_cut_of it o -> cuttable o -> ln_ok_op w o -> LInv (w_db w) ip -> LInv (w_db (hstep cfg w it)) ip.
Proof.
  intros Hit Hc Hok Hl. pose proof (linv_prepare o w ip Hl) as H0. set (w0 := prepare o w) in *.
  assert (Hquiet : forall X (p : prog X) (g : X -> opres),
            is_env o = false -> op_prog cfg (w_mem w0) (w_active w0) o = bind p (fun x => Ret (g x)) ->
            only (fp_op o) p -> (forall c, fp_op o c = true -> c_safe c = true) ->
            LInv (w_db (hstep cfg w it)) ip).
  { intros X p g He Hop Ho Ha. destruct (item_as_run_n cfg w o it p g Hit He Hop) as [n [f Hst]]. rewrite Hst.
    eapply linv_quiet; [apply (run_n_quiet (fp_op o)); assumption|exact H0]. }
  destruct o; try (destruct Hc).
  - (* OMintQuote *)
    destruct (item_as_run_n cfg w (OMintQuote unit_ok amount pubkey newid newhash) it
                (request_mint_quote cfg unit_ok amount pubkey newid newhash) _ Hit eq_refl eq_refl) as [n [f Hst]].
    rewrite Hst. destruct (mint_quote_tables_cut cfg unit_ok amount pubkey newid newhash n f w0) as [Hlq Hmq].
    destruct Hmq as [Hmq|Hmq]; [apply (linv_same_tables (w_db w0)); assumption|].
    apply (linv_add_mq (w_db w0) _ ip _ Hlq Hmq); [|exact H0]. cbn [mq_hash]. exact Hok.
  - apply (Hquiet _ (get_mint_quote_state id) _ eq_refl eq_refl); [apply only_mint_state|].
    intros c H; destruct c; cbn in *; congruence.
  - apply (Hquiet _ (mint_tokens (w_mem w0) (w_active w0) id outs sig) _ eq_refl eq_refl); [apply only_mint|].
    intros c H; destruct c; cbn in *; congruence.
  - apply (Hquiet _ (swap (w_mem w0) (w_active w0) ins outs outs_signed) _ eq_refl eq_refl); [apply only_swap|].
    intros c H; destruct c; cbn in *; congruence.
  - (* OMeltQuote *)
    destruct (item_as_run_n cfg w (OMeltQuote unit_ok decodes req h msat mpp newid) it
                (request_melt_quote cfg unit_ok decodes req h msat mpp newid) _ Hit eq_refl eq_refl) as [n [f Hst]].
    rewrite Hst. destruct (melt_quote_tables_cut cfg unit_ok decodes req h msat mpp newid n f w0) as [Hmq Hlq].
    destruct Hlq as [Hlq|[q [Hlq [Hreq Hamt]]]]; [apply (linv_same_tables (w_db w0)); assumption|].
    apply (linv_add_lq (w_db w0) _ ip q Hmq Hlq); [|exact H0].
    intros m0 Hm Hh. rewrite Hreq in Hh. destruct (Hok m0 Hm Hh) as [Hhr Hms].
    rewrite Hamt; [|exists m0; repeat split; [exact Hm|congruence|exact Hhr]].
    rewrite Hms. replace (1000 * mq_amount m0 + 999) with (999 + mq_amount m0 * 1000) by lia.
    rewrite Z.div_add by lia. reflexivity.
  - apply (Hquiet _ (restore_sigs bs []) _ eq_refl eq_refl); [apply only_restore|].
    intros c H; destruct c; cbn in *; congruence.
  - apply (Hquiet _ (rotate_keyset (w_mem w0) (w_active w0) fee) _ eq_refl eq_refl); [apply only_rotate|].
    intros c H; destruct c; cbn in *; congruence.
  - apply (Hquiet _ (load_mint fee rotate) _ eq_refl eq_refl); [apply only_load|].
    intros c H; destruct c; cbn in *; congruence.
  - apply (Hquiet _ (watcher_fire id) (fun _ => RUnit) eq_refl eq_refl); [apply only_watcher|].
    intros c H; destruct c; cbn in *; congruence.
  - apply (Hquiet _ total_balance _ eq_refl eq_refl); [apply only_balance|].
    intros c H; destruct c; cbn in *; congruence.
  - apply (Hquiet _ (info_disabled cfg) _ eq_refl eq_refl); [apply only_info|].
    intros c H; destruct c; cbn in *; congruence.
Qed.

(* a concurrent batch of swaps and reads does not touch a quote *)
Lemma conc_swaps_linv cfg w ops sched ip :
  Forall swapish ops -> LInv (w_db w) ip -> LInv (w_db (fst (run_concurrent cfg w ops sched))) ip.
Proof.
  intros Hs Hl.
  assert (Hfr : conc_frame (reset_calls w) (fst (run_concurrent cfg w ops sched))).
  { apply (run_concurrent_only fp_swapish conc_frame).
    - intros w0. repeat split.
    - intros a b c [A1 [A2 [A3 A4]]] [B1 [B2 [B3 B4]]]. repeat split; congruence.
    - intros c fault w0 Hc. apply exec_conc_frame. exact Hc.
    - intros o Ho c Hc. rewrite Forall_forall in Hs. specialize (Hs o Ho).
      destruct o; cbn [swapish] in Hs; try contradiction; cbn [fp_op] in Hc; unfold fp_swapish; rewrite Hc, ?orb_true_r; reflexivity. }
  destruct Hfr as [Hmq [Hlq _]]. cbn [reset_calls w_db] in Hmq, Hlq.
  apply (linv_same_tables (w_db w)); assumption.
Qed.

(* ---------- histories ---------- *)

Definition item_ln_ok (w : world) (it : hitem) : Prop :=
  match it with HNormal o | HFault o _ | HCrash o _ => ln_ok_op w o | HConc _ _ => True end.

Fixpoint hln_ok (cfg : config) (w : world) (h : list hitem) : Prop :=
  match h with [] => True | it :: r => item_ln_ok w it /\ hln_ok cfg (hstep cfg w it) r end.

(* ghost pairs (melt quote, mint quote) of the internal settlements: only completed melts make one *)
Fixpoint hltrace (cfg : config) (w : world) (h : list hitem) (ip : list (Z * Z)) : world * list (Z * Z) :=
  match h with
  | [] => (w, ip)
  | it :: r =>
      match it with
      | HNormal o => hltrace cfg (hstep cfg w it) r (pair_ev w o (snd (step cfg no_fault w o)) ++ ip)
      | _ => hltrace cfg (hstep cfg w it) r ip
      end
  end.

Lemma hltrace_htrace cfg h : forall w iss cred ip, cred = map snd ip ->
  fst (fst (htrace cfg w h iss cred)) = fst (hltrace cfg w h ip) /\
  snd (htrace cfg w h iss cred) = map snd (snd (hltrace cfg w h ip)).
Proof.
  induction h as [|it r IH]; intros w iss cred ip Hc; cbn [htrace hltrace fst snd]; [split; [reflexivity|exact Hc]|].
  destruct it; apply IH; try exact Hc. rewrite map_app, pair_ev_credit, Hc. reflexivity.
Qed.

Lemma hcombined cfg h : forall w iss ip,
  cfg_ok cfg -> Forall cut_item h -> hhonest cfg w h -> Forall item_u64 h -> hln_ok cfg w h ->
  QInv w iss (map snd ip) -> VI iss w -> LInv (w_db w) ip ->
  let '(w', iss', cred') := htrace cfg w h iss (map snd ip) in
  let '(w2, ip') := hltrace cfg w h ip in
  w2 = w' /\ cred' = map snd ip' /\ QInv w' iss' cred' /\ VI iss' w' /\ LInv (w_db w') ip'.
Proof.
  induction h as [|it r IH]; intros w iss ip Hc Hs Hh Hu Hok Hq Hv Hl; cbn [htrace hltrace]; [split; [reflexivity|]; split; [reflexivity|]; split; [exact Hq|]; split; [exact Hv|exact Hl]|].
  destruct Hh as [Hw Hh]. destruct Hok as [Ho Hr]. inversion Hu as [|? ? Hu1 Hu2]; subst. inversion Hs as [|? ? Hs1 Hs2]; subst.
  destruct it as [o|o f|o k|ops sched].
  - assert (Hq' := step_qinv cfg w o iss (map snd ip) (proj1 Hv) Hw Hq).
    assert (Hv' := step_vi cfg w o iss Hc Hu1 Hv).
    destruct (step_li cfg w o ip Ho (conj (proj1 Hv) Hl)) as [_ Hl'].
    rewrite <- pair_ev_credit, <- map_app in Hq' |- *.
    apply (IH _ _ (pair_ev w o (snd (step cfg no_fault w o)) ++ ip)); assumption.
  - destruct (cut_item_inv cfg w (HFault o f) iss (map snd ip) o Hc (or_introl eq_refl) Hs1 Hu1 Hw Hq Hv) as [Hq' Hv'].
    apply IH; try assumption. apply (cut_item_linv cfg w (HFault o f) ip o (or_introl eq_refl) Hs1 Ho Hl).
  - destruct (cut_item_inv cfg w (HCrash o k) iss (map snd ip) o Hc (or_intror eq_refl) Hs1 Hu1 Hw Hq Hv) as [Hq' Hv'].
    apply IH; try assumption. apply (cut_item_linv cfg w (HCrash o k) ip o (or_intror eq_refl) Hs1 Ho Hl).
  - cbn [hstep] in *. destruct (conc_swaps_inv cfg w ops sched iss (map snd ip) Hs1 Hq Hv) as [Hq' Hv'].
    apply IH; try assumption. apply conc_swaps_linv; [exact Hs1|exact Hl].
Qed.

(* C02 + C07, against the Lightning ledger: along every history of completed requests, cut / faulted requests (all but the three
   that settle melts) and concurrent batches of swaps,
     issued + commitments of the PAID melt quotes that were not settled internally
       <= redeemed + amounts of the mint quotes whose invoice is settled at the backend *)
Theorem no_inflation_ledger_with_cuts cfg h :
  cfg_ok cfg -> Forall cut_item h -> hhonest cfg world0 h -> Forall item_u64 h -> hln_ok cfg world0 h ->
  let w := hrun cfg world0 h in
  let ip := snd (hltrace cfg world0 h []) in
  vS w + ext_out w (map fst ip) <= vR w + per_quote (esett w) (d_mq (w_db w)) /\
  NoDup (map fst ip) /\
  (forall p, In p ip -> exists q, In q (d_lq (w_db w)) /\ lq_id q = fst p /\ lq_state q = 2).
Proof.
  intros Hc Hs Hh Hu Hok. cbv zeta.
  pose proof (hcombined cfg h world0 [] [] Hc Hs Hh Hu Hok QInv0 VI0 (proj2 LI0)) as H. cbn [map] in H.
  rewrite <- (htrace_world cfg h world0 [] []).
  destruct (htrace cfg world0 h [] []) as [[w iss] cred]. destruct (hltrace cfg world0 h []) as [w2 ip]. cbn [fst snd].
  destruct H as [-> [-> [HQ [HV HL]]]].
  split; [exact (ledger_bound w iss ip HQ HV (conj (proj1 HV) HL))|].
  split; [apply (l_nodup _ _ HL)|].
  intros p Hp. destruct (l_pairs _ _ HL p Hp) as [q [m [Hq [Hid [Hst _]]]]]. exists q. repeat split; assumption.
Qed.

(* ---------- the hypotheses are decidable on concrete histories, and satisfiable ---------- *)

Fixpoint hln_okb (cfg : config) (w : world) (h : list hitem) : bool :=
  match h with
  | [] => true
  | it :: r => match it with HNormal o | HFault o _ | HCrash o _ => ln_ok_opb w o | HConc _ _ => true end
               && hln_okb cfg (hstep cfg w it) r
  end.

Lemma hln_okb_ok cfg h : forall w, hln_okb cfg w h = true -> hln_ok cfg w h.
Proof.
  induction h as [|it r IH]; intros w H; cbn [hln_okb hln_ok] in *; [exact I|].
  apply andb_prop in H as [H1 H2]. split; [|apply IH; exact H2].
  destruct it; cbn [item_ln_ok]; try exact I; apply ln_ok_opb_ok; exact H1.
Qed.

Example cut_ledger_history_ok :
  cfg_ok ledger_cfg /\ Forall cut_item cut_history /\ hhonest ledger_cfg world0 cut_history /\ Forall item_u64 cut_history /\
  hln_ok ledger_cfg world0 cut_history /\
  let w := hrun ledger_cfg world0 cut_history in
  (vS w, ext_out w (map fst (snd (hltrace ledger_cfg world0 cut_history []))), vR w, per_quote (esett w) (d_mq (w_db w))) = (128, 0, 112, 176).
Proof.
  split; [unfold cfg_ok, ledger_cfg, two61; cbn; lia|].
  destruct cut_history_ok as [H1 [H2 _]]. split; [exact H1|].
  split; [apply hhonestb_ok; vm_compute; reflexivity|]. split; [exact H2|].
  split; [apply hln_okb_ok; vm_compute; reflexivity|vm_compute; reflexivity].
Qed.
