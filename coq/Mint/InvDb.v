(* Storage-level invariants: preserved by EVERY storage/Lightning command with ANY arguments,
   hence by every program, every crash cut, every injected fault and every interleaving. *)
From Coq Require Import ZArith List Bool Lia Permutation.
From Verif Require Import Model Sem.
Import ListNotations.
Open Scope Z_scope.

(* ---------- boolean reflection ---------- *)

Lemma mem_In y l : mem y l = true <-> In y l.
Proof.
  unfold mem. rewrite existsb_exists. split.
  - intros [x [Hx He]]. apply Z.eqb_eq in He. subst. exact Hx.
  - intros H. exists y. split; [exact H|apply Z.eqb_refl].
Qed.

Lemma mem_false y l : mem y l = false <-> ~ In y l.
Proof. rewrite <- mem_In. destruct (mem y l); split; congruence. Qed.

Lemma nodupb_NoDup l : nodupb l = true <-> NoDup l.
Proof.
  induction l as [|x r IH]; cbn [nodupb].
  - split; [constructor|reflexivity].
  - rewrite andb_true_iff, negb_true_iff, mem_false, IH. split.
    + intros [H1 H2]. constructor; assumption.
    + intros H. inversion H; subst. split; assumption.
Qed.

Lemma NoDup_app_l {X} (a b : list X) : NoDup (a ++ b) -> NoDup a.
Proof.
  induction a as [|x a IH]; cbn; [constructor|].
  intros H. inversion H; subst. constructor; [|apply IH; assumption].
  intro Hin. apply H2. apply in_or_app. left. exact Hin.
Qed.

Lemma NoDup_app_r {X} (a b : list X) : NoDup (a ++ b) -> NoDup b.
Proof. induction a as [|x a IH]; cbn; [auto|]. intros H. inversion H; subst. auto. Qed.

Lemma NoDup_app_comm {X} (a b : list X) : NoDup (a ++ b) -> NoDup (b ++ a).
Proof. intros H. eapply Permutation_NoDup; [apply Permutation_app_comm|exact H]. Qed.

Lemma NoDup_app_disjoint {X} (a b : list X) x : NoDup (a ++ b) -> In x a -> In x b -> False.
Proof.
  induction a as [|y a IH]; cbn; [tauto|].
  intros H [->|Hin] Hb; inversion H; subst.
  - apply H2. apply in_or_app. right. exact Hb.
  - apply IH; assumption.
Qed.

Lemma NoDup_map_filter {X} (f : X -> Z) (p : X -> bool) l : NoDup (map f l) -> NoDup (map f (filter p l)).
Proof.
  induction l as [|x r IH]; cbn; [auto|]. intros H. inversion H; subst.
  destruct (p x); cbn; [constructor|]; auto.
  intro Hin. apply H2. apply in_map_iff in Hin as [y [Hy Hin]]. apply filter_In in Hin as [Hin _].
  apply in_map_iff. exists y. split; assumption.
Qed.

(* ---------- the invariant ---------- *)

Record DbInv (d : db) : Prop := mkDbInv {
  inv_spent : NoDup (ys_of (d_spent d));
  inv_pending : NoDup (ys_of (d_pending d));
  inv_sigs : NoDup (map s_B (d_sigs d));
  inv_mq : NoDup (map mq_id (d_mq d));
  inv_lq : NoDup (map lq_id (d_lq d));
  inv_ks : NoDup (map k_id (d_ks d))
}.

Lemma DbInv0 : DbInv db0.
Proof. constructor; constructor. Qed.

Lemma map_upd_mq id st l : map mq_id (upd_mq id st l) = map mq_id l.
Proof.
  unfold upd_mq. rewrite map_map. apply map_ext. intros q. destruct (mq_id q =? id); reflexivity.
Qed.

Lemma map_upd_lq id pre st l : map lq_id (upd_lq id pre st l) = map lq_id l.
Proof.
  unfold upd_lq. rewrite map_map. apply map_ext. intros q. destruct (lq_id q =? id); reflexivity.
Qed.

Lemma NoDup_snoc (l : list Z) x : NoDup l -> ~ In x l -> NoDup (l ++ [x]).
Proof.
  intros Hn Hx. apply NoDup_app_comm. cbn. constructor; assumption.
Qed.

(* every command preserves the invariant, whatever its arguments *)
Lemma exec_db_inv c d : DbInv d -> DbInv (fst (exec_db c d)).
Proof.
  intros [Hs Hp Hg Hm Hl Hk].
  destruct c; cbn [exec_db fst]; try (constructor; assumption).
  - (* SaveProofs *)
    destruct (nodupb (ys_of ps ++ ys_of (d_spent d))) eqn:E; cbn [fst]; [|constructor; assumption].
    apply nodupb_NoDup in E. constructor; cbn [set_spent d_spent d_pending d_sigs d_mq d_lq d_ks]; try assumption.
    unfold ys_of. rewrite map_app. apply NoDup_app_comm. exact E.
  - (* AddPending *)
    destruct (nodupb (ys_of ps ++ ys_of (d_pending d))) eqn:E; cbn [fst]; [|constructor; assumption].
    apply nodupb_NoDup in E. constructor; cbn [set_pending d_spent d_pending d_sigs d_mq d_lq d_ks]; try assumption.
    unfold ys_of. rewrite map_app. apply NoDup_app_comm. exact E.
  - (* RemovePending *)
    constructor; cbn [set_pending d_spent d_pending d_sigs d_mq d_lq d_ks]; try assumption.
    apply NoDup_map_filter. exact Hp.
  - (* SaveSigs *)
    destruct (nodupb (map s_B ss ++ map s_B (d_sigs d))) eqn:E; cbn [fst]; [|constructor; assumption].
    apply nodupb_NoDup in E. constructor; cbn [set_sigs d_spent d_pending d_sigs d_mq d_lq d_ks]; try assumption.
    rewrite map_app. apply NoDup_app_comm. exact E.
  - (* SaveMintQuote *)
    destruct (sql_int_ok (mq_amount q) && negb (mem (mq_id q) (map mq_id (d_mq d)))) eqn:E; cbn [fst]; [|constructor; assumption].
    apply andb_true_iff in E as [_ E]. apply negb_true_iff, mem_false in E.
    constructor; cbn [set_mq d_spent d_pending d_sigs d_mq d_lq d_ks]; try assumption.
    rewrite map_app. cbn [map]. apply NoDup_snoc; assumption.
  - (* UpdateMintQuote *)
    destruct (mem id (map mq_id (d_mq d))); cbn [fst]; [|constructor; assumption].
    constructor; cbn [set_mq d_spent d_pending d_sigs d_mq d_lq d_ks]; try assumption.
    rewrite map_upd_mq. exact Hm.
  - (* SaveMeltQuote *)
    destruct (sql_int_ok (lq_amount q) && sql_int_ok (lq_fee q) && sql_int_ok (lq_msat q) &&
              negb (mem (lq_id q) (map lq_id (d_lq d)))) eqn:E; cbn [fst]; [|constructor; assumption].
    apply andb_true_iff in E as [_ E]. apply negb_true_iff, mem_false in E.
    constructor; cbn [set_lq d_spent d_pending d_sigs d_mq d_lq d_ks]; try assumption.
    rewrite map_app. cbn [map]. apply NoDup_snoc; assumption.
  - (* UpdateMeltQuote *)
    destruct (mem id (map lq_id (d_lq d))); cbn [fst]; [|constructor; assumption].
    constructor; cbn [set_lq d_spent d_pending d_sigs d_mq d_lq d_ks]; try assumption.
    rewrite map_upd_lq. exact Hl.
  - (* SaveKeyset *)
    destruct (mem (k_id k) (map k_id (d_ks d))) eqn:E; cbn [fst]; [constructor; assumption|].
    apply mem_false in E.
    constructor; cbn [set_ks d_spent d_pending d_sigs d_mq d_lq d_ks]; try assumption.
    rewrite map_app. cbn [map]. apply NoDup_snoc; assumption.
  - (* UpdateKeysetActive *)
    destruct (mem id (map k_id (d_ks d))); cbn [fst]; [|constructor; assumption].
    constructor; cbn [set_ks d_spent d_pending d_sigs d_mq d_lq d_ks]; try assumption.
    rewrite map_map.
    replace (map (fun x => k_id (if k_id x =? id then mkKs (k_id x) (k_fee x) act else x)) (d_ks d))
      with (map k_id (d_ks d)); [exact Hk|].
    apply map_ext. intros x. destruct (k_id x =? id); reflexivity.
Qed.

(* spent proofs and handed-out signatures are never removed or altered: the tables only grow by appending *)
Definition extends (d d' : db) : Prop :=
  (exists l, d_spent d' = d_spent d ++ l) /\ (exists l, d_sigs d' = d_sigs d ++ l).

Lemma extends_refl d : extends d d.
Proof. split; exists []; rewrite app_nil_r; reflexivity. Qed.

Lemma extends_trans a b c : extends a b -> extends b c -> extends a c.
Proof.
  intros [[l1 H1] [m1 G1]] [[l2 H2] [m2 G2]]. split.
  - exists (l1 ++ l2). rewrite H2, H1, app_assoc. reflexivity.
  - exists (m1 ++ m2). rewrite G2, G1, app_assoc. reflexivity.
Qed.

Lemma extends_same d d' : d_spent d' = d_spent d -> d_sigs d' = d_sigs d -> extends d d'.
Proof. intros H1 H2. split; exists []; rewrite app_nil_r; assumption. Qed.

Lemma exec_db_extends c d : extends d (fst (exec_db c d)).
Proof.
  destruct c; cbn [exec_db fst]; try (apply extends_same; reflexivity).
  - destruct (nodupb _); cbn [fst]; [|apply extends_refl].
    split; cbn [set_spent d_spent d_sigs]; [exists ps; reflexivity|exists []; rewrite app_nil_r; reflexivity].
  - destruct (nodupb _); cbn [fst]; apply extends_same; reflexivity.
  - destruct (nodupb _); cbn [fst]; [|apply extends_refl].
    split; cbn [set_sigs d_spent d_sigs]; [exists []; rewrite app_nil_r; reflexivity|exists ss; reflexivity].
  - destruct (_ && _); cbn [fst]; apply extends_same; reflexivity.
  - destruct (mem _ _); cbn [fst]; apply extends_same; reflexivity.
  - destruct (_ && _); cbn [fst]; apply extends_same; reflexivity.
  - destruct (mem _ _); cbn [fst]; apply extends_same; reflexivity.
  - destruct (mem _ _); cbn [fst]; apply extends_same; reflexivity.
  - destruct (mem _ _); cbn [fst]; apply extends_same; reflexivity.
Qed.

(* ---------- lifting to worlds, programs, cuts, faults, interleavings ---------- *)

Definition WInv (w : world) : Prop := DbInv (w_db w).
Definition wext (w w' : world) : Prop := extends (w_db w) (w_db w').

Lemma exec_db_of c fault w :
  w_db (fst (exec c fault w)) = w_db w \/ w_db (fst (exec c fault w)) = fst (exec_db c (w_db w)).
Proof.
  unfold exec.
  destruct (fault && is_storage c) eqn:Ef; cbn [fst].
  - left. destruct (is_call c); reflexivity.
  - destruct c; cbn [fst w_db];
      try (right; destruct (exec_db _ _) eqn:E; cbn [fst w_db]; reflexivity);
      try (left; reflexivity).
    + left. destruct (l_createerr _ || _); cbn [fst w_db set_ln]; reflexivity.
    + left. destruct (l_inverr _); cbn [fst]; [reflexivity|]. destruct (find _ _); reflexivity.
    + left. destruct (pop _ _ _). reflexivity.
    + left. destruct (pop _ _ _). reflexivity.
Qed.

Lemma exec_inv c fault w : WInv w -> WInv (fst (exec c fault w)).
Proof.
  unfold WInv. intros H. destruct (exec_db_of c fault w) as [E|E]; rewrite E; [exact H|].
  apply exec_db_inv. exact H.
Qed.

Lemma exec_ext c fault w : wext w (fst (exec c fault w)).
Proof.
  unfold wext. destruct (exec_db_of c fault w) as [E|E]; rewrite E; [apply extends_refl|apply exec_db_extends].
Qed.

Lemma run_n_inv {R} (p : prog R) : forall n f w, WInv w -> WInv (fst (run_n n p f w)).
Proof.
  induction p as [r|c k IH|]; intros n f w Hw; cbn [run_n]; try exact Hw.
  destruct (is_call c).
  - destruct n as [|n']; [exact Hw|].
    destruct (exec c (f (w_calls w)) w) as [w' r] eqn:E.
    apply IH. change w' with (fst (w', r)). rewrite <- E. apply exec_inv. exact Hw.
  - destruct (exec c false w) as [w' r] eqn:E.
    apply IH. change w' with (fst (w', r)). rewrite <- E. apply exec_inv. exact Hw.
Qed.

Lemma run_n_ext {R} (p : prog R) : forall n f w, wext w (fst (run_n n p f w)).
Proof.
  induction p as [r|c k IH|]; intros n f w; cbn [run_n]; try apply extends_refl.
  destruct (is_call c).
  - destruct n as [|n']; [apply extends_refl|].
    destruct (exec c (f (w_calls w)) w) as [w' r] eqn:E.
    eapply extends_trans; [|apply IH]. change w' with (fst (w', r)). rewrite <- E. apply exec_ext.
  - destruct (exec c false w) as [w' r] eqn:E.
    eapply extends_trans; [|apply IH]. change w' with (fst (w', r)). rewrite <- E. apply exec_ext.
Qed.

Lemma run_inv {R} (p : prog R) : forall f w, WInv w -> WInv (fst (run p f w)).
Proof.
  induction p as [r|c k IH|]; intros f w Hw; cbn [run]; try exact Hw.
  destruct (exec c (f (w_calls w) && is_call c) w) as [w' r] eqn:E.
  apply IH. change w' with (fst (w', r)). rewrite <- E. apply exec_inv. exact Hw.
Qed.

Lemma run_ext {R} (p : prog R) : forall f w, wext w (fst (run p f w)).
Proof.
  induction p as [r|c k IH|]; intros f w; cbn [run]; try apply extends_refl.
  destruct (exec c (f (w_calls w) && is_call c) w) as [w' r] eqn:E.
  eapply extends_trans; [|apply IH]. change w' with (fst (w', r)). rewrite <- E. apply exec_ext.
Qed.

Lemma step_thread_inv (p : prog opres) : forall w, WInv w -> WInv (fst (step_thread p w)).
Proof.
  induction p as [r|c k IH|]; intros w Hw; cbn [step_thread]; try exact Hw.
  destruct (exec c false w) as [w' r] eqn:E.
  assert (Hw' : WInv w') by (change w' with (fst (w', r)); rewrite <- E; apply exec_inv; exact Hw).
  destruct (is_call c); [exact Hw'|apply IH; exact Hw'].
Qed.

Lemma step_thread_ext (p : prog opres) : forall w, wext w (fst (step_thread p w)).
Proof.
  induction p as [r|c k IH|]; intros w; cbn [step_thread]; try apply extends_refl.
  destruct (exec c false w) as [w' r] eqn:E.
  assert (Hw' : wext w w') by (change w' with (fst (w', r)); rewrite <- E; apply exec_ext).
  destruct (is_call c); [exact Hw'|eapply extends_trans; [exact Hw'|apply IH]].
Qed.

Lemma interleave_inv sched : forall ts w, WInv w -> WInv (fst (interleave sched ts w)).
Proof.
  induction sched as [|i r IH]; intros ts w Hw; cbn [interleave]; [exact Hw|].
  destruct (nth_error ts i) as [p|]; [|apply IH; exact Hw].
  destruct (step_thread p w) as [w' p'] eqn:E. apply IH.
  change w' with (fst (w', p')). rewrite <- E. apply step_thread_inv. exact Hw.
Qed.

Lemma interleave_ext sched : forall ts w, wext w (fst (interleave sched ts w)).
Proof.
  induction sched as [|i r IH]; intros ts w; cbn [interleave]; [apply extends_refl|].
  destruct (nth_error ts i) as [p|]; [|apply IH].
  destruct (step_thread p w) as [w' p'] eqn:E.
  eapply extends_trans; [|apply IH]. change w' with (fst (w', p')). rewrite <- E. apply step_thread_ext.
Qed.

Lemma finish_all_inv ts : forall w, WInv w -> WInv (fst (finish_all ts w)).
Proof.
  induction ts as [|p r IH]; intros w Hw; cbn [finish_all]; [exact Hw|].
  destruct (run p no_fault w) as [w1 x] eqn:E.
  assert (H1 : WInv w1) by (change w1 with (fst (w1, x)); rewrite <- E; apply run_inv; exact Hw).
  specialize (IH w1 H1). destruct (finish_all r w1) as [w2 xs]. exact IH.
Qed.

Lemma finish_all_ext ts : forall w, wext w (fst (finish_all ts w)).
Proof.
  induction ts as [|p r IH]; intros w; cbn [finish_all]; [apply extends_refl|].
  destruct (run p no_fault w) as [w1 x] eqn:E.
  assert (H1 : wext w w1) by (change w1 with (fst (w1, x)); rewrite <- E; apply run_ext).
  specialize (IH w1). destruct (finish_all r w1) as [w2 xs]. cbn [fst] in *.
  eapply extends_trans; eassumption.
Qed.

(* environment steps and restarts do not touch the store *)
Lemma apply_env_db o w : w_db (apply_env o w) = w_db w.
Proof. destruct o; reflexivity. Qed.

Lemma prepare_db o w : w_db (prepare o w) = w_db w.
Proof. destruct o; reflexivity. Qed.

(* ---------- every kind of history item ---------- *)

Inductive hitem :=
| HNormal (o : op)
| HFault (o : op) (f : oracle)          (* storage errors injected at arbitrary positions *)
| HCrash (o : op) (k : nat)             (* the process dies after k calls *)
| HConc (ops : list op) (sched : list nat).   (* concurrent requests under an arbitrary schedule *)

Definition hstep (cfg : config) (w : world) (it : hitem) : world :=
  match it with
  | HNormal o => fst (step cfg no_fault w o)
  | HFault o f => fst (step cfg f w o)
  | HCrash o k => fst (step_crash cfg k w o)
  | HConc ops sched => fst (run_concurrent cfg w ops sched)
  end.

Definition hrun (cfg : config) (w : world) (h : list hitem) : world := fold_left (hstep cfg) h w.

Lemma step_inv cfg f w o : WInv w -> WInv (fst (step cfg f w o)).
Proof.
  intros Hw. unfold step. destruct (is_env o); cbn [fst].
  - unfold WInv. rewrite apply_env_db. exact Hw.
  - destruct (run _ f (prepare o w)) as [w' r] eqn:E. cbn [fst].
    change w' with (fst (w', r)). rewrite <- E. apply run_inv. unfold WInv. rewrite prepare_db. exact Hw.
Qed.

Lemma step_ext cfg f w o : wext w (fst (step cfg f w o)).
Proof.
  unfold step. destruct (is_env o); cbn [fst].
  - unfold wext. rewrite apply_env_db. apply extends_refl.
  - destruct (run _ f (prepare o w)) as [w' r] eqn:E. cbn [fst].
    change w' with (fst (w', r)). rewrite <- E.
    pose proof (run_ext (op_prog cfg (w_mem (prepare o w)) (w_active (prepare o w)) o) f (prepare o w)) as H.
    unfold wext in *. rewrite prepare_db in H. exact H.
Qed.

Lemma step_crash_inv cfg k w o : WInv w -> WInv (fst (step_crash cfg k w o)).
Proof.
  intros Hw. unfold step_crash. destruct (is_env o); cbn [fst].
  - unfold WInv. rewrite apply_env_db. exact Hw.
  - destruct (run_n k _ no_fault (prepare o w)) as [w' r] eqn:E. cbn [fst].
    change w' with (fst (w', r)). rewrite <- E. apply run_n_inv. unfold WInv. rewrite prepare_db. exact Hw.
Qed.

Lemma step_crash_ext cfg k w o : wext w (fst (step_crash cfg k w o)).
Proof.
  unfold step_crash. destruct (is_env o); cbn [fst].
  - unfold wext. rewrite apply_env_db. apply extends_refl.
  - destruct (run_n k _ no_fault (prepare o w)) as [w' r] eqn:E. cbn [fst].
    change w' with (fst (w', r)). rewrite <- E.
    pose proof (run_n_ext (op_prog cfg (w_mem (prepare o w)) (w_active (prepare o w)) o) k no_fault (prepare o w)) as H.
    unfold wext in *. rewrite prepare_db in H. exact H.
Qed.

Lemma run_concurrent_inv cfg w ops sched : WInv w -> WInv (fst (run_concurrent cfg w ops sched)).
Proof.
  intros Hw. unfold run_concurrent.
  destruct (interleave sched _ (reset_calls w)) as [w1 ts1] eqn:E.
  apply finish_all_inv. change w1 with (fst (w1, ts1)). rewrite <- E. apply interleave_inv. exact Hw.
Qed.

Lemma run_concurrent_ext cfg w ops sched : wext w (fst (run_concurrent cfg w ops sched)).
Proof.
  unfold run_concurrent.
  destruct (interleave sched _ (reset_calls w)) as [w1 ts1] eqn:E.
  eapply extends_trans; [|apply finish_all_ext].
  change w1 with (fst (w1, ts1)). rewrite <- E.
  pose proof (interleave_ext sched (map (op_prog cfg (w_mem (reset_calls w)) (w_active (reset_calls w))) ops) (reset_calls w)) as H.
  exact H.
Qed.

Lemma hstep_inv cfg w it : WInv w -> WInv (hstep cfg w it).
Proof.
  destruct it; cbn [hstep]; [apply step_inv|apply step_inv|apply step_crash_inv|apply run_concurrent_inv].
Qed.

Lemma hstep_ext cfg w it : wext w (hstep cfg w it).
Proof.
  destruct it; cbn [hstep]; [apply step_ext|apply step_ext|apply step_crash_ext|apply run_concurrent_ext].
Qed.

Theorem hrun_inv cfg h : forall w, WInv w -> WInv (hrun cfg w h).
Proof.
  induction h as [|it r IH]; intros w Hw; cbn [hrun fold_left]; [exact Hw|].
  apply IH. apply hstep_inv. exact Hw.
Qed.

Theorem hrun_ext cfg h : forall w, wext w (hrun cfg w h).
Proof.
  induction h as [|it r IH]; intros w; cbn [hrun fold_left]; [apply extends_refl|].
  eapply extends_trans; [apply hstep_ext|apply IH].
Qed.

(* ---------- consequences for double spending ---------- *)

(* a successful SaveProofs means none of its Ys was spent before ... *)
Lemma save_proofs_ok ps d d' :
  exec_db (SaveProofs ps) d = (d', ROk tt) ->
  NoDup (ys_of ps) /\ (forall y, In y (ys_of ps) -> ~ In y (ys_of (d_spent d))) /\ d_spent d' = d_spent d ++ ps.
Proof.
  cbn [exec_db]. destruct (nodupb (ys_of ps ++ ys_of (d_spent d))) eqn:E; [|discriminate].
  intros H. inversion H; subst. apply nodupb_NoDup in E. split; [|split].
  - eapply NoDup_app_l. exact E.
  - intros y H1 H2. eapply NoDup_app_disjoint; eassumption.
  - reflexivity.
Qed.

(* ... and in every later state, whatever happened in between, a SaveProofs containing one of them fails *)
Theorem spent_once cfg ps d d' h w y ps' :
  exec_db (SaveProofs ps) d = (d', ROk tt) ->
  w_db w = d' ->
  In y (ys_of ps) -> In y (ys_of ps') ->
  snd (exec_db (SaveProofs ps') (w_db (hrun cfg w h))) = RErr.
Proof.
  intros Hok Hw Hy Hy'. apply save_proofs_ok in Hok as [_ [_ Hsp]].
  destruct (hrun_ext cfg h w) as [[l Hl] _]. rewrite Hw, Hsp in Hl.
  cbn [exec_db]. destruct (nodupb (ys_of ps' ++ ys_of (d_spent (w_db (hrun cfg w h))))) eqn:E; [|reflexivity].
  exfalso. apply nodupb_NoDup in E. eapply NoDup_app_disjoint; [exact E|exact Hy'|].
  rewrite Hl. unfold ys_of. rewrite !map_app. apply in_or_app. left. apply in_or_app. right. exact Hy.
Qed.

(* a spent Y stays spent: through restarts, crashes, faults and concurrent requests *)
Theorem spent_forever cfg h w y :
  In y (ys_of (d_spent (w_db w))) -> In y (ys_of (d_spent (w_db (hrun cfg w h)))).
Proof.
  intros Hy. destruct (hrun_ext cfg h w) as [[l Hl] _]. rewrite Hl. unfold ys_of. rewrite map_app.
  apply in_or_app. left. exact Hy.
Qed.

(* a handed-out signature row is never lost or changed *)
Theorem sig_forever cfg h w s :
  In s (d_sigs (w_db w)) -> In s (d_sigs (w_db (hrun cfg w h))).
Proof.
  intros Hs. destruct (hrun_ext cfg h w) as [_ [l Hl]]. rewrite Hl. apply in_or_app. left. exact Hs.
Qed.
