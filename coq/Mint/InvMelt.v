(* Sequential, fault-free behaviour of melt resolution: GetMeltQuoteState (poll) and MeltTokens. *)
From Coq Require Import ZArith List Bool Lia.
From Verif Require Import Model Sem InvDb InvSwap.
Import ListNotations.
Open Scope Z_scope.

Lemma find_lq_mem id l q : find_lq id l = Some q -> mem id (map lq_id l) = true /\ lq_id q = id /\ In q l.
Proof.
  unfold find_lq. intros H. apply find_some in H as [Hin He]. apply Z.eqb_eq in He.
  split; [|split; assumption]. apply mem_In. rewrite <- He. apply in_map. exact Hin.
Qed.

Definition rows_of_quote (id : Z) (d : db) : list prow := filter (fun r => r_quote r =? id) (d_pending d).
Definition unquote (r : prow) : prow := mkProw (r_y r) (r_amount r) (r_ks r) (r_wit r) 0.

(* the next scripted lookup answer for payment hash h *)
Definition next_look (w : world) (h : Z) : answer := fst (pop h (l_look (w_ln w)) (mkAns 3 0)).
Definition next_pay (w : world) (h : Z) : answer := fst (pop h (l_pay (w_ln w)) (mkAns 0 1)).

Definition keeps_mem (w w' : world) : Prop := w_mem w' = w_mem w /\ w_active w' = w_active w.

(* spent and pending have no Y in common *)
Definition Disjoint (d : db) : Prop := forall y, In y (ys_of (d_spent d)) -> In y (ys_of (d_pending d)) -> False.

Lemma ys_unquote l : ys_of (map unquote l) = ys_of l.
Proof. unfold ys_of. rewrite map_map. reflexivity. Qed.

Lemma nodupb_app_fresh (a b : list Z) :
  NoDup a -> NoDup b -> (forall y, In y a -> ~ In y b) -> nodupb (a ++ b) = true.
Proof.
  intros Ha Hb Hd. apply nodupb_NoDup. induction a as [|x r IH]; cbn; [exact Hb|].
  inversion Ha; subst. constructor.
  - intro Hin. apply in_app_or in Hin as [Hin|Hin]; [contradiction|]. eapply Hd; [left; reflexivity|exact Hin].
  - apply IH; [assumption|]. intros y Hy. apply Hd. right. exact Hy.
Qed.

Ltac sx := cbn [run bind no_fault exec is_call is_storage andb exec_db w_db w_ln w_mem w_active w_calls set_ln].

Lemma internal_mq_some q d m : internal_mq q d = Some m ->
  find (fun m0 => mq_hash m0 =? lq_hash q) (d_mq d) = Some m /\ mq_hash m = lq_req q.
Proof.
  unfold internal_mq, same_invoice. destruct (find _ _) as [m0|]; [|discriminate].
  destruct (mq_hash m0 =? lq_req q) eqn:E; [|discriminate]. intros H. injection H as <-. split; [reflexivity|apply Z.eqb_eq; exact E].
Qed.

Ltac dbx := cbn [set_spent set_pending set_sigs set_mq set_lq set_ks d_spent d_pending d_sigs d_mq d_lq d_ks].

(* GetMeltQuoteState on a quote: what the poll does, by the backend's answer *)
Theorem poll_spec id w :
  WInv w -> Disjoint (w_db w) ->
  exists w' r, run (get_melt_quote_state id) no_fault w = (w', Done r) /\ keeps_mem w w' /\
  match find_lq id (d_lq (w_db w)) with
  | None => r = Err EQuoteNotExist /\ w_db w' = w_db w /\ w_ln w' = w_ln w
  | Some q =>
      if lq_state q =? 1 then
        let a := next_look w (lq_hash q) in
        let rows := rows_of_quote id (w_db w) in
        if (a_kind a =? 3) || (a_kind a =? 4) then
          (* error or not-found: nothing changes *)
          r = Ok q /\ w_db w' = w_db w
        else if a_kind a =? 0 then
          (* success: the locked proofs become spent, the quote PAID with the backend's preimage *)
          r = Ok (with_state q 2 (a_pre a)) /\
          d_spent (w_db w') = d_spent (w_db w) ++ map unquote rows /\
          d_pending (w_db w') = filter (fun r => negb (mem (r_y r) (ys_of rows))) (d_pending (w_db w)) /\
          d_lq (w_db w') = upd_lq id (a_pre a) 2 (d_lq (w_db w)) /\
          d_sigs (w_db w') = d_sigs (w_db w) /\ d_mq (w_db w') = d_mq (w_db w)
        else if a_kind a =? 1 then
          (* definitive failure: the proofs are released, the quote UNPAID *)
          r = Ok (with_state q 0 0) /\
          d_spent (w_db w') = d_spent (w_db w) /\
          d_pending (w_db w') = filter (fun r => negb (mem (r_y r) (ys_of rows))) (d_pending (w_db w)) /\
          d_lq (w_db w') = upd_lq id 0 0 (d_lq (w_db w)) /\
          d_sigs (w_db w') = d_sigs (w_db w) /\ d_mq (w_db w') = d_mq (w_db w)
        else
          (* still in flight: nothing changes *)
          r = Ok q /\ w_db w' = w_db w
      else r = Ok q /\ w_db w' = w_db w /\ w_ln w' = w_ln w
  end.
Proof.
  intros Hinv Hdis. unfold get_melt_quote_state, remove_pending_for_quote. destruct w as [d l m a n].
  sx.
  destruct (find_lq id (d_lq d)) as [q|] eqn:Eq.
  2:{ eexists _, _. split; [reflexivity|]. repeat split. }
  destruct (lq_state q =? 1) eqn:Es.
  2:{ sx. eexists _, _. split; [reflexivity|]. repeat split. }
  sx. unfold next_look. cbn [w_ln].
  destruct (pop (lq_hash q) (l_look l) (mkAns 3 0)) as [ans rest] eqn:Epop. cbn [fst set_ln]. sx.
  destruct ((a_kind ans =? 3) || (a_kind ans =? 4)) eqn:E34.
  { sx. eexists _, _. split; [reflexivity|]. repeat split. }
  destruct (find_lq_mem _ _ _ Eq) as [Hmem _].
  destruct (a_kind ans =? 0) eqn:E0.
  - (* success *)
    sx. cbn [set_pending d_spent].
    set (rows := filter (fun r => r_quote r =? id) (d_pending d)).
    assert (Hsave : nodupb (ys_of (map (fun r => mkProw (r_y r) (r_amount r) (r_ks r) (r_wit r) 0) rows) ++ ys_of (d_spent d)) = true).
    { change (map (fun r => mkProw (r_y r) (r_amount r) (r_ks r) (r_wit r) 0) rows) with (map unquote rows).
      rewrite ys_unquote. destruct Hinv as [Hs Hp _ _ _ _]. cbn [w_db] in Hs, Hp.
      apply nodupb_app_fresh.
      - unfold ys_of, rows. apply NoDup_map_filter. exact Hp.
      - exact Hs.
      - intros y Hy Hsp. apply (Hdis y); cbn [w_db]; [exact Hsp|].
        unfold ys_of, rows in *. apply in_map_iff in Hy as [r [Hr Hin]]. apply filter_In in Hin as [Hin _].
        apply in_map_iff. exists r. split; assumption. }
    rewrite Hsave. sx. cbn [set_spent set_pending d_lq]. rewrite Hmem. sx.
    eexists _, _. split; [reflexivity|]. split; [split; reflexivity|].
    cbn [w_db set_lq set_spent set_pending d_spent d_pending d_sigs d_mq d_lq d_ks]. unfold rows_of_quote. cbn [w_db].
    repeat split.
  - destruct (a_kind ans =? 1) eqn:E1.
    + (* failed *)
      sx. rewrite Hmem. sx. cbn [set_lq d_pending]. sx.
      eexists _, _. split; [reflexivity|]. split; [split; reflexivity|].
      cbn [w_db set_lq set_spent set_pending d_spent d_pending d_sigs d_mq d_lq d_ks]. unfold rows_of_quote. cbn [w_db].
      repeat split.
    + sx. eexists _, _. split; [reflexivity|]. repeat split.
Qed.

(* ------------------------------------------------------------------ MeltTokens *)

Lemma upd_lq_twice id p1 s1 p2 s2 l : upd_lq id p1 s1 (upd_lq id p2 s2 l) = upd_lq id p1 s1 l.
Proof.
  unfold upd_lq. rewrite map_map. apply map_ext. intros q.
  destruct (lq_id q =? id) eqn:E; cbn [lq_id lq_req lq_hash lq_amount lq_fee lq_mpp lq_msat]; rewrite E; reflexivity.
Qed.

Lemma filter_all_true {X} (f : X -> bool) l : (forall x, In x l -> f x = true) -> filter f l = l.
Proof.
  induction l as [|x r IH]; intros H; [reflexivity|]. cbn [filter].
  rewrite (H x (or_introl eq_refl)). f_equal. apply IH. intros y Hy. apply H. right. exact Hy.
Qed.

Lemma filter_all_false {X} (f : X -> bool) l : (forall x, In x l -> f x = false) -> filter f l = [].
Proof.
  induction l as [|x r IH]; intros H; [reflexivity|]. cbn [filter].
  rewrite (H x (or_introl eq_refl)). apply IH. intros y Hy. apply H. right. exact Hy.
Qed.

Lemma filter_remove_added (pend rows : list prow) :
  (forall y, In y (ys_of rows) -> ~ In y (ys_of pend)) ->
  filter (fun r => negb (mem (r_y r) (ys_of rows))) (pend ++ rows) = pend.
Proof.
  intros Hd. rewrite filter_app. rewrite (filter_all_false _ rows), app_nil_r.
  - apply filter_all_true. intros r Hr.
    apply negb_true_iff. apply mem_false. intro Hin. apply (Hd _ Hin). unfold ys_of. apply in_map. exact Hr.
  - intros r Hr. apply negb_false_iff. apply mem_In. unfold ys_of. apply in_map. exact Hr.
Qed.

(* what MeltTokens decides from the backend's answers: (state, preimage) *)
Definition melt_decision (pa la : answer) : Z * Z :=
  if a_kind pa =? 0 then (2, a_pre pa)
  else if a_kind pa =? 2 then (1, 0)
  else if a_kind la =? 4 then (0, 0)
  else if a_kind la =? 3 then (1, 0)
  else if a_kind la =? 1 then (0, 0)
  else if a_kind la =? 0 then (2, a_pre la)
  else (1, 0).

Definition melt_validated (mem_ks : list ksrow) (q : lquote) (ins : list proof) (w : world) : Prop :=
  lq_state q <> 2 /\ lq_state q <> 1 /\ ins <> [] /\
  (forall p, In p ins -> ~ In (p_secret p) (ys_of (d_spent (w_db w))) /\ ~ In (p_secret p) (ys_of (d_pending (w_db w)))) /\
  NoDup (map p_secret ins) /\
  check_proofs mem_ks ins = None /\
  add64 (add64 (lq_amount q) (lq_fee q)) (tx_fees mem_ks ins) <= sum64 (map p_amount ins) /\
  existsb p_sigall ins = false.

(* the effect on the store, by final state *)
Definition melt_effect (id : Z) (ins : list proof) (w w' : world) (st pre : Z) : Prop :=
  d_sigs (w_db w') = d_sigs (w_db w) /\ d_ks (w_db w') = d_ks (w_db w) /\
  d_lq (w_db w') = upd_lq id pre st (d_lq (w_db w)) /\
  ((st = 2 /\ d_spent (w_db w') = d_spent (w_db w) ++ map (to_row 0) ins /\ d_pending (w_db w') = d_pending (w_db w)) \/
   (st = 1 /\ d_spent (w_db w') = d_spent (w_db w) /\ d_pending (w_db w') = d_pending (w_db w) ++ map (to_row id) ins) \/
   (st = 0 /\ d_spent (w_db w') = d_spent (w_db w) /\ d_pending (w_db w') = d_pending (w_db w))).

Definition the_fee_limit (cfg : config) (q : lquote) : Z :=
  if lq_mpp q then fee_reserve cfg (lq_msat q / 1000) else lq_fee q.

Definition the_pay_call (cfg : config) (q : lquote) : paycall :=
  mkPay (lq_hash q) (the_fee_limit cfg q) (if lq_mpp q then lq_msat q else 0) (lq_mpp q).

Theorem melt_tokens_spec cfg mem_ks id ins w :
  WInv w ->
  exists w' r, run (melt_tokens cfg mem_ks id ins) no_fault w = (w', Done r) /\ keeps_mem w w' /\
  match r with
  | Err e =>
      (w_db w' = w_db w /\ w_ln w' = w_ln w) \/
      (* the one refusal that leaves a trace: an internal settlement whose invoice lookup fails *)
      (e = ELn /\ exists q, find_lq id (d_lq (w_db w)) = Some q /\ melt_validated mem_ks q ins w /\
                            melt_effect id ins w w' 1 0 /\ d_mq (w_db w') = d_mq (w_db w) /\ w_ln w' = w_ln w)
  | Ok q' =>
      exists q, find_lq id (d_lq (w_db w)) = Some q /\ melt_validated mem_ks q ins w /\
      match internal_mq q (w_db w) with
      | None =>
          (* paid over Lightning: exactly one pay call, with the fee limit bounded by what the user paid for *)
          q' = with_state q (fst (melt_decision (next_pay w (lq_hash q)) (next_look w (lq_hash q))))
                            (snd (melt_decision (next_pay w (lq_hash q)) (next_look w (lq_hash q)))) /\
          melt_effect id ins w w' (fst (melt_decision (next_pay w (lq_hash q)) (next_look w (lq_hash q))))
                                  (snd (melt_decision (next_pay w (lq_hash q)) (next_look w (lq_hash q)))) /\
          d_mq (w_db w') = d_mq (w_db w) /\
          l_calls (w_ln w') = l_calls (w_ln w) ++ [the_pay_call cfg q]
      | Some mq0 =>
          (* settled internally: no Lightning payment, the mint quote with the same invoice becomes PAID *)
          exists pre, q' = with_state q 2 pre /\ melt_effect id ins w w' 2 pre /\
                      d_mq (w_db w') = upd_mq (mq_id mq0) 1 (d_mq (w_db w)) /\ w_ln w' = w_ln w
      end
  end.
Proof.
  intros Hinv. unfold melt_tokens. destruct w as [d l m a n]. sx; dbx.
  destruct (find_lq id (d_lq d)) as [q|] eqn:Eq.
  2:{ eexists _, _. split; [reflexivity|]. split; [split; reflexivity|]. left. split; reflexivity. }
  destruct (lq_state q =? 2) eqn:E2.
  { sx; dbx. eexists _, _. split; [reflexivity|]. split; [split; reflexivity|]. left. split; reflexivity. }
  destruct (lq_state q =? 1) eqn:E1.
  { sx; dbx. eexists _, _. split; [reflexivity|]. split; [split; reflexivity|]. left. split; reflexivity. }
  rewrite run_bind.
  destruct (verify_proofs_spec mem_ks ins (mkWorld d l m a (n + 1))) as [w1 [r1 [Hrun [Hsbc Hok]]]]. rewrite Hrun.
  destruct Hsbc as [Hd1 [Hl1 [Hm1 Ha1]]]. destruct w1 as [d1 l1 m1 a1 n1].
  cbn [w_db w_ln w_mem w_active] in Hd1, Hl1, Hm1, Ha1. subst d1 l1 m1 a1.
  destruct r1 as [[]|e].
  2:{ sx; dbx. eexists _, _. split; [reflexivity|]. split; [split; reflexivity|]. left. split; reflexivity. }
  destruct Hok as [Hok _]. specialize (Hok eq_refl). destruct Hok as [Hne [Hp [Hs [Hnd Hcp]]]]. cbn [w_db] in Hp, Hs.
  destruct (sum64 (map p_amount ins) <? add64 (add64 (lq_amount q) (lq_fee q)) (tx_fees mem_ks ins)) eqn:Eins.
  { sx; dbx. eexists _, _. split; [reflexivity|]. split; [split; reflexivity|]. left. split; reflexivity. }
  destruct (existsb p_sigall ins) eqn:Esa.
  { sx; dbx. eexists _, _. split; [reflexivity|]. split; [split; reflexivity|]. left. split; reflexivity. }
  (* validated *)
  assert (Hfresh_s : forall y, In y (map p_secret ins) -> ~ In y (ys_of (d_spent d))).
  { intros y Hy Hin. unfold ys_of in Hin. apply in_map_iff in Hin as [r [Hr Hin]].
    assert (In r (filter (fun r => mem (r_y r) (map p_secret ins)) (d_spent d))) as Hf.
    { apply filter_In. split; [exact Hin|]. apply mem_In. rewrite Hr. exact Hy. }
    rewrite Hs in Hf. destruct Hf. }
  assert (Hfresh_p : forall y, In y (map p_secret ins) -> ~ In y (ys_of (d_pending d))).
  { intros y Hy Hin. unfold ys_of in Hin. apply in_map_iff in Hin as [r [Hr Hin]].
    assert (In r (filter (fun r => mem (r_y r) (map p_secret ins)) (d_pending d))) as Hf.
    { apply filter_In. split; [exact Hin|]. apply mem_In. rewrite Hr. exact Hy. }
    rewrite Hp in Hf. destruct Hf. }
  apply nodupb_NoDup in Hnd.
  assert (Hval : melt_validated mem_ks q ins (mkWorld d l m a n)).
  { unfold melt_validated. cbn [w_db]. apply Z.eqb_neq in E2, E1. apply Z.ltb_ge in Eins.
    split; [exact E2|]. split; [exact E1|]. split; [exact Hne|].
    split. { intros p Hp'. split; [apply Hfresh_s|apply Hfresh_p]; apply in_map; exact Hp'. }
    split; [exact Hnd|]. split; [exact Hcp|]. split; [exact Eins|exact Esa]. }
  destruct (find_lq_mem _ _ _ Eq) as [Hmem [Hqid _]]. subst id.
  destruct Hinv as [Hsp Hpe Hsg Hmq Hlq Hks]. cbn [w_db] in Hsp, Hpe, Hsg, Hmq, Hlq, Hks.
  assert (Hys0 : forall qq, ys_of (map (to_row qq) ins) = map p_secret ins).
  { intros qq. unfold ys_of. rewrite map_map. reflexivity. }
  (* AddPending succeeds *)
  sx; dbx. rewrite Hys0. rewrite (nodupb_app_fresh _ _ Hnd Hpe Hfresh_p).
  (* UpdateMeltQuote PENDING succeeds *)
  sx; dbx. cbn [set_pending d_lq]. rewrite Hmem. sx; dbx. cbn [set_lq set_pending d_mq].
  set (pend1 := d_pending d ++ map (to_row (lq_id q)) ins).
  assert (Hrem : filter (fun r => negb (mem (r_y r) (map p_secret ins))) pend1 = d_pending d).
  { unfold pend1. rewrite <- (Hys0 (lq_id q)). apply filter_remove_added. rewrite Hys0. exact Hfresh_p. }
  assert (Hsave : nodupb (ys_of (map (to_row 0) ins) ++ ys_of (d_spent d)) = true).
  { rewrite Hys0. apply nodupb_app_fresh; assumption. }
  sx; dbx.
  change (same_invoice (ROk (find (fun m0 => mq_hash m0 =? lq_hash q) (d_mq d))) (lq_req q)) with (internal_mq q d).
  cbn [w_db]. destruct (internal_mq q d) as [mq0|] eqn:Emq'.
  - (* internal settlement *)
    destruct (internal_mq_some _ _ _ Emq') as [Emq Ereq].
    sx; dbx. destruct (l_inverr l) eqn:Eie.
    { sx; dbx. eexists _, _. split; [reflexivity|]. split; [split; reflexivity|]. right. split; [reflexivity|].
      exists q. split; [reflexivity|]. split; [exact Hval|].
      cbn [w_db w_ln]. dbx.
      split; [|split; reflexivity]. split; [reflexivity|]. split; [reflexivity|]. split; [reflexivity|].
      right. left. repeat split. }
    destruct (find (fun i => (i_hash i =? mq_hash mq0) && i_own i) (l_inv l)) as [inv|] eqn:Einv.
    2:{ sx; dbx. eexists _, _. split; [reflexivity|]. split; [split; reflexivity|]. right. split; [reflexivity|].
        exists q. split; [reflexivity|]. split; [exact Hval|].
        cbn [w_db w_ln]. dbx.
        split; [|split; reflexivity]. split; [reflexivity|]. split; [reflexivity|]. split; [reflexivity|].
        right. left. repeat split. }
    sx; dbx. rewrite map_upd_lq, Hmem. sx; dbx.
    assert (Hmm : mem (mq_id mq0) (map mq_id (d_mq d)) = true).
    { apply find_some in Emq as [Hin _]. apply mem_In. apply in_map. exact Hin. }
    rewrite Hmm. sx; dbx. fold pend1. rewrite Hrem.
    sx; dbx. rewrite Hsave. sx; dbx.
    eexists _, _. split; [reflexivity|]. split; [split; reflexivity|].
    exists q. split; [reflexivity|]. split; [exact Hval|]. try rewrite Emq'. exists (i_hash inv).
    cbn [w_db w_ln]. dbx. rewrite upd_lq_twice.
    split; [reflexivity|]. split; [|split; reflexivity].
    split; [reflexivity|]. split; [reflexivity|]. split; [reflexivity|]. left. repeat split.
  - (* Lightning payment *)
    sx; dbx.
    destruct (pop (lq_hash q) (l_pay l) (mkAns 0 1)) as [pa prest] eqn:Epay.
    sx; dbx. cbn [l_look].
    unfold finish_paid, settle_proofs, release.
    destruct (a_kind pa =? 0) eqn:P0.
    + (* paid at once *)
      sx; dbx. fold pend1. rewrite Hrem.
      sx; dbx. rewrite Hsave. sx; dbx. cbn [lq_id].
      rewrite map_upd_lq, Hmem. sx; dbx.
      eexists _, _. split; [reflexivity|]. split; [split; reflexivity|].
      exists q. split; [reflexivity|]. split; [exact Hval|]. try rewrite Emq'.
      unfold next_pay, next_look, melt_decision. cbn [w_ln]. rewrite Epay. cbn [fst]. rewrite P0. cbn [fst snd].
      cbn [w_db w_ln l_calls]. dbx. rewrite upd_lq_twice.
      split; [reflexivity|]. split; [|split; reflexivity].
      split; [reflexivity|]. split; [reflexivity|]. split; [reflexivity|]. left. repeat split.
    + destruct (a_kind pa =? 2) eqn:P2.
      * (* in flight *)
        sx; dbx. eexists _, _. split; [reflexivity|]. split; [split; reflexivity|].
        exists q. split; [reflexivity|]. split; [exact Hval|]. try rewrite Emq'.
        unfold next_pay, next_look, melt_decision. cbn [w_ln]. rewrite Epay. cbn [fst]. rewrite P0, P2. cbn [fst snd].
        cbn [w_db w_ln l_calls]. dbx.
        split; [reflexivity|]. split; [|split; reflexivity].
        split; [reflexivity|]. split; [reflexivity|]. split; [reflexivity|]. right. left. repeat split.
      * (* failed or error: extra status check *)
        sx; dbx. cbn [l_look].
        destruct (pop (lq_hash q) (l_look l) (mkAns 3 0)) as [la lrest] eqn:Elook. sx; dbx.
        destruct (a_kind la =? 4) eqn:L4.
        { sx; dbx. cbn [lq_id]. rewrite map_upd_lq, Hmem. sx; dbx.
          fold pend1. rewrite Hrem. sx; dbx.
          eexists _, _. split; [reflexivity|]. split; [split; reflexivity|].
          exists q. split; [reflexivity|]. split; [exact Hval|]. try rewrite Emq'.
          unfold next_pay, next_look, melt_decision. cbn [w_ln]. rewrite Epay, Elook. cbn [fst]. rewrite P0, P2, L4. cbn [fst snd].
          cbn [w_db w_ln l_calls]. dbx. rewrite upd_lq_twice.
          split; [reflexivity|]. split; [|split; reflexivity].
          split; [reflexivity|]. split; [reflexivity|]. split; [reflexivity|]. right. right. repeat split. }
        destruct (a_kind la =? 3) eqn:L3.
        { sx; dbx. eexists _, _. split; [reflexivity|]. split; [split; reflexivity|].
          exists q. split; [reflexivity|]. split; [exact Hval|]. try rewrite Emq'.
          unfold next_pay, next_look, melt_decision. cbn [w_ln]. rewrite Epay, Elook. cbn [fst]. rewrite P0, P2, L4, L3. cbn [fst snd].
          cbn [w_db w_ln l_calls]. dbx.
          split; [reflexivity|]. split; [|split; reflexivity].
          split; [reflexivity|]. split; [reflexivity|]. split; [reflexivity|]. right. left. repeat split. }
        destruct (a_kind la =? 1) eqn:L1.
        { sx; dbx. cbn [lq_id]. rewrite map_upd_lq, Hmem. sx; dbx.
          fold pend1. rewrite Hrem. sx; dbx.
          eexists _, _. split; [reflexivity|]. split; [split; reflexivity|].
          exists q. split; [reflexivity|]. split; [exact Hval|]. try rewrite Emq'.
          unfold next_pay, next_look, melt_decision. cbn [w_ln]. rewrite Epay, Elook. cbn [fst]. rewrite P0, P2, L4, L3, L1. cbn [fst snd].
          cbn [w_db w_ln l_calls]. dbx. rewrite upd_lq_twice.
          split; [reflexivity|]. split; [|split; reflexivity].
          split; [reflexivity|]. split; [reflexivity|]. split; [reflexivity|]. right. right. repeat split. }
        destruct (a_kind la =? 0) eqn:L0.
        { sx; dbx. fold pend1. rewrite Hrem.
          sx; dbx. rewrite Hsave. sx; dbx. cbn [lq_id].
          rewrite map_upd_lq, Hmem. sx; dbx.
          eexists _, _. split; [reflexivity|]. split; [split; reflexivity|].
          exists q. split; [reflexivity|]. split; [exact Hval|]. try rewrite Emq'.
          unfold next_pay, next_look, melt_decision. cbn [w_ln]. rewrite Epay, Elook. cbn [fst]. rewrite P0, P2, L4, L3, L1, L0. cbn [fst snd].
          cbn [w_db w_ln l_calls]. dbx. rewrite upd_lq_twice.
          split; [reflexivity|]. split; [|split; reflexivity].
          split; [reflexivity|]. split; [reflexivity|]. split; [reflexivity|]. left. repeat split. }
        sx; dbx. eexists _, _. split; [reflexivity|]. split; [split; reflexivity|].
        exists q. split; [reflexivity|]. split; [exact Hval|]. try rewrite Emq'.
        unfold next_pay, next_look, melt_decision. cbn [w_ln]. rewrite Epay, Elook. cbn [fst]. rewrite P0, P2, L4, L3, L1, L0. cbn [fst snd].
        cbn [w_db w_ln l_calls]. dbx.
        split; [reflexivity|]. split; [|split; reflexivity].
        split; [reflexivity|]. split; [reflexivity|]. split; [reflexivity|]. right. left. repeat split.
Qed.
