(* Decoding of mint histories sent by the harness and encoding of the observations. *)
From Coq Require Import ZArith List Bool.
From Verif Require Import Admin Sexp Model Sem Trace.
Import ListNotations.
Open Scope Z_scope.

Definition d_cterm (s : sexp) : option cterm :=
  match s with
  | L [A 0; A k; A a; A sec] => Some (CSig k a sec)
  | L [A 1; A n] => Some (CJunk n)
  | L [A 2] => Some CBad
  | _ => None
  end.

Definition zb (z : Z) : bool := negb (z =? 0).

Definition d_proof (s : sexp) : option proof :=
  match s with
  | L [A sec; A am; A ks; c; A wit; A long; A cond; A sa] =>
      do c' <- d_cterm c; Some (mkProof sec am ks c' wit (zb long) (zb cond) (zb sa))
  | _ => None
  end.

Definition d_bmsg (s : sexp) : option bmsg :=
  match s with
  | L [A b; A am; A ks; A wit; A pt; A sec] => Some (mkBmsg b am ks wit (zb pt) sec)
  | _ => None
  end.

Definition d_answer (s : sexp) : option answer :=
  match s with L [A k; A p] => Some (mkAns k p) | _ => None end.

Definition d_op (s : sexp) : option op :=
  match s with
  | L [A 1; A u; A am; A pk; A id; A h] => Some (OMintQuote (zb u) am pk id h)
  | L [A 2; A id] => Some (OMintState id)
  | L [A 3; A id; L outs; A sg] => do o <- opt_map d_bmsg outs; Some (OMint id o sg)
  | L [A 4; L ins; L outs; A sg] =>
      do i <- opt_map d_proof ins; do o <- opt_map d_bmsg outs; Some (OSwap i o (zb sg))
  | L [A 5; A u; A d; A req; A h; A msat; L []; A id] => Some (OMeltQuote (zb u) (zb d) req h msat None id)
  | L [A 5; A u; A d; A req; A h; A msat; L [A part]; A id] => Some (OMeltQuote (zb u) (zb d) req h msat (Some part) id)
  | L [A 6; A id] => Some (OMeltState id)
  | L [A 7; A id; L ins] => do i <- opt_map d_proof ins; Some (OMelt id i)
  | L [A 8; L ys] => do l <- opt_map sZ ys; Some (OCheck l)
  | L [A 9; L bs] => do l <- opt_map sZ bs; Some (ORestore l)
  | L [A 10; A fee] => Some (ORotate fee)
  | L [A 11; A fee; A rot] => Some (ORestart fee (zb rot))
  | L [A 12; A id] => Some (OWatcher id)
  | L [A 13] => Some OBalance
  | L [A 14] => Some OInfo
  | L [A 20; A h] => Some (ESettle h)
  | L [A 21; A h; a] => do a' <- d_answer a; Some (EScriptPay h a')
  | L [A 22; A h; a] => do a' <- d_answer a; Some (EScriptLook h a')
  | L [A 23; A b] => Some (ESetInvErr (zb b))
  | L [A 24; A b] => Some (ESetCreateErr (zb b))
  | _ => None
  end.

Inductive item :=
| INormal (o : op)
| ICrash (o : op) (k : Z)
| IFault (o : op) (positions : list Z)
| IConc (ops : list op) (sched : list Z)
| IReconf (c : config)
| IAdmin (r : areq).      (* a request to the admin RPC (mint/manager) *)   (* the operator restarts the mint with other limits / MPP support: the following items run under c *)

Definition d_cfg (s : sexp) : option config :=
  match s with
  | L [A a; A b; A c; A m; A f] => Some (mkCfg a b c (zb m) f)
  | _ => None
  end.

Definition d_areq (s : sexp) : option areq :=
  match s with
  | L [A 1; L []] => Some (AIssued None)
  | L [A 1; L [A id]] => Some (AIssued (Some id))
  | L [A 2; L []] => Some (ARedeemed None)
  | L [A 2; L [A id]] => Some (ARedeemed (Some id))
  | L [A 3] => Some ATotal
  | L [A 4] => Some AList
  | L [A 5; L []] => Some (ARotate None)
  | L [A 5; L [L [A 0; A z]]] => Some (ARotate (Some (FNum z)))
  | L [A 5; L [L [A 1]]] => Some (ARotate (Some FJunk))
  | L [A 6] => Some AOther
  | _ => None
  end.

Definition d_item (s : sexp) : option item :=
  match s with
  | L [A 0; o] => do o' <- d_op o; Some (INormal o')
  | L [A 1; o; A k] => do o' <- d_op o; Some (ICrash o' k)
  | L [A 2; o; L ps] => do o' <- d_op o; do l <- opt_map sZ ps; Some (IFault o' l)
  | L [A 3; L os; L sc] => do os' <- opt_map d_op os; do l <- opt_map sZ sc; Some (IConc os' l)
  | L [A 4; cf] => do c <- d_cfg cf; Some (IReconf c)
  | L [A 5; rq] => do r <- d_areq rq; Some (IAdmin r)
  | _ => None
  end.

(* ---------------- encoding ---------------- *)

Definition err_code (e : err) : Z :=
  match e with
  | EDb => 1 | ELn => 2 | EUnit => 3 | EBadPubkey => 20 | EMintLimit => 5 | EMintDisabled => 6 | EMeltLimit => 7
  | EQuoteNotExist => 8 | ENotPaid => 9 | EIssued => 10 | EQuotePending => 11 | EMeltPaid => 12
  | EOutAmount => 13 | EDupOutputs => 14 | EOverQuote => 15 | EAlreadySigned => 16 | EQuoteSig => 17
  | EUnknownKeyset => 18 | EInactiveKeyset => 19 | EBadB => 20
  | ENoProofs => 21 | EProofPending => 22 | EProofUsed => 23 | EDupProofs => 24 | ESecretLong => 25
  | EInvalidProof => 26 | EBadC => 20 | ECond => 28
  | EProofAmount => 29 | EInsufficient => 30 | ESigAllMelt => 31 | ESigAllOutputs => 32
  | EInvoice => 33 | EMeltExists => 34 | EMpp => 35
  end.

Definition e_srow (r : srow) : sexp := L [A (s_B r); A (s_amount r); A (s_ks r)].

(* proj = 0: rejection causes are reported; otherwise every rejection is just (0) *)
Definition e_res (proj : Z) (r : opres) : sexp :=
  match r with
  | RSigs l => L [A 1; L (map e_srow l)]
  | RMq q => L [A 2; A (mq_id q); A (mq_amount q); A (mq_state q); A (mq_pubkey q)]
  | RLq q => L [A 3; A (lq_id q); A (lq_amount q); A (lq_fee q); A (lq_state q); A (lq_preimage q)]
  | RStates l => L [A 4; L (map (fun t => match t with (y, st, wt) => L [A y; A st; A wt] end) l)]
  | RUnit => L [A 5]
  | RBal z => L [A 6; A z]
  | RBool b => L [A 7; eBool b]
  | RFail e => if proj =? 0 then L [A 0; A (err_code e)] else L [A 0]
  | RPanic => L [A 9]
  | RCrash => L [A 8]
  end.

(* insertion sort of rows by an integer key *)
Fixpoint ins_by {X} (key : X -> Z) (x : X) (l : list X) : list X :=
  match l with
  | [] => [x]
  | y :: r => if key x <=? key y then x :: y :: r else y :: ins_by key x r
  end.
Definition sort_by {X} (key : X -> Z) (l : list X) : list X := fold_right (ins_by key) [] l.

Definition snapshot (w : world) : sexp :=
  let d := w_db w in
  L [ L (map (fun r => L [A (r_y r); A (r_amount r); A (r_ks r); A (r_wit r)]) (sort_by r_y (d_spent d)));
      L (map (fun r => L [A (r_y r); A (r_amount r); A (r_quote r)]) (sort_by r_y (d_pending d)));
      L (map e_srow (sort_by s_B (d_sigs d)));
      L (map (fun q => L [A (mq_id q); A (mq_state q)]) (sort_by mq_id (d_mq d)));
      L (map (fun q => L [A (lq_id q); A (lq_state q); A (lq_preimage q)]) (sort_by lq_id (d_lq d)));
      L (map (fun c => L [A (pc_hash c); A (pc_maxfee c); A (pc_msat c); eBool (pc_partial c)]) (l_calls (w_ln w)));
      L (map (fun k => L [A (k_id k); A (k_fee k); eBool (k_active k)]) (sort_by k_id (w_mem w))) ].

(* a LoadMint that does not come up leaves no mint to take a snapshot of *)
Definition failed_restart (o : op) (r : opres) : bool :=
  match o, r with
  | ORestart _ _, (RPanic | RFail _) => true
  | _, _ => false
  end.
Definition empty_snapshot : sexp := L [L []; L []; L []; L []; L []; L []; L []].

Definition e_rows (rows : list (Z * Z)) : sexp := L (map (fun x => L [A (fst x); A (snd x)]) (sort_by fst rows)).

Definition e_aresp (r : aresp) : sexp :=
  match r with
  | AErr code cls => L [A 0; A code; A cls]
  | AOne ks a => L [A 1; A ks; A a]
  | AAll rows t => L [A 2; e_rows rows; A t]
  | ATotals i ti rd tr c => L [A 3; e_rows i; A ti; e_rows rd; A tr; A c]
  | AKeysets l => L [A 4; L (map (fun k => L [A (k_id k); A (k_fee k); eBool (k_active k)]) (sort_by k_id l))]
  | ARotated id fee act => L [A 5; A id; A fee; eBool act]
  | APanicked => L [A 9]
  end.

Definition oracle_of (positions : list Z) : oracle := fun i => mem i positions.

(* the calls the operation made, in order (Trace.cmd_tag); LoadMint runs before the harness can wrap its storage: not compared *)
Definition e_log (o : op) (l : list Z) : sexp :=
  match o with ORestart _ _ => L [] | _ => L (map A l) end.

Fixpoint run_items (cfg : config) (proj : Z) (w : world) (its : list item) : list sexp :=
  match its with
  | [] => []
  | it :: rest =>
      let '(cfg', w', out) :=
        match it with
        | INormal o => let '(w1, r, l) := step_log cfg no_fault w o in
                       (cfg, w1, L [e_res proj r; if failed_restart o r then empty_snapshot else snapshot w1; e_log o l])
        | ICrash o k => let '(w1, r, l) := step_crash_log cfg (Z.to_nat k) w o in (cfg, w1, L [e_res proj r; snapshot w1; e_log o l])
        | IFault o ps => let '(w1, r, l) := step_log cfg (oracle_of ps) w o in (cfg, w1, L [e_res proj r; snapshot w1; e_log o l])
        | IConc os sc =>
            let '(w1, rs) := run_concurrent cfg w os (map Z.to_nat sc) in
            (cfg, w1, L [L (map (e_res proj) rs); snapshot w1])
        | IReconf c => (c, w, L [L [A 5]; snapshot w])
        | IAdmin rq => let '(w1, r) := admin_step w rq in (cfg, w1, L [e_aresp r; snapshot w1])
        end in
      out :: run_items cfg' proj w' rest
  end.

(* case: (cfg proj (items...)) *)
Definition run_mint (c : sexp) : sexp :=
  match c with
  | L [cf; A proj; L its] =>
      match d_cfg cf, opt_map d_item its with
      | Some cfg, Some items => L (run_items cfg proj world0 items)
      | _, _ => bad_case
      end
  | _ => bad_case
  end.
