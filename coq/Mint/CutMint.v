(* C07/C03/C02, every cut of a MintTokens: for every store content, every backend answer, every injected storage error and
   every crash cut, the store after the (partial) MintTokens differs from the store before it only in the state of that one
   quote and, at most, by exactly the requested signatures; the state moves only when the quote was PAID (or UNPAID with
   its invoice reported settled), and signatures are stored only together with the ISSUED mark and within the quote's amount.
   Hence no crash point or storage error of a MintTokens issues more than was paid in. *)
From Coq Require Import ZArith List Bool Lia.
From Verif Require Import Model Sem InvDb InvSwap InvMint InvMelt Corollaries Queries Footprint Global GlobalQuote GlobalValue CutValue.
Import ListNotations.
Open Scope Z_scope.

(* everything but the mint-quote table, the signature table and the call counter *)
Definition mint_frames (w w' : world) : Prop :=
  w_ln w' = w_ln w /\ w_mem w' = w_mem w /\ w_active w' = w_active w /\
  d_spent (w_db w') = d_spent (w_db w) /\ d_pending (w_db w') = d_pending (w_db w) /\
  d_lq (w_db w') = d_lq (w_db w) /\ d_ks (w_db w') = d_ks (w_db w).

Definition mq_rel (id : Z) (a b : list mquote) : Prop :=
  b = a \/ b = upd_mq id 1 a \/ b = upd_mq id 2 a \/ b = upd_mq id 3 a.

Lemma mq_rel_upd id st a b : mq_rel id (upd_mq id st a) b -> (st = 1 \/ st = 2 \/ st = 3) -> mq_rel id a b.
Proof.
  intros [H|[H|[H|H]]] Hst; rewrite ?upd_mq_twice in H; unfold mq_rel; try tauto.
  destruct Hst as [ -> | [ -> | -> ] ]; tauto.
Qed.

(* the part of MintTokens that runs once the quote is known to be PAID (text of Model.mint_tokens; tied to it by mint_tokens_tail) *)
Definition mint_tail (mem_ks : list ksrow) (active : Z) (id : Z) (outs : list bmsg) (sig : Z) (q : mquote) : prog (result (list srow)) :=
  let restore (e : err) : prog (result (list srow)) :=
    call u <- UpdateMintQuote id 1 ;;
    match u with RErr => fail EDb | ROk _ => fail e end in
  call u0 <- UpdateMintQuote id 2 ;;
  match u0 with
  | RErr => restore EDb
  | ROk _ =>
    match amount_checked (map b_amount outs) 0 with
    | None => restore EOutAmount
    | Some out_amount =>
      if negb (nodupb (map b_B outs)) then restore EDupOutputs else
      if mq_amount q <? out_amount then restore EOverQuote else
      call r <- GetSigs (map b_B outs) ;;
      match r with
      | RErr => restore EDb
      | ROk (_ :: _) => restore EAlreadySigned
      | ROk [] =>
        if negb (mq_pubkey q =? 0) && negb (sig =? 1) then restore EQuoteSig else
        match check_outputs mem_ks active outs with
        | Some e => restore e
        | None =>
          call u1 <- UpdateMintQuote id 3 ;;
          match u1 with
          | RErr => restore EDb
          | ROk _ =>
            call s <- SaveSigs (sig_rows outs) ;;
            match s with
            | RErr => restore EDb
            | ROk _ => Ret (Ok (sig_rows outs))
            end
          end
        end
      end
    end
  end.

Lemma mint_tokens_tail mem_ks active id outs sig :
  mint_tokens mem_ks active id outs sig =
  (perform g <- get_mint_quote_state id ;;
   match g with
   | Err e => fail e
   | Ok q =>
     if mq_state q =? 0 then fail ENotPaid else
     if mq_state q =? 3 then fail EIssued else
     if mq_state q =? 2 then fail EQuotePending else
     if mq_state q =? 1 then mint_tail mem_ks active id outs sig q else Ret (Ok [])
   end).
Proof. reflexivity. Qed.

(* one UpdateMintQuote followed by a return: the restore step *)
Lemma upd_then_ret {R} id st (k : res unit -> prog R) n f w :
  (forall r, exists x, k r = Ret x) ->
  let w' := fst (run_n n (Do (UpdateMintQuote id st) k) f w) in
  mint_frames w w' /\ d_sigs (w_db w') = d_sigs (w_db w) /\
  (d_mq (w_db w') = d_mq (w_db w) \/ d_mq (w_db w') = upd_mq id st (d_mq (w_db w))).
Proof.
  intros Hk. cbv zeta. destruct w as [d l m a nc].
  destruct n as [|n]; [cbn [run_n is_call fst]; split; [repeat split|split; [reflexivity|left; reflexivity]]|].
  cbn [run_n is_call w_calls].
  destruct (f nc); cbn [exec is_call is_storage andb fault_resp exec_db w_db w_ln w_mem w_active w_calls].
  - destruct (Hk RErr) as [x ->]. cbn [run_n fst]. split; [repeat split|split; [reflexivity|left; reflexivity]].
  - destruct (mem id (map mq_id (d_mq d))).
    + destruct (Hk (ROk tt)) as [x ->]. cbn [run_n fst w_db w_ln w_mem w_active set_mq d_spent d_pending d_sigs d_mq d_lq d_ks].
      split; [repeat split|split; [reflexivity|right; reflexivity]].
    + destruct (Hk RErr) as [x ->]. cbn [run_n fst]. split; [repeat split|split; [reflexivity|left; reflexivity]].
Qed.

Definition tail_state (id : Z) (outs : list bmsg) (q : mquote) (w w' : world) : Prop :=
  mint_frames w w' /\
  ((d_sigs (w_db w') = d_sigs (w_db w) /\ mq_rel id (d_mq (w_db w)) (d_mq (w_db w'))) \/
   (d_sigs (w_db w') = d_sigs (w_db w) ++ sig_rows outs /\ d_mq (w_db w') = upd_mq id 3 (d_mq (w_db w)) /\
    exists oa, amount_checked (map b_amount outs) 0 = Some oa /\ oa <= mq_amount q)).

Lemma frames_trans a b c : mint_frames a b -> mint_frames b c -> mint_frames a c.
Proof. unfold mint_frames. intros [A1 [A2 [A3 [A4 [A5 [A6 A7]]]]]] [B1 [B2 [B3 [B4 [B5 [B6 B7]]]]]]. repeat split; congruence. Qed.

(* a restore step run from a world w1 that is already related to w *)
Lemma restore_from id outs q e n f w w1 st :
  mint_frames w w1 -> d_sigs (w_db w1) = d_sigs (w_db w) -> d_mq (w_db w1) = upd_mq id st (d_mq (w_db w)) ->
  st = 2 \/ st = 3 ->
  tail_state id outs q w
    (fst (run_n n (call u <- UpdateMintQuote id 1 ;; match u with RErr => fail EDb | ROk _ => @fail (list srow) e end) f w1)).
Proof.
  intros Hf Hs Hm Hst.
  destruct (upd_then_ret id 1 (fun u => match u with RErr => fail EDb | ROk _ => @fail (list srow) e end) n f w1) as [F [S M]].
  { intros [u|]; eexists; reflexivity. }
  match type of F with mint_frames _ ?X => change (tail_state id outs q w X); set (W' := X) in * end.
  split; [eapply frames_trans; eassumption|]. left. split; [congruence|].
  destruct M as [M|M]; rewrite M, Hm, ?upd_mq_twice; unfold mq_rel; destruct Hst as [ -> | -> ]; tauto.
Qed.

Ltac tail_done := split; [repeat split|left; split; [reflexivity|unfold mq_rel; tauto]].

Lemma mint_tail_cut mem_ks active id outs sig q n f w :
  tail_state id outs q w (fst (run_n n (mint_tail mem_ks active id outs sig q) f w)).
Proof.
  unfold mint_tail. cbv zeta. destruct w as [d l m a nc].
  (* UpdateMintQuote id 2 *)
  destruct n as [|n]; [cbn [run_n is_call fst]; tail_done|]. cbn [run_n is_call w_calls].
  assert (Hfirst : forall e W, W = {| w_db := d; w_ln := l; w_mem := m; w_active := a; w_calls := nc + 1 |} ->
            tail_state id outs q {| w_db := d; w_ln := l; w_mem := m; w_active := a; w_calls := nc |}
              (fst (run_n n (call u <- UpdateMintQuote id 1 ;; match u with RErr => fail EDb | ROk _ => @fail (list srow) e end) f W))).
  { intros e W ->.
    destruct (upd_then_ret id 1 (fun u => match u with RErr => fail EDb | ROk _ => @fail (list srow) e end) n f
                {| w_db := d; w_ln := l; w_mem := m; w_active := a; w_calls := nc + 1 |}) as [F [S M]].
    { intros [u|]; eexists; reflexivity. }
    split; [exact F|]. left. split; [exact S|]. cbn [w_db] in M. unfold mq_rel. cbn [w_db]. tauto. }
  destruct (f nc); cbn [exec is_call is_storage andb fault_resp exec_db w_db w_ln w_mem w_active w_calls].
  { apply Hfirst. reflexivity. }
  destruct (mem id (map mq_id (d_mq d))) eqn:Emem; [|apply Hfirst; reflexivity].
  set (w2 := {| w_db := set_mq d (upd_mq id 2 (d_mq d)); w_ln := l; w_mem := m; w_active := a; w_calls := nc + 1 |}).
  assert (F2 : mint_frames {| w_db := d; w_ln := l; w_mem := m; w_active := a; w_calls := nc |} w2) by (repeat split).
  assert (Hr2 : forall e n0 W, mint_frames w2 W -> d_sigs (w_db W) = d_sigs d -> d_mq (w_db W) = upd_mq id 2 (d_mq d) ->
            tail_state id outs q {| w_db := d; w_ln := l; w_mem := m; w_active := a; w_calls := nc |}
              (fst (run_n n0 (call u <- UpdateMintQuote id 1 ;; match u with RErr => fail EDb | ROk _ => @fail (list srow) e end) f W))).
  { intros e n0 W FW SW MW. apply (restore_from id outs q e n0 f _ W 2); [exact (frames_trans _ _ _ F2 FW)|exact SW|exact MW|tauto]. }
  destruct (amount_checked (map b_amount outs) 0) as [oa|] eqn:Eoa; [|apply Hr2; [repeat split|reflexivity|reflexivity]].
  destruct (negb (nodupb (map b_B outs))); [apply Hr2; [repeat split|reflexivity|reflexivity]|].
  destruct (mq_amount q <? oa) eqn:Eamt; [apply Hr2; [repeat split|reflexivity|reflexivity]|].
  apply Z.ltb_ge in Eamt.
  (* GetSigs *)
  destruct n as [|n]; [cbn [run_n is_call fst]; split; [exact F2|left; split; [reflexivity|unfold mq_rel; cbn [w_db set_mq d_mq]; tauto]]|].
  unfold w2 at 1. cbn [run_n is_call w_calls].
  destruct (f (nc + 1)); cbn [exec is_call is_storage andb fault_resp exec_db w_db w_ln w_mem w_active w_calls].
  { apply Hr2; [repeat split|reflexivity|reflexivity]. }
  cbn [set_mq d_sigs].
  destruct (filter (fun s => mem (s_B s) (map b_B outs)) (d_sigs d)) as [|z zs]; [|apply Hr2; [repeat split|reflexivity|reflexivity]].
  destruct (negb (mq_pubkey q =? 0) && negb (sig =? 1)); [apply Hr2; [repeat split|reflexivity|reflexivity]|].
  destruct (check_outputs mem_ks active outs); [apply Hr2; [repeat split|reflexivity|reflexivity]|].
  (* UpdateMintQuote id 3 *)
  destruct n as [|n]; [cbn [run_n is_call fst]; split; [repeat split|left; split; [reflexivity|unfold mq_rel; cbn [w_db set_mq d_mq]; tauto]]|].
  cbn [run_n is_call w_calls].
  destruct (f (nc + 1 + 1)); cbn [exec is_call is_storage andb fault_resp exec_db w_db w_ln w_mem w_active w_calls].
  { apply Hr2; [repeat split|reflexivity|reflexivity]. }
  cbn [set_mq d_mq]. rewrite map_upd_mq, Emem, upd_mq_twice.
  cbn [set_mq d_spent d_pending d_sigs d_mq d_lq d_ks].
  assert (Hr3 : forall e n0 W, mint_frames w2 W -> d_sigs (w_db W) = d_sigs d -> d_mq (w_db W) = upd_mq id 3 (d_mq d) ->
            tail_state id outs q {| w_db := d; w_ln := l; w_mem := m; w_active := a; w_calls := nc |}
              (fst (run_n n0 (call u <- UpdateMintQuote id 1 ;; match u with RErr => fail EDb | ROk _ => @fail (list srow) e end) f W))).
  { intros e n0 W FW SW MW. apply (restore_from id outs q e n0 f _ W 3); [exact (frames_trans _ _ _ F2 FW)|exact SW|exact MW|tauto]. }
  (* SaveSigs *)
  destruct n as [|n]; [cbn [run_n is_call fst]; split; [repeat split|left; split; [reflexivity|unfold mq_rel; cbn [w_db d_mq]; tauto]]|].
  cbn [run_n is_call w_calls].
  destruct (f (nc + 1 + 1 + 1)); cbn [exec is_call is_storage andb fault_resp exec_db w_db w_ln w_mem w_active w_calls].
  { apply Hr3; [repeat split|reflexivity|reflexivity]. }
  cbn [set_mq d_sigs].
  destruct (nodupb (map s_B (sig_rows outs) ++ map s_B (d_sigs d))).
  - cbn [run_n fst]. split; [repeat split|]. right. cbn [w_db set_sigs d_sigs d_mq]. split; [reflexivity|]. split; [reflexivity|].
    exists oa. split; [first [exact Eoa|reflexivity]|exact Eamt].
  - apply Hr3; [repeat split|reflexivity|reflexivity].
Qed.

(* ---------- the whole request ---------- *)

Definition paid_for (w : world) (q : mquote) : Prop :=
  mq_state q = 1 \/ (mq_state q = 0 /\ settled w (mq_hash q) = true).

Definition mint_cut_state (id : Z) (outs : list bmsg) (w w' : world) : Prop :=
  mint_frames w w' /\
  ((d_sigs (w_db w') = d_sigs (w_db w) /\ d_mq (w_db w') = d_mq (w_db w)) \/
   exists q, find_mq id (d_mq (w_db w)) = Some q /\ paid_for w q /\
     ((d_sigs (w_db w') = d_sigs (w_db w) /\
       exists st, (st = 1 \/ st = 2 \/ st = 3) /\ d_mq (w_db w') = upd_mq id st (d_mq (w_db w))) \/
      (d_sigs (w_db w') = d_sigs (w_db w) ++ sig_rows outs /\ d_mq (w_db w') = upd_mq id 3 (d_mq (w_db w)) /\
       exists oa, amount_checked (map b_amount outs) 0 = Some oa /\ oa <= mq_amount q))).

Lemma tail_to_cut id outs q q' w W w' :
  mint_frames w W -> d_sigs (w_db W) = d_sigs (w_db w) ->
  (d_mq (w_db W) = d_mq (w_db w) \/ d_mq (w_db W) = upd_mq id 1 (d_mq (w_db w))) ->
  find_mq id (d_mq (w_db w)) = Some q -> paid_for w q -> mq_amount q' = mq_amount q ->
  tail_state id outs q' W w' -> mint_cut_state id outs w w'.
Proof.
  intros F S M Hf Hp Ha [F' [[S' R]|[S' [M' [oa [Hoa Hle]]]]]]; (split; [eapply frames_trans; eassumption|]).
  - destruct M as [M|M].
    + rewrite M in R. destruct R as [R|R].
      * left. split; congruence.
      * right. exists q. split; [exact Hf|]. split; [exact Hp|]. left. split; [congruence|].
        destruct R as [R|[R|R]]; [exists 1|exists 2|exists 3]; (split; [tauto|exact R]).
    + right. exists q. split; [exact Hf|]. split; [exact Hp|]. left. split; [congruence|].
      rewrite M in R. destruct R as [R|[R|[R|R]]]; rewrite ?upd_mq_twice in R;
        [exists 1|exists 1|exists 2|exists 3]; (split; [tauto|exact R]).
  - right. exists q. split; [exact Hf|]. split; [exact Hp|]. right. split; [congruence|]. split.
    + destruct M as [M|M]; rewrite M' , M, ?upd_mq_twice; reflexivity.
    + exists oa. split; [exact Hoa|]. rewrite <- Ha. exact Hle.
Qed.

Ltac cut_same := cbn [run_n fst bind fail]; split; [repeat split|left; split; reflexivity].

Theorem mint_cut_states mem_ks active id outs sig n f w :
  mint_cut_state id outs w (fst (run_n n (mint_tokens mem_ks active id outs sig) f w)).
Proof.
  rewrite mint_tokens_tail. unfold get_mint_quote_state. cbn [bind]. destruct w as [d l m a nc].
  (* GetMintQuote *)
  destruct n as [|n]; [cut_same|]. cbn [run_n is_call w_calls].
  destruct (f nc); cbn [exec is_call is_storage andb fault_resp exec_db w_db w_ln w_mem w_active w_calls]; [cut_same|].
  destruct (find_mq id (d_mq d)) as [q|] eqn:Ef; [|cut_same].
  set (w0 := {| w_db := d; w_ln := l; w_mem := m; w_active := a; w_calls := nc |}).
  destruct (mq_state q =? 0) eqn:E0.
  - (* UNPAID: ask the backend *)
    apply Z.eqb_eq in E0. cbn [bind].
    destruct n as [|n]; [cut_same|]. cbn [run_n is_call w_calls].
    unfold exec at 1. cbn [is_call is_storage andb w_db w_ln w_mem w_active w_calls].
    rewrite ?andb_false_r.
    destruct (l_inverr l); [cut_same|].
    destruct (find (fun i => (i_hash i =? mq_hash q) && i_own i) (l_inv l)) as [i|] eqn:Ei; [|cut_same].
    destruct (i_settled i) eqn:Es.
    + cbn [bind].
      destruct n as [|n]; [cut_same|]. cbn [run_n is_call w_calls].
      destruct (f (nc + 1 + 1)); cbn [exec is_call is_storage andb fault_resp exec_db w_db w_ln w_mem w_active w_calls]; [cut_same|].
      destruct (mem id (map mq_id (d_mq d))); [|cut_same].
      cbn [bind mq_state Z.eqb Pos.eqb].
      apply (tail_to_cut id outs q (mkMq (mq_id q) (mq_amount q) (mq_hash q) 1 (mq_pubkey q)) w0
               {| w_db := set_mq d (upd_mq id 1 (d_mq d)); w_ln := l; w_mem := m; w_active := a; w_calls := nc + 1 + 1 + 1 |});
        [repeat split|reflexivity|right; reflexivity|exact Ef| |reflexivity|apply mint_tail_cut].
      right. split; [exact E0|]. unfold settled, w0. cbn [w_ln]. rewrite Ei. exact Es.
    + cbn [bind]. assert (E0' : (mq_state q =? 0) = true) by (apply Z.eqb_eq; exact E0). rewrite E0'. cut_same.
  - cbn [bind]. rewrite E0.
    destruct (mq_state q =? 3); [cut_same|]. destruct (mq_state q =? 2); [cut_same|].
    destruct (mq_state q =? 1) eqn:E1; [|cut_same].
    apply Z.eqb_eq in E1.
    apply (tail_to_cut id outs q q w0 {| w_db := d; w_ln := l; w_mem := m; w_active := a; w_calls := nc + 1 |});
      [repeat split|reflexivity|left; reflexivity|exact Ef|left; exact E1|reflexivity|apply mint_tail_cut].
Qed.

(* ---------- the whole-history invariants survive every cut of a MintTokens ---------- *)

(* ghost: a cut or faulted MintTokens issued exactly when the signature table grew *)
Definition sigs_grew (w w' : world) : bool := negb (Nat.eqb (length (d_sigs (w_db w'))) (length (d_sigs (w_db w)))).
Definition cut_issue_ev (id : Z) (w w' : world) : list Z := if sigs_grew w w' then [id] else [].

Lemma settled_same w w' : w_ln w' = w_ln w -> forall h, settled w' h = settled w h.
Proof. intros H h. unfold settled. rewrite H. reflexivity. Qed.

Lemma mint_cut_inv mem_ks active id outs sig n f w iss cred :
  Forall (fun x => 0 <= x < two64) (map b_amount outs) ->
  QInv w iss cred -> VI iss w ->
  let w' := fst (run_n n (mint_tokens mem_ks active id outs sig) f w) in
  QInv w' (cut_issue_ev id w w' ++ iss) cred /\ VI (cut_issue_ev id w w' ++ iss) w'.
Proof.
  intros Hu Hq [Hg [Hv Hi]]. cbv zeta.
  pose proof (mint_cut_states mem_ks active id outs sig n f w) as Hc.
  pose proof (run_n_inv (mint_tokens mem_ks active id outs sig) n f w (g_inv w Hg)) as Hinv'.
  set (w' := fst (run_n n (mint_tokens mem_ks active id outs sig) f w)) in *.
  destruct Hc as [[Hln [_ [_ [Hsp [Hpe [Hlq _]]]]]] Hc].
  assert (Hmono : settled_mono w w') by (intros h Hh; rewrite (settled_same w w' Hln); exact Hh).
  assert (Hes : forall m, esett w' m = esett w m) by (intros m0; unfold esett; rewrite (settled_same w w' Hln); reflexivity).
  assert (Hgood : Good w').
  { split; [exact Hinv'|]. intros y Hy Hp. rewrite Hsp in Hy. rewrite Hpe in Hp. exact (g_dis w Hg y Hy Hp). }
  destruct Hv as [V1 V2 V3 V4].
  assert (HV1 : forall q0, In q0 (d_lq (w_db w')) -> lq_ok w' q0).
  { rewrite Hlq. intros q0 Hq0. specialize (V1 q0 Hq0). unfold lq_ok, rows_sum, rows_of_quote in *. rewrite Hpe. exact V1. }
  assert (HV3 : forall r, In r (d_pending (w_db w')) -> In (r_quote r) (map lq_id (d_lq (w_db w')))) by (rewrite Hpe, Hlq; exact V3).
  destruct Hc as [[Hsg Hmq]|[q [Hf [Hpaid Hc]]]].
  - (* nothing changed *)
    assert (Hev : cut_issue_ev id w w' = []) by (unfold cut_issue_ev, sigs_grew; rewrite Hsg, Nat.eqb_refl; reflexivity).
    rewrite Hev. cbn [app]. split; [apply (qinv_same w); assumption|].
    split; [exact Hgood|]. split; [|rewrite Hmq; exact Hi].
    split; [exact HV1|rewrite Hmq; exact V2|exact HV3|]. unfold vS, vR, vOut in *. rewrite Hsg, Hsp, Hlq, Hmq. exact V4.
  - destruct (find_mq_in _ _ _ Hf) as [Hin [Hid Hids]].
    assert (Hq0 : 0 <= mq_amount q) by (apply V2; exact Hin).
    assert (HV2 : forall st, d_mq (w_db w') = upd_mq id st (d_mq (w_db w)) -> forall m0, In m0 (d_mq (w_db w')) -> 0 <= mq_amount m0).
    { intros st Hmq m0 Hm0. rewrite Hmq in Hm0. apply in_upd_mq in Hm0 as [m1 [Hm1 ->]].
      destruct (mq_id m1 =? id); cbn [mq_amount]; apply V2; exact Hm1. }
    assert (HQ : forall st di, d_mq (w_db w') = upd_mq id st (d_mq (w_db w)) -> (st = 1 \/ st = 2 \/ st = 3) ->
                 (forall x, In x di -> x = id) -> (cnt id di = 0 \/ (cnt id di = 1 /\ st = 3)) ->
                 QInv w' (di ++ iss) cred).
    { intros st di Hmq Hst Hdi Hcnt. change cred with ([] ++ cred).
      eapply qinv_upd; [exact Hmq|exact Hmono|exact Hdi|intros x []|exact Hids| |exact Hq].
      intros m0 Hm0 Hmid Hok. rewrite cnt_nil, Hes. cbn [Z.add].
      assert (m0 = q) by (apply (unique_by_id (d_mq (w_db w))); [apply (inv_mq _ (g_inv w Hg))|exact Hm0|exact Hin|congruence]). subst m0.
      pose proof (esett_range w q) as He. pose proof (cnt_nonneg id iss) as Hci. pose proof (cnt_nonneg id cred) as Hcc.
      destruct Hok as [_ [Hz [Ho _]]].
      destruct Hpaid as [H1|[H0 Hst']].
      - specialize (Ho (or_introl H1)). repeat split; intros; lia.
      - specialize (Hz H0). assert (He1 : esett w q = 1) by (unfold esett; rewrite Hst'; reflexivity).
        repeat split; intros; lia. }
    destruct Hc as [[Hsg [st [Hst Hmq]]]|[Hsg [Hmq [oa [Hoa Hle]]]]].
    + assert (Hev : cut_issue_ev id w w' = []) by (unfold cut_issue_ev, sigs_grew; rewrite Hsg, Nat.eqb_refl; reflexivity).
      rewrite Hev. split; [apply (HQ st []); [exact Hmq|exact Hst|intros x []|left; apply cnt_nil]|].
      cbn [app]. split; [exact Hgood|]. split; [|rewrite Hmq, map_upd_mq; exact Hi].
      split; [exact HV1|exact (HV2 st Hmq)|exact HV3|]. unfold vS, vR, vOut in *. rewrite Hsg, Hsp, Hlq, Hmq, wsum_upd. exact V4.
    + apply amount_checked_sum in Hoa; [|unfold two64; lia|exact Hu]. cbn [Z.add] in Hoa.
      assert (Hamt : amount_of id (d_mq (w_db w)) = mq_amount q) by (unfold amount_of; rewrite Hf; reflexivity).
      destruct outs as [|o outs'].
      * (* no outputs: the quote is marked ISSUED, nothing is signed *)
        assert (Hev : cut_issue_ev id w w' = []).
        { unfold cut_issue_ev, sigs_grew. rewrite Hsg. cbn [sig_rows map]. rewrite app_nil_r, Nat.eqb_refl. reflexivity. }
        rewrite Hev. split; [apply (HQ 3 []); [exact Hmq|tauto|intros x []|left; apply cnt_nil]|].
        cbn [app]. split; [exact Hgood|]. split; [|rewrite Hmq, map_upd_mq; exact Hi].
        split; [exact HV1|exact (HV2 3 Hmq)|exact HV3|]. unfold vS, vR, vOut in *. rewrite Hsg, Hsp, Hlq, Hmq, wsum_upd.
        cbn [sig_rows map]. rewrite app_nil_r. exact V4.
      * assert (Hev : cut_issue_ev id w w' = [id]).
        { unfold cut_issue_ev, sigs_grew. rewrite Hsg, app_length. cbn [sig_rows map length].
          destruct (Nat.eqb_spec (length (d_sigs (w_db w)) + S (length (map (fun o0 => mkSrow (b_B o0) (b_amount o0) (b_ks o0)) outs')))
                                 (length (d_sigs (w_db w)))) as [E|E]; [lia|reflexivity]. }
        rewrite Hev. split.
        { apply (HQ 3 [id]); [exact Hmq|tauto|intros x [<-|[]]; reflexivity|].
          right. split; [|reflexivity]. rewrite cnt_cons, cnt_nil, Z.eqb_refl. reflexivity. }
        split; [exact Hgood|]. split.
        { split; [exact HV1|exact (HV2 3 Hmq)|exact HV3|]. unfold vS, vR, vOut in *. rewrite Hsg, Hsp, Hlq, Hmq, wsum_upd.
          rewrite map_app, tsum_app, tsum_sig_rows. unfold wsum in *. cbn [app map] in *. rewrite Hamt, !tsum_cons. rewrite tsum_cons in Hoa. lia. }
        rewrite Hmq, map_upd_mq. intros x [<-|Hx]; [exact Hids|apply Hi; exact Hx].
Qed.
