(* C07, write-ahead order: facts about the ORDER of a request's writes that hold on every path - for every store content,
   every backend answer, every injected storage error and at every crash cut:
     - Swap stores signatures only after its inputs were inserted into the spent table;
     - MintTokens stores signatures only after the quote was marked ISSUED;
     - MeltTokens asks the backend to pay only after the inputs were locked and the quote marked PENDING.
   So no cut of these requests leaves signatures without the matching debit, or a payment without locked inputs. *)
From Coq Require Import ZArith List Bool Lia.
From Verif Require Import Model Sem InvDb InvSwap Footprint HRel.
Import ListNotations.
Open Scope Z_scope.

(* did this call succeed?  (reads always do; a write returns ROk tt; Lightning calls are judged by the caller) *)
Definition ok_unit (r : res unit) : bool := match r with ROk _ => true | RErr => false end.

(* "event" predicates are given per command together with its response *)
Definition evt := forall c : cmd, resp c -> bool.

(* on every path of p: whenever an `after` event happens, a `before` event has happened earlier on that path *)
Fixpoint ordered {R} (before after : evt) (seen : bool) (p : prog R) : Prop :=
  match p with
  | Ret _ | Panic => True
  | Do c k => forall r, (after c r = true -> seen = true) /\ ordered before after (seen || before c r) (k r)
  end.

Lemma ordered_bind {X Y} before after (p : prog X) (f : X -> prog Y) : forall seen,
  ordered before after seen p ->
  (forall x seen', (seen = true -> seen' = true) -> ordered before after seen' (f x)) ->
  ordered before after seen (bind p f).
Proof.
  induction p as [x|c k IH|]; intros seen Hp Hf; cbn [bind ordered] in *.
  - apply Hf. auto.
  - intros r. destruct (Hp r) as [H1 H2]. split; [exact H1|].
    apply IH; [exact H2|]. intros x s' Hs. apply Hf. intros E. apply Hs. rewrite E. reflexivity.
  - exact I.
Qed.

(* the semantic reading: a world predicate B that the `before` event establishes and every command preserves,
   a world predicate A that only the `after` event can establish: then at every cut, A implies B *)
Section Semantics.
  Variables (before after : evt).
  Variable B : world -> Prop.     (* established by a `before` event, stable afterwards *)
  Variable A : world -> world -> Prop.   (* "an `after` event has happened since the start world" *)
  Hypothesis B_stable : forall c fault w, B w -> B (fst (exec c fault w)).
  Hypothesis B_est : forall c fault w, before c (snd (exec c fault w)) = true -> B (fst (exec c fault w)).
  Hypothesis A_refl : forall w, ~ A w w.
  Hypothesis A_step : forall w0 c fault w, A w0 (fst (exec c fault w)) -> A w0 w \/ after c (snd (exec c fault w)) = true.

  Lemma ordered_run_n {R} (p : prog R) : forall n f w0 w seen,
    ordered before after seen p -> (seen = true -> B w) -> (A w0 w -> B w) ->
    A w0 (fst (run_n n p f w)) -> B (fst (run_n n p f w)).
  Proof.
    induction p as [r|c k IH|]; intros n f w0 w seen Ho Hs Haw; cbn [run_n fst]; try exact Haw.
    cbn [ordered] in Ho.
    assert (Hstep : forall fault n', A w0 (fst (run_n n' (k (snd (exec c fault w))) f (fst (exec c fault w)))) ->
                                     B (fst (run_n n' (k (snd (exec c fault w))) f (fst (exec c fault w))))).
    { intros fault n'. destruct (Ho (snd (exec c fault w))) as [H1 H2].
      apply (IH (snd (exec c fault w)) n' f w0 (fst (exec c fault w)) (seen || before c (snd (exec c fault w))) H2).
      - intros E. apply orb_true_iff in E as [E|E]; [apply B_stable; apply Hs; exact E|apply B_est; exact E].
      - intros Ha. destruct (A_step w0 c fault w Ha) as [Ha'|Hev]; [apply B_stable; apply Haw; exact Ha'|].
        apply B_stable. apply Hs. apply H1. exact Hev. }
    destruct (is_call c).
    - destruct n as [|n']; [exact Haw|].
      specialize (Hstep (f (w_calls w)) n'). destruct (exec c (f (w_calls w)) w) as [w' r]. exact Hstep.
    - specialize (Hstep false n). destruct (exec c false w) as [w' r]. exact Hstep.
  Qed.
End Semantics.

(* ---------- boolean equality of row lists ---------- *)

Definition prow_eqb (a b : prow) : bool :=
  (r_y a =? r_y b) && (r_amount a =? r_amount b) && (r_ks a =? r_ks b) && (r_wit a =? r_wit b) && (r_quote a =? r_quote b).
Fixpoint prows_eqb (a b : list prow) : bool :=
  match a, b with [], [] => true | x :: a', y :: b' => prow_eqb x y && prows_eqb a' b' | _, _ => false end.
Lemma prows_eqb_refl a : prows_eqb a a = true.
Proof. induction a as [|x a IH]; [reflexivity|]. cbn [prows_eqb]. unfold prow_eqb. rewrite !Z.eqb_refl, IH. reflexivity. Qed.
Lemma prows_eqb_eq a : forall b, prows_eqb a b = true -> a = b.
Proof.
  induction a as [|x a IH]; intros [|y b]; cbn [prows_eqb]; try discriminate; [reflexivity|].
  intros H. apply andb_true_iff in H as [Hx Hr]. rewrite (IH b Hr). f_equal.
  unfold prow_eqb in Hx. repeat (apply andb_true_iff in Hx as [Hx ?]).
  destruct x, y. cbn in *. repeat match goal with H : (_ =? _) = true |- _ => apply Z.eqb_eq in H end. congruence.
Qed.

Ltac ord :=
  repeat first
    [ exact I
    | match goal with |- ordered _ _ _ (bind _ _) => apply ordered_bind; [ | intros ? ? ? ] end
    | match goal with |- ordered _ _ _ (Do _ _) => cbn [ordered]; intro; split; [ try (let Hx := fresh in intro Hx; discriminate Hx) | ] end
    | match goal with |- ordered _ _ _ (match ?x with _ => _ end) => destruct x end
    | match goal with |- ordered _ _ _ (if ?x then _ else _) => destruct x end
    | progress (cbn [ordered fail]) ].

(* ---------- Swap: signatures only after the inputs are in the spent table ---------- *)

Definition ev_save_proofs (rows : list prow) : evt :=
  fun c => match c return resp c -> bool with SaveProofs ps => fun r => ok_unit r && prows_eqb ps rows | _ => fun _ => false end.
Definition ev_save_sigs : evt :=
  fun c => match c return resp c -> bool with SaveSigs _ => fun r => ok_unit r | _ => fun _ => false end.

Lemma ordered_verify before after seen mem_ks ins :
  (forall ys r, after (GetPending ys) r = false) -> (forall ys r, after (GetUsed ys) r = false) ->
  ordered before after seen (verify_proofs mem_ks ins).
Proof.
  intros H1 H2. unfold verify_proofs. destruct ins as [|p ins]; [exact I|].
  cbn [ordered]. intros r. split; [rewrite H1; discriminate|]. destruct r as [[|x l]|]; cbn [ordered fail]; try exact I.
  intros r2. split; [rewrite H2; discriminate|]. destruct r2 as [[|x l]|]; cbn [ordered fail]; try exact I.
  destruct (negb _); [exact I|]. destruct (check_proofs _ _); exact I.
Qed.

Lemma swap_ordered mem_ks active ins outs sg :
  ordered (ev_save_proofs (map (to_row 0) ins)) ev_save_sigs false (swap mem_ks active ins outs sg).
Proof.
  unfold swap.
  destruct (amount_checked _ _); [|exact I]. destruct (negb _); [exact I|].
  destruct (_ <? _); [exact I|]. destruct (_ <? _); [exact I|].
  apply ordered_bind; [apply ordered_verify; reflexivity|]. intros v seen' _. destruct v as [u|e]; [|exact I].
  cbn [ordered]. intros r. split; [discriminate|]. destruct r as [[|x l]|]; cbn [ordered fail]; try exact I.
  destruct (_ && _); [exact I|]. destruct (check_outputs _ _ _); [exact I|].
  cbn [ordered]. intros r1. split; [discriminate|]. destruct r1 as [u1|]; cbn [ordered fail]; [|exact I].
  intros r2. split; [|destruct r2; exact I].
  intros _. cbn [ev_save_proofs ok_unit]. rewrite prows_eqb_refl. cbn [andb]. rewrite !orb_true_r. reflexivity.
Qed.

Lemma list_eq_dec_srow (a b : list srow) : {a = b} + {a <> b}.
Proof. repeat decide equality. Qed.

Lemma exec_sigs_changed c fault w :
  d_sigs (w_db (fst (exec c fault w))) <> d_sigs (w_db w) -> ev_save_sigs c (snd (exec c fault w)) = true.
Proof.
  intros Hne.
  assert (Hother : c_sigs c = false -> False).
  { intros Hc. apply Hne. destruct (exec_world c fault w) as [_ [_ [Hd|[_ Hd]]]]; rewrite Hd; [reflexivity|].
    apply exec_db_frames. exact Hc. }
  destruct c; try (exfalso; apply Hother; reflexivity).
  revert Hne. unfold exec. destruct (fault && is_storage (SaveSigs ss)) eqn:Ef.
  { cbn [is_call fst w_db]. intros Hne. exfalso. apply Hne. reflexivity. }
  cbn [is_call fst snd w_db exec_db].
  destruct (nodupb (map s_B ss ++ map s_B (d_sigs (w_db w)))); cbn [fst snd w_db]; [reflexivity|].
  intros Hne. exfalso. apply Hne. reflexivity.
Qed.

Lemma exec_save_proofs_est rows c fault w :
  ev_save_proofs rows c (snd (exec c fault w)) = true -> incl rows (d_spent (w_db (fst (exec c fault w)))).
Proof.
  destruct c; cbn [ev_save_proofs]; try discriminate.
  unfold exec. destruct (fault && is_storage (SaveProofs ps)) eqn:Ef; [cbn [snd fault_resp ok_unit andb]; discriminate|].
  cbn [is_call fst snd w_db]. cbn [exec_db].
  destruct (nodupb (ys_of ps ++ ys_of (d_spent (w_db w)))); cbn [fst snd ok_unit andb w_db set_spent d_spent]; [|discriminate].
  intros H. apply prows_eqb_eq in H. subst ps. intros x Hx. apply in_or_app. right. exact Hx.
Qed.

(* At every crash cut of a swap, under every fault oracle: if the signature table differs from what it was when the swap
   started, then all inputs of the swap are in the spent table.  (No cut leaves signatures without the debit.) *)
Theorem swap_cut_signatures_imply_spent mem_ks active ins outs sg n f w :
  let w' := fst (run_n n (swap mem_ks active ins outs sg) f w) in
  d_sigs (w_db w') <> d_sigs (w_db w) -> incl (map (to_row 0) ins) (d_spent (w_db w')).
Proof.
  cbv zeta.
  set (B := fun x : world => incl (map (to_row 0) ins) (d_spent (w_db x))).
  set (A := fun w0 x : world => d_sigs (w_db x) <> d_sigs (w_db w0)).
  assert (HBs : forall c fault w0, B w0 -> B (fst (exec c fault w0))).
  { intros c fault w0 Hb x Hx. destruct (exec_ext c fault w0) as [[l Hl] _]. rewrite Hl. apply in_or_app. left. apply Hb. exact Hx. }
  assert (HBe : forall c fault w0, ev_save_proofs (map (to_row 0) ins) c (snd (exec c fault w0)) = true -> B (fst (exec c fault w0))).
  { intros c fault w0. apply exec_save_proofs_est. }
  assert (HAr : forall w0, ~ A w0 w0) by (intros w0 H; apply H; reflexivity).
  assert (HAs : forall w0 c fault w1, A w0 (fst (exec c fault w1)) -> A w0 w1 \/ ev_save_sigs c (snd (exec c fault w1)) = true).
  { intros w0 c fault w1 H.
    destruct (list_eq_dec_srow (d_sigs (w_db (fst (exec c fault w1)))) (d_sigs (w_db w1))) as [E|E].
    - left. unfold A in *. rewrite <- E. exact H.
    - right. apply exec_sigs_changed. exact E. }
  apply (ordered_run_n _ _ B A HBs HBe HAs (swap mem_ks active ins outs sg) n f w w false (swap_ordered mem_ks active ins outs sg)).
  - discriminate.
  - intros H. exfalso. exact (HAr w H).
Qed.

(* ---------- MintTokens: signatures only after the ISSUED write; MeltTokens: payment only after lock and PENDING write ---------- *)

Definition ev_mark_issued (id : Z) : evt :=
  fun c => match c return resp c -> bool with UpdateMintQuote i st => fun r => ok_unit r && (i =? id) && (st =? 3) | _ => fun _ => false end.
Definition ev_add_pending (rows : list prow) : evt :=
  fun c => match c return resp c -> bool with AddPending ps => fun r => ok_unit r && prows_eqb ps rows | _ => fun _ => false end.
Definition ev_mark_pending (id : Z) : evt :=
  fun c => match c return resp c -> bool with UpdateMeltQuote i _ st => fun r => ok_unit r && (i =? id) && (st =? 1) | _ => fun _ => false end.
Definition ev_pay : evt :=
  fun c => match c return resp c -> bool with LnPay _ _ _ _ _ => fun _ => true | _ => fun _ => false end.

Lemma ordered_weaken_seen {R} before after (p : prog R) : forall a b, (a = true -> b = true) ->
  ordered before after a p -> ordered before after b p.
Proof.
  induction p as [r|c k IH|]; intros a b Hab Ho; cbn [ordered] in *; try exact I.
  intros r. destruct (Ho r) as [H1 H2]. split; [intros H; apply Hab; apply H1; exact H|].
  apply (IH r (a || before c r) (b || before c r)); [|exact H2].
  intros E. apply orb_true_iff in E as [E|E]; [rewrite (Hab E); reflexivity|rewrite E; apply orb_true_r].
Qed.

Lemma mint_ordered mem_ks active id outs sig :
  ordered (ev_mark_issued id) ev_save_sigs false (mint_tokens mem_ks active id outs sig).
Proof.
  unfold mint_tokens. apply ordered_bind.
  - unfold get_mint_quote_state. cbn [ordered]. intros r. split; [discriminate|].
    destruct r as [[q|]|]; cbn [ordered fail]; try exact I. destruct (mq_state q =? 0); [|exact I].
    cbn [ordered]. intros r1. split; [discriminate|]. destruct r1 as [[[|] x]|]; cbn [ordered fail]; try exact I.
    intros r2. split; [discriminate|]. destruct r2; exact I.
  - intros g seen' _. destruct g as [q|e]; [|exact I].
    destruct (mq_state q =? 0); [exact I|]. destruct (mq_state q =? 3); [exact I|]. destruct (mq_state q =? 2); [exact I|].
    destruct (mq_state q =? 1); [|exact I].
    assert (Hrestore : forall e s, ordered (ev_mark_issued id) ev_save_sigs s
              (call u <- UpdateMintQuote id 1 ;; match u with RErr => fail EDb | ROk _ => @fail (list srow) e end)).
    { intros e s. cbn [ordered]. intros r. split; [discriminate|]. destruct r; exact I. }
    cbn [ordered]. intros r0. split; [discriminate|]. destruct r0 as [u0|]; [|apply Hrestore].
    destruct (amount_checked _ _); [|apply Hrestore]. destruct (negb _); [apply Hrestore|]. destruct (_ <? _); [apply Hrestore|].
    cbn [ordered]. intros r1. split; [discriminate|]. destruct r1 as [[|x l]|]; try apply Hrestore.
    destruct (_ && _); [apply Hrestore|]. destruct (check_outputs _ _ _); [apply Hrestore|].
    cbn [ordered]. intros r2. split; [discriminate|]. destruct r2 as [u2|]; [|apply Hrestore].
    cbn [ordered]. intros r3. split; [|destruct r3; [exact I|apply Hrestore]].
    intros _. cbn [ev_mark_issued ok_unit]. rewrite !Z.eqb_refl. cbn [andb]. rewrite !orb_true_r. reflexivity.
Qed.

Lemma melt_ordered cfg mem_ks id ins :
  ordered (ev_add_pending (map (to_row id) ins)) ev_pay false (melt_tokens cfg mem_ks id ins) /\
  ordered (ev_mark_pending id) ev_pay false (melt_tokens cfg mem_ks id ins).
Proof.
  assert (G : forall before : evt, (forall ys r, before (GetPending ys) r = false) ->
     (before (AddPending (map (to_row id) ins)) (ROk tt) = true \/ before (UpdateMeltQuote id 0 1) (ROk tt) = true) ->
     ordered before ev_pay false (melt_tokens cfg mem_ks id ins)).
  { intros before Hb0 Hb. unfold melt_tokens, finish_paid, settle_proofs, release.
    cbn [ordered]. intros r. split; [discriminate|]. destruct r as [[q|]|]; cbn [ordered fail]; try exact I.
    destruct (lq_state q =? 2); [exact I|]. destruct (lq_state q =? 1); [exact I|].
    apply ordered_bind; [apply ordered_verify; reflexivity|]. intros v seen' _. destruct v as [u|e]; [|exact I].
    destruct (_ <? _); [exact I|]. destruct (existsb _ _); [exact I|].
    cbn [ordered]. intros r1. split; [discriminate|]. destruct r1 as [u1|]; cbn [ordered fail]; [|exact I].
    intros r2. split; [discriminate|]. destruct r2 as [u2|]; cbn [ordered fail]; [|exact I].
    intros r3. split; [discriminate|]. destruct u1, u2.
    destruct (same_invoice r3 (lq_req q)) as [m|].
    - (* internal settlement: no payment at all *)
      cbn [ordered]. intros r4. split; [discriminate|]. destruct r4 as [[s pre]|]; cbn [ordered fail]; [|exact I].
      intros r5. split; [discriminate|]. destruct r5; cbn [ordered fail]; [|exact I].
      intros r6. split; [discriminate|]. destruct r6; cbn [ordered fail]; [|exact I].
      intros r7. split; [discriminate|]. destruct r7; cbn [ordered fail]; [|exact I].
      intros r8. split; [discriminate|]. destruct r8; exact I.
    - cbn [ordered]. intros a. split; [intros _; destruct Hb as [Hb|Hb]; rewrite Hb, ?orb_true_r; reflexivity|].
      destruct (a_kind a =? 0).
      { cbn [ordered bind]. intros r4. split; [discriminate|]. destruct r4; cbn [ordered fail bind]; [|exact I].
        intros r5. split; [discriminate|]. destruct r5; cbn [ordered fail bind]; [|exact I].
        intros r6. split; [discriminate|]. destruct r6; exact I. }
      destruct (a_kind a =? 2); [exact I|].
      cbn [ordered]. intros lk. split; [discriminate|].
      assert (Hrel : forall s, ordered before ev_pay s (call u <- UpdateMeltQuote (lq_id q) 0 0 ;; match u with RErr => fail EDb | ROk _ =>
                       call r <- RemovePending (map p_secret ins) ;; match r with RErr => fail EDb | ROk _ => Ret (Ok (with_state q 0 0)) end end)).
      { intros s. cbn [ordered]. intros r4. split; [discriminate|]. destruct r4; cbn [ordered fail]; [|exact I].
        intros r5. split; [discriminate|]. destruct r5; exact I. }
      assert (Hfin : forall s pre, ordered before ev_pay s (perform s0 <- (call r <- RemovePending (map p_secret ins) ;; match r with RErr => fail EDb | ROk _ =>
                         call s1 <- SaveProofs (map (to_row 0) ins) ;; match s1 with RErr => fail EDb | ROk _ => Ret (Ok tt) end end) ;;
                       match s0 with Err e => fail e | Ok _ => call u <- UpdateMeltQuote (lq_id q) pre 2 ;; match u with RErr => fail EDb | ROk _ => Ret (Ok (with_state q 2 pre)) end end)).
      { intros s pre. cbn [ordered bind]. intros r4. split; [discriminate|]. destruct r4; cbn [ordered fail bind]; [|exact I].
        intros r5. split; [discriminate|]. destruct r5; cbn [ordered fail bind]; [|exact I].
        intros r6. split; [discriminate|]. destruct r6; exact I. }
      destruct (a_kind lk =? 4); [apply Hrel|]. destruct (a_kind lk =? 3); [exact I|].
      destruct (a_kind lk =? 1); [apply Hrel|]. destruct (a_kind lk =? 0); [apply Hfin|exact I]. }
  split; apply G.
  - reflexivity.
  - left. cbn [ev_add_pending ok_unit]. rewrite prows_eqb_refl. reflexivity.
  - reflexivity.
  - right. cbn [ev_mark_pending ok_unit]. rewrite Z.eqb_refl. reflexivity.
Qed.
