(* C19, counter discipline per flow: whenever the tail of a flow that submits deterministic outputs
   returns successfully, the request it sent was built from the stored counter, the mint signed
   exactly its outputs, and the stored counter afterwards is past every one of them. *)
From Coq Require Import ZArith List Bool Lia.
From Verif Require Import Select WModel WProofsCounter.
Import ListNotations.
Open Scope Z_scope.

Definition runs {X} (m : M X) (w : world) (x : X) (w' : world) : Prop := m w = (ROk x, w').

Lemma runs_bind : forall X Y (m : M X) (k : X -> M Y) w y w'',
  runs (bind m k) w y w'' -> exists x w', runs m w x w' /\ runs (k x) w' y w''.
Proof.
  intros X Y m k w y w'' H. unfold runs, bind in *. destruct (m w) as [r w1]. destruct r as [x| |]; try discriminate.
  exists x, w1. auto.
Qed.
Lemma runs_ret : forall X (x y : X) w w', runs (ret x) w y w' -> y = x /\ w' = w.
Proof. intros X x y w w' H. unfold runs, ret in H. inversion H; auto. Qed.
Lemma runs_fail : forall X (y : X) w w', runs fail w y w' -> False.
Proof. intros X y w w' H. unfold runs, fail in H. discriminate. Qed.

(* the stored counter, and what leaves it alone *)
Notation ctr := counter_in.
Definition same_counters (w w' : world) : Prop := forall i m ks, ctr w' i m ks = ctr w i m ks.
Definition same_mints (w w' : world) : Prop := mints w' = mints w.

Lemma same_counters_refl : forall w, same_counters w w. Proof. intros w i m ks. reflexivity. Qed.
Lemma same_counters_trans : forall a b c, same_counters a b -> same_counters b c -> same_counters a c.
Proof. intros a b c H1 H2 i m ks. rewrite H2, H1. reflexivity. Qed.

Lemma nth_upd_nth : forall X (f : X -> X) (d : X) (l : list X) (i j : nat),
  nth j (upd_nth i f l) d = if (Nat.eqb j i && Nat.ltb i (length l))%bool then f (nth j l d) else nth j l d.
Proof.
  intros X f d l. induction l as [|x r IH]; intros i j.
  - cbn [upd_nth length]. destruct i; rewrite andb_false_r; reflexivity.
  - destruct i as [|i]; destruct j as [|j]; cbn [upd_nth nth length]; try reflexivity.
    rewrite IH. cbn [Nat.eqb]. replace (S i <? S (length r))%nat with (i <? length r)%nat; [reflexivity|].
    unfold Nat.ltb. reflexivity.
Qed.

Lemma ctr_upd_wallet : forall w j f, (forall x, w_ks (f x) = w_ks x) ->
  forall i m ks, ctr (set_wallets w (upd_nth (Z.to_nat j) f (wallets w))) i m ks = ctr w i m ks.
Proof.
  intros w j f Hf i m ks. unfold counter_in. cbn [wallets set_wallets]. rewrite nth_upd_nth.
  destruct (_ && _)%bool; [rewrite Hf|]; reflexivity.
Qed.

Lemma runs_eff : forall l w u w', runs (eff l) w u w' -> same_counters w w' /\ same_mints w w'.
Proof.
  intros l w u w' H. unfold runs, eff in H. destruct (budget w =? 0); [discriminate|]. inversion H; subst.
  split; [intros i m ks|]; reflexivity.
Qed.
Lemma runs_post : forall r w u w', runs (post r) w u w' -> same_counters w w' /\ same_mints w w' /\ In r (trace w').
Proof.
  intros r w u w' H. unfold post in H. apply runs_bind in H. destruct H as [x [w1 [H1 H2]]].
  apply runs_eff in H1. destruct H1 as [Hc Hm]. unfold runs, modify in H2. inversion H2; subst.
  repeat split.
  - intros i m ks. rewrite <- (Hc i m ks). reflexivity.
  - unfold same_mints in *. rewrite <- Hm. reflexivity.
  - cbn [trace set_run]. left. reflexivity.
Qed.
Lemma runs_post_at : forall i m ks mk w r w',
  runs (post_at i m ks mk) w r w' ->
  r = mk (ctr w i m ks) /\ same_counters w w' /\ same_mints w w' /\ In r (trace w').
Proof.
  intros i m ks mk w r w' H. unfold runs, post_at in H.
  destruct (post (mk (counter_in w i m ks)) w) as [r1 w1] eqn:Ep. destruct r1 as [u| |]; try discriminate.
  inversion H; subst. apply runs_post in Ep. destruct Ep as [Hc [Hm Hi]]. auto.
Qed.
Lemma runs_get_mint : forall m w mt w', runs (get_mint m) w mt w' -> w' = w /\ mt = nthZ m (mints w) mint0.
Proof. intros m w mt w' H. unfold runs, get_mint in H. inversion H; auto. Qed.
Lemma runs_put_mint : forall m x w u w', runs (put_mint m x) w u w' ->
  same_counters w w' /\ mints w' = upd_nth (Z.to_nat m) (fun _ => x) (mints w).
Proof. intros m x w u w' H. unfold runs, put_mint, modify in H. inversion H; subst. split; [intros i m' ks|]; reflexivity. Qed.
Lemma runs_upd_wallet_frame : forall j f w u w', (forall x, w_ks (f x) = w_ks x) ->
  runs (upd_wallet j f) w u w' -> same_counters w w' /\ same_mints w w'.
Proof.
  intros j f w u w' Hf H. unfold runs, upd_wallet, modify in H. inversion H; subst.
  split; [intros i m ks; apply ctr_upd_wallet; exact Hf | reflexivity].
Qed.
Lemma runs_save_proofs : forall i ps w u w', runs (save_proofs i ps) w u w' -> same_counters w w' /\ same_mints w w'.
Proof.
  intros i ps w u w' H. unfold save_proofs in H. apply runs_bind in H. destruct H as [x [w1 [H1 H2]]].
  apply runs_eff in H1. destruct H1 as [Hc Hm].
  apply runs_upd_wallet_frame in H2; [|intros; reflexivity]. destruct H2 as [Hc2 Hm2].
  split; [eapply same_counters_trans; eauto | unfold same_mints in *; congruence].
Qed.
Lemma runs_del_proofs : forall i ps w u w', runs (del_proofs i ps) w u w' -> same_counters w w' /\ same_mints w w'.
Proof.
  intros i ps. unfold del_proofs. induction ps as [|p r IH]; intros w u w' H.
  - apply runs_ret in H. destruct H as [_ H]. subst. split; [apply same_counters_refl|reflexivity].
  - apply runs_bind in H. destruct H as [x [w1 [H1 H2]]]. apply runs_eff in H1. destruct H1 as [Hc Hm].
    apply runs_bind in H2. destruct H2 as [x2 [w2 [H2 H3]]].
    apply runs_upd_wallet_frame in H2; [|intros; reflexivity]. destruct H2 as [Hc2 Hm2].
    apply IH in H3. destruct H3 as [Hc3 Hm3].
    split; [eapply same_counters_trans; [|exact Hc3]; eapply same_counters_trans; eauto | unfold same_mints in *; congruence].
Qed.

Lemma find_put_ks_same : forall x k,
  find (fun u => (k_mint u =? k_mint k) && (k_ks u =? k_ks k)) (w_ks (put_ks x k)) = Some k.
Proof.
  intros x k. unfold put_ks.
  destruct (existsb (fun u => (k_mint u =? k_mint k) && (k_ks u =? k_ks k)) (w_ks x)) eqn:E; cbn [w_ks w_set_ks].
  - induction (w_ks x) as [|u r IH]; [discriminate|]. cbn [existsb] in E. cbn [map find].
    destruct ((k_mint u =? k_mint k) && (k_ks u =? k_ks k)) eqn:Eu.
    + cbn [find]. rewrite !Z.eqb_refl. reflexivity.
    + cbn [orb] in E. rewrite Eu. apply IH. exact E.
  - induction (w_ks x) as [|u r IH].
    + cbn [app find]. rewrite !Z.eqb_refl. reflexivity.
    + cbn [existsb] in E. apply orb_false_iff in E. destruct E as [Eu Er]. cbn [app find]. rewrite Eu. apply IH. exact Er.
Qed.

(* IncrementKeysetCounter: the stored counter of that keyset goes up by n *)
Lemma runs_inc_counter : forall i m ks n w u w', runs (inc_counter i m ks n) w u w' ->
  ctr w' i m ks = ctr w i m ks + n /\ same_mints w w'.
Proof.
  intros i m ks n w u w' H. unfold inc_counter in H. apply runs_bind in H. destruct H as [x [w1 [H1 H2]]].
  apply runs_eff in H1. destruct H1 as [Hc Hm].
  apply runs_bind in H2. destruct H2 as [x2 [w2 [H2 H3]]].
  unfold runs, get_wallet in H2. inversion H2; subst x2 w2; clear H2.
  destruct (find_ks (nthZ i (wallets w1) wallet0) m ks) as [k|] eqn:Ek; [|apply runs_fail in H3; contradiction].
  unfold runs, put_wallet, modify in H3. inversion H3; subst w'; clear H3.
  split; [|exact Hm].
  rewrite <- (Hc i m ks). unfold counter_in at 2. change (mkW 0 [] [] [] [] [] []) with wallet0.
  unfold find_ks in Ek. unfold nthZ in Ek. rewrite Ek.
  unfold counter_in. cbn [wallets set_wallets]. rewrite nth_upd_nth. rewrite Nat.eqb_refl. cbn [andb].
  destruct (Z.to_nat i <? length (wallets w1))%nat eqn:El.
  - change (mkW 0 [] [] [] [] [] []) with wallet0.
    pose proof (find_put_ks_same (nth (Z.to_nat i) (wallets w1) wallet0) (mkKs m ks (k_active k) (k_fee k) (k_ctr k + n))) as Hf.
    cbn [k_mint k_ks] in Hf. unfold nthZ. rewrite Hf. reflexivity.
  - (* the wallet index is out of range: get_wallet answered wallet0, which stores no keyset *)
    apply Nat.ltb_ge in El. rewrite (nth_overflow _ _ El) in Ek. cbn in Ek. discriminate.
Qed.

(* what the mint signed: exactly the outputs it was given *)
Lemma mint_mint_signed : forall mt q outs mt', mint_mint mt q outs = Some mt' -> mn_signed mt' = mn_signed mt ++ outs.
Proof.
  intros mt q outs mt' H. unfold mint_mint in H. destruct (find_mq mt q); [|discriminate].
  destruct (_ && _ && _ && _ && _); [|discriminate]. inversion H; subst. reflexivity.
Qed.
Lemma mint_swap_signed : forall mt ins outs mt', mint_swap mt ins outs = Some mt' -> mn_signed mt' = mn_signed mt ++ outs.
Proof.
  intros mt ins outs mt' H. unfold mint_swap in H.
  destruct (_ && _ && _ && _ && _); [|discriminate]. inversion H; subst. reflexivity.
Qed.

Lemma nthZ_upd_same : forall (l : list mintst) m x, (Z.to_nat m < length l)%nat ->
  nthZ m (upd_nth (Z.to_nat m) (fun _ => x) l) mint0 = x.
Proof.
  intros l m x Hl. unfold nthZ. rewrite nth_upd_nth. rewrite Nat.eqb_refl.
  apply Nat.ltb_lt in Hl. rewrite Hl. reflexivity.
Qed.

(* ---------------- MintTokens *)

Definition signed_at (w : world) (m : Z) : list wproof := mn_signed (nthZ m (mints w) mint0).

(* the mint signed exactly the block of outputs at the stored counter, and the counter is now past it *)
Theorem mint_submit_advances : forall i m id aks split w a w',
  (Z.to_nat m < length (mints w))%nat ->
  runs (mint_submit i m id aks split) w a w' ->
  signed_at w' m = signed_at w m ++ derive i m aks (ctr w i m aks) split /\
  ctr w' i m aks = ctr w i m aks + Z.of_nat (length split).
Proof.
  intros i m id aks split w a w' Hrange H. unfold mint_submit in H.
  apply runs_bind in H. destruct H as [r [w1 [Hp H]]].
  apply runs_post_at in Hp. destruct Hp as [Hr [Hc1 [Hm1 _]]].
  apply runs_bind in H. destruct H as [mt [w2 [Hg H]]]. apply runs_get_mint in Hg. destruct Hg as [Eg1 Eg2]; subst w2 mt.
  destruct (mint_mint (nthZ m (mints w1) mint0) id (rq_out r)) as [mt1|] eqn:Em; [|apply runs_fail in H; contradiction].
  apply runs_bind in H. destruct H as [u1 [w3 [H1 H]]]. apply runs_put_mint in H1. destruct H1 as [Hc3 Hm3].
  apply runs_bind in H. destruct H as [u2 [w4 [H2 H]]]. apply runs_save_proofs in H2. destruct H2 as [Hc4 Hm4].
  apply runs_bind in H. destruct H as [u3 [w5 [H3 H]]]. apply runs_inc_counter in H3. destruct H3 as [Hinc Hm5].
  apply runs_bind in H. destruct H as [u4 [w6 [H4 H]]]. apply runs_eff in H4. destruct H4 as [Hc6 Hm6].
  apply runs_bind in H. destruct H as [u5 [w7 [H5 H]]].
  unfold set_wq_state in H5. apply runs_upd_wallet_frame in H5; [|intros; reflexivity]. destruct H5 as [Hc7 Hm7].
  apply runs_ret in H. destruct H as [_ Ew]; subst w'.
  subst r. cbn [rq_out] in *.
  split.
  - unfold signed_at. unfold same_mints in *. rewrite Hm7, Hm6, Hm5, Hm4, Hm3.
    rewrite nthZ_upd_same by (rewrite Hm1; exact Hrange).
    rewrite (mint_mint_signed _ _ _ _ Em). rewrite Hm1. reflexivity.
  - rewrite (Hc7 i m aks), (Hc6 i m aks), Hinc, (Hc4 i m aks), (Hc3 i m aks), (Hc1 i m aks).
    rewrite derive_length. reflexivity.
Qed.

(* ---------------- Receive / ReceiveHTLC / ReclaimUnspentProofs *)

Theorem swap_store_advances : forall vr i v ins w a w',
  (Z.to_nat (vw_mint v) < length (mints w))%nat ->
  runs (swap_store vr i v ins) w a w' ->
  exists split,
    signed_at w' (vw_mint v) = signed_at w (vw_mint v) ++ derive i (vw_mint v) (vw_act v) (ctr w i (vw_mint v) (vw_act v)) split /\
    ctr w' i (vw_mint v) (vw_act v) = ctr w i (vw_mint v) (vw_act v) + Z.of_nat (length split).
Proof.
  intros vr i v ins w a w' Hrange H. unfold swap_store in H.
  apply runs_bind in H. destruct H as [outs [w1 [Hs H]]].
  unfold swap_in in Hs.
  apply runs_bind in Hs. destruct Hs as [x [w0 [Hx Hs]]]. unfold runs, get_wallet in Hx. injection Hx as Ex Ew0. subst w0.
  set (split := wallet_split x (vw_mint v) (sub64 (sum_amt ins) (view_fees v ins))) in *.
  apply runs_bind in Hs. destruct Hs as [r [w2 [Hp Hs]]].
  apply runs_post_at in Hp. destruct Hp as [Hr [Hc2 [Hm2 _]]].
  apply runs_bind in Hs. destruct Hs as [mt [w3 [Hg Hs]]]. apply runs_get_mint in Hg. destruct Hg as [Eg1 Eg2]; subst w3 mt.
  destruct (mint_swap (nthZ (vw_mint v) (mints w2) mint0) ins (rq_out r)) as [mt1|] eqn:Em; [|apply runs_fail in Hs; contradiction].
  apply runs_bind in Hs. destruct Hs as [u1 [w4 [Hq1 Hs]]]. apply runs_put_mint in Hq1. destruct Hq1 as [Hc4 Hm4].
  apply runs_ret in Hs. destruct Hs as [Es1 Es2]; subst outs w1.
  apply runs_bind in H. destruct H as [u2 [w5 [H2 H]]]. apply runs_inc_counter in H2. destruct H2 as [Hinc Hm5].
  apply runs_bind in H. destruct H as [u3 [w6 [H3 H]]]. apply runs_save_proofs in H3. destruct H3 as [Hc6 Hm6].
  apply runs_ret in H. destruct H as [_ Ew]; subst w'.
  exists split. subst r. cbn [rq_out] in *.
  split.
  - unfold signed_at. unfold same_mints in *. rewrite Hm6, Hm5, Hm4.
    rewrite nthZ_upd_same by (rewrite Hm2; exact Hrange).
    rewrite (mint_swap_signed _ _ _ _ Em). rewrite Hm2. reflexivity.
  - rewrite (Hc6 i _ _), Hinc, (Hc4 i _ _), (Hc2 i _ _). rewrite derive_length. reflexivity.
Qed.

(* ---------------- swapToSend *)

Theorem send_submit_advances : forall vr i m aks lock to sa ns n0 inputs split cs w a w',
  (Z.to_nat m < length (mints w))%nat ->
  runs (send_submit vr i m aks lock to sa ns n0 inputs split cs) w a w' ->
  let adv := (if lock =? 0 then Z.of_nat (length split) else 0) + Z.of_nat (length cs) in
  signed_at w' m = signed_at w m ++ send_outputs i m aks lock to sa ns n0 split cs (ctr w i m aks) /\
  ctr w' i m aks = ctr w i m aks + adv /\
  (forall o, In o (send_outputs i m aks lock to sa ns n0 split cs (ctr w i m aks)) -> 0 <= wp_seed o ->
             ctr w i m aks <= wp_ctr o < ctr w' i m aks).
Proof.
  intros vr i m aks lock to sa ns n0 inputs split cs w a w' Hrange H adv. unfold send_submit in H.
  apply runs_bind in H. destruct H as [r [w1 [Hp H]]].
  apply runs_post_at in Hp. destruct Hp as [Hr [Hc1 [Hm1 _]]].
  apply runs_bind in H. destruct H as [mt [w2 [Hg H]]]. apply runs_get_mint in Hg. destruct Hg as [Eg1 Eg2]; subst w2 mt.
  destruct (mint_swap (nthZ m (mints w1) mint0) inputs (rq_out r)) as [mt1|] eqn:Em; [|apply runs_fail in H; contradiction].
  apply runs_bind in H. destruct H as [u1 [w3 [H1 H]]]. apply runs_put_mint in H1. destruct H1 as [Hc3 Hm3].
  apply runs_bind in H. destruct H as [u2 [w4 [H2 H]]]. apply runs_del_proofs in H2. destruct H2 as [Hc4 Hm4].
  destruct (pick_send split (rq_out r)) as [to_send rest].
  apply runs_bind in H. destruct H as [u3 [w5 [H3 H]]]. apply runs_save_proofs in H3. destruct H3 as [Hc5 Hm5].
  apply runs_bind in H. destruct H as [u4 [w6 [H4 H]]]. apply runs_inc_counter in H4. destruct H4 as [Hinc Hm6].
  apply runs_ret in H. destruct H as [_ Ew]; subst w'.
  subst r. cbn [rq_out] in *.
  assert (Hfinal : ctr w6 i m aks = ctr w i m aks + adv).
  { rewrite Hinc, (Hc5 i m aks), (Hc4 i m aks), (Hc3 i m aks), (Hc1 i m aks). reflexivity. }
  repeat split.
  - unfold signed_at. unfold same_mints in *. rewrite Hm6, Hm5, Hm4, Hm3.
    rewrite nthZ_upd_same by (rewrite Hm1; exact Hrange).
    rewrite (mint_swap_signed _ _ _ _ Em). rewrite Hm1. reflexivity.
  - exact Hfinal.
  - destruct (send_outputs_block _ _ _ _ _ _ _ _ _ _ _ _ H H0) as [Hb _]. lia.
  - destruct (send_outputs_block _ _ _ _ _ _ _ _ _ _ _ _ H H0) as [Hb _]. rewrite Hfinal. unfold adv. lia.
Qed.
