(* Decoding of harness cases for the wallet selection model (family tag 3) and the entry
   point run_select used by the extracted runner.

   streams (kidx = keyset index, 0 = the active keyset; uid of a proof = its position):
   (1 amount)                                           cashu.AmountSplit
        => (a1 a2 ...)
   (2 count ppk)                                        feesForCount
        => (fee)
   (3 includeFees amount activeFee ((kidx fee)...) ((amount kidx)...))     selectProofsToSend
        => (1 (sorted amounts of the selection) sum fee)  |  (0 code)  |  (-1) out of fuel
           code 1 = ErrInsufficientMintBalance, 2 = "insufficient funds for transaction";
           fee = feesForProofs of the selection (computed whether or not includeFees)
   (4 includeFees amount activeFee ((kidx fee)...) ((amount kidx)... inactive) ((amount kidx)... active))
        getProofsForAmount / swapToSend arithmetic
        => (1 (sorted amounts handed out))                                      offline selection exact
         | (2 feeEstimate (send split) (sorted input amounts) inputFee change (change split))   swap
         | (0 code) | (-1)
   (5 amountToSplit (amounts in the wallet))            splitWalletTarget
        => (a1 a2 ...)
   (6 activeFee ((kidx fee)...) ((amount kidx)...))     feesForProofs
        => (fee)
   (7 includeFees amount activeFee ((kidx fee)...) (inactive) (active))
        Wallet.Send against a real mint, then Wallet.Receive of the token by a second wallet
        => the observation of stream 4 with one more element at the end: the amount the recipient
           ends up with = worth of the proofs handed out - the mint's input fee for those very
           proofs (swap: all of the active keyset; offline: of whatever keysets they are), or -1
           when the fee exceeds the worth (the recipient's swap cannot succeed; worth = fee is
           redeemed for nothing, without an error) *)
From Coq Require Import ZArith List Bool.
From Verif Require Import Sexp Select.
Import ListNotations.
Open Scope Z_scope.

Definition d_pair (s : sexp) : option (Z * Z) :=
  match s with
  | L [A a; A b] => Some (a, b)
  | _ => None
  end.

Fixpoint number_proofs (uid : Z) (l : list (Z * Z)) : list proof :=
  match l with
  | [] => []
  | (a, k) :: r => mkProof a k uid :: number_proofs (uid + 1) r
  end.

Definition d_proofs (uid0 : Z) (s : sexp) : option (list proof) :=
  do l <- sList d_pair s; Some (number_proofs uid0 l).

Definition d_mint (active_fee : Z) (s : sexp) : option mint :=
  do l <- sList d_pair s; Some (mkMint active_fee l).

Definition sorted_amounts (ps : list proof) : sexp := eListZ (sortZ (amounts ps)).

(* what the recipient nets after redeeming: -1 = the fee exceeds the worth, the swap is refused *)
Definition net_obs (worth fee : Z) : Z := if worth - fee <? 0 then -1 else worth - fee.

(* streams 4 and 7: getProofsForAmount, with (stream 7) the recipient's side appended *)
Definition run_send (with_net : bool) (m : mint) (inactive active : list proof) (amount : Z) (incb : bool) : sexp :=
  let tail (net : Z) : list sexp := if with_net then [A net] else [] in
  match get_proofs_decision m inactive active amount incb with
  | DOffline sel =>
      L ([A 1; sorted_amounts sel] ++ tail (net_obs (sumZ (amounts sel)) (fees_for_proofs m sel)))
  | DSwap =>
      match swap_to_send_plan m inactive active amount incb with
      | Ok p => L ([A 2; A (sp_fee_estimate p); eListZ (sp_send p); sorted_amounts (sp_inputs p);
                    A (sp_input_fee p); A (sp_change p); eListZ (sp_change_split p)]
                   ++ tail (net_obs (sumZ (sp_send p)) (mint_fee_for_sent m (sp_send p))))
      | Err code => L [A 0; A code]
      | OutOfFuel => L [A (-1)]
      end
  | DErr code => L [A 0; A code]
  | DOutOfFuel => L [A (-1)]
  end.

Definition d_send (with_net : bool) (inc amount active_fee : Z) (ks ina act : sexp) : sexp :=
  match d_mint active_fee ks, d_proofs 0 ina with
  | Some m, Some inactive =>
      match d_proofs (Z.of_nat (length inactive)) act with
      | Some active => run_send with_net m inactive active amount (negb (inc =? 0))
      | None => bad_case
      end
  | _, _ => bad_case
  end.

Definition run_select (c : sexp) : sexp :=
  match c with
  | L [A 1; A amount] => eListZ (amount_split amount)
  | L [A 2; A count; A ppk] => L [A (fees_for_count count ppk)]
  | L [A 3; A inc; A amount; A active_fee; ks; ps] =>
      match d_mint active_fee ks, d_proofs 0 ps with
      | Some m, Some proofs =>
          match select_proofs_to_send m proofs amount (negb (inc =? 0)) with
          | Ok sel => L [A 1; sorted_amounts sel; A (sum64 sel); A (fees_for_proofs m sel)]
          | Err code => L [A 0; A code]
          | OutOfFuel => L [A (-1)]
          end
      | _, _ => bad_case
      end
  | L [A 4; A inc; A amount; A active_fee; ks; ina; act] => d_send false inc amount active_fee ks ina act
  | L [A 7; A inc; A amount; A active_fee; ks; ina; act] => d_send true inc amount active_fee ks ina act
  | L [A 5; A amount; w] =>
      match sListZ w with
      | Some wallet => eListZ (split_wallet_target amount wallet)
      | None => bad_case
      end
  | L [A 6; A active_fee; ks; ps] =>
      match d_mint active_fee ks, d_proofs 0 ps with
      | Some m, Some proofs => L [A (fees_for_proofs m proofs)]
      | _, _ => bad_case
      end
  | _ => bad_case
  end.
