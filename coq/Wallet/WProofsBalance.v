(* C17: balance, per-flow conservation at the honest-mint oracle, and the MintSwap refutation. *)
From Coq Require Import ZArith List Bool Lia.
From Verif Require Import Select WModel.
Import ListNotations.
Open Scope Z_scope.

(* ---------------- what the wallet reports *)

(* GetBalance = db.GetProofs().Amount(); PendingBalance = amount(db.GetPendingProofs()) *)
Definition get_balance (x : wallet) : Z := sum_amt (w_proofs x).
Definition pending_balance (x : wallet) : Z := sum_amt (map fst (w_pend x)).
(* GetBalanceByMints: per trusted mint, the proofs of the keysets of its in-memory view *)
Definition balance_by_mint (x : wallet) (m : Z) : Z :=
  match find_view x m with Some v => sum_amt (mint_proofs x v) | None => 0 end.

Lemma sum_amt_app : forall a b, sum_amt (a ++ b) = sum_amt a + sum_amt b.
Proof.
  induction a as [|x r IH]; intros b; [reflexivity|].
  change (sum_amt ((x :: r) ++ b)) with (wp_amt x + sum_amt (r ++ b)).
  change (sum_amt (x :: r)) with (wp_amt x + sum_amt r). rewrite IH. lia.
Qed.

Lemma sum_amt_filter_split : forall f l,
  sum_amt l = sum_amt (filter f l) + sum_amt (filter (fun p => negb (f p)) l).
Proof.
  intros f. induction l as [|x r IH]; [reflexivity|].
  change (sum_amt (x :: r)) with (wp_amt x + sum_amt r). cbn [filter].
  destruct (f x); cbn [negb].
  - change (sum_amt (x :: filter f r)) with (wp_amt x + sum_amt (filter f r)). lia.
  - change (sum_amt (x :: filter (fun p => negb (f p)) r)) with (wp_amt x + sum_amt (filter (fun p => negb (f p)) r)). lia.
Qed.

(* the balance is the value of the stored spendable proofs, and each mint's share is the value of
   the stored proofs of that mint's keysets *)
Lemma balance_exact : forall x, get_balance x = sum_amt (w_proofs x).
Proof. reflexivity. Qed.
Lemma balance_by_mint_exact : forall x m v, find_view x m = Some v ->
  balance_by_mint x m = sum_amt (filter (of_view v) (w_proofs x)) /\
  get_balance x = balance_by_mint x m + sum_amt (filter (fun p => negb (of_view v p)) (w_proofs x)).
Proof.
  intros x m v H. unfold balance_by_mint. rewrite H. unfold mint_proofs. split; [reflexivity|].
  unfold get_balance. apply sum_amt_filter_split.
Qed.

Lemma balance_exact_all : forall x m v, find_view x m = Some v ->
  get_balance x = sum_amt (w_proofs x) /\
  balance_by_mint x m = sum_amt (filter (of_view v) (w_proofs x)) /\
  get_balance x = balance_by_mint x m + sum_amt (filter (fun p => negb (of_view v p)) (w_proofs x)).
Proof. intros x m v H. split; [exact (balance_exact x)|]. exact (balance_by_mint_exact x m v H). Qed.

(* ---------------- conservation at the mint, per request *)

Definition outstanding (mt : mintst) : Z := mn_issued mt - mn_redeemed mt.

(* swap: what the wallet gets back is what it put in minus the fee; the difference leaves circulation *)
Lemma mint_swap_conserves : forall mt ins outs mt',
  mint_swap mt ins outs = Some mt' ->
  outstanding mt' = outstanding mt - (sum_amt ins - sum_amt outs) /\
  tx_fees mt ins <= sum_amt ins - sum_amt outs /\
  mn_signed mt' = mn_signed mt ++ outs /\ mn_spent mt' = mn_spent mt ++ ins /\ mn_pend mt' = mn_pend mt.
Proof.
  intros mt ins outs mt' H. unfold mint_swap in H.
  destruct ((tx_fees mt ins <=? sum_amt ins) && (sum_amt outs <=? sum_amt ins - tx_fees mt ins)
            && inputs_free mt ins && outputs_ok mt outs && nodup_proofs outs) eqn:E; [|discriminate].
  inversion H; subst mt'; clear H.
  repeat (apply andb_true_iff in E; destruct E as [E ?]).
  apply Z.leb_le in E. match goal with Hx : (sum_amt outs <=? _) = true |- _ => apply Z.leb_le in Hx end.
  unfold outstanding, m_set. cbn [mn_issued mn_redeemed mn_signed mn_spent mn_pend].
  repeat split; lia.
Qed.

(* only unspent, signed, pairwise different proofs are accepted as inputs: no proof is redeemed twice *)
Lemma mint_swap_inputs_unspent : forall mt ins outs mt',
  mint_swap mt ins outs = Some mt' ->
  forall p, In p ins -> mem_proof p (mn_spent mt) = false /\ mem_proof p (mn_pend mt) = false /\ mem_proof p (mn_signed mt) = true.
Proof.
  intros mt ins outs mt' H p Hp. unfold mint_swap in H.
  destruct ((tx_fees mt ins <=? sum_amt ins) && (sum_amt outs <=? sum_amt ins - tx_fees mt ins)
            && inputs_free mt ins && outputs_ok mt outs && nodup_proofs outs) eqn:E; [|discriminate].
  repeat (apply andb_true_iff in E; destruct E as [E ?]).
  match goal with Hx : inputs_free mt ins = true |- _ => unfold inputs_free in Hx; apply andb_true_iff in Hx; destruct Hx as [Hx _];
    rewrite forallb_forall in Hx; specialize (Hx p Hp) end.
  repeat (match goal with Hx : _ && _ = true |- _ => apply andb_true_iff in Hx; destruct Hx end).
  repeat (match goal with Hx : negb _ = true |- _ => apply negb_true_iff in Hx end). auto.
Qed.

(* mint: at most the quote amount is issued, once *)
Lemma mint_mint_conserves : forall mt q outs mt',
  mint_mint mt q outs = Some mt' ->
  exists mq, find_mq mt q = Some mq /\ mq_paid mq = true /\ mq_issued mq = false /\
             sum_amt outs <= mq_amt mq /\ outstanding mt' = outstanding mt + sum_amt outs.
Proof.
  intros mt q outs mt' H. unfold mint_mint in H. destruct (find_mq mt q) as [mq|] eqn:Eq; [|discriminate].
  destruct (mq_paid mq && negb (mq_issued mq) && (sum_amt outs <=? mq_amt mq) && outputs_ok mt outs && nodup_proofs outs) eqn:E; [|discriminate].
  inversion H; subst mt'; clear H.
  repeat (apply andb_true_iff in E; destruct E as [E ?]).
  exists mq. apply negb_true_iff in H2. apply Z.leb_le in H1.
  unfold outstanding, m_set, upd_mq. cbn [mn_issued mn_redeemed]. repeat split; auto; lia.
Qed.

(* melt: a paid melt takes its inputs out of circulation; a failed one releases them unchanged *)
Lemma spend_inputs_outstanding : forall mt ins, outstanding (spend_inputs mt ins) = outstanding mt - sum_amt ins.
Proof. intros. unfold outstanding, spend_inputs, m_set. cbn [mn_issued mn_redeemed]. lia. Qed.
Lemma release_inputs_outstanding : forall mt ins, outstanding (release_inputs mt ins) = outstanding mt.
Proof. reflexivity. Qed.

Lemma melt_outstanding : forall mt ins,
  outstanding (spend_inputs mt ins) = outstanding mt - sum_amt ins /\
  outstanding (release_inputs mt ins) = outstanding mt.
Proof. intros. split; [exact (spend_inputs_outstanding mt ins)|exact (release_inputs_outstanding mt ins)]. Qed.

(* ---------------- the conservation equation, executable *)

Definition at_mint (m : Z) (p : wproof) : bool := wp_mint p =? m.
Definition not_spent (w : world) (p : wproof) : bool :=
  negb (mem_proof p (mn_spent (nthZ (wp_mint p) (mints w) mint0))).

Fixpoint dedup (l : list wproof) : list wproof :=
  match l with [] => [] | p :: r => if mem_proof p r then dedup r else p :: dedup r end.

(* what the wallets hold (spendable; pending or handed out in a token, counted once) of mint m, not SPENT *)
Definition holdings (w : world) (m : Z) : Z :=
  let spendable := flat_map w_proofs (wallets w) in
  let pending := flat_map (fun x => map fst (w_pend x)) (wallets w) in
  let in_tokens := flat_map t_proofs (tokens w) in
  sum_amt (filter (fun p => at_mint m p && not_spent w p) spendable) +
  sum_amt (filter (fun p => at_mint m p && not_spent w p && negb (mem_proof p spendable)) (dedup (pending ++ in_tokens))).

Definition conserved (w : world) : bool :=
  forallb (fun n => outstanding (nth n (mints w) mint0) =? holdings w (Z.of_nat n)) (seq 0 (length (mints w))).

(* a history over all flows with Lightning success, failure and pending: the equation holds at the end *)
Definition c17_history : list (Z * wop) :=
  [(0, OMint 0 0 1000 true); (0, OSend 0 0 300 false true); (0, OReceive 1 0 false);
   (0, OSend 0 0 77 true false); (0, OSendP2PK 0 0 50 false 1 false); (0, OReceive 1 2 false);
   (0, OSendHTLC 0 0 30 false 1 true false); (0, ORecvHTLC 1 3);
   (0, OMelt 0 0 100 0); (0, OMelt 0 0 50 1); (0, OMelt 0 0 60 2); (0, OResolve 2 1);
   (0, OSend 0 0 20 false true); (0, OReclaim 0); (0, ORemove 0);
   (0, ORotate 0 100); (0, OMint 0 0 200 true); (0, OSend 0 0 150 true false); (0, OReceive 1 5 false);
   (0, OAddMint 0 1); (0, OMintSwap 0 0 1 100 0)].

Lemma c17_history_conserved :
  conserved (exec_all repaired c17_history (init_world [(100, 1); (0, 1)] [0; 0])) = true.
Proof. vm_compute. reflexivity. Qed.

(* MintSwap while the payment fails: the proofs taken out of the store are unspent at the mint and in no wallet *)
Definition mintswap_fails : list (Z * wop) :=
  [(0, OMint 0 0 1000 true); (0, OAddMint 0 1); (0, OMintSwap 0 0 1 500 1)].

Lemma mintswap_loses_value :
  let w := exec_all repaired mintswap_fails (init_world [(0, 1); (0, 1)] [0]) in
  conserved w = false /\ outstanding (nthZ 0 (mints w) mint0) = 1000 /\ holdings w 0 = 500
  /\ get_balance (nthZ 0 (wallets w) wallet0) = 500 /\ pending_balance (nthZ 0 (wallets w) wallet0) = 0.
Proof. vm_compute. repeat split; reflexivity. Qed.

Lemma mintswap_ok_conserved :
  conserved (exec_all repaired [(0, OMint 0 0 1000 true); (0, OAddMint 0 1); (0, OMintSwap 0 0 1 500 0)]
                      (init_world [(0, 1); (0, 1)] [0])) = true.
Proof. vm_compute. reflexivity. Qed.
