(* Executable model of the wallet's pure proof-selection arithmetic (property C18):
     cashu.AmountSplit                     /repo/cashu/cashu.go
     feesForProofs, feesForCount           /repo/wallet/wallet.go
     selectProofsToSend                    (the greedy loop, with its uint64 arithmetic)
     selectProofsForAmount                 (inactive keysets first, the ignored error)
     getProofsForAmount                    (offline selection exact?  else swap)
     swapToSend                            (only its arithmetic: fee estimate, send split,
                                            amount selected, change)
     splitWalletTarget                     (given the amounts held in the wallet)
   Every Go `uint64`/`uint` operation is written with its width (add64 / sub64).
   A proof is (amount, keyset index, uid); keyset index 0 is the active keyset, the
   others are looked up in the mint's list of inactive keysets; an unknown keyset
   contributes no fee, as in feesForProofs.
   Go's sort.Slice is unstable: the selection functions are first defined for ANY pair of
   sorting functions (section Select, used by the theorems that hold for every tie-break),
   and the executable model instantiates them with stable insertion sorts. *)
From Coq Require Import ZArith List Bool.
Import ListNotations.
Open Scope Z_scope.

Definition W64 : Z := 18446744073709551616. (* 2^64 *)
Definition add64 (a b : Z) : Z := (a + b) mod W64.
Definition sub64 (a b : Z) : Z := (a - b) mod W64.

(* ---------- cashu.AmountSplit ----------
   for pos := 0; amount > 0; pos++ { if amount&1 == 1 { rv = append(rv, 1<<pos) }; amount >>= 1 }
   64 iterations exhaust every uint64 (amount_split_fuel in SelectProofs.v). *)
Fixpoint amount_split_go (fuel : nat) (amount pos : Z) : list Z :=
  match fuel with
  | O => []
  | S f =>
      if 0 <? amount then
        let rest := amount_split_go f (amount / 2) (pos + 1) in
        if Z.odd amount then (2 ^ pos) mod W64 :: rest else rest
      else []
  end.

Definition amount_split (amount : Z) : list Z := amount_split_go 64 amount 0.

(* number of proofs AmountSplit produces for f *)
Definition popcount (f : Z) : Z := Z.of_nat (length (amount_split f)).

(* ---------- proofs, mints, fees ---------- *)
Record proof : Type := mkProof { p_amount : Z; p_keyset : Z; p_uid : Z }.

Record mint : Type := mkMint { m_active_fee : Z; m_inactive : list (Z * Z) (* keyset index, input_fee_ppk *) }.

Fixpoint lookup (k : Z) (l : list (Z * Z)) : option Z :=
  match l with
  | [] => None
  | (k', v) :: r => if k =? k' then Some v else lookup k r
  end.

Definition sumZ (l : list Z) : Z := fold_right Z.add 0 l.
Definition amounts (ps : list proof) : list Z := map p_amount ps.

(* Proofs.Amount(): a uint64 accumulator *)
Definition sum64 (ps : list proof) : Z := fold_left (fun acc p => add64 acc (p_amount p)) ps 0.

(* (fees + 999) / 1000 on a Go uint *)
Definition ceil1000 (f : Z) : Z := add64 f 999 / 1000.

(* one iteration of the loop of feesForProofs *)
Definition fee_step (m : mint) (acc : Z) (p : proof) : Z :=
  if p_keyset p =? 0 then add64 acc (m_active_fee m)
  else match lookup (p_keyset p) (m_inactive m) with
       | Some f => add64 acc f
       | None => acc
       end.

Definition fees_for_proofs (m : mint) (ps : list proof) : Z :=
  ceil1000 (fold_left (fee_step m) ps 0).

Fixpoint iter_add (n : nat) (ppk acc : Z) : Z :=
  match n with O => acc | S k => iter_add k ppk (add64 acc ppk) end.

(* feesForCount(count int, keyset): a non-positive count runs the loop zero times *)
Definition fees_for_count (count ppk : Z) : Z := ceil1000 (iter_add (Z.to_nat count) ppk 0).

(* ---------- sorting ---------- *)
Fixpoint insert_up (p : proof) (l : list proof) : list proof :=
  match l with
  | [] => [p]
  | q :: r => if p_amount p <=? p_amount q then p :: l else q :: insert_up p r
  end.
(* stable, ascending by amount *)
Definition sort_up (l : list proof) : list proof := fold_right insert_up [] l.

Fixpoint insert_down (p : proof) (l : list proof) : list proof :=
  match l with
  | [] => [p]
  | q :: r => if p_amount q <=? p_amount p then p :: l else q :: insert_down p r
  end.
(* stable, descending by amount *)
Definition sort_down (l : list proof) : list proof := fold_right insert_down [] l.

Fixpoint insertZ (x : Z) (l : list Z) : list Z :=
  match l with
  | [] => [x]
  | y :: r => if x <=? y then x :: l else y :: insertZ x r
  end.
Definition sortZ (l : list Z) : list Z := fold_right insertZ [] l.

(* ---------- selectProofsToSend ---------- *)
Inductive outcome (X : Type) : Type :=
| Ok (x : X)
| Err (code : Z)      (* 1 = ErrInsufficientMintBalance, 2 = "insufficient funds for transaction" *)
| OutOfFuel.          (* excluded by select_never_out_of_fuel *)
Arguments Ok {X}. Arguments Err {X}. Arguments OutOfFuel {X}.

(* for _, small := range smallerProofs {
     if small.Amount <= remainingAmount { tempSmaller = append(tempSmaller, small) }
     else { biggerProofs = slices.Insert(biggerProofs, 0, small) } } *)
Fixpoint repartition (remaining : Z) (smaller temp bigger : list proof) : list proof * list proof :=
  match smaller with
  | [] => (temp, bigger)
  | s :: r =>
      if p_amount s <=? remaining then repartition remaining r (temp ++ [s]) bigger
      else repartition remaining r temp (s :: bigger)
  end.

Section Select.
  Variable srt_up srt_down : list proof -> list proof.
  Variable m : mint.
  Variable include_fees : bool.
  Variable amount : Z.

  Definition fees_if (sel : list proof) : Z := if include_fees then fees_for_proofs m sel else 0.

  (* the head of smallerProofs, else the head of biggerProofs, else break *)
  Definition pick (smaller bigger : list proof) : option (proof * list proof * list proof) :=
    match smaller with
    | p :: r => Some (p, r, bigger)
    | [] => match bigger with
            | p :: r => Some (p, [], r)
            | [] => None
            end
    end.

  (* for remainingAmount > 0 { ... } ; result: selectedProofs, selectedProofsSum *)
  Fixpoint select_loop (fuel : nat) (smaller bigger selected : list proof) (remaining selsum : Z)
    : outcome (list proof * Z) :=
    if 0 <? remaining then
      match fuel with
      | O => OutOfFuel
      | S fuel' =>
          match pick (srt_down smaller) bigger with
          | None => Ok (selected, selsum)
          | Some (p, smaller1, bigger1) =>
              let selected1 := selected ++ [p] in
              let selsum1 := add64 selsum (p_amount p) in
              let fees := fees_if selected1 in
              if add64 remaining fees <=? p_amount p then Ok (selected1, selsum1)
              else
                let remaining1 := sub64 (add64 amount fees) selsum1 in
                let '(smaller2, bigger2) := repartition remaining1 smaller1 [] bigger1 in
                select_loop fuel' smaller2 bigger2 selected1 remaining1 selsum1
          end
      end
    else Ok (selected, selsum).

  Definition select_proofs_to_send_gen (ps : list proof) : outcome (list proof) :=
    if sum64 ps <? amount then Err 1
    else
      let sorted := srt_up ps in
      let smaller := filter (fun p => p_amount p <=? amount) sorted in
      let bigger := filter (fun p => negb (p_amount p <=? amount)) sorted in
      match select_loop (S (length ps)) smaller bigger [] amount 0 with
      | Ok (sel, selsum) =>
          if selsum <? add64 amount (fees_if sel) then Err 2 else Ok sel
      | Err c => Err c
      | OutOfFuel => OutOfFuel
      end.
End Select.

(* getProofsForAmount: which way does the send go? *)
Inductive decision : Type :=
| DOffline (sel : list proof)   (* the stored proofs add up exactly: handed out as they are *)
| DSwap                         (* swapToSend *)
| DErr (code : Z)
| DOutOfFuel.

(* ---------- selectProofsForAmount ---------- *)
Section ForAmount.
  Variable srt_up srt_down : list proof -> list proof.
  Variable m : mint.

  Definition select_proofs_for_amount_gen (inactive active : list proof) (amount : Z) (include_fees : bool)
    : outcome (list proof) :=
    let sel := select_proofs_to_send_gen srt_up srt_down m include_fees in
    let continue (selected : list proof) (fees : Z) : outcome (list proof) :=
      let total_needed := add64 amount fees in
      let selected_amount := sum64 selected in
      if total_needed <=? selected_amount then Ok selected
      else
        let remaining := sub64 total_needed selected_amount in
        match sel remaining active with
        | Ok rest => Ok (selected ++ rest)
        | Err c => Err c
        | OutOfFuel => OutOfFuel
        end in
    match inactive with
    | [] => continue [] 0
    | _ :: _ =>
        if sum64 inactive <? amount then
          continue inactive (fees_if m include_fees inactive)
        else
          match sel amount inactive with
          | Ok s => continue s (fees_if m include_fees s)
          | Err _ => continue [] (fees_if m include_fees [])   (* selectedProofs, _ = ...: the error is dropped *)
          | OutOfFuel => OutOfFuel
          end
    end.

  (* ---------- getProofsForAmount: which way does the send go? ---------- *)
  Definition get_proofs_decision_gen (inactive active : list proof) (amount : Z) (include_fees : bool) : decision :=
    match select_proofs_for_amount_gen inactive active amount include_fees with
    | Ok sel =>
        let total := add64 amount (fees_if m include_fees sel) in
        if sum64 sel =? total then DOffline sel else DSwap
    | Err c => DErr c
    | OutOfFuel => DOutOfFuel
    end.
End ForAmount.

(* ---------- splitWalletTarget ---------- *)
Definition max_order : nat := 60. (* crypto.MAX_ORDER *)
Definition all_possible_amounts : list Z := map (fun i => 2 ^ Z.of_nat i) (seq 0 max_order).

(* cashu.Count *)
Definition count_eq (l : list Z) (a : Z) : Z := Z.of_nat (length (filter (Z.eqb a) l)).

(* timesToAdd := cashu.Max(0, uint64(target)-uint64(count)); for i := 0; i < int(timesToAdd); i++
   the subtraction wraps when count > 3, Max(0, x) = x, and int() of a value >= 2^63 is negative:
   the loop then runs zero times. *)
Definition times_to_add (count : Z) : nat :=
  let t := Z.max 0 (sub64 3 count) in
  let as_int := if t <? 9223372036854775808 then t else t - W64 in
  Z.to_nat as_int.

Definition needed_amounts (wallet : list Z) : list Z :=
  flat_map (fun a => repeat a (times_to_add (count_eq wallet a))) all_possible_amounts.

(* for amountsSum < amountToSplit { if len(neededAmounts) > 0 { if amountsSum+neededAmounts[0] > amountToSplit { break }; ... } else { break } } *)
Fixpoint fill_needed (needed : list Z) (target : Z) (acc : list Z) (sum : Z) : list Z * Z :=
  if sum <? target then
    match needed with
    | [] => (acc, sum)
    | a :: r =>
        if target <? add64 sum a then (acc, sum)
        else fill_needed r target (acc ++ [a]) (add64 sum a)
    end
  else (acc, sum).

Definition split_wallet_target (amount_to_split : Z) (wallet : list Z) : list Z :=
  let needed := sortZ (needed_amounts (sortZ wallet)) in
  let '(acc, sum) := fill_needed needed amount_to_split [] 0 in
  let remaining := sub64 amount_to_split sum in
  sortZ (if 0 <? remaining then acc ++ amount_split remaining else acc).

(* ---------- swapToSend: the arithmetic ---------- *)
Record swap_plan : Type := mkPlan {
  sp_fee_estimate : Z;        (* feesToReceive *)
  sp_send : list Z;           (* amounts of the proofs handed to the recipient (sorted) *)
  sp_inputs : list proof;     (* proofsToSwap *)
  sp_input_fee : Z;           (* feesForProofs(proofsToSwap) *)
  sp_change : Z;              (* proofsAmount - amount - fees, in uint64 *)
  sp_change_split : list Z
}.

Section Swap.
  Variable srt_up srt_down : list proof -> list proof.
  Variable m : mint.

  Definition swap_to_send_plan_gen (inactive active : list proof) (amount : Z) (include_fees : bool)
    : outcome swap_plan :=
    let split_for_send := amount_split amount in
    let fees_to_receive :=
      if include_fees then fees_for_count (Z.of_nat (length split_for_send) + 1) (m_active_fee m) else 0 in
    let amount1 := add64 amount fees_to_receive in
    match select_proofs_for_amount_gen srt_up srt_down m inactive active amount1 true with
    | Ok inputs =>
        let split := sortZ (split_for_send ++ amount_split fees_to_receive) in
        let proofs_amount := sum64 inputs in
        let fees := fees_for_proofs m inputs in
        let change := sub64 (sub64 proofs_amount amount1) fees in
        let change_split :=
          if 0 <? change then split_wallet_target change (amounts (inactive ++ active)) else [] in
        Ok (mkPlan fees_to_receive split inputs fees change change_split)
    | Err c => Err c
    | OutOfFuel => OutOfFuel
    end.
End Swap.

(* ---------- the executable instances ---------- *)
Definition select_proofs_to_send (m : mint) (ps : list proof) (amount : Z) (include_fees : bool) :=
  select_proofs_to_send_gen sort_up sort_down m include_fees amount ps.
Definition select_proofs_for_amount := select_proofs_for_amount_gen sort_up sort_down.
Definition get_proofs_decision := get_proofs_decision_gen sort_up sort_down.
Definition swap_to_send_plan := swap_to_send_plan_gen sort_up sort_down.

(* what the mint charges for redeeming k proofs of the active keyset (TransactionFees) *)
Definition mint_fee_for_sent (m : mint) (sent : list Z) : Z :=
  fees_for_count (Z.of_nat (length sent)) (m_active_fee m).
