(* C19, restore: completeness of the batch scan of wallet.Restore under the no-gap hypothesis,
   and the refutation of the cumulative counter rule of the unchanged code. *)
From Coq Require Import ZArith List Bool Lia.
From Verif Require Import Select WModel.
Import ListNotations.
Open Scope Z_scope.

(* ------------------------------------------------------------------ the scan, without the monad *)

Definition unspent_of (mt : mintst) (found : list wproof) : list wproof :=
  map fst (filter (fun e => snd e =? 0) (combine found (map (proof_state mt) found))).
Definition pending_of (mt : mintst) (found : list wproof) : list wproof :=
  map fst (filter (fun e => snd e =? 1) (combine found (map (proof_state mt) found))).
Definition found_in (mt : mintst) (b : list wproof) : list wproof :=
  flat_map (fun p => match signed_amount mt p with Some q => [q] | None => [] end) b.

Fixpoint scan (vr : variant) (mt : mintst) (fuel : nat) (seed m ks counter empty stored : Z) (acc accp : list wproof)
  : list wproof * list wproof * Z :=
  match fuel with
  | O => (acc, accp, stored)
  | S f =>
      if 3 <=? empty then (acc, accp, stored)
      else
        let found := found_in mt (batch seed m ks counter) in
        if Z.of_nat (length found) =? 0 then scan vr mt f seed m ks (counter + 100) (empty + 1) stored acc accp
        else scan vr mt f seed m ks (counter + 100) 0
                  (if v_restore_delta vr then counter + 100 else stored + (counter + 100))
                  (acc ++ unspent_of mt found) (accp ++ pending_of mt found)
  end.

(* the monadic restore_keyset is the scan when nothing cuts it and no melt is pending at the mint *)
Definition quiet (mt : mintst) : Prop := forall q, In q (mn_lq mt) -> (lq_state q =? 1) = false.

Lemma eff_free : forall l w, budget w < 0 ->
  eff l w = (ROk tt, set_run w (budget w) (l :: effs w) (reqs w) (trace w)).
Proof.
  intros l w Hb. unfold eff.
  destruct (budget w =? 0) eqn:E0; [apply Z.eqb_eq in E0; lia|].
  destruct (budget w <? 0) eqn:E1; [reflexivity| apply Z.ltb_ge in E1; lia].
Qed.

Lemma post_free : forall r w, budget w < 0 ->
  post r w = (ROk tt, set_run w (budget w) (rq_label r :: effs w) (r :: reqs w) (r :: trace w)).
Proof.
  intros r w Hb. unfold post, bind. rewrite eff_free by exact Hb. reflexivity.
Qed.

Lemma filter_none : forall X (f : X -> bool) (l : list X), (forall x, In x l -> f x = false) -> filter f l = [].
Proof.
  induction l as [|x r IH]; intros H; [reflexivity|]. cbn [filter]. rewrite (H x (or_introl eq_refl)).
  apply IH. intros y Hy. apply H. right. exact Hy.
Qed.

Lemma quotes_touching_quiet : forall mt ps, quiet mt -> quotes_touching mt ps = [].
Proof.
  intros mt ps Hq. unfold quotes_touching. rewrite filter_none; [reflexivity|].
  intros q Hin. rewrite (Hq q Hin). reflexivity.
Qed.

Lemma mint_check_quiet : forall mi ps w,
  quiet (nthZ mi (mints w) mint0) ->
  mint_check mi ps w = (ROk (map (proof_state (nthZ mi (mints w) mint0)) ps), w).
Proof.
  intros mi ps w Hq. unfold mint_check, bind, get_mint. rewrite quotes_touching_quiet by exact Hq.
  cbn [poll_all ret]. reflexivity.
Qed.

Lemma mints_set_run : forall w b e r t, mints (set_run w b e r t) = mints w.
Proof. reflexivity. Qed.
Lemma budget_set_run : forall w b e r t, budget (set_run w b e r t) = b.
Proof. reflexivity. Qed.

Lemma restore_keyset_scan : forall vr fuel seed m ks counter empty stored acc accp w,
  budget w < 0 -> quiet (nthZ m (mints w) mint0) ->
  exists w', restore_keyset vr fuel seed m ks counter empty stored acc accp w
             = (ROk (scan vr (nthZ m (mints w) mint0) fuel seed m ks counter empty stored acc accp), w')
             /\ mints w' = mints w /\ budget w' < 0 /\ wallets w' = wallets w.
Proof.
  induction fuel as [|f IH]; intros seed m ks counter empty stored acc accp w Hb Hq.
  - exists w. cbn [restore_keyset scan ret]. auto.
  - cbn [restore_keyset scan].
    destruct (3 <=? empty) eqn:E3; [exists w; cbn [ret]; auto|].
    unfold bind at 1. rewrite post_free by exact Hb.
    set (w1 := set_run w (budget w) _ _ _).
    assert (Hm1 : mints w1 = mints w) by reflexivity.
    assert (Hb1 : budget w1 < 0) by (unfold w1; rewrite budget_set_run; exact Hb).
    unfold bind at 1. unfold get_mint at 1. rewrite Hm1.
    fold (found_in (nthZ m (mints w) mint0) (batch seed m ks counter)).
    set (found := found_in (nthZ m (mints w) mint0) (batch seed m ks counter)).
    destruct (Z.of_nat (length found) =? 0) eqn:El.
    + destruct (IH seed m ks (counter + 100) (empty + 1) stored acc accp w1 Hb1) as [w' [Hr [Hm [Hb' Hw']]]].
      { rewrite Hm1. exact Hq. }
      exists w'. rewrite Hm1 in Hr. rewrite Hr. rewrite Hm, Hm1. auto.
    + unfold bind at 1. rewrite post_free by exact Hb1.
      set (w2 := set_run w1 (budget w1) _ _ _).
      assert (Hm2 : mints w2 = mints w) by reflexivity.
      assert (Hb2 : budget w2 < 0) by (unfold w2; rewrite budget_set_run; exact Hb1).
      unfold bind at 1. rewrite mint_check_quiet by (rewrite Hm2; exact Hq). rewrite Hm2.
      destruct (IH seed m ks (counter + 100) 0
                   (if v_restore_delta vr then counter + 100 else stored + (counter + 100))
                   (acc ++ unspent_of (nthZ m (mints w) mint0) found)
                   (accp ++ pending_of (nthZ m (mints w) mint0) found) w2 Hb2) as [w' [Hr [Hm [Hb' Hw']]]].
      { rewrite Hm2. exact Hq. }
      exists w'. rewrite Hm2 in Hr. unfold unspent_of, pending_of in Hr. rewrite Hr. rewrite Hm, Hm2. auto.
Qed.

(* ------------------------------------------------------------------ completeness of the scan *)

Section Complete.
  Variable mt : mintst.
  Variable seed m ks : Z.

  (* the output of counter c was signed: its amount *)
  Definition probe (c : Z) : wproof := mkWP 0 m ks seed c false 0 (-1) false false.
  Definition sig (c : Z) : option wproof := signed_amount mt (probe c).
  (* value at counter c that a restore has to bring back: signed and not SPENT *)
  Definition live_value (c : Z) : Z :=
    match sig c with
    | Some q => if proof_state mt q =? 2 then 0 else wp_amt q
    | None => 0
    end.
  (* mint-side unspent + pending value of this seed's outputs of the keyset with a counter below n *)
  Fixpoint live_below (n : nat) : Z :=
    match n with O => 0 | S k => live_below k + live_value (Z.of_nat k) end.

  Lemma batch_nth : forall from, batch seed m ks from = map (fun n => probe (from + Z.of_nat n)) (seq 0 100).
  Proof. reflexivity. Qed.

  (* value of the signed outputs among the probes of a list of counters *)
  Definition value_found (cs : list Z) : Z :=
    let found := found_in mt (map probe cs) in
    sum_amt (unspent_of mt found) + sum_amt (pending_of mt found).

  Lemma sum_amt_app : forall a b, sum_amt (a ++ b) = sum_amt a + sum_amt b.
  Proof. induction a as [|x r IH]; intros b; cbn [app sum_amt fold_right]; [reflexivity|]. fold (sum_amt (r ++ b)). fold (sum_amt r). rewrite IH. lia. Qed.

  Lemma state_cases : forall q, proof_state mt q = 0 \/ proof_state mt q = 1 \/ proof_state mt q = 2.
  Proof. intros q. unfold proof_state. destruct (mem_proof q (mn_spent mt)); [auto|]. destruct (mem_proof q (mn_pend mt)); auto. Qed.

  Lemma unspent_cons : forall q r,
    unspent_of mt (q :: r) = (if proof_state mt q =? 0 then [q] else []) ++ unspent_of mt r.
  Proof. intros. unfold unspent_of. cbn [map combine filter snd]. destruct (proof_state mt q =? 0); reflexivity. Qed.
  Lemma pending_cons : forall q r,
    pending_of mt (q :: r) = (if proof_state mt q =? 1 then [q] else []) ++ pending_of mt r.
  Proof. intros. unfold pending_of. cbn [map combine filter snd]. destruct (proof_state mt q =? 1); reflexivity. Qed.

  Lemma value_found_cons : forall c cs, value_found (c :: cs) = live_value c + value_found cs.
  Proof.
    intros c cs. unfold value_found, live_value, found_in. cbn [map flat_map]. fold (sig c).
    destruct (sig c) as [q|]; cbn [app]; [|lia].
    rewrite unspent_cons, pending_cons, !sum_amt_app.
    destruct (state_cases q) as [E|[E|E]]; rewrite E; cbn; lia.
  Qed.

  Lemma value_found_nil : value_found [] = 0.
  Proof. reflexivity. Qed.

  Fixpoint live_range (from : Z) (n : nat) : Z :=
    match n with O => 0 | S k => live_value from + live_range (from + 1) k end.
  Lemma value_found_range : forall n from, value_found (map (fun k => from + Z.of_nat k) (seq 0 n)) = live_range from n.
  Proof.
    induction n as [|n IH]; intros from; [reflexivity|].
    cbn [seq map]. rewrite value_found_cons. cbn [live_range]. replace (from + Z.of_nat 0) with from by lia.
    f_equal. rewrite <- seq_shift, map_map. rewrite <- (IH (from + 1)). f_equal. apply map_ext. intros k. lia.
  Qed.

  Lemma live_below_range : forall n k, live_below (k + n) = live_below k + live_range (Z.of_nat k) n.
  Proof.
    induction n as [|n IH]; intros k; [cbn [live_range]; rewrite Nat.add_0_r; lia|].
    replace (k + S n)%nat with (S k + n)%nat by lia. rewrite IH. cbn [live_below live_range].
    replace (Z.of_nat (S k)) with (Z.of_nat k + 1) by lia. lia.
  Qed.

  (* no signed output in a range of counters *)
  Definition none_in (from : Z) (n : nat) : Prop := forall k, (k < n)%nat -> sig (from + Z.of_nat k) = None.

  Lemma found_empty : forall n from,
    found_in mt (map (fun k => probe (from + Z.of_nat k)) (seq 0 n)) = [] -> none_in from n.
  Proof.
    induction n as [|n IH]; intros from H k Hk; [lia|].
    cbn [seq map] in H. unfold found_in in H. cbn [flat_map] in H. fold (sig (from + Z.of_nat 0)) in H.
    destruct (sig (from + Z.of_nat 0)) eqn:E0; [discriminate|]. cbn [app] in H.
    destruct k as [|k]; [exact E0|].
    rewrite <- seq_shift, map_map in H.
    assert (H' : found_in mt (map (fun k => probe (from + 1 + Z.of_nat k)) (seq 0 n)) = []).
    { unfold found_in. etransitivity; [|exact H]. f_equal. apply map_ext. intros j. f_equal. lia. }
    pose proof (IH (from + 1) H' k ltac:(lia)) as Hk'. rewrite <- Hk'. f_equal. lia.
  Qed.

  Lemma live_range_none : forall n from, none_in from n -> live_range from n = 0.
  Proof.
    induction n as [|n IH]; intros from H; [reflexivity|]. cbn [live_range].
    assert (E : live_value from = 0).
    { unfold live_value. pose proof (H 0%nat ltac:(lia)) as H0. replace (from + Z.of_nat 0) with from in H0 by lia. rewrite H0. reflexivity. }
    rewrite E, IH; [lia|]. intros k Hk. pose proof (H (S k) ltac:(lia)) as Hs. rewrite <- Hs. f_equal. lia.
  Qed.

  (* the hypothesis of the property: used counters have no gap of 300 or more *)
  Definition no_gap_300 : Prop :=
    forall c, 0 <= c -> sig c <> None -> c < 300 \/ exists c', 0 <= c' /\ sig c' <> None /\ c' < c <= c' + 300.

  (* after three empty batches nothing is signed further up *)
  Lemma nothing_beyond : forall a, 0 <= a -> no_gap_300 ->
    none_in a 300 -> forall c, a + 300 <= c -> sig c = None.
  Proof.
    intros a Ha Hgap Hnone.
    assert (Hstrong : forall n : nat, forall c, c <= Z.of_nat n -> a + 300 <= c -> sig c = None).
    { induction n as [|n IH]; intros c Hc Hlo; [lia|].
      destruct (sig c) eqn:Ec; [|reflexivity]. exfalso.
      assert (Hne : sig c <> None) by (rewrite Ec; discriminate).
      destruct (Hgap c ltac:(lia) Hne) as [Hlt|[c' [H0 [Hs' Hr]]]]; [lia|].
      destruct (Z_lt_ge_dec c' a) as [Hl|Hg]; [lia|].
      destruct (Z_lt_ge_dec c' (a + 300)) as [Hl2|Hg2].
      - apply Hs'. pose proof (Hnone (Z.to_nat (c' - a)) ltac:(lia)) as Hn.
        rewrite <- Hn. f_equal. lia.
      - apply Hs'. apply IH; lia. }
    intros c Hc. apply (Hstrong (Z.to_nat c)); lia.
  Qed.

  Lemma live_below_beyond : forall n k, (forall c, Z.of_nat k <= c -> sig c = None) -> live_below (k + n) = live_below k.
  Proof.
    intros n k H. rewrite live_below_range. rewrite live_range_none; [lia|].
    intros j Hj. apply H. lia.
  Qed.

  (* the scan, started at batch k with e empty batches behind it, brings back everything *)
  Lemma scan_complete : forall vr fuel k e stored acc accp,
    no_gap_300 -> 0 <= e <= 3 ->
    (Z.of_nat (100 * k) >= 100 * e) ->
    none_in (Z.of_nat (100 * k) - 100 * e) (Z.to_nat (100 * e)) ->
    (forall c, Z.of_nat (100 * (k + fuel)) <= c -> sig c = None) ->
    sum_amt acc + sum_amt accp = live_below (100 * k) ->
    let '(a, p, _) := scan vr mt fuel seed m ks (Z.of_nat (100 * k)) e stored acc accp in
    forall N, (100 * (k + fuel) <= N)%nat -> sum_amt a + sum_amt p = live_below N.
  Proof.
    induction fuel as [|f IH]; intros k e stored acc accp Hgap He Hge Hnone Hbound Hsum.
    - cbn [scan]. intros N HN. replace N with (100 * k + (N - 100 * k))%nat by lia.
      rewrite live_below_beyond; [exact Hsum|]. intros c Hc. apply Hbound. lia.
    - cbn [scan]. destruct (3 <=? e) eqn:E3.
      + apply Z.leb_le in E3. assert (e = 3) by lia. subst e.
        intros N HN. replace N with (100 * k + (N - 100 * k))%nat by lia.
        rewrite live_below_beyond; [exact Hsum|]. intros c Hc.
        apply (nothing_beyond (Z.of_nat (100 * k) - 300)); [lia|exact Hgap| |lia].
        replace (100 * 3) with 300 in Hnone by lia. exact Hnone.
      + apply Z.leb_gt in E3.
        set (found := found_in mt (batch seed m ks (Z.of_nat (100 * k)))).
        assert (Hval : sum_amt (unspent_of mt found) + sum_amt (pending_of mt found) = live_range (Z.of_nat (100 * k)) 100).
        { unfold found. rewrite batch_nth. rewrite <- value_found_range. unfold value_found. rewrite map_map. reflexivity. }
        assert (Hnext : Z.of_nat (100 * k) + 100 = Z.of_nat (100 * (k + 1))) by lia.
        destruct (Z.of_nat (length found) =? 0) eqn:El.
        * assert (Hempty : none_in (Z.of_nat (100 * k)) 100).
          { apply found_empty. destruct found eqn:Ef; [|cbn in El; lia]. unfold found in Ef. rewrite batch_nth in Ef. exact Ef. }
          rewrite Hnext.
          specialize (IH (k + 1)%nat (e + 1) stored acc accp Hgap ltac:(lia) ltac:(lia)).
          replace (k + 1 + f)%nat with (k + S f)%nat in IH by lia.
          apply IH; [|exact Hbound|].
          -- intros j Hj.
             destruct (Z_lt_ge_dec (Z.of_nat j) (100 * e)) as [Hl|Hg].
             ++ pose proof (Hnone j ltac:(lia)) as Hn. rewrite <- Hn. f_equal. lia.
             ++ pose proof (Hempty (Z.to_nat (Z.of_nat j - 100 * e)) ltac:(lia)) as Hn. rewrite <- Hn. f_equal. lia.
          -- replace (100 * (k + 1))%nat with (100 * k + 100)%nat by lia.
             rewrite live_below_range, live_range_none by exact Hempty. lia.
        * rewrite Hnext.
          specialize (IH (k + 1)%nat 0
                         (if v_restore_delta vr then Z.of_nat (100 * (k + 1)) else stored + Z.of_nat (100 * (k + 1)))
                         (acc ++ unspent_of mt found) (accp ++ pending_of mt found) Hgap ltac:(lia) ltac:(lia)).
          replace (k + 1 + f)%nat with (k + S f)%nat in IH by lia.
          apply IH; [|exact Hbound|].
          -- intros j Hj. cbn in Hj. lia.
          -- rewrite !sum_amt_app. replace (100 * (k + 1))%nat with (100 * k + 100)%nat by lia.
             rewrite live_below_range. lia.
  Qed.
End Complete.

(* restore of one keyset in the wallet model: for every bound N past the counters ever used, the
   restored spendable + pending value is the mint-side unspent + pending value of the seed's outputs
   (fuel: the number of batches the model is given; 400 in restore_keysets, i.e. counters < 40000) *)
Theorem restore_keyset_complete : forall vr fuel seed m ks w,
  budget w < 0 ->
  let mt := nthZ m (mints w) mint0 in
  quiet mt ->
  no_gap_300 mt seed m ks ->
  (forall c, Z.of_nat (100 * fuel) <= c -> sig mt seed m ks c = None) ->
  exists unspent pend stored w',
    restore_keyset vr fuel seed m ks 0 0 0 [] [] w = (ROk (unspent, pend, stored), w') /\
    forall N, (100 * fuel <= N)%nat -> sum_amt unspent + sum_amt pend = live_below mt seed m ks N.
Proof.
  intros vr fuel seed m ks w Hb mt Hq Hgap Hbound.
  destruct (restore_keyset_scan vr fuel seed m ks 0 0 0 [] [] w Hb Hq) as [w' [Hr _]].
  fold mt in Hr.
  pose proof (scan_complete mt seed m ks vr fuel 0 0 0 [] [] Hgap ltac:(lia) ltac:(lia)) as Hc.
  assert (Hn : none_in mt seed m ks (Z.of_nat (100 * 0) - 100 * 0) (Z.to_nat (100 * 0))) by (intros k Hk; lia).
  specialize (Hc Hn).
  assert (Hb2 : forall c, Z.of_nat (100 * (0 + fuel)) <= c -> sig mt seed m ks c = None).
  { intros c Hc2. apply Hbound. replace (0 + fuel)%nat with fuel in Hc2 by lia. exact Hc2. }
  specialize (Hc Hb2 eq_refl).
  change (Z.of_nat (100 * 0)) with 0 in Hc.
  destruct (scan vr mt fuel seed m ks 0 0 0 [] []) as [[a p] s] eqn:Es.
  exists a, p, s, w'. split; [exact Hr|].
  intros N HN. apply Hc. lia.
Qed.

(* ------------------------------------------------------------------ the counter after a restore *)

(* with the repaired rule the stored counter is the end of the last non-empty batch:
   it is past every counter the mint signed for this seed *)
Lemma scan_counter_delta : forall mt fuel seed m ks k e stored acc accp,
  (stored <= Z.of_nat (100 * k)) ->
  let '(_, _, s) := scan repaired mt fuel seed m ks (Z.of_nat (100 * k)) e stored acc accp in
  s <= Z.of_nat (100 * (k + fuel)) /\ stored <= s.
Proof.
  induction fuel as [|f IH]; intros seed m ks k e stored acc accp Hs; cbn [scan]; [lia|].
  destruct (3 <=? e); [lia|].
  assert (Hnext : Z.of_nat (100 * k) + 100 = Z.of_nat (100 * (k + 1))) by lia.
  destruct (Z.of_nat (length (found_in mt (batch seed m ks (Z.of_nat (100 * k))))) =? 0).
  - rewrite Hnext. specialize (IH seed m ks (k + 1)%nat (e + 1) stored acc accp ltac:(lia)).
    destruct (scan repaired mt f seed m ks (Z.of_nat (100 * (k + 1))) (e + 1) stored acc accp) as [[a p] s].
    replace (k + 1 + f)%nat with (k + S f)%nat in IH by lia. lia.
  - cbn [v_restore_delta repaired]. rewrite Hnext.
    match goal with |- context [scan repaired mt f seed m ks ?c 0 ?st ?a ?p] =>
      specialize (IH seed m ks (k + 1)%nat 0 st a p ltac:(lia));
      destruct (scan repaired mt f seed m ks c 0 st a p) as [[a' p'] s] end.
    replace (k + 1 + f)%nat with (k + S f)%nat in IH by lia. lia.
Qed.

(* ------------------------------------------------------------------ restore, continue, restore *)

(* 24 mints of 1023 sat put more than 200 outputs on the keyset *)
Definition many_mints : list (Z * wop) := repeat (0, OMint 0 0 1023 true) 24.
Definition restore_twice : list (Z * wop) :=
  many_mints ++ [(0, ORestore 0); (0, OMint 0 0 5 true); (0, OMint 0 0 3 true)].

(* mint-side truth for the seed of wallet i: value of its signed outputs that are not SPENT *)
Definition mint_side_value (w : world) (i : Z) : Z :=
  fold_right (fun mt a =>
    sum_amt (filter (fun p => (wp_seed p =? i) && negb (proof_state mt p =? 2)) (mn_signed mt)) + a) 0 (mints w).

Definition check_value (vr : variant) (w : world) (i : Z) : Z :=
  match op_check vr i (set_run w (-1) [] [] (trace w)) with
  | (ROk a, _) => a
  | _ => -1
  end.

Lemma restore_twice_misses_unrepaired :
  let w := exec_all unrepaired restore_twice (init_world [(0, 0)] [0]) in
  check_value unrepaired w 0 < mint_side_value w 0.
Proof. vm_compute. reflexivity. Qed.

Lemma restore_twice_complete_repaired :
  let w := exec_all repaired restore_twice (init_world [(0, 0)] [0]) in
  check_value repaired w 0 = mint_side_value w 0 /\ 0 < mint_side_value w 0.
Proof. vm_compute. split; reflexivity. Qed.

Lemma many_mints_over_200 :
  let w := exec_all repaired many_mints (init_world [(0, 0)] [0]) in
  200 <? Z.of_nat (length (mn_signed (nthZ 0 (mints w) mint0))) = true.
Proof. vm_compute. reflexivity. Qed.
