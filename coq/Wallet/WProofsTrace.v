(* C08: an invariant of the request trace of every wallet history.
   [pres I m]: the monadic program m preserves the world invariant I, whatever it returns
   (also when it fails or is cut).  For invariants that only depend on the trace, the
   primitives are covered by three facts: effects and state updates leave the trace alone,
   [post r] appends r.  Every program of WModel.v is then covered structurally. *)
From Coq Require Import ZArith List Bool Lia.
From Verif Require Import Select WModel.
Import ListNotations.
Open Scope Z_scope.

Section Trace.
  Variable P : request -> Prop.           (* property of a single request *)
  Definition I (w : world) : Prop := Forall P (trace w).

  Definition pres {X} (m : M X) : Prop := forall w r w', m w = (r, w') -> I w -> I w'.

  Lemma pres_ret : forall X (x : X), pres (ret x).
  Proof. intros X x w r w' H Hi. inversion H; subst; exact Hi. Qed.
  Lemma pres_fail : forall X, pres (@fail X).
  Proof. intros X w r w' H Hi. inversion H; subst; exact Hi. Qed.
  Lemma pres_get : pres get.
  Proof. intros w r w' H Hi. inversion H; subst; exact Hi. Qed.
  Lemma pres_guard : forall b, pres (guard b).
  Proof. intros b. unfold guard. destruct b; [apply pres_ret | apply pres_fail]. Qed.
  Lemma pres_bind : forall X Y (m : M X) (k : X -> M Y),
    pres m -> (forall x, pres (k x)) -> pres (bind m k).
  Proof.
    intros X Y m k Hm Hk w r w' H Hi. unfold bind in H.
    destruct (m w) as [rx w1] eqn:Em. pose proof (Hm _ _ _ Em Hi) as Hi1.
    destruct rx as [x| |].
    - exact (Hk x _ _ _ H Hi1).
    - inversion H; subst; exact Hi1.
    - inversion H; subst; exact Hi1.
  Qed.
  Lemma pres_modify : forall f, (forall w, trace (f w) = trace w) -> pres (modify f).
  Proof. intros f Hf w r w' H Hi. inversion H; subst. unfold I. rewrite Hf. exact Hi. Qed.
  Lemma pres_read : forall X (f : world -> X), pres (fun w => (ROk (f w), w)).
  Proof. intros X f w r w' H Hi. inversion H; subst; exact Hi. Qed.
  Lemma pres_eff : forall l, pres (eff l).
  Proof.
    intros l w r w' H Hi. unfold eff in H. destruct (budget w =? 0); inversion H; subst; exact Hi.
  Qed.
  Lemma pres_post : forall r, P r -> pres (post r).
  Proof.
    intros r Hr. unfold post. apply pres_bind; [apply pres_eff|]. intros _.
    intros w r0 w' H Hi. inversion H; subst. unfold I. cbn [trace set_run]. constructor; assumption.
  Qed.
  Lemma pres_post_at : forall i m ks mk, (forall c, P (mk c)) -> pres (post_at i m ks mk).
  Proof.
    intros i m ks mk Hmk w r w' H Hi. unfold post_at in H.
    destruct (post (mk (counter_in w i m ks)) w) as [r1 w1] eqn:Ep.
    pose proof (pres_post _ (Hmk (counter_in w i m ks)) _ _ _ Ep Hi) as Hi1.
    destruct r1; inversion H; subst; exact Hi1.
  Qed.
  Lemma pres_silent : forall X (m : M X), pres m -> pres (silent m).
  Proof.
    intros X m Hm w r w' H Hi. unfold silent in H.
    destruct (m (set_run w (-1) (effs w) (reqs w) (trace w))) as [r1 w1] eqn:Em.
    inversion H; subst. unfold I. cbn [trace set_run].
    exact (Hm _ _ _ Em Hi).
  Qed.

  (* --- state access *)
  Lemma pres_get_mint : forall m, pres (get_mint m).       Proof. intros; apply pres_read. Qed.
  Lemma pres_get_wallet : forall i, pres (get_wallet i).   Proof. intros; apply pres_read. Qed.
  Lemma pres_get_gen : forall i, pres (get_gen i).         Proof. intros; apply pres_read. Qed.
  Lemma pres_put_mint : forall m x, pres (put_mint m x).
  Proof. intros. apply pres_modify. reflexivity. Qed.
  Lemma pres_put_wallet : forall i x, pres (put_wallet i x).
  Proof. intros. apply pres_modify. reflexivity. Qed.
  Lemma pres_upd_wallet : forall i f, pres (upd_wallet i f).
  Proof. intros. apply pres_modify. reflexivity. Qed.
  Lemma pres_set_pay : forall inv st, pres (set_pay inv st).
  Proof. intros. apply pres_modify. reflexivity. Qed.
End Trace.

(* the structural tactic *)
Ltac pres_step :=
  match goal with
  | |- pres _ (bind _ _) => apply pres_bind; [ | intro ]
  | |- pres _ (ret _) => apply pres_ret
  | |- pres _ fail => apply pres_fail
  | |- pres _ get => apply pres_get
  | |- pres _ (guard _) => apply pres_guard
  | |- pres _ (eff _) => apply pres_eff
  | |- pres _ (get_mint _) => apply pres_get_mint
  | |- pres _ (get_wallet _) => apply pres_get_wallet
  | |- pres _ (get_gen _) => apply pres_get_gen
  | |- pres _ (put_mint _ _) => apply pres_put_mint
  | |- pres _ (put_wallet _ _) => apply pres_put_wallet
  | |- pres _ (upd_wallet _ _) => apply pres_upd_wallet
  | |- pres _ (set_pay _ _) => apply pres_set_pay
  | |- pres _ (modify _) => apply pres_modify; reflexivity
  | |- pres _ (silent _) => apply pres_silent
  | |- pres _ (post_at _ _ _ _) => apply pres_post_at; intro; cbv beta; solve [eauto with pres]
  | |- pres _ (post _) => apply pres_post; solve [eauto with pres]
  | |- pres _ (if ?b then _ else _) => destruct b
  | |- pres _ (match ?x with _ => _ end) => destruct x
  | |- pres _ (let '(_, _) := ?x in _) => destruct x
  end.
Ltac pres_auto := repeat (first [ pres_step | solve [eauto with pres] ]).

Section Programs.
  Variable P : request -> Prop.
  Variable vr : variant.
  (* every request the programs build satisfies P: the five shapes of request construction *)
  Hypothesis P_plain : forall l m ins ys st, P (mkReq l m (map (mk_input vr) ins) [] ys st).
  Hypothesis P_derive : forall l m ins i ks split c,
    P (mkReq l m (map (mk_input vr) ins) (derive i m ks c split) [] c).
  Hypothesis P_send : forall m ins i aks lock to sa ns n0 split cs c,
    P (mkReq lSwap m (map (mk_input vr) ins) (send_outputs i m aks lock to sa ns n0 split cs c) [] c).
  Hypothesis P_batch : forall m seed ks c, P (mkReq lRestore m [] (batch seed m ks c) [] c).

  Lemma P_plain0 : forall l m ys st, P (mkReq l m [] [] ys st).
  Proof. intros. exact (P_plain l m [] ys st). Qed.
  Lemma P_derive0 : forall l m i ks split c, P (mkReq l m [] (derive i m ks c split) [] c).
  Proof. intros. exact (P_derive l m [] i ks split c). Qed.

  Local Notation pres := (pres P).
  Local Hint Resolve P_plain P_derive P_send P_batch P_plain0 P_derive0 : pres.

  Lemma pres_deliver : forall inv, pres (deliver inv).
  Proof. intros. unfold deliver. pres_auto. Qed.
  Local Hint Resolve pres_deliver : pres.

  Lemma pres_mint_melt : forall mi q ins, pres (mint_melt mi q ins).
  Proof. intros. unfold mint_melt. pres_auto. Qed.
  Lemma pres_mint_poll : forall mi q, pres (mint_poll mi q).
  Proof. intros. unfold mint_poll. pres_auto. Qed.
  Local Hint Resolve pres_mint_melt pres_mint_poll : pres.
  Lemma pres_poll_all : forall mi qs, pres (poll_all mi qs).
  Proof. intros mi qs. induction qs as [|q r IH]; cbn [poll_all]; pres_auto. Qed.
  Local Hint Resolve pres_poll_all : pres.
  Lemma pres_mint_check : forall mi ps, pres (mint_check mi ps).
  Proof. intros. unfold mint_check. pres_auto. Qed.
  Local Hint Resolve pres_mint_check : pres.

  Lemma pres_inc_counter : forall i m ks n, pres (inc_counter i m ks n).
  Proof. intros. unfold inc_counter. pres_auto. Qed.
  Local Hint Resolve pres_inc_counter : pres.
  Lemma pres_save_inactive : forall n i m fees ks, pres (save_inactive i m fees ks n).
  Proof. induction n as [|n IH]; intros; cbn [save_inactive]; pres_auto. Qed.
  Local Hint Resolve pres_save_inactive : pres.
  Lemma pres_add_mint : forall i m, pres (add_mint i m).
  Proof. intros. unfold add_mint. pres_auto. Qed.
  Local Hint Resolve pres_add_mint : pres.
  Lemma pres_get_active_keyset : forall i m, pres (get_active_keyset vr i m).
  Proof. intros. unfold get_active_keyset. pres_auto. Qed.
  Local Hint Resolve pres_get_active_keyset : pres.

  Lemma pres_del_proofs : forall i ps, pres (del_proofs i ps).
  Proof. intros i ps. unfold del_proofs. induction ps as [|p r IH]; pres_auto. Qed.
  Lemma pres_save_proofs : forall i ps, pres (save_proofs i ps).
  Proof. intros. unfold save_proofs. pres_auto. Qed.
  Local Hint Resolve pres_del_proofs pres_save_proofs : pres.

  Lemma pres_send_submit : forall i m aks lock to sa ns n0 inputs split cs,
    pres (send_submit vr i m aks lock to sa ns n0 inputs split cs).
  Proof. intros. unfold send_submit. pres_auto. Qed.
  Local Hint Resolve pres_send_submit : pres.
  Lemma pres_swap_to_send : forall i v a f lock to sa ns, pres (swap_to_send vr i v a f lock to sa ns).
  Proof. intros. unfold swap_to_send. pres_auto. Qed.
  Local Hint Resolve pres_swap_to_send : pres.
  Lemma pres_get_proofs_for_amount : forall i v a f, pres (get_proofs_for_amount vr i v a f).
  Proof. intros. unfold get_proofs_for_amount. pres_auto. Qed.
  Lemma pres_add_pending : forall i l ps q, pres (add_pending i l ps q).
  Proof. intros. unfold add_pending. pres_auto. Qed.
  Lemma pres_the_view : forall i m, pres (the_view i m).
  Proof. intros. unfold the_view. pres_auto. Qed.
  Local Hint Resolve pres_get_proofs_for_amount pres_add_pending pres_the_view : pres.

  Lemma pres_request_mint : forall i m a, pres (request_mint i m a).
  Proof. intros. unfold request_mint. pres_auto. Qed.
  Lemma pres_set_wq_state : forall i m id st, pres (set_wq_state i m id st).
  Proof. intros. unfold set_wq_state. pres_auto. Qed.
  Local Hint Resolve pres_request_mint pres_set_wq_state : pres.
  Lemma pres_mint_submit : forall i m id aks split, pres (mint_submit i m id aks split).
  Proof. intros. unfold mint_submit. pres_auto. Qed.
  Local Hint Resolve pres_mint_submit : pres.
  Lemma pres_mint_tokens : forall i m id, pres (mint_tokens vr i m id).
  Proof. intros. unfold mint_tokens. pres_auto. Qed.
  Lemma pres_settle_at : forall m id, pres (settle_at m id).
  Proof. intros. unfold settle_at. pres_auto. Qed.
  Local Hint Resolve pres_mint_tokens pres_settle_at : pres.
  Lemma pres_op_mint : forall i m a p, pres (op_mint vr i m a p).
  Proof. intros. unfold op_mint. pres_auto. Qed.
  Lemma pres_push_token : forall m d ps, pres (push_token m d ps).
  Proof. intros. unfold push_token. pres_auto. Qed.
  Local Hint Resolve pres_op_mint pres_push_token : pres.
  Lemma pres_op_send : forall i m a f d, pres (op_send vr i m a f d).
  Proof. intros. unfold op_send. pres_auto. Qed.
  Lemma pres_op_send_locked : forall i m a f lock to sa ns, pres (op_send_locked vr i m a f lock to sa ns).
  Proof. intros. unfold op_send_locked. pres_auto. Qed.
  Lemma pres_swap_in : forall i v ins, pres (swap_in vr i v ins).
  Proof. intros. unfold swap_in. pres_auto. Qed.
  Local Hint Resolve pres_op_send pres_op_send_locked pres_swap_in : pres.
  Lemma pres_swap_store : forall i v ins, pres (swap_store vr i v ins).
  Proof. intros. unfold swap_store. pres_auto. Qed.
  Local Hint Resolve pres_swap_store : pres.
  Lemma pres_swap_proofs_quotes : forall fuel i from to num den pct fees total,
    pres (swap_proofs_quotes fuel i from to num den pct fees total).
  Proof. induction fuel as [|f IH]; intros; cbn [swap_proofs_quotes]; pres_auto. Qed.
  Local Hint Resolve pres_swap_proofs_quotes : pres.
  Lemma pres_swap_proofs : forall i vf to ps, pres (swap_proofs vr i vf to ps).
  Proof. intros. unfold swap_proofs. pres_auto. Qed.
  Lemma pres_foreign_view : forall m, pres (foreign_view m).
  Proof. intros. unfold foreign_view. pres_auto. Qed.
  Lemma pres_token_of : forall t, pres (token_of t).
  Proof. intros. unfold token_of. pres_auto. Qed.
  Local Hint Resolve pres_swap_proofs pres_foreign_view pres_token_of : pres.
  Lemma pres_op_receive : forall i t tr, pres (op_receive vr i t tr).
  Proof. intros. unfold op_receive. pres_auto. Qed.
  Lemma pres_op_receive_htlc : forall i t, pres (op_receive_htlc vr i t).
  Proof. intros. unfold op_receive_htlc. pres_auto. Qed.
  Lemma pres_set_wl_state : forall i m id st, pres (set_wl_state i m id st).
  Proof. intros. unfold set_wl_state. pres_auto. Qed.
  Lemma pres_del_pending_quote : forall i q, pres (del_pending_quote i q).
  Proof. intros. unfold del_pending_quote. pres_auto. Qed.
  Local Hint Resolve pres_op_receive pres_op_receive_htlc pres_set_wl_state pres_del_pending_quote : pres.
  Lemma pres_check_melt_quote : forall i m id, pres (check_melt_quote i m id).
  Proof. intros. unfold check_melt_quote. pres_auto. Qed.
  Local Hint Resolve pres_check_melt_quote : pres.
  Lemma pres_melt : forall i m id, pres (melt vr i m id).
  Proof. intros. unfold melt. pres_auto. Qed.
  Local Hint Resolve pres_melt : pres.
  Lemma pres_op_melt : forall i m sat out, pres (op_melt vr i m sat out).
  Proof. intros. unfold op_melt. pres_auto. Qed.
  Lemma pres_remove_spent_at : forall i v, pres (remove_spent_at i v).
  Proof. intros. unfold remove_spent_at. pres_auto. Qed.
  Lemma pres_for_views : forall vs f, (forall v, pres (f v)) -> pres (for_views vs f).
  Proof. intros vs f Hf. induction vs as [|v r IH]; cbn [for_views]; pres_auto. Qed.
  Local Hint Resolve pres_op_melt pres_remove_spent_at : pres.
  Lemma pres_op_remove_spent : forall i, pres (op_remove_spent i).
  Proof. intros. unfold op_remove_spent. pres_auto. apply pres_for_views. intros; pres_auto. Qed.
  Lemma pres_reclaim_at : forall i v, pres (reclaim_at vr i v).
  Proof. intros. unfold reclaim_at. pres_auto. Qed.
  Local Hint Resolve pres_reclaim_at pres_op_remove_spent : pres.
  Lemma pres_op_reclaim : forall i, pres (op_reclaim vr i).
  Proof. intros. unfold op_reclaim. pres_auto. apply pres_for_views. intros; pres_auto. Qed.
  Lemma pres_op_mint_swap : forall i f t a out, pres (op_mint_swap vr i f t a out).
  Proof. intros. unfold op_mint_swap. pres_auto. Qed.
  Lemma pres_melt_ref : forall q, pres (melt_ref q).
  Proof. intros. unfold melt_ref. pres_auto. Qed.
  Local Hint Resolve pres_op_reclaim pres_op_mint_swap pres_melt_ref : pres.
  Lemma pres_op_resolve : forall q how, pres (op_resolve q how).
  Proof. intros. unfold op_resolve. pres_auto. Qed.
  Lemma pres_op_melt_again : forall q, pres (op_melt_again vr q).
  Proof. intros. unfold op_melt_again. pres_auto. Qed.
  Lemma pres_op_rotate : forall m fee, pres (op_rotate m fee).
  Proof. intros. unfold op_rotate. pres_auto. Qed.
  Local Hint Resolve pres_op_resolve pres_op_melt_again pres_op_rotate : pres.

  Lemma pres_restore_keyset : forall fuel seed m ks counter empty stored acc accp,
    pres (restore_keyset vr fuel seed m ks counter empty stored acc accp).
  Proof. induction fuel as [|f IH]; intros; cbn [restore_keyset]; pres_auto. Qed.
  Local Hint Resolve pres_restore_keyset : pres.
  Lemma pres_restore_keysets : forall kss seed m x, pres (restore_keysets vr seed m kss x).
  Proof. induction kss as [|k r IH]; intros; cbn [restore_keysets]; pres_auto. Qed.
  Local Hint Resolve pres_restore_keysets : pres.
  Lemma pres_restore_mints : forall ms seed x, pres (restore_mints vr seed ms x).
  Proof. induction ms as [|m r IH]; intros; cbn [restore_mints]; pres_auto. Qed.
  Local Hint Resolve pres_restore_mints : pres.
  Lemma pres_load_wallet : forall i, pres (load_wallet vr i).
  Proof. intros. unfold load_wallet. pres_auto. Qed.
  Lemma pres_create_wallet : forall i, pres (create_wallet i).
  Proof. intros. unfold create_wallet. pres_auto. Qed.
  Lemma pres_restored_wallet : forall i, pres (restored_wallet vr i).
  Proof. intros. unfold restored_wallet. pres_auto. Qed.
  Local Hint Resolve pres_load_wallet pres_restored_wallet : pres.
  Lemma pres_op_restore : forall i, pres (op_restore vr i).
  Proof. intros. unfold op_restore. pres_auto. Qed.
  Lemma pres_op_check : forall i, pres (op_check vr i).
  Proof. intros. unfold op_check. pres_auto. Qed.
  Lemma pres_op_add_mint : forall i m, pres (op_add_mint i m).
  Proof. intros. unfold op_add_mint. pres_auto. Qed.
  Local Hint Resolve pres_op_restore pres_op_check pres_op_add_mint : pres.

  Lemma pres_run_wop : forall o, pres (run_wop vr o).
  Proof. intros o. destruct o; cbn [run_wop]; pres_auto. Qed.

  (* one history item, all history items *)
  Lemma exec_item_I : forall it w, I P w -> I P (snd (exec_item vr it w)).
  Proof.
    intros [k o] w Hi. unfold exec_item.
    set (w0 := set_outcome (set_run w (if 0 <? k then k - 1 else -1) [] [] (trace w)) 0).
    assert (Hi0 : I P w0) by exact Hi.
    destruct (run_wop vr o w0) as [r w1] eqn:Er.
    pose proof (pres_run_wop o _ _ _ Er Hi0) as Hi1.
    destruct r as [a| |]; cbn [snd]; try exact Hi1.
    destruct (silent (load_wallet vr (wallet_of w1 o)) w1) as [r2 w2] eqn:Es. cbn [snd].
    exact (pres_silent P _ _ (pres_load_wallet _) _ _ _ Es Hi1).
  Qed.

  Lemma exec_all_I : forall its w, I P w -> I P (exec_all vr its w).
  Proof.
    induction its as [|it r IH]; intros w Hi; cbn [exec_all]; [exact Hi|].
    apply IH. apply exec_item_I. exact Hi.
  Qed.

  Lemma init_wallets_I : forall n i w, I P w -> I P (init_wallets n i w).
  Proof.
    induction n as [|n IH]; intros i w Hi; cbn [init_wallets]; [exact Hi|].
    apply IH. destruct (silent (create_wallet i) w) as [r w1] eqn:Es. cbn [snd].
    exact (pres_silent P _ _ (pres_create_wallet _) _ _ _ Es Hi).
  Qed.

  Theorem trace_invariant : forall ms homes its,
    Forall P (trace (exec_all vr its (init_world ms homes))).
  Proof.
    intros. apply exec_all_I. unfold init_world. apply init_wallets_I. constructor.
  Qed.
End Programs.

(* ---------------- the C08 instance *)

Definition no_r_atom (a : atom) : bool := match a with AR _ => false | _ => true end.
(* no blinding factor in the clear, and every secret in the clear is the secret of an input *)
Definition clean_request (r : request) : Prop :=
  forallb no_r_atom (atoms r) = true /\
  (forall p, In (ASecret p) (atoms r) -> In p (map in_p (rq_in r))).

Lemma atoms_in_stripped : forall p, atoms_in (mk_input repaired p) = [ASecret p; AC p].
Proof. reflexivity. Qed.

Lemma no_r_flat_map_stripped : forall ins,
  forallb no_r_atom (flat_map atoms_in (map (mk_input repaired) ins)) = true.
Proof. induction ins as [|p r IH]; [reflexivity|]. cbn [map flat_map]. rewrite atoms_in_stripped. cbn. exact IH. Qed.

Lemma forallb_map_const : forall X (f : X -> atom) (l : list X),
  (forall x, no_r_atom (f x) = true) -> forallb no_r_atom (map f l) = true.
Proof. intros X f l H. induction l as [|x r IH]; [reflexivity|]. cbn. rewrite H. exact IH. Qed.

Lemma secret_only_from_inputs : forall r p, In (ASecret p) (atoms r) -> In p (map in_p (rq_in r)).
Proof.
  intros r p H. unfold atoms in H. apply in_app_or in H. destruct H as [H|H].
  - apply in_flat_map in H. destruct H as [i [Hi Ha]]. apply in_map_iff. exists i. split; [|exact Hi].
    unfold atoms_in in Ha. cbn in Ha. destruct Ha as [Ha|[Ha|Ha]].
    + inversion Ha; reflexivity.
    + discriminate.
    + apply in_app_or in Ha. destruct Ha as [Ha|Ha].
      * destruct (in_dleq i); cbn in Ha; [destruct Ha as [Ha|[]]; discriminate | contradiction].
      * destruct (in_r i); cbn in Ha; [destruct Ha as [Ha|[]]; discriminate | contradiction].
  - apply in_app_or in H. destruct H as [H|H]; apply in_map_iff in H; destruct H as [x [Hx _]]; discriminate.
Qed.

Lemma clean_built : forall l m ins outs ys st, clean_request (mkReq l m (map (mk_input repaired) ins) outs ys st).
Proof.
  intros. split; [|apply secret_only_from_inputs].
  unfold atoms. cbn [rq_in rq_out rq_ys]. rewrite !forallb_app. rewrite no_r_flat_map_stripped.
  rewrite !forallb_map_const by reflexivity. reflexivity.
Qed.

(* For every wallet history of the repaired code, every request ever emitted is clean. *)
Theorem no_r_in_any_request : forall ms homes its r,
  In r (trace (exec_all repaired its (init_world ms homes))) -> clean_request r.
Proof.
  intros ms homes its r Hin.
  pose proof (trace_invariant clean_request repaired
                (fun l m ins ys st => clean_built l m ins [] ys st)
                (fun l m ins i ks split c => clean_built l m ins _ [] c)
                (fun m ins i aks lock to sa ns n0 split cs c => clean_built lSwap m ins _ [] c)
                (fun m seed ks c => clean_built lRestore m [] _ [] c) ms homes its) as H.
  rewrite Forall_forall in H. exact (H r Hin).
Qed.

(* the blinding factor of an input is only ever inside a token handed to the caller:
   requests never carry a DLEQ object at all *)
Definition no_dleq_request (r : request) : Prop := forallb (fun i => negb (in_dleq i)) (rq_in r) = true.
Lemma no_dleq_built : forall l m ins outs ys st, no_dleq_request (mkReq l m (map (mk_input repaired) ins) outs ys st).
Proof. intros. unfold no_dleq_request. cbn [rq_in]. induction ins as [|p r IH]; [reflexivity|]. cbn. exact IH. Qed.
Theorem no_dleq_in_any_request : forall ms homes its r,
  In r (trace (exec_all repaired its (init_world ms homes))) -> no_dleq_request r.
Proof.
  intros ms homes its r Hin.
  pose proof (trace_invariant no_dleq_request repaired
                (fun l m ins ys st => no_dleq_built l m ins [] ys st)
                (fun l m ins i ks split c => no_dleq_built l m ins _ [] c)
                (fun m ins i aks lock to sa ns n0 split cs c => no_dleq_built lSwap m ins _ [] c)
                (fun m seed ks c => no_dleq_built lRestore m [] _ [] c) ms homes its) as H.
  rewrite Forall_forall in H. exact (H r Hin).
Qed.

(* ---------------- refutation for the unrepaired request construction *)

(* mint 1000 (the proofs carry DLEQ), then a P2PK send: swapToSend puts the stored proofs into /v1/swap *)
Definition c08_witness : list (Z * wop) := [(0, OMint 0 0 1000 true); (0, OSendP2PK 0 0 50 false 1 false)].
Definition leaks (r : request) : bool := negb (forallb no_r_atom (atoms r)).

Lemma unrepaired_leaks_r :
  existsb leaks (trace (exec_all unrepaired c08_witness (init_world [(0, 1)] [0; 0]))) = true.
Proof. vm_compute. reflexivity. Qed.
Lemma repaired_witness_clean :
  existsb leaks (trace (exec_all repaired c08_witness (init_world [(0, 1)] [0; 0]))) = false.
Proof. vm_compute. reflexivity. Qed.
(* non-vacuity: the history emits swap requests with inputs *)
Lemma witness_has_inputs :
  existsb (fun r => negb (Z.of_nat (length (rq_in r)) =? 0)) (trace (exec_all repaired c08_witness (init_world [(0, 1)] [0; 0]))) = true.
Proof. vm_compute. reflexivity. Qed.
