(* Decoding of the abstract wallet histories of the harness (family tag 7, streams c08-hist,
   c17-hist, c19-hist), the run of the wallet model on them, and the encoding of the projected
   observables: per operation (class amount effects shapes world). *)
From Coq Require Import ZArith List Bool.
From Verif Require Import Sexp Select WModel.
Import ListNotations.
Open Scope Z_scope.

(* ---------------- configuration: (((fee pct) ...) (home ...)) *)

Definition d_mint (s : sexp) : option mintst :=
  match s with
  | L [A fee; A pct] => Some (fresh_mint fee pct)
  | _ => None
  end.

(* ---------------- operations *)

Definition bz (z : Z) : bool := negb (z =? 0).

Definition d_wop (s : sexp) : option wop :=
  match s with
  | L [A 1; A i; A m; A a; A p] => Some (OMint i m a (bz p))
  | L [A 2; A i; A m; A a; A f; A d] => Some (OSend i m a (bz f) (bz d))
  | L [A 3; A i; A t; A tr] => Some (OReceive i t (bz tr))
  | L [A 4; A i; A m; A a; A f; A to; A sa] => Some (OSendP2PK i m a (bz f) to (bz sa))
  | L [A 5; A i; A m; A a; A f; A to; A ws; A sa] => Some (OSendHTLC i m a (bz f) to (bz ws) (bz sa))
  | L [A 6; A i; A t] => Some (ORecvHTLC i t)
  | L [A 7; A i; A m; A sat; A out] => Some (OMelt i m sat out)
  | L [A 8; A q; A how] => Some (OResolve q how)
  | L [A 9; A i] => Some (ORemove i)
  | L [A 10; A i] => Some (OReclaim i)
  | L [A 11; A i; A f; A t; A a; A out] => Some (OMintSwap i f t a out)
  | L [A 12; A m; A fee] => Some (ORotate m fee)
  | L [A 13; A i] => Some (ORestore i)
  | L [A 15; A i] => Some (OCheck i)
  | L [A 16; A i; A m] => Some (OAddMint i m)
  | L [A 17; A q] => Some (OMeltAgain q)
  | _ => None
  end.

(* (cut position or 0, operation) *)
Definition d_item (s : sexp) : option (Z * wop) :=
  match s with
  | L [A 14; A k; op] => do o <- d_wop op; Some (k, o)
  | _ => do o <- d_wop s; Some (0, o)
  end.

(* the amount the harness records for a failed operation *)
Definition fail_amount (o : wop) : Z :=
  match o with
  | OMelt _ _ _ _ | OResolve _ _ | OMeltAgain _ => 9
  | _ => 0
  end.

Definition unordered (o : wop) : bool :=
  match o with ORemove _ | OReclaim _ | ORestore _ | OCheck _ => true | _ => false end.

(* ---------------- observation *)

Definition shape_of (r : request) : list Z :=
  [rq_label r; Z.of_nat (length (rq_in r));
   Z.of_nat (length (filter in_dleq (rq_in r))); Z.of_nat (length (filter in_r (rq_in r)));
   Z.of_nat (length (rq_out r)); 1; Z.of_nat (length (rq_ys r))].

Fixpoint lex_le (a b : list Z) : bool :=
  match a, b with
  | [], _ => true
  | _, [] => false
  | x :: r, y :: s => if x <? y then true else if y <? x then false else lex_le r s
  end.
Fixpoint ins_shape (x : list Z) (l : list (list Z)) : list (list Z) :=
  match l with
  | [] => [x]
  | y :: r => if lex_le x y then x :: l else y :: ins_shape x r
  end.
Definition sort_shapes (l : list (list Z)) : list (list Z) := fold_right ins_shape [] l.

(* proj: 0 stream c08-hist, 1 c17-hist, 2 c19-hist. Only C19's stream compares the stored counters of
   inactive keysets (the others see -2 there), so that a counter defect shows in its own stream only. *)
Definition e_wallet (proj : Z) (w : world) (x : wallet) : sexp :=
  let nm := length (mints w) in
  let per_mint := map (fun n => match find_view x (Z.of_nat n) with
                                | Some v => A (sum_amt (mint_proofs x v))
                                | None => A (-1)
                                end) (seq 0 nm) in
  let counters := map (fun n =>
                         let mt := nth n (mints w) mint0 in
                         L (map (fun k => match find_ks x (Z.of_nat n) (Z.of_nat k) with
                                          | Some r => A (if (Z.of_nat k =? active_ks mt) || (proj =? 2) then k_ctr r else (-2))
                                          | None => A (-1)
                                          end) (seq 0 (length (mn_fees mt))))) (seq 0 nm) in
  L [A (sum_amt (w_proofs x)); A (sum_amt (map fst (w_pend x))); L per_mint; L counters].

(* blur: wallets whose last operation was cut inside (or right after) a loop of DeleteProof calls. The
   order of those calls is the order of the selected proofs, which for the proofs of an inactive keyset
   is the key order of the bbolt bucket: what is left in the store is not determined by the abstract
   history. Such a wallet is shown as (-3) until it is restored. *)
Definition e_world (proj : Z) (blur : list Z) (w : world) : sexp :=
  L [L (map (fun e => if w_home (snd e) <? 0 then L [A (-1)]
                      else if existsb (Z.eqb (fst e)) blur then L [A (-3)] else e_wallet proj w (snd e))
            (number_from 0 (wallets w))); L (map (fun m => L [A (mn_issued m); A (mn_redeemed m)]) (mints w))].

Definition e_obs (proj : Z) (blur : list Z) (o : wop) (class amount : Z) (w : world) : sexp :=
  let es := rev (effs w) in
  let ss := map shape_of (rev (reqs w)) in
  let es := if unordered o then Select.sortZ es else es in
  let ss := if unordered o then sort_shapes ss else ss in
  L [A class; A amount; eListZ es; L (map eListZ ss); e_world proj blur w].

(* one history item: run, reopen after a cut, observe *)
Definition step (proj : Z) (vr : variant) (it : Z * wop) (bw : list Z * world) : sexp * (list Z * world) :=
  let o := snd it in
  let '(blur, w) := bw in
  match exec_item vr it w with
  | (ROk a, w1) =>
      let blur1 := match o with ORestore i => filter (fun j => negb (j =? i)) blur | _ => blur end in
      (e_obs proj blur1 o 0 a w1, (blur1, w1))
  | (RFail, w1) => (e_obs proj blur o 1 (fail_amount o) w1, (blur, w1))
  | (RCut, w1) =>
      let blur1 := match effs w1 with
                   | l :: _ => if l =? eDeleteProof then wallet_of w1 o :: blur else blur
                   | [] => blur
                   end in
      (e_obs proj blur1 o 8 0 w1, (blur1, w1))
  end.

Fixpoint run_items (proj : Z) (vr : variant) (its : list (Z * wop)) (bw : list Z * world) : list sexp :=
  match its with
  | [] => []
  | it :: r => let '(ob, bw1) := step proj vr it bw in ob :: run_items proj vr r bw1
  end.

Definition run_wallet_with (vr : variant) (c : sexp) : sexp :=
  match c with
  | L [L [L ms; L hs; A proj]; L its] =>
      match opt_map d_mint ms, opt_map sZ hs, opt_map d_item its with
      | Some ms', Some hs', Some its' =>
          L (run_items proj vr its' ([], init_wallets (length hs') 0 (world_of ms' hs')))
      | _, _, _ => bad_case
      end
  | _ => bad_case
  end.

(* the entry point of the extracted runner: the model of the repaired code *)
Definition run_wallet (c : sexp) : sexp := run_wallet_with repaired c.
