(* Proofs about the wallet selection model (property C18, pure half).
   Statements are collected in Props/C18.v. *)
From Coq Require Import ZArith List Bool Lia Permutation Sorted.
From Verif Require Import Select.
Import ListNotations.
Open Scope Z_scope.

(* lia with division and modulo by constants *)
Ltac Zify.zify_post_hook ::= Z.div_mod_to_equations.

Lemma W64_pow : W64 = 2 ^ 64.
Proof. reflexivity. Qed.

Lemma W64_pos : 0 < W64.
Proof. reflexivity. Qed.

Lemma add64_range : forall a b, 0 <= add64 a b < W64.
Proof. intros a b. unfold add64. apply Z.mod_pos_bound. exact W64_pos. Qed.

Lemma sub64_range : forall a b, 0 <= sub64 a b < W64.
Proof. intros a b. unfold sub64. apply Z.mod_pos_bound. exact W64_pos. Qed.

Lemma add64_small : forall a b, 0 <= a + b < W64 -> add64 a b = a + b.
Proof. intros a b Hr. unfold add64. apply Z.mod_small. exact Hr. Qed.

Lemma sub64_small : forall a b, 0 <= a - b < W64 -> sub64 a b = a - b.
Proof. intros a b Hr. unfold sub64. apply Z.mod_small. exact Hr. Qed.

(* ------------------------------------------------------------------ *)
(* sums                                                                *)

Lemma sumZ_app : forall a b, sumZ (a ++ b) = sumZ a + sumZ b.
Proof.
  induction a as [|x a IH]; intros b; cbn [sumZ app fold_right].
  - reflexivity.
  - unfold sumZ in IH. rewrite IH. unfold sumZ. lia.
Qed.

Lemma sumZ_cons : forall x l, sumZ (x :: l) = x + sumZ l.
Proof. reflexivity. Qed.

Lemma sumZ_perm : forall a b, Permutation a b -> sumZ a = sumZ b.
Proof.
  intros a b HP. induction HP as [|x l l' HP IH|x y l|l l' l'' HP1 IH1 HP2 IH2].
  - reflexivity.
  - rewrite !sumZ_cons. lia.
  - rewrite !sumZ_cons. lia.
  - lia.
Qed.

Lemma sumZ_nonneg : forall l, Forall (fun x => 0 <= x) l -> 0 <= sumZ l.
Proof.
  intros l HF. induction HF as [|x l Hx HF IH].
  - cbn. lia.
  - rewrite sumZ_cons. lia.
Qed.

Definition sumA (ps : list proof) : Z := sumZ (amounts ps).

Lemma sumA_app : forall a b, sumA (a ++ b) = sumA a + sumA b.
Proof. intros a b. unfold sumA, amounts. rewrite map_app. apply sumZ_app. Qed.

Lemma sumA_cons : forall p l, sumA (p :: l) = p_amount p + sumA l.
Proof. reflexivity. Qed.

Lemma sumA_nil : sumA [] = 0.
Proof. reflexivity. Qed.

Lemma sumA_perm : forall a b, Permutation a b -> sumA a = sumA b.
Proof. intros a b HP. unfold sumA, amounts. apply sumZ_perm. apply Permutation_map. exact HP. Qed.

Definition nonneg (ps : list proof) : Prop := Forall (fun p => 0 <= p_amount p) ps.

Lemma sumA_nonneg : forall ps, nonneg ps -> 0 <= sumA ps.
Proof.
  intros ps HF. induction HF as [|p l Hp HF IH].
  - rewrite sumA_nil. lia.
  - rewrite sumA_cons. lia.
Qed.

Lemma nonneg_perm : forall a b, Permutation a b -> nonneg a -> nonneg b.
Proof. intros a b HP HF. unfold nonneg in *. eapply Permutation_Forall; eassumption. Qed.

Lemma nonneg_app : forall a b, nonneg (a ++ b) <-> nonneg a /\ nonneg b.
Proof. intros a b. unfold nonneg. apply Forall_app. Qed.

(* the uint64 accumulator is the true sum modulo 2^64 *)
Lemma sum64_fold : forall ps acc, 0 <= acc < W64 ->
  fold_left (fun a p => add64 a (p_amount p)) ps acc = (acc + sumA ps) mod W64.
Proof.
  induction ps as [|p ps IH]; intros acc Hacc.
  - cbn [fold_left]. rewrite sumA_nil, Z.add_0_r. symmetry. apply Z.mod_small. exact Hacc.
  - cbn [fold_left]. rewrite IH by apply add64_range.
    rewrite sumA_cons. unfold add64. rewrite Zplus_mod_idemp_l. f_equal. lia.
Qed.

Lemma sum64_mod : forall ps, sum64 ps = sumA ps mod W64.
Proof. intros ps. unfold sum64. rewrite sum64_fold. reflexivity. unfold W64. lia. Qed.

Lemma sum64_small : forall ps, 0 <= sumA ps < W64 -> sum64 ps = sumA ps.
Proof. intros ps Hr. rewrite sum64_mod. apply Z.mod_small. exact Hr. Qed.

(* ------------------------------------------------------------------ *)
(* AmountSplit                                                         *)

Definition pow2_below (lo hi : Z) (x : Z) : Prop := exists i, lo <= i < hi /\ x = 2 ^ i.

Lemma amount_split_go_spec : forall fuel a pos,
  0 <= pos -> 0 <= a < 2 ^ Z.of_nat fuel -> pos + Z.of_nat fuel <= 64 ->
  sumZ (amount_split_go fuel a pos) = a * 2 ^ pos /\
  Forall (pow2_below pos (pos + Z.of_nat fuel)) (amount_split_go fuel a pos) /\
  StronglySorted Z.lt (amount_split_go fuel a pos).
Proof.
  induction fuel as [|f IH]; intros a pos Hpos Ha Hle.
  - cbn [amount_split_go]. change (2 ^ Z.of_nat 0) with 1 in Ha.
    assert (a = 0) as -> by lia. repeat split; constructor.
  - cbn [amount_split_go].
    destruct (0 <? a) eqn:Hgt.
    2:{ apply Z.ltb_ge in Hgt. assert (a = 0) as -> by lia. repeat split; constructor. }
    apply Z.ltb_lt in Hgt.
    rewrite Nat2Z.inj_succ in Ha, Hle |- *. rewrite Z.pow_succ_r in Ha by lia.
    assert (Hhalf : 0 <= a / 2 < 2 ^ Z.of_nat f).
    { split. apply Z.div_pos; lia. apply Z.div_lt_upper_bound; lia. }
    destruct (IH (a / 2) (pos + 1) ltac:(lia) Hhalf ltac:(lia)) as (Hsum & Hall & Hsorted).
    assert (Hmod : a = 2 * (a / 2) + a mod 2) by (apply Z.div_mod; lia).
    rewrite Zmod_odd in Hmod.
    assert (Hp1 : 2 ^ (pos + 1) = 2 * 2 ^ pos) by (rewrite Z.pow_add_r by lia; lia).
    assert (Hall' : Forall (pow2_below pos (pos + Z.succ (Z.of_nat f))) (amount_split_go f (a / 2) (pos + 1))).
    { eapply Forall_impl; [|exact Hall]. intros x (i & Hi & Hx). exists i. split; [lia|exact Hx]. }
    destruct (Z.odd a).
    + assert (Hsmall : 2 ^ pos mod W64 = 2 ^ pos).
      { apply Z.mod_small. split. apply Z.pow_nonneg; lia.
        rewrite W64_pow. apply Z.pow_lt_mono_r; lia. }
      rewrite Hsmall. split; [|split].
      * rewrite sumZ_cons, Hsum, Hp1. set (q := a / 2) in *. set (t := 2 ^ pos) in *.
        clearbody q t. rewrite Hmod. ring.
      * constructor; [|exact Hall']. exists pos. split; [lia|reflexivity].
      * constructor; [exact Hsorted|].
        eapply Forall_impl; [|exact Hall]. intros x (i & Hi & Hx). subst x.
        apply Z.pow_lt_mono_r; lia.
    + split; [|split].
      * rewrite Hsum, Hp1. set (q := a / 2) in *. set (t := 2 ^ pos) in *.
        clearbody q t. rewrite Hmod. ring.
      * exact Hall'.
      * exact Hsorted.
Qed.

(* AmountSplit(a): strictly increasing powers of two below 2^64 that sum to a *)
Theorem amount_split_sum : forall a, 0 <= a < 2 ^ 64 ->
  sumZ (amount_split a) = a /\
  Forall (fun x => exists i, 0 <= i < 64 /\ x = 2 ^ i) (amount_split a) /\
  StronglySorted Z.lt (amount_split a).
Proof.
  intros a Ha. unfold amount_split.
  destruct (amount_split_go_spec 64 a 0 ltac:(lia) Ha ltac:(cbn; lia)) as (Hsum & Hall & Hsorted).
  split; [|split].
  - rewrite Hsum. change (2 ^ 0) with 1. lia.
  - exact Hall.
  - exact Hsorted.
Qed.

Lemma StronglySorted_lt_NoDup : forall l, StronglySorted Z.lt l -> NoDup l.
Proof.
  intros l HS. induction HS as [|x l HS IH Hx].
  - constructor.
  - constructor; [|exact IH]. intros Hin.
    rewrite Forall_forall in Hx. specialize (Hx x Hin). lia.
Qed.

Corollary amount_split_distinct : forall a, 0 <= a < 2 ^ 64 -> NoDup (amount_split a).
Proof. intros a Ha. apply StronglySorted_lt_NoDup. apply amount_split_sum. exact Ha. Qed.

(* 64 rounds are enough for every uint64: more fuel changes nothing *)
Lemma amount_split_fuel : forall fuel k a pos, 0 <= a < 2 ^ Z.of_nat fuel ->
  amount_split_go (fuel + k) a pos = amount_split_go fuel a pos.
Proof.
  induction fuel as [|f IH]; intros k a pos Ha.
  - change (2 ^ Z.of_nat 0) with 1 in Ha. assert (a = 0) as -> by lia.
    cbn [Nat.add amount_split_go]. destruct k; reflexivity.
  - cbn [Nat.add amount_split_go]. destruct (0 <? a) eqn:Hgt; [|reflexivity].
    rewrite Nat2Z.inj_succ, Z.pow_succ_r in Ha by lia.
    rewrite IH. reflexivity.
    split. apply Z.div_pos; lia. apply Z.div_lt_upper_bound; lia.
Qed.

Lemma amount_split_zero : amount_split 0 = [].
Proof. reflexivity. Qed.

Lemma amount_split_length : forall fuel a pos, (length (amount_split_go fuel a pos) <= fuel)%nat.
Proof.
  induction fuel as [|f IH]; intros a pos; cbn [amount_split_go].
  - cbn. lia.
  - destruct (0 <? a); [|cbn; lia]. specialize (IH (a / 2) (pos + 1)).
    destruct (Z.odd a); cbn [length]; lia.
Qed.

Lemma popcount_range : forall f, 0 <= popcount f <= 64.
Proof.
  intros f. unfold popcount, amount_split.
  pose proof (amount_split_length 64 f 0). lia.
Qed.

(* ------------------------------------------------------------------ *)
(* fees                                                                *)

Definition fee_of (m : mint) (k : Z) : Z :=
  if k =? 0 then m_active_fee m
  else match lookup k (m_inactive m) with Some f => f | None => 0 end.

(* the exact (unbounded) sum of input_fee_ppk over a list of proofs *)
Definition raw_fee (m : mint) (ps : list proof) : Z := sumZ (map (fun p => fee_of m (p_keyset p)) ps).

Definition mint_ok (m : mint) : Prop :=
  0 <= m_active_fee m /\ Forall (fun kv => 0 <= snd kv) (m_inactive m).

Lemma raw_fee_nil : forall m, raw_fee m [] = 0.
Proof. reflexivity. Qed.

Lemma raw_fee_cons : forall m p ps, raw_fee m (p :: ps) = fee_of m (p_keyset p) + raw_fee m ps.
Proof. reflexivity. Qed.

Lemma raw_fee_app : forall m a b, raw_fee m (a ++ b) = raw_fee m a + raw_fee m b.
Proof. intros m a b. unfold raw_fee. rewrite map_app. apply sumZ_app. Qed.

Lemma raw_fee_perm : forall m a b, Permutation a b -> raw_fee m a = raw_fee m b.
Proof. intros m a b HP. unfold raw_fee. apply sumZ_perm. apply Permutation_map. exact HP. Qed.

Lemma lookup_nonneg : forall k l f, Forall (fun kv => 0 <= snd kv) l -> lookup k l = Some f -> 0 <= f.
Proof.
  intros k l f HF. induction HF as [|[k' v] l Hv HF IH]; cbn [lookup]; intros Hl.
  - discriminate.
  - destruct (k =? k').
    + injection Hl as <-. exact Hv.
    + apply IH. exact Hl.
Qed.

Lemma fee_of_nonneg : forall m k, mint_ok m -> 0 <= fee_of m k.
Proof.
  intros m k [Ha Hi]. unfold fee_of. destruct (k =? 0); [exact Ha|].
  destruct (lookup k (m_inactive m)) eqn:Hl; [|lia].
  eapply lookup_nonneg; eassumption.
Qed.

Lemma raw_fee_nonneg : forall m ps, mint_ok m -> 0 <= raw_fee m ps.
Proof.
  intros m ps Hm. induction ps as [|p ps IH].
  - rewrite raw_fee_nil. lia.
  - rewrite raw_fee_cons. pose proof (fee_of_nonneg m (p_keyset p) Hm). lia.
Qed.

Lemma fee_step_eq : forall m acc p, 0 <= acc < W64 ->
  fee_step m acc p = add64 acc (fee_of m (p_keyset p)).
Proof.
  intros m acc p Hacc. unfold fee_step, fee_of.
  destruct (p_keyset p =? 0); [reflexivity|].
  destruct (lookup (p_keyset p) (m_inactive m)); [reflexivity|].
  unfold add64. rewrite Z.add_0_r. symmetry. apply Z.mod_small. exact Hacc.
Qed.

Lemma fee_fold : forall m ps acc, 0 <= acc < W64 ->
  fold_left (fee_step m) ps acc = (acc + raw_fee m ps) mod W64.
Proof.
  intros m. induction ps as [|p ps IH]; intros acc Hacc.
  - cbn [fold_left]. rewrite raw_fee_nil, Z.add_0_r. symmetry. apply Z.mod_small. exact Hacc.
  - cbn [fold_left]. rewrite fee_step_eq by exact Hacc. rewrite IH by apply add64_range.
    rewrite raw_fee_cons. unfold add64. rewrite Zplus_mod_idemp_l. f_equal. lia.
Qed.

Lemma fees_for_proofs_mod : forall m ps, fees_for_proofs m ps = ceil1000 (raw_fee m ps mod W64).
Proof.
  intros m ps. unfold fees_for_proofs. rewrite fee_fold. reflexivity. unfold W64. lia.
Qed.

Lemma ceil1000_range : forall x, 0 <= ceil1000 x < 2 ^ 55.
Proof.
  intros x. unfold ceil1000. pose proof (add64_range x 999) as Hr.
  set (y := add64 x 999) in *. clearbody y. unfold W64 in Hr.
  change (2 ^ 55) with 36028797018963968. lia.
Qed.

Lemma fees_range : forall m ps, 0 <= fees_for_proofs m ps < 2 ^ 55.
Proof. intros m ps. unfold fees_for_proofs. apply ceil1000_range. Qed.

Lemma fees_nil : forall m, fees_for_proofs m [] = 0.
Proof. reflexivity. Qed.

Lemma fees_perm : forall m a b, Permutation a b -> fees_for_proofs m a = fees_for_proofs m b.
Proof. intros m a b HP. rewrite !fees_for_proofs_mod. rewrite (raw_fee_perm m a b HP). reflexivity. Qed.

(* without wrap-around the fee is the NUT-02 formula *)
Lemma fees_exact : forall m ps, mint_ok m -> raw_fee m ps + 999 < W64 ->
  fees_for_proofs m ps = (raw_fee m ps + 999) / 1000.
Proof.
  intros m ps Hm Hb. rewrite fees_for_proofs_mod. pose proof (raw_fee_nonneg m ps Hm) as Hn.
  unfold ceil1000, add64. rewrite (Z.mod_small (raw_fee m ps)) by lia.
  rewrite Z.mod_small by lia. reflexivity.
Qed.

Lemma fees_subadd : forall m a b, mint_ok m -> raw_fee m (a ++ b) + 999 < W64 ->
  fees_for_proofs m (a ++ b) <= fees_for_proofs m a + fees_for_proofs m b.
Proof.
  intros m a b Hm Hb.
  pose proof (raw_fee_nonneg m a Hm) as Hna. pose proof (raw_fee_nonneg m b Hm) as Hnb.
  rewrite raw_fee_app in Hb.
  rewrite (fees_exact m (a ++ b)) by (try rewrite raw_fee_app; assumption).
  rewrite (fees_exact m a), (fees_exact m b) by (try assumption; lia).
  rewrite raw_fee_app. lia.
Qed.

Lemma fees_mono : forall m a b, mint_ok m -> raw_fee m (a ++ b) + 999 < W64 ->
  fees_for_proofs m a <= fees_for_proofs m (a ++ b).
Proof.
  intros m a b Hm Hb.
  pose proof (raw_fee_nonneg m a Hm) as Hna. pose proof (raw_fee_nonneg m b Hm) as Hnb.
  rewrite raw_fee_app in Hb.
  rewrite (fees_exact m (a ++ b)) by (try rewrite raw_fee_app; assumption).
  rewrite (fees_exact m a) by (try assumption; lia).
  rewrite raw_fee_app. lia.
Qed.

Lemma fees_if_range : forall m inc ps, 0 <= fees_if m inc ps < 2 ^ 55.
Proof. intros m inc ps. unfold fees_if. destruct inc. apply fees_range. lia. Qed.

Lemma fees_if_perm : forall m inc a b, Permutation a b -> fees_if m inc a = fees_if m inc b.
Proof. intros m inc a b HP. unfold fees_if. destruct inc; [apply fees_perm; exact HP|reflexivity]. Qed.

Lemma fees_if_nil : forall m inc, fees_if m inc [] = 0.
Proof. intros m inc. destruct inc; reflexivity. Qed.

Lemma fees_if_subadd : forall m inc a b, mint_ok m -> raw_fee m (a ++ b) + 999 < W64 ->
  fees_if m inc (a ++ b) <= fees_if m inc a + fees_if m inc b.
Proof. intros m inc a b Hm Hb. unfold fees_if. destruct inc; [apply fees_subadd; assumption|lia]. Qed.

Lemma fees_if_mono : forall m inc a b, mint_ok m -> raw_fee m (a ++ b) + 999 < W64 ->
  fees_if m inc a <= fees_if m inc (a ++ b).
Proof. intros m inc a b Hm Hb. unfold fees_if. destruct inc; [apply fees_mono; assumption|lia]. Qed.

(* feesForCount *)
Lemma iter_add_spec : forall n ppk acc, 0 <= acc < W64 ->
  iter_add n ppk acc = (acc + Z.of_nat n * ppk) mod W64.
Proof.
  induction n as [|n IH]; intros ppk acc Hacc.
  - cbn [iter_add]. change (Z.of_nat 0) with 0. rewrite Z.mul_0_l, Z.add_0_r.
    symmetry. apply Z.mod_small. exact Hacc.
  - cbn [iter_add]. rewrite IH by apply add64_range. unfold add64.
    rewrite Zplus_mod_idemp_l. f_equal. rewrite Nat2Z.inj_succ. lia.
Qed.

Lemma fees_for_count_small : forall count ppk, 0 <= count -> 0 <= ppk -> count * ppk + 999 < W64 ->
  fees_for_count count ppk = (count * ppk + 999) / 1000.
Proof.
  intros count ppk Hc Hp Hb. unfold fees_for_count.
  rewrite iter_add_spec by (unfold W64; lia). rewrite Z2Nat.id by exact Hc. rewrite Z.add_0_l.
  assert (0 <= count * ppk) by (apply Z.mul_nonneg_nonneg; assumption).
  unfold ceil1000, add64. rewrite (Z.mod_small (count * ppk)) by lia.
  rewrite Z.mod_small by lia. reflexivity.
Qed.

(* proofs of the active keyset only: feesForProofs is feesForCount of their number *)
Lemma raw_fee_active : forall m ps, Forall (fun p => p_keyset p = 0) ps ->
  raw_fee m ps = Z.of_nat (length ps) * m_active_fee m.
Proof.
  intros m ps HF. induction HF as [|p ps Hp HF IH].
  - reflexivity.
  - rewrite raw_fee_cons, IH. unfold fee_of. rewrite Hp. cbn [Z.eqb length]. lia.
Qed.

Lemma fees_for_proofs_active : forall m ps, Forall (fun p => p_keyset p = 0) ps ->
  fees_for_proofs m ps = fees_for_count (Z.of_nat (length ps)) (m_active_fee m).
Proof.
  intros m ps HF. rewrite fees_for_proofs_mod. unfold fees_for_count.
  rewrite iter_add_spec by (unfold W64; lia). rewrite Nat2Z.id, Z.add_0_l.
  rewrite raw_fee_active by exact HF. reflexivity.
Qed.

(* ------------------------------------------------------------------ *)
(* the sorts are permutations                                          *)

Lemma insert_up_perm : forall p l, Permutation (insert_up p l) (p :: l).
Proof.
  intros p. induction l as [|q l IH]; cbn [insert_up].
  - apply Permutation_refl.
  - destruct (p_amount p <=? p_amount q).
    + apply Permutation_refl.
    + eapply perm_trans; [apply perm_skip; exact IH|apply perm_swap].
Qed.

Lemma sort_up_perm : forall l, Permutation (sort_up l) l.
Proof.
  induction l as [|p l IH]; cbn [sort_up fold_right].
  - apply Permutation_refl.
  - eapply perm_trans; [apply insert_up_perm|apply perm_skip; exact IH].
Qed.

Lemma insert_down_perm : forall p l, Permutation (insert_down p l) (p :: l).
Proof.
  intros p. induction l as [|q l IH]; cbn [insert_down].
  - apply Permutation_refl.
  - destruct (p_amount q <=? p_amount p).
    + apply Permutation_refl.
    + eapply perm_trans; [apply perm_skip; exact IH|apply perm_swap].
Qed.

Lemma sort_down_perm : forall l, Permutation (sort_down l) l.
Proof.
  induction l as [|p l IH]; cbn [sort_down fold_right].
  - apply Permutation_refl.
  - eapply perm_trans; [apply insert_down_perm|apply perm_skip; exact IH].
Qed.

Lemma insertZ_perm : forall x l, Permutation (insertZ x l) (x :: l).
Proof.
  intros x. induction l as [|y l IH]; cbn [insertZ].
  - apply Permutation_refl.
  - destruct (x <=? y).
    + apply Permutation_refl.
    + eapply perm_trans; [apply perm_skip; exact IH|apply perm_swap].
Qed.

Lemma sortZ_perm : forall l, Permutation (sortZ l) l.
Proof.
  induction l as [|x l IH]; cbn [sortZ fold_right].
  - apply Permutation_refl.
  - eapply perm_trans; [apply insertZ_perm|apply perm_skip; exact IH].
Qed.

Lemma sumZ_sortZ : forall l, sumZ (sortZ l) = sumZ l.
Proof. intros l. apply sumZ_perm. apply sortZ_perm. Qed.

(* the stable sorts really sort (used for nothing but documentation of the executable instance) *)
Lemma insert_up_sorted : forall p l,
  StronglySorted (fun a b => p_amount a <= p_amount b) l ->
  StronglySorted (fun a b => p_amount a <= p_amount b) (insert_up p l).
Proof.
  intros p l HS. induction HS as [|q l HS IH Hq]; cbn [insert_up].
  - constructor; constructor.
  - destruct (p_amount p <=? p_amount q) eqn:Hle.
    + apply Z.leb_le in Hle. constructor; [constructor; assumption|].
      constructor; [exact Hle|]. eapply Forall_impl; [|exact Hq]. intros a Ha. cbn beta in *. lia.
    + apply Z.leb_gt in Hle. constructor; [exact IH|].
      eapply Permutation_Forall; [apply Permutation_sym; apply insert_up_perm|].
      constructor; [lia|exact Hq].
Qed.

Lemma sort_up_sorted : forall l, StronglySorted (fun a b => p_amount a <= p_amount b) (sort_up l).
Proof.
  induction l as [|p l IH]; cbn [sort_up fold_right].
  - constructor.
  - apply insert_up_sorted. exact IH.
Qed.

Lemma insert_down_sorted : forall p l,
  StronglySorted (fun a b => p_amount b <= p_amount a) l ->
  StronglySorted (fun a b => p_amount b <= p_amount a) (insert_down p l).
Proof.
  intros p l HS. induction HS as [|q l HS IH Hq]; cbn [insert_down].
  - constructor; constructor.
  - destruct (p_amount q <=? p_amount p) eqn:Hle.
    + apply Z.leb_le in Hle. constructor; [constructor; assumption|].
      constructor; [exact Hle|]. eapply Forall_impl; [|exact Hq]. intros a Ha. cbn beta in *. lia.
    + apply Z.leb_gt in Hle. constructor; [exact IH|].
      eapply Permutation_Forall; [apply Permutation_sym; apply insert_down_perm|].
      constructor; [lia|exact Hq].
Qed.

Lemma sort_down_sorted : forall l, StronglySorted (fun a b => p_amount b <= p_amount a) (sort_down l).
Proof.
  induction l as [|p l IH]; cbn [sort_down fold_right].
  - constructor.
  - apply insert_down_sorted. exact IH.
Qed.

(* ------------------------------------------------------------------ *)
(* selectProofsToSend: what holds for EVERY tie-break of the two sorts  *)

Lemma filter_split_perm : forall (f : proof -> bool) l,
  Permutation (filter f l ++ filter (fun x => negb (f x)) l) l.
Proof.
  intros f. induction l as [|x l IH]; cbn [filter].
  - apply Permutation_refl.
  - destruct (f x); cbn [negb app].
    + apply perm_skip. exact IH.
    + eapply perm_trans; [apply Permutation_sym; apply Permutation_middle|].
      apply perm_skip. exact IH.
Qed.

Lemma repartition_perm : forall r s t b t' b',
  repartition r s t b = (t', b') -> Permutation (t' ++ b') (s ++ t ++ b).
Proof.
  intros r. induction s as [|x s IH]; intros t b t' b' Hrep; cbn [repartition] in Hrep.
  - injection Hrep as <- <-. apply Permutation_refl.
  - assert (Hmid : Permutation (s ++ t ++ x :: b) ((x :: s) ++ t ++ b)).
    { cbn [app]. eapply perm_trans; [|apply Permutation_sym; apply Permutation_middle].
      apply Permutation_app_head. apply Permutation_sym. apply Permutation_middle. }
    destruct (p_amount x <=? r).
    + apply IH in Hrep. rewrite <- app_assoc in Hrep. cbn [app] in Hrep.
      eapply perm_trans; [exact Hrep|exact Hmid].
    + apply IH in Hrep. eapply perm_trans; [exact Hrep|exact Hmid].
Qed.

Lemma pick_perm : forall s b p s' b', pick s b = Some (p, s', b') -> Permutation (s ++ b) (p :: s' ++ b').
Proof.
  intros s b p s' b' Hp. unfold pick in Hp. destruct s as [|q r].
  - destruct b as [|q r]; [discriminate|]. injection Hp as <- <- <-. apply Permutation_refl.
  - injection Hp as <- <- <-. apply Permutation_refl.
Qed.

Lemma pick_none : forall s b, pick s b = None -> s = [] /\ b = [].
Proof.
  intros s b Hp. unfold pick in Hp. destruct s; [|discriminate]. destruct b; [|discriminate]. split; reflexivity.
Qed.

Lemma NoDup_app_l : forall (X : Type) (a b : list X), NoDup (a ++ b) -> NoDup a.
Proof.
  intros X. induction a as [|x a IH]; intros b Hnd.
  - constructor.
  - cbn [app] in Hnd. inversion Hnd as [|y l Hnin Hnd' Heq]. subst. constructor.
    + intros Hin. apply Hnin. apply in_or_app. left. exact Hin.
    + eapply IH. exact Hnd'.
Qed.

Lemma sub_multiset_sum : forall sel rest ps, Permutation (sel ++ rest) ps -> nonneg ps ->
  nonneg sel /\ 0 <= sumA sel <= sumA ps.
Proof.
  intros sel rest ps HP Hnn.
  apply Permutation_sym in HP. pose proof (nonneg_perm _ _ HP Hnn) as Hn2.
  apply nonneg_app in Hn2. destruct Hn2 as [Hns Hnr].
  pose proof (sumA_perm _ _ HP) as Hs. rewrite sumA_app in Hs.
  pose proof (sumA_nonneg _ Hns). pose proof (sumA_nonneg _ Hnr).
  split; [exact Hns|lia].
Qed.

Lemma selected_step_perm : forall (selected smaller bigger : list proof) (p : proof) (s2 b2 : list proof),
  Permutation (p :: s2 ++ b2) (smaller ++ bigger) ->
  Permutation ((selected ++ [p]) ++ s2 ++ b2) (selected ++ smaller ++ bigger).
Proof.
  intros selected smaller bigger p s2 b2 HP. rewrite <- app_assoc. cbn [app].
  apply Permutation_app_head. exact HP.
Qed.

Section SelectSound.
  Variable srt_up srt_down : list proof -> list proof.
  Hypothesis srt_up_perm : forall l, Permutation (srt_up l) l.
  Hypothesis srt_down_perm : forall l, Permutation (srt_down l) l.
  Variable m : mint.
  Variable inc : bool.
  Variable amount : Z.

  Let loop := select_loop srt_down m inc amount.

  Lemma step_perm : forall smaller bigger p s1 b1 r s2 b2,
    pick (srt_down smaller) bigger = Some (p, s1, b1) ->
    repartition r s1 [] b1 = (s2, b2) ->
    Permutation (p :: s2 ++ b2) (smaller ++ bigger).
  Proof.
    intros smaller bigger p s1 b1 r s2 b2 Hpick Hrep.
    apply pick_perm in Hpick. apply repartition_perm in Hrep. cbn [app] in Hrep.
    eapply perm_trans; [apply perm_skip; exact Hrep|].
    eapply perm_trans; [apply Permutation_sym; exact Hpick|].
    apply Permutation_app_tail. apply srt_down_perm.
  Qed.

  (* the selection is drawn from the proofs on the table, and the uint64 sum is tracked faithfully *)
  Lemma select_loop_perm : forall fuel smaller bigger selected remaining selsum sel selsum',
    loop fuel smaller bigger selected remaining selsum = Ok (sel, selsum') ->
    selsum = sumA selected mod W64 ->
    (exists rest, Permutation (sel ++ rest) (selected ++ smaller ++ bigger)) /\
    selsum' = sumA sel mod W64.
  Proof.
    unfold loop.
    induction fuel as [|fuel IH]; intros smaller bigger selected remaining selsum sel selsum' Hrun Hsum;
      cbn [select_loop] in Hrun; destruct (0 <? remaining).
    - discriminate.
    - injection Hrun as <- <-. split; [|exact Hsum]. exists (smaller ++ bigger). apply Permutation_refl.
    - destruct (pick (srt_down smaller) bigger) as [[[p s1] b1]|] eqn:Hpick.
      + assert (Hsum1 : add64 selsum (p_amount p) = sumA (selected ++ [p]) mod W64).
        { rewrite sumA_app, sumA_cons, sumA_nil, Hsum. unfold add64.
          rewrite Zplus_mod_idemp_l. f_equal. lia. }
        destruct (add64 remaining (fees_if m inc (selected ++ [p])) <=? p_amount p).
        * injection Hrun as <- <-. split; [|exact Hsum1].
          exists (s1 ++ b1). apply pick_perm in Hpick.
          rewrite <- app_assoc. cbn [app]. apply Permutation_app_head.
          eapply perm_trans; [apply Permutation_sym; exact Hpick|].
          apply Permutation_app_tail. apply srt_down_perm.
        * destruct (repartition _ s1 [] b1) as [s2 b2] eqn:Hrep.
          destruct (IH _ _ _ _ _ _ _ Hrun Hsum1) as [[rest HP] Hs']. split; [|exact Hs'].
          exists rest. eapply perm_trans; [exact HP|].
          apply selected_step_perm. eapply step_perm; eassumption.
      + injection Hrun as <- <-. split; [|exact Hsum]. exists (smaller ++ bigger). apply Permutation_refl.
    - injection Hrun as <- <-. split; [|exact Hsum]. exists (smaller ++ bigger). apply Permutation_refl.
  Qed.

  (* fuel = number of proofs + 1 is always enough *)
  Lemma select_loop_fuel : forall fuel smaller bigger selected remaining selsum,
    (length smaller + length bigger < fuel)%nat ->
    loop fuel smaller bigger selected remaining selsum <> OutOfFuel.
  Proof.
    unfold loop.
    induction fuel as [|fuel IH]; intros smaller bigger selected remaining selsum Hlen; [lia|].
    cbn [select_loop]. destruct (0 <? remaining); [|discriminate].
    destruct (pick (srt_down smaller) bigger) as [[[p s1] b1]|] eqn:Hpick; [|discriminate].
    destruct (add64 remaining (fees_if m inc (selected ++ [p])) <=? p_amount p); [discriminate|].
    destruct (repartition _ s1 [] b1) as [s2 b2] eqn:Hrep.
    apply IH.
    pose proof (step_perm _ _ _ _ _ _ _ _ Hpick Hrep) as HP.
    apply Permutation_length in HP. cbn [length] in HP. rewrite !app_length in HP. lia.
  Qed.

  Lemma select_loop_no_err : forall fuel smaller bigger selected remaining selsum c,
    loop fuel smaller bigger selected remaining selsum <> Err c.
  Proof.
    unfold loop.
    induction fuel as [|fuel IH]; intros smaller bigger selected remaining selsum c;
      cbn [select_loop]; destruct (0 <? remaining); try discriminate.
    destruct (pick (srt_down smaller) bigger) as [[[p s1] b1]|]; [|discriminate].
    destruct (add64 remaining (fees_if m inc (selected ++ [p])) <=? p_amount p); [discriminate|].
    destruct (repartition _ s1 [] b1) as [s2 b2]. apply IH.
  Qed.

  Let select := select_proofs_to_send_gen srt_up srt_down m inc amount.

  Lemma initial_split_perm : forall ps,
    Permutation (filter (fun p => p_amount p <=? amount) (srt_up ps) ++
                 filter (fun p => negb (p_amount p <=? amount)) (srt_up ps)) ps.
  Proof.
    intros ps. eapply perm_trans; [apply filter_split_perm|apply srt_up_perm].
  Qed.

  Theorem select_never_out_of_fuel : forall ps, select ps <> OutOfFuel.
  Proof.
    intros ps. unfold select, select_proofs_to_send_gen.
    destruct (sum64 ps <? amount); [discriminate|].
    match goal with |- context [select_loop ?a ?b ?c ?d ?e ?f ?g ?h ?i ?j] =>
      pose proof (select_loop_fuel e f g h i j) as Hfuel; unfold loop in Hfuel;
      destruct (select_loop a b c d e f g h i j) as [[sel selsum]|c0|] eqn:Hrun end.
    - destruct (selsum <? add64 amount (fees_if m inc sel)); discriminate.
    - discriminate.
    - exfalso. apply Hfuel; [|reflexivity].
      pose proof (initial_split_perm ps) as HP. apply Permutation_length in HP.
      rewrite app_length in HP. lia.
  Qed.

  (* everything an Ok result implies, without any range hypothesis *)
  Lemma select_gen_ok : forall ps sel, select ps = Ok sel ->
    (exists rest, Permutation (sel ++ rest) ps) /\
    amount <= sum64 ps /\
    add64 amount (fees_if m inc sel) <= sumA sel mod W64.
  Proof.
    intros ps sel Hsel. unfold select, select_proofs_to_send_gen in Hsel.
    destruct (sum64 ps <? amount) eqn:Hbal; [discriminate|]. apply Z.ltb_ge in Hbal.
    match type of Hsel with context [select_loop ?a ?b ?c ?d ?e ?f ?g ?h ?i ?j] =>
      destruct (select_loop a b c d e f g h i j) as [[sel0 selsum]|c0|] eqn:Hrun end; try discriminate.
    destruct (selsum <? add64 amount (fees_if m inc sel0)) eqn:Hchk; [discriminate|].
    injection Hsel as <-. apply Z.ltb_ge in Hchk.
    destruct (select_loop_perm _ _ _ _ _ _ _ _ Hrun) as [[rest HP] Hs].
    { rewrite sumA_nil. reflexivity. }
    split; [|split].
    - exists rest. eapply perm_trans; [exact HP|]. cbn [app]. apply initial_split_perm.
    - exact Hbal.
    - rewrite <- Hs. exact Hchk.
  Qed.

  (* select_sound: an Ok selection is a sub-multiset of the proofs given, and is worth at least
     the amount plus (when fees are included) the fee of spending the selection *)
  Theorem select_sound_gen : forall ps sel, select ps = Ok sel ->
    (exists rest, Permutation (sel ++ rest) ps) /\
    (nonneg ps -> sumA ps < 2 ^ 63 -> 0 <= amount ->
     amount + fees_if m inc sel <= sumA sel).
  Proof.
    intros ps sel Hsel. destruct (select_gen_ok ps sel Hsel) as [[rest HP] [Hbal Hchk]].
    split; [exists rest; exact HP|]. intros Hnn Hlt Hamt.
    destruct (sub_multiset_sum _ _ _ HP Hnn) as [_ Hb].
    pose proof (sub_multiset_sum ps [] ps ltac:(rewrite app_nil_r; apply Permutation_refl) Hnn) as [_ Hb2].
    change (2 ^ 63) with 9223372036854775808 in Hlt.
    rewrite sum64_small in Hbal by (unfold W64; lia).
    pose proof (fees_if_range m inc sel) as Hf. change (2 ^ 55) with 36028797018963968 in Hf.
    rewrite add64_small in Hchk by (unfold W64; lia).
    rewrite Z.mod_small in Hchk by (unfold W64; lia). exact Hchk.
  Qed.

  Corollary select_sound_uids : forall ps sel, select ps = Ok sel ->
    NoDup (map p_uid ps) -> NoDup (map p_uid sel) /\ incl sel ps.
  Proof.
    intros ps sel Hsel Hnd. destruct (select_sound_gen ps sel Hsel) as [[rest HP] _]. split.
    - pose proof (Permutation_map p_uid HP) as HPm. rewrite map_app in HPm.
      apply Permutation_sym in HPm. pose proof (Permutation_NoDup HPm Hnd) as Hnd2.
      apply NoDup_app_l in Hnd2. exact Hnd2.
    - intros x Hx. eapply Permutation_in; [exact HP|]. apply in_or_app. left. exact Hx.
  Qed.
End SelectSound.

(* ------------------------------------------------------------------ *)
(* selectProofsToSend succeeds whenever the proofs cover the amount plus the fee of
   spending every one of them (single call; for every tie-break)                     *)

Lemma prefix_bound : forall a b B, nonneg (a ++ b) -> sumA (a ++ b) < B -> nonneg a /\ 0 <= sumA a < B.
Proof.
  intros a b B Hnn Hlt. apply nonneg_app in Hnn. destruct Hnn as [Ha Hb].
  rewrite sumA_app in Hlt. pose proof (sumA_nonneg _ Ha). pose proof (sumA_nonneg _ Hb).
  split; [exact Ha|lia].
Qed.

Section SelectLive.
  Variable srt_up srt_down : list proof -> list proof.
  Hypothesis srt_up_perm : forall l, Permutation (srt_up l) l.
  Hypothesis srt_down_perm : forall l, Permutation (srt_down l) l.
  Variable m : mint.
  Variable inc : bool.
  Variable amount : Z.
  Hypothesis amount_range : 0 <= amount < 2 ^ 63.

  Let loop := select_loop srt_down m inc amount.

  Lemma selected_pick_perm : forall (selected smaller bigger : list proof) p s1 b1,
    pick (srt_down smaller) bigger = Some (p, s1, b1) ->
    Permutation ((selected ++ [p]) ++ s1 ++ b1) (selected ++ smaller ++ bigger).
  Proof.
    intros selected smaller bigger p s1 b1 Hpick. apply pick_perm in Hpick.
    rewrite <- app_assoc. cbn [app]. apply Permutation_app_head.
    eapply perm_trans; [apply Permutation_sym; exact Hpick|].
    apply Permutation_app_tail. apply srt_down_perm.
  Qed.

  Lemma select_loop_live : forall fuel smaller bigger selected remaining selsum sel selsum',
    loop fuel smaller bigger selected remaining selsum = Ok (sel, selsum') ->
    nonneg (selected ++ smaller ++ bigger) ->
    sumA (selected ++ smaller ++ bigger) < 2 ^ 63 ->
    selsum = sumA selected ->
    remaining = sub64 (add64 amount (fees_if m inc selected)) selsum ->
    amount + fees_if m inc sel <= sumA sel \/ Permutation sel (selected ++ smaller ++ bigger).
  Proof.
    unfold loop. change (2 ^ 63) with 9223372036854775808 in *.
    induction fuel as [|fuel IH]; intros smaller bigger selected remaining selsum sel selsum' Hrun Hnn Hlt Hsum Hrem;
      cbn [select_loop] in Hrun; destruct (0 <? remaining) eqn:Hpos.
    - discriminate.
    - injection Hrun as <- <-. left. apply Z.ltb_ge in Hpos.
      destruct (prefix_bound _ _ _ Hnn Hlt) as [_ Hb].
      pose proof (fees_if_range m inc selected) as Hf. change (2 ^ 55) with 36028797018963968 in Hf.
      subst selsum remaining. unfold sub64, add64, W64 in Hpos. lia.
    - destruct (pick (srt_down smaller) bigger) as [[[p s1] b1]|] eqn:Hpick.
      + pose proof (selected_pick_perm selected _ _ _ _ _ Hpick) as HP1.
        pose proof (nonneg_perm _ _ (Permutation_sym HP1) Hnn) as Hnn1.
        assert (Hlt1 : sumA ((selected ++ [p]) ++ s1 ++ b1) < 9223372036854775808)
          by (rewrite (sumA_perm _ _ HP1); exact Hlt).
        destruct (prefix_bound _ _ _ Hnn1 Hlt1) as [Hnn1' Hb1].
        destruct (prefix_bound _ _ _ Hnn Hlt) as [_ Hb].
        rewrite sumA_app, sumA_cons, sumA_nil, Z.add_0_r in Hb1.
        apply nonneg_app in Hnn1'. destruct Hnn1' as [_ Hp]. pose proof (Forall_inv Hp) as Hp0. cbn beta in Hp0.
        pose proof (fees_if_range m inc selected) as Hf0. change (2 ^ 55) with 36028797018963968 in Hf0.
        pose proof (fees_if_range m inc (selected ++ [p])) as Hf1. change (2 ^ 55) with 36028797018963968 in Hf1.
        assert (Hsum1 : add64 selsum (p_amount p) = sumA (selected ++ [p])).
        { rewrite sumA_app, sumA_cons, sumA_nil, Z.add_0_r. subst selsum. apply add64_small. unfold W64. lia. }
        destruct (add64 remaining (fees_if m inc (selected ++ [p])) <=? p_amount p) eqn:Hbrk.
        * injection Hrun as <- <-. left. apply Z.leb_le in Hbrk.
          rewrite sumA_app, sumA_cons, sumA_nil.
          set (F0 := fees_if m inc selected) in *. set (F1 := fees_if m inc (selected ++ [p])) in *.
          set (S0 := sumA selected) in *. set (ap := p_amount p) in *.
          clearbody F0 F1 S0 ap. subst selsum remaining.
          unfold sub64, add64, W64 in Hbrk. lia.
        * destruct (repartition _ s1 [] b1) as [s2 b2] eqn:Hrep.
          pose proof (selected_step_perm selected _ _ _ _ _ (step_perm _ srt_down_perm _ _ _ _ _ _ _ _ Hpick Hrep)) as HP2.
          destruct (IH _ _ _ _ _ _ _ Hrun) as [Hok|Hall].
          -- eapply nonneg_perm; [apply Permutation_sym; exact HP2|exact Hnn].
          -- rewrite (sumA_perm _ _ HP2). exact Hlt.
          -- exact Hsum1.
          -- reflexivity.
          -- left. exact Hok.
          -- right. eapply perm_trans; [exact Hall|exact HP2].
      + injection Hrun as <- <-. right. apply pick_none in Hpick. destruct Hpick as [Hs Hb].
        assert (smaller = []) as ->.
        { apply Permutation_nil. rewrite <- Hs. apply srt_down_perm. }
        subst bigger. rewrite !app_nil_r. apply Permutation_refl.
    - injection Hrun as <- <-. left. apply Z.ltb_ge in Hpos.
      destruct (prefix_bound _ _ _ Hnn Hlt) as [_ Hb].
      pose proof (fees_if_range m inc selected) as Hf. change (2 ^ 55) with 36028797018963968 in Hf.
      subst selsum remaining. unfold sub64, add64, W64 in Hpos. lia.
  Qed.

  Theorem select_live_gen : forall ps,
    nonneg ps -> sumA ps < 2 ^ 63 ->
    amount + fees_if m inc ps <= sumA ps ->
    exists sel, select_proofs_to_send_gen srt_up srt_down m inc amount ps = Ok sel.
  Proof.
    intros ps Hnn Hlt Hcov.
    pose proof (select_never_out_of_fuel srt_up srt_down srt_up_perm srt_down_perm m inc amount ps) as Hfuel.
    unfold select_proofs_to_send_gen in *.
    pose proof (sumA_nonneg _ Hnn) as Hs0.
    pose proof (fees_if_range m inc ps) as Hfp.
    change (2 ^ 63) with 9223372036854775808 in *. change (2 ^ 55) with 36028797018963968 in *.
    rewrite sum64_small in * by (unfold W64; lia).
    destruct (sumA ps <? amount) eqn:Hbal; [apply Z.ltb_lt in Hbal; lia|].
    match goal with |- context [select_loop ?a ?b ?c ?d ?e ?f ?g ?h ?i ?j] =>
      pose proof (select_loop_no_err a b c d e f g h i j) as Hnoerr;
      pose proof (select_loop_live e f g h i j) as Hlive; unfold loop in Hlive;
      pose proof (select_loop_perm srt_up a srt_up_perm srt_down_perm b c d e f g h i j) as Hperm;
      destruct (select_loop a b c d e f g h i j) as [[sel selsum]|c0|] eqn:Hrun end.
    - exists sel.
      destruct (Hperm _ _ eq_refl) as [[rest HP] Hs]. { rewrite sumA_nil. reflexivity. }
      cbn [app] in HP.
      pose proof (perm_trans HP (initial_split_perm srt_up srt_up_perm amount ps)) as HP'.
      destruct (sub_multiset_sum _ _ _ HP' Hnn) as [_ Hb].
      rewrite Z.mod_small in Hs by (unfold W64; lia). subst selsum.
      pose proof (fees_if_range m inc sel) as Hf. change (2 ^ 55) with 36028797018963968 in Hf.
      rewrite add64_small by (unfold W64; lia).
      assert (Hinit : Permutation ([] ++ filter (fun p => p_amount p <=? amount) (srt_up ps) ++
                                   filter (fun p => negb (p_amount p <=? amount)) (srt_up ps)) ps).
      { cbn [app]. apply initial_split_perm. exact srt_up_perm. }
      destruct (Hlive _ _ eq_refl) as [Hok|Hall].
      + eapply nonneg_perm; [apply Permutation_sym; exact Hinit|exact Hnn].
      + rewrite (sumA_perm _ _ Hinit). exact Hlt.
      + rewrite sumA_nil. reflexivity.
      + rewrite fees_if_nil. unfold sub64, add64, W64. lia.
      + destruct (sumA sel <? amount + fees_if m inc sel) eqn:Hc; [apply Z.ltb_lt in Hc; lia|reflexivity].
      + pose proof (perm_trans Hall Hinit) as Hps.
        rewrite (fees_if_perm m inc _ _ Hps), (sumA_perm _ _ Hps).
        destruct (sumA ps <? amount + fees_if m inc ps) eqn:Hc; [apply Z.ltb_lt in Hc; lia|reflexivity].
    - exfalso. eapply Hnoerr. reflexivity.
    - exfalso. apply Hfuel. reflexivity.
  Qed.
End SelectLive.

(* ------------------------------------------------------------------ *)
(* splitWalletTarget                                                   *)

Lemma times_to_add_le : forall c, 0 <= c < 2 ^ 63 -> (times_to_add c <= 3)%nat.
Proof.
  intros c Hc. change (2 ^ 63) with 9223372036854775808 in Hc.
  unfold times_to_add, sub64, W64.
  destruct (Z.max 0 ((3 - c) mod 18446744073709551616) <? 9223372036854775808) eqn:Hlt.
  - apply Z.ltb_lt in Hlt. lia.
  - apply Z.ltb_ge in Hlt. lia.
Qed.

Lemma sumZ_repeat : forall a n, sumZ (repeat a n) = Z.of_nat n * a.
Proof.
  intros a. induction n as [|n IH].
  - reflexivity.
  - cbn [repeat]. rewrite sumZ_cons, IH, Nat2Z.inj_succ. lia.
Qed.

Lemma repeat_Forall : forall (P : Z -> Prop) a n, P a -> Forall P (repeat a n).
Proof. intros P a n Ha. induction n as [|n IH]; cbn [repeat]; constructor; assumption. Qed.

Lemma flat_repeat_bound : forall (t : Z -> nat) l,
  Forall (fun a => 0 <= a /\ (t a <= 3)%nat) l ->
  Forall (fun a => 0 <= a) (flat_map (fun a => repeat a (t a)) l) /\
  sumZ (flat_map (fun a => repeat a (t a)) l) <= 3 * sumZ l.
Proof.
  intros t l HF. induction HF as [|a l [Ha Ht] HF [IH1 IH2]]; cbn [flat_map].
  - split; [constructor|cbn; lia].
  - split.
    + apply Forall_app. split; [apply repeat_Forall; exact Ha|exact IH1].
    + rewrite sumZ_app, sumZ_repeat, sumZ_cons. nia.
Qed.

Lemma all_possible_nonneg : Forall (fun a => 0 <= a) all_possible_amounts.
Proof.
  apply Forall_forall. intros a Ha.
  assert (Hb : forallb (fun x => 0 <=? x) all_possible_amounts = true) by (vm_compute; reflexivity).
  rewrite forallb_forall in Hb. apply Z.leb_le. apply Hb. exact Ha.
Qed.

Lemma all_possible_sum : sumZ all_possible_amounts = 2 ^ 60 - 1.
Proof. vm_compute. reflexivity. Qed.

Lemma count_eq_range : forall w a, 0 <= count_eq w a <= Z.of_nat (length w).
Proof.
  intros w a. unfold count_eq. split; [lia|].
  apply Nat2Z.inj_le. induction w as [|x w IH]; cbn [filter length]; [lia|].
  destruct (a =? x); cbn [length]; lia.
Qed.

Lemma needed_amounts_bound : forall w, Z.of_nat (length w) < 2 ^ 63 ->
  Forall (fun a => 0 <= a) (needed_amounts w) /\ sumZ (needed_amounts w) <= 3 * (2 ^ 60 - 1).
Proof.
  intros w Hw. unfold needed_amounts. rewrite <- all_possible_sum.
  apply (flat_repeat_bound (fun a => times_to_add (count_eq w a))).
  eapply Forall_impl; [|exact all_possible_nonneg]. intros a Ha. split; [exact Ha|].
  apply times_to_add_le. pose proof (count_eq_range w a). lia.
Qed.

Lemma fill_needed_spec : forall needed target acc sum acc' sum',
  fill_needed needed target acc sum = (acc', sum') ->
  Forall (fun a => 0 <= a) needed -> 0 <= sum -> sum + sumZ needed < W64 -> sum <= target ->
  sumZ acc' - sumZ acc = sum' - sum /\ sum <= sum' <= target.
Proof.
  induction needed as [|a r IH]; intros target acc sum acc' sum' Hrun Hnn Hs Hb Ht;
    cbn [fill_needed] in Hrun; destruct (sum <? target).
  - injection Hrun as <- <-. lia.
  - injection Hrun as <- <-. lia.
  - pose proof (Forall_inv Hnn) as Ha. cbn beta in Ha. pose proof (Forall_inv_tail Hnn) as Hr.
    pose proof (sumZ_nonneg _ Hr) as Hr0. rewrite sumZ_cons in Hb.
    rewrite add64_small in Hrun by lia.
    destruct (target <? sum + a) eqn:Hover.
    + injection Hrun as <- <-. lia.
    + apply Z.ltb_ge in Hover.
      destruct (IH _ _ _ _ _ Hrun Hr ltac:(lia) ltac:(lia) Hover) as [H1 H2].
      rewrite sumZ_app, sumZ_cons in H1. cbn [sumZ fold_right] in H1. lia.
  - injection Hrun as <- <-. lia.
Qed.

(* the amounts returned add up to the amount to split *)
Theorem split_wallet_target_sum : forall a w, 0 <= a < 2 ^ 64 -> Z.of_nat (length w) < 2 ^ 63 ->
  sumZ (split_wallet_target a w) = a.
Proof.
  intros a w Ha Hw. unfold split_wallet_target.
  destruct (fill_needed (sortZ (needed_amounts (sortZ w))) a [] 0) as [acc sum] eqn:Hfill.
  assert (Hw' : Z.of_nat (length (sortZ w)) < 2 ^ 63).
  { rewrite (Permutation_length (sortZ_perm w)). exact Hw. }
  destruct (needed_amounts_bound (sortZ w) Hw') as [Hnn Hsum].
  apply fill_needed_spec in Hfill.
  - destruct Hfill as [H1 H2]. cbn [sumZ fold_right] in H1.
    rewrite sumZ_sortZ. rewrite <- W64_pow in Ha.
    rewrite sub64_small by lia.
    destruct (0 <? a - sum) eqn:Hrem.
    + rewrite sumZ_app. destruct (amount_split_sum (a - sum)) as [Hs _]; [rewrite <- W64_pow; lia|].
      rewrite Hs. lia.
    + apply Z.ltb_ge in Hrem. lia.
  - eapply Permutation_Forall; [apply Permutation_sym; apply sortZ_perm|exact Hnn].
  - lia.
  - rewrite sumZ_sortZ. change (2 ^ 60) with 1152921504606846976 in Hsum. unfold W64. lia.
  - lia.
Qed.

(* ------------------------------------------------------------------ *)
(* selectProofsForAmount                                               *)

Definition continue_with (srt_up srt_down : list proof -> list proof) (m : mint)
  (active : list proof) (amount : Z) (inc : bool) (selected : list proof) (fees : Z) : outcome (list proof) :=
  if add64 amount fees <=? sum64 selected then Ok selected
  else match select_proofs_to_send_gen srt_up srt_down m inc (sub64 (add64 amount fees) (sum64 selected)) active with
       | Ok rest => Ok (selected ++ rest)
       | Err c => Err c
       | OutOfFuel => OutOfFuel
       end.

Lemma select_for_amount_unfold : forall su sd m inactive active amount inc,
  select_proofs_for_amount_gen su sd m inactive active amount inc =
  match inactive with
  | [] => continue_with su sd m active amount inc [] 0
  | _ :: _ =>
      if sum64 inactive <? amount then continue_with su sd m active amount inc inactive (fees_if m inc inactive)
      else match select_proofs_to_send_gen su sd m inc amount inactive with
           | Ok s => continue_with su sd m active amount inc s (fees_if m inc s)
           | Err _ => continue_with su sd m active amount inc [] (fees_if m inc [])
           | OutOfFuel => OutOfFuel
           end
  end.
Proof. intros. unfold select_proofs_for_amount_gen, continue_with. destruct inactive; reflexivity. Qed.

Lemma perm_app4 : forall (a b c d : list proof), Permutation ((a ++ b) ++ (c ++ d)) ((a ++ c) ++ (b ++ d)).
Proof.
  intros a b c d. rewrite <- !app_assoc. apply Permutation_app_head.
  rewrite !app_assoc. apply Permutation_app_tail. apply Permutation_app_comm.
Qed.

Lemma raw_fee_sub : forall m r rest all, mint_ok m -> Permutation (r ++ rest) all -> raw_fee m r <= raw_fee m all.
Proof.
  intros m r rest all Hm HP. rewrite <- (raw_fee_perm m _ _ HP), raw_fee_app.
  pose proof (raw_fee_nonneg m rest Hm). lia.
Qed.

(* the standing range hypotheses: non-negative amounts, a balance below 2^63, fee rates whose sum
   over the whole wallet does not wrap the uint accumulator *)
Definition wallet_in_range (m : mint) (ps : list proof) : Prop :=
  mint_ok m /\ nonneg ps /\ sumA ps < 2 ^ 63 /\ raw_fee m ps + 999 < W64.

Section ForAmountSound.
  Variable srt_up srt_down : list proof -> list proof.
  Hypothesis srt_up_perm : forall l, Permutation (srt_up l) l.
  Hypothesis srt_down_perm : forall l, Permutation (srt_down l) l.
  Variable m : mint.

  Lemma continue_sound : forall inactive active amount inc selected rest0 r,
    Permutation (selected ++ rest0) inactive ->
    continue_with srt_up srt_down m active amount inc selected (fees_if m inc selected) = Ok r ->
    (exists rest, Permutation (r ++ rest) (inactive ++ active)) /\
    (wallet_in_range m (inactive ++ active) -> 0 <= amount < 2 ^ 63 ->
     amount + fees_if m inc r <= sumA r).
  Proof.
    intros inactive active amount inc selected rest0 r HP0 Hrun. unfold continue_with in Hrun.
    assert (HPsel : Permutation (selected ++ rest0 ++ active) (inactive ++ active)).
    { rewrite app_assoc. apply Permutation_app_tail. exact HP0. }
    destruct (add64 amount (fees_if m inc selected) <=? sum64 selected) eqn:Henough.
    - injection Hrun as <-. split; [exists (rest0 ++ active); exact HPsel|].
      intros (Hm & Hnn & Hlt & Hfee) Hamt. apply Z.leb_le in Henough.
      destruct (sub_multiset_sum _ _ _ HPsel Hnn) as [_ Hb].
      pose proof (fees_if_range m inc selected) as Hf.
      change (2 ^ 63) with 9223372036854775808 in *. change (2 ^ 55) with 36028797018963968 in *.
      rewrite sum64_small in Henough by (unfold W64; lia).
      rewrite add64_small in Henough by (unfold W64; lia). exact Henough.
    - destruct (select_proofs_to_send_gen srt_up srt_down m inc _ active) as [rest1|c|] eqn:Hsel; try discriminate.
      injection Hrun as <-.
      destruct (select_sound_gen srt_up srt_down srt_up_perm srt_down_perm m inc _ active rest1 Hsel) as [[rest2 HP2] Harith].
      assert (HPall : Permutation ((selected ++ rest1) ++ rest0 ++ rest2) (inactive ++ active)).
      { eapply perm_trans; [apply perm_app4|]. apply Permutation_app; assumption. }
      split; [exists (rest0 ++ rest2); exact HPall|].
      intros (Hm & Hnn & Hlt & Hfee) Hamt. apply Z.leb_gt in Henough.
      destruct (sub_multiset_sum _ _ _ HPsel Hnn) as [_ Hb].
      pose proof (fees_if_range m inc selected) as Hf.
      assert (Hnna : nonneg active) by (apply nonneg_app in Hnn; apply Hnn).
      assert (Hlta : sumA active < 2 ^ 63).
      { rewrite sumA_app in Hlt. apply nonneg_app in Hnn. pose proof (sumA_nonneg _ (proj1 Hnn)). lia. }
      specialize (Harith Hnna Hlta (proj1 (sub64_range _ _))).
      assert (Hsub : fees_if m inc (selected ++ rest1) <= fees_if m inc selected + fees_if m inc rest1).
      { apply fees_if_subadd; [exact Hm|]. pose proof (raw_fee_sub m _ _ _ Hm HPall). lia. }
      rewrite sumA_app.
      change (2 ^ 63) with 9223372036854775808 in *. change (2 ^ 55) with 36028797018963968 in *.
      rewrite sum64_small in Henough, Harith by (unfold W64; lia).
      rewrite add64_small in Henough, Harith by (unfold W64; lia).
      rewrite sub64_small in Harith by (unfold W64; lia). lia.
  Qed.

  (* selectProofsForAmount: an Ok result is a sub-multiset of the wallet's proofs at that mint,
     worth at least amount + (when fees are included) the fee of spending it *)
  Theorem select_for_amount_sound_gen : forall inactive active amount inc r,
    select_proofs_for_amount_gen srt_up srt_down m inactive active amount inc = Ok r ->
    (exists rest, Permutation (r ++ rest) (inactive ++ active)) /\
    (wallet_in_range m (inactive ++ active) -> 0 <= amount < 2 ^ 63 ->
     amount + fees_if m inc r <= sumA r).
  Proof.
    intros inactive active amount inc r Hrun. rewrite select_for_amount_unfold in Hrun.
    destruct inactive as [|p0 inactive'].
    - rewrite <- (fees_if_nil m inc) in Hrun.
      apply (continue_sound [] active amount inc [] [] r); [apply Permutation_refl|exact Hrun].
    - set (inactive := p0 :: inactive') in *.
      destruct (sum64 inactive <? amount).
      + apply (continue_sound inactive active amount inc inactive [] r); [|exact Hrun].
        rewrite app_nil_r. apply Permutation_refl.
      + destruct (select_proofs_to_send_gen srt_up srt_down m inc amount inactive) as [s|c|] eqn:Hsel.
        * destruct (select_sound_gen srt_up srt_down srt_up_perm srt_down_perm m inc _ _ _ Hsel) as [[rest0 HP0] _].
          apply (continue_sound inactive active amount inc s rest0 r); assumption.
        * apply (continue_sound inactive active amount inc [] inactive r); [apply Permutation_refl|exact Hrun].
        * discriminate.
  Qed.

  Theorem select_for_amount_never_out_of_fuel : forall inactive active amount inc,
    select_proofs_for_amount_gen srt_up srt_down m inactive active amount inc <> OutOfFuel.
  Proof.
    intros inactive active amount inc. rewrite select_for_amount_unfold.
    assert (Hc : forall selected fees, continue_with srt_up srt_down m active amount inc selected fees <> OutOfFuel).
    { intros selected fees. unfold continue_with.
      destruct (add64 amount fees <=? sum64 selected); [discriminate|].
      pose proof (select_never_out_of_fuel srt_up srt_down srt_up_perm srt_down_perm m inc
                    (sub64 (add64 amount fees) (sum64 selected)) active) as Hf.
      destruct (select_proofs_to_send_gen srt_up srt_down m inc _ active); [discriminate|discriminate|exact Hf]. }
    destruct inactive as [|p0 inactive']; [apply Hc|].
    destruct (sum64 (p0 :: inactive') <? amount); [apply Hc|].
    pose proof (select_never_out_of_fuel srt_up srt_down srt_up_perm srt_down_perm m inc amount (p0 :: inactive')) as Hf.
    destruct (select_proofs_to_send_gen srt_up srt_down m inc amount (p0 :: inactive')); [apply Hc|apply Hc|exact Hf].
  Qed.

  (* ---------------- getProofsForAmount, offline branch ---------------- *)
  (* when the stored proofs are handed out as they are, they are worth exactly the amount,
     plus - when fees are included - exactly the input fee of those very proofs *)
  Theorem send_offline_exact_gen : forall inactive active amount inc sel,
    get_proofs_decision_gen srt_up srt_down m inactive active amount inc = DOffline sel ->
    (exists rest, Permutation (sel ++ rest) (inactive ++ active)) /\
    (wallet_in_range m (inactive ++ active) -> 0 <= amount < 2 ^ 63 ->
     sumA sel = amount + fees_if m inc sel).
  Proof.
    intros inactive active amount inc sel Hdec. unfold get_proofs_decision_gen in Hdec.
    destruct (select_proofs_for_amount_gen srt_up srt_down m inactive active amount inc) as [r|c|] eqn:Hsel;
      try discriminate.
    destruct (sum64 r =? add64 amount (fees_if m inc r)) eqn:Heq; [|discriminate].
    injection Hdec as <-. apply Z.eqb_eq in Heq.
    destruct (select_for_amount_sound_gen _ _ _ _ _ Hsel) as [[rest HP] _].
    split; [exists rest; exact HP|]. intros (Hm & Hnn & Hlt & Hfee) Hamt.
    destruct (sub_multiset_sum _ _ _ HP Hnn) as [_ Hb].
    pose proof (fees_if_range m inc r) as Hf.
    change (2 ^ 63) with 9223372036854775808 in *. change (2 ^ 55) with 36028797018963968 in *.
    rewrite sum64_small in Heq by (unfold W64; lia).
    rewrite add64_small in Heq by (unfold W64; lia). exact Heq.
  Qed.

  (* ---------------- swapToSend ---------------- *)
  Theorem swap_plan_sound_gen : forall inactive active amount inc p,
    swap_to_send_plan_gen srt_up srt_down m inactive active amount inc = Ok p ->
    wallet_in_range m (inactive ++ active) -> 0 <= amount < 2 ^ 62 ->
    Z.of_nat (length (inactive ++ active)) < 2 ^ 63 ->
    let n := Z.of_nat (length (amount_split amount)) in
    let f := if inc then fees_for_count (n + 1) (m_active_fee m) else 0 in
    sp_fee_estimate p = f /\
    Permutation (sp_send p) (amount_split amount ++ amount_split f) /\
    sumZ (sp_send p) = amount + f /\
    (exists rest, Permutation (sp_inputs p ++ rest) (inactive ++ active)) /\
    sp_input_fee p = fees_for_proofs m (sp_inputs p) /\
    0 <= sp_change p /\
    sumA (sp_inputs p) = sumZ (sp_send p) + sp_change p + sp_input_fee p /\
    sumZ (sp_change_split p) = sp_change p.
  Proof.
    intros inactive active amount inc p Hrun Hrange Hamt Hlen n f.
    unfold swap_to_send_plan_gen in Hrun. fold n in Hrun. fold f in Hrun.
    assert (Hf : 0 <= f < 2 ^ 55).
    { unfold f. destruct inc; [unfold fees_for_count; apply ceil1000_range|lia]. }
    destruct (select_proofs_for_amount_gen srt_up srt_down m inactive active (add64 amount f) true)
      as [inputs|c|] eqn:Hsel; try discriminate.
    injection Hrun as <-. cbn [sp_fee_estimate sp_send sp_inputs sp_input_fee sp_change sp_change_split].
    destruct (select_for_amount_sound_gen _ _ _ _ _ Hsel) as [[rest HP] Harith].
    destruct Hrange as (Hm & Hnn & Hlt & Hfee).
    destruct (sub_multiset_sum _ _ _ HP Hnn) as [_ Hb].
    pose proof (fees_range m inputs) as Hfi.
    change (2 ^ 62) with 4611686018427387904 in *.
    change (2 ^ 63) with 9223372036854775808 in *. change (2 ^ 55) with 36028797018963968 in *.
    rewrite add64_small in * by (unfold W64; lia).
    specialize (Harith (conj Hm (conj Hnn (conj Hlt Hfee))) ltac:(lia)).
    unfold fees_if in Harith.
    destruct (amount_split_sum amount) as [Hsa _]; [change (2 ^ 64) with 18446744073709551616; lia|].
    destruct (amount_split_sum f) as [Hsf _]; [change (2 ^ 64) with 18446744073709551616; lia|].
    rewrite sum64_small by (unfold W64; lia).
    rewrite (sub64_small (sumA inputs)) by (unfold W64; lia).
    rewrite sub64_small by (unfold W64; lia).
    split; [reflexivity|]. split; [apply sortZ_perm|].
    split; [rewrite sumZ_sortZ, sumZ_app; lia|].
    split; [exists rest; exact HP|]. split; [reflexivity|]. split; [lia|].
    split; [rewrite sumZ_sortZ, sumZ_app; lia|].
    destruct (0 <? sumA inputs - (amount + f) - fees_for_proofs m inputs) eqn:Hpos.
    - apply split_wallet_target_sum.
      + change (2 ^ 64) with 18446744073709551616. lia.
      + unfold amounts. rewrite map_length. exact Hlen.
    - apply Z.ltb_ge in Hpos. cbn. lia.
  Qed.
End ForAmountSound.

(* ------------------------------------------------------------------ *)
(* the executable instance (stable sorts)                              *)

Theorem select_never_runs_out_of_fuel : forall m ps amount inc,
  select_proofs_to_send m ps amount inc <> OutOfFuel.
Proof.
  intros m ps amount inc. unfold select_proofs_to_send.
  apply select_never_out_of_fuel; [exact sort_up_perm|exact sort_down_perm].
Qed.

Theorem select_sound : forall m ps amount inc sel,
  select_proofs_to_send m ps amount inc = Ok sel ->
  (exists rest, Permutation (sel ++ rest) ps) /\
  (NoDup (map p_uid ps) -> NoDup (map p_uid sel) /\ incl sel ps) /\
  (nonneg ps -> sumA ps < 2 ^ 63 -> 0 <= amount ->
   amount + (if inc then fees_for_proofs m sel else 0) <= sumA sel).
Proof.
  intros m ps amount inc sel Hsel. unfold select_proofs_to_send in Hsel.
  destruct (select_sound_gen _ _ sort_up_perm sort_down_perm m inc amount ps sel Hsel) as [HP Harith].
  split; [exact HP|]. split; [|exact Harith].
  apply (select_sound_uids _ _ sort_up_perm sort_down_perm m inc amount ps sel Hsel).
Qed.

Theorem select_live : forall m ps amount (inc : bool),
  nonneg ps -> sumA ps < 2 ^ 63 -> 0 <= amount ->
  amount + (if inc then fees_for_proofs m ps else 0) <= sumA ps ->
  exists sel, select_proofs_to_send m ps amount inc = Ok sel.
Proof.
  intros m ps amount inc Hnn Hlt Hamt Hcov. unfold select_proofs_to_send.
  apply select_live_gen; try assumption; [exact sort_up_perm|exact sort_down_perm|].
  pose proof (fees_if_range m inc ps) as Hf. unfold fees_if in Hf. lia.
Qed.

Theorem send_offline_exact : forall m inactive active amount inc sel,
  get_proofs_decision m inactive active amount inc = DOffline sel ->
  (exists rest, Permutation (sel ++ rest) (inactive ++ active)) /\
  (wallet_in_range m (inactive ++ active) -> 0 <= amount < 2 ^ 63 ->
   sumA sel = amount + (if inc then fees_for_proofs m sel else 0)).
Proof.
  intros m inactive active amount inc sel Hdec.
  exact (send_offline_exact_gen _ _ sort_up_perm sort_down_perm m inactive active amount inc sel Hdec).
Qed.

(* without fees: whichever way the send goes, exactly the amount is handed over *)
Theorem send_exact_nofee : forall m inactive active amount,
  wallet_in_range m (inactive ++ active) -> 0 <= amount < 2 ^ 62 ->
  Z.of_nat (length (inactive ++ active)) < 2 ^ 63 ->
  (forall sel, get_proofs_decision m inactive active amount false = DOffline sel ->
     (exists rest, Permutation (sel ++ rest) (inactive ++ active)) /\ sumA sel = amount) /\
  (forall p, swap_to_send_plan m inactive active amount false = Ok p ->
     Permutation (sp_send p) (amount_split amount) /\ sumZ (sp_send p) = amount /\
     (exists rest, Permutation (sp_inputs p ++ rest) (inactive ++ active)) /\
     sumA (sp_inputs p) = amount + sp_change p + fees_for_proofs m (sp_inputs p) /\
     sumZ (sp_change_split p) = sp_change p /\ 0 <= sp_change p).
Proof.
  intros m inactive active amount Hrange Hamt Hlen. split.
  - intros sel Hdec. destruct (send_offline_exact _ _ _ _ _ _ Hdec) as [HP Hex].
    split; [exact HP|]. rewrite Hex; [lia|exact Hrange|].
    change (2 ^ 62) with 4611686018427387904 in Hamt. change (2 ^ 63) with 9223372036854775808. lia.
  - intros p Hplan.
    destruct (swap_plan_sound_gen _ _ sort_up_perm sort_down_perm m inactive active amount false p Hplan Hrange Hamt Hlen)
      as (_ & Hperm & Hsum & Hin & Hfee & Hch & Hbal & Hsplit).
    rewrite amount_split_zero, app_nil_r in Hperm. rewrite Z.add_0_r in Hsum.
    split; [exact Hperm|]. split; [exact Hsum|]. split; [exact Hin|].
    split; [rewrite Hbal, Hsum, Hfee; reflexivity|]. split; [exact Hsplit|exact Hch].
Qed.

(* with fees, through a swap: amount + f is handed over, f being the wallet's estimate for n+1
   proofs; the hand-out holds n + popcount f proofs, the mint charges for that many, and the
   recipient nets the amount exactly when the two fees coincide *)
Theorem send_exact_fee_partial : forall m inactive active amount p,
  wallet_in_range m (inactive ++ active) -> 0 <= amount < 2 ^ 62 ->
  Z.of_nat (length (inactive ++ active)) < 2 ^ 63 ->
  swap_to_send_plan m inactive active amount true = Ok p ->
  let ppk := m_active_fee m in
  let n := Z.of_nat (length (amount_split amount)) in
  let f := fees_for_count (n + 1) ppk in
  sumZ (sp_send p) = amount + f /\
  Z.of_nat (length (sp_send p)) = n + popcount f /\
  mint_fee_for_sent m (sp_send p) = fees_for_count (n + popcount f) ppk /\
  (sumZ (sp_send p) - mint_fee_for_sent m (sp_send p) = amount <->
   fees_for_count (n + popcount f) ppk = f).
Proof.
  intros m inactive active amount p Hrange Hamt Hlen Hplan ppk n f.
  destruct (swap_plan_sound_gen _ _ sort_up_perm sort_down_perm m inactive active amount true p Hplan Hrange Hamt Hlen)
    as (_ & Hperm & Hsum & _).
  fold n in Hperm, Hsum. fold ppk in Hperm, Hsum. fold f in Hperm, Hsum.
  assert (Hcount : Z.of_nat (length (sp_send p)) = n + popcount f).
  { rewrite (Permutation_length Hperm), app_length, Nat2Z.inj_add. unfold popcount, n. lia. }
  assert (Hmint : mint_fee_for_sent m (sp_send p) = fees_for_count (n + popcount f) ppk).
  { unfold mint_fee_for_sent. rewrite Hcount. reflexivity. }
  split; [exact Hsum|]. split; [exact Hcount|]. split; [exact Hmint|].
  rewrite Hmint, Hsum. lia.
Qed.

Lemma wallet_in_range_intro : forall m ps,
  (0 <=? m_active_fee m) = true -> forallb (fun kv => 0 <=? snd kv) (m_inactive m) = true ->
  forallb (fun p => 0 <=? p_amount p) ps = true ->
  (sumA ps <? 2 ^ 63) = true -> (raw_fee m ps + 999 <? W64) = true -> wallet_in_range m ps.
Proof.
  intros m ps Ha Hi Hp Hs Hf. apply Z.leb_le in Ha. apply Z.ltb_lt in Hs. apply Z.ltb_lt in Hf.
  split; [|split; [|split]]; try assumption.
  - split; [exact Ha|]. apply Forall_forall. intros kv Hkv.
    rewrite forallb_forall in Hi. apply Z.leb_le. apply Hi. exact Hkv.
  - apply Forall_forall. intros q Hq.
    rewrite forallb_forall in Hp. apply Z.leb_le. apply Hp. exact Hq.
Qed.

(* "fees included" is not exact (DESIGN.md section 6, #11): a wallet holding two 8-sat proofs at
   input_fee_ppk = 1000 sends 3 sat with fees: the estimate is 3 (for 2+1 proofs), the hand-out
   is [1,1,2,2] = 6 sat in FOUR proofs, the mint charges 4, the recipient nets 2 *)
Theorem send_exact_fee_refuted :
  exists m inactive active amount p,
    wallet_in_range m (inactive ++ active) /\ amount = 3 /\ m_active_fee m = 1000 /\
    get_proofs_decision m inactive active amount true = DSwap /\
    swap_to_send_plan m inactive active amount true = Ok p /\
    sp_fee_estimate p = 3 /\ sp_send p = [1; 1; 2; 2] /\
    mint_fee_for_sent m (sp_send p) = 4 /\
    sumZ (sp_send p) - mint_fee_for_sent m (sp_send p) = 2.
Proof.
  exists (mkMint 1000 []), [], [mkProof 8 0 0; mkProof 8 0 1], 3.
  eexists. split; [|split; [reflexivity|split; [reflexivity|split; [vm_compute; reflexivity|]]]].
  - apply wallet_in_range_intro; vm_compute; reflexivity.
  - split; [vm_compute; reflexivity|]. vm_compute. repeat split; reflexivity.
Qed.

(* for two send proofs at 1000 ppk NO fee amount f, split in binary, is charged exactly f:
   the mint charges 2 + popcount f, which never equals f *)
Theorem no_binary_fixpoint : forall f, fees_for_count (2 + popcount f) 1000 <> f.
Proof.
  intros f. pose proof (popcount_range f) as Hpc.
  rewrite fees_for_count_small by (unfold W64; lia).
  assert (Heq : ((2 + popcount f) * 1000 + 999) / 1000 = 2 + popcount f) by lia.
  rewrite Heq. intros Hfix.
  assert (Hr : 0 <= f <= 66) by lia.
  assert (Hall : forallb (fun k => negb (2 + popcount (Z.of_nat k) =? Z.of_nat k)) (seq 0 67) = true)
    by (vm_compute; reflexivity).
  rewrite forallb_forall in Hall. specialize (Hall (Z.to_nat f)).
  rewrite Z2Nat.id in Hall by lia.
  assert (Hin : In (Z.to_nat f) (seq 0 67)) by (apply in_seq; lia).
  specialize (Hall Hin). apply negb_true_iff in Hall. apply Z.eqb_neq in Hall. contradiction.
Qed.

(* the sufficiency clause fails for selectProofsForAmount: the error of the first selection (from
   the inactive keysets) is dropped together with the proofs it had gathered.  Balance 16, fee of
   spending every proof 6, fee of the 3 proofs to send 3: a send of 7 <= 16 - 6 - 3 is refused. *)
Theorem send_live_refuted :
  exists m inactive active amount,
    wallet_in_range m (inactive ++ active) /\
    amount + fees_for_proofs m (inactive ++ active) + fees_for_count (popcount amount) (m_active_fee m)
      <= sumA (inactive ++ active) /\
    get_proofs_decision m inactive active amount false = DSwap /\
    swap_to_send_plan m inactive active amount false = Err 2.
Proof.
  exists (mkMint 1000 [(1, 1000)]), [mkProof 4 1 0; mkProof 4 1 1],
    [mkProof 2 0 2; mkProof 2 0 3; mkProof 2 0 4; mkProof 2 0 5], 7.
  split; [apply wallet_in_range_intro; vm_compute; reflexivity|].
  split; [vm_compute; discriminate|]. split; vm_compute; reflexivity.
Qed.

(* the uint64 subtraction amount + fees - selectedProofsSum wraps once the fee already counted
   pushes the selection past the target; the loop then takes a further proof it does not need *)
Example select_wrap_overselects :
  let m := mkMint 1000 [] in
  let ps := [mkProof 4 0 0; mkProof 4 0 1; mkProof 2 0 2; mkProof 8 0 3; mkProof 16 0 4] in
  option_map amounts (match select_proofs_to_send m ps 6 true with Ok s => Some s | _ => None end)
    = Some [4; 2; 4; 8] /\
  6 + fees_for_proofs m [mkProof 4 0 0; mkProof 2 0 2; mkProof 4 0 1] <= 4 + 2 + 4.
Proof. vm_compute. split; [reflexivity|discriminate]. Qed.

(* ------------------------------------------------------------------ *)
(* sufficiency, as far as it holds: a wallet whose proofs at the mint are all of the active keyset *)

Lemma select_for_amount_live_active : forall m active a (inc : bool),
  nonneg active -> sumA active < 2 ^ 63 -> 0 <= a ->
  a + (if inc then fees_for_proofs m active else 0) <= sumA active ->
  exists r, select_proofs_for_amount m [] active a inc = Ok r.
Proof.
  intros m active a inc Hnn Hlt Ha Hcov.
  unfold select_proofs_for_amount. rewrite select_for_amount_unfold. unfold continue_with.
  pose proof (fees_if_range m inc active) as Hf. unfold fees_if in Hf.
  change (2 ^ 63) with 9223372036854775808 in *. change (2 ^ 55) with 36028797018963968 in *.
  change (sum64 []) with 0.
  rewrite add64_small by (unfold W64; lia). rewrite Z.add_0_r.
  destruct (a <=? 0); [eexists; reflexivity|].
  rewrite sub64_small by (unfold W64; lia). rewrite Z.sub_0_r.
  destruct (select_live m active a inc Hnn Hlt Ha Hcov) as [sel Hsel].
  unfold select_proofs_to_send in Hsel. rewrite Hsel. eexists. reflexivity.
Qed.

Lemma decision_of_select : forall su sd m inactive active amount inc r,
  select_proofs_for_amount_gen su sd m inactive active amount inc = Ok r ->
  get_proofs_decision_gen su sd m inactive active amount inc = DOffline r \/
  get_proofs_decision_gen su sd m inactive active amount inc = DSwap.
Proof.
  intros su sd m inactive active amount inc r Hr. unfold get_proofs_decision_gen. rewrite Hr.
  destruct (sum64 r =? add64 amount (fees_if m inc r)); [left|right]; reflexivity.
Qed.

Lemma swap_plan_of_select : forall su sd m inactive active amount (inc : bool) r,
  select_proofs_for_amount_gen su sd m inactive active
    (add64 amount (if inc then fees_for_count (Z.of_nat (length (amount_split amount)) + 1) (m_active_fee m) else 0))
    true = Ok r ->
  exists p, swap_to_send_plan_gen su sd m inactive active amount inc = Ok p.
Proof.
  intros su sd m inactive active amount inc r Hr. unfold swap_to_send_plan_gen. rewrite Hr.
  eexists. reflexivity.
Qed.

Lemma popcount_eq : forall a, popcount a = Z.of_nat (length (amount_split a)).
Proof. intros a. reflexivity. Qed.

Lemma swap_plan_of_select_inst : forall m active amount (inc : bool) r2,
  select_proofs_for_amount m [] active
    (add64 amount (if inc then fees_for_count (popcount amount + 1) (m_active_fee m) else 0)) true = Ok r2 ->
  exists p, swap_to_send_plan m [] active amount inc = Ok p.
Proof.
  intros m active amount inc r2 Hr2. rewrite popcount_eq in Hr2.
  exact (swap_plan_of_select _ _ _ _ _ _ _ _ Hr2).
Qed.

Lemma decision_of_select_inst : forall m active amount (inc : bool) r,
  select_proofs_for_amount m [] active amount inc = Ok r ->
  get_proofs_decision m [] active amount inc = DOffline r \/ get_proofs_decision m [] active amount inc = DSwap.
Proof.
  intros m active amount inc r Hr. unfold select_proofs_for_amount in Hr. unfold get_proofs_decision.
  exact (decision_of_select _ _ _ _ _ _ _ _ Hr).
Qed.

(* send_live, as far as it holds: all proofs held at the mint are of the ACTIVE keyset.  What is
   missing for the property's sufficiency clause is the case with proofs of inactive keysets, where
   it is false (send_live_refuted above). *)
Theorem send_live_partial : forall m active amount (inc : bool),
  wallet_in_range m active -> 0 <= amount < 2 ^ 62 ->
  let f := if inc then fees_for_count (popcount amount + 1) (m_active_fee m) else 0 in
  amount + f + fees_for_proofs m active <= sumA active ->
  (exists sel, get_proofs_decision m [] active amount inc = DOffline sel) \/
  (get_proofs_decision m [] active amount inc = DSwap /\
   exists p, swap_to_send_plan m [] active amount inc = Ok p).
Proof.
  intros m active amount inc (Hm & Hnn & Hlt & Hfee) Hamt f Hcov.
  assert (Hf : 0 <= f < 2 ^ 55).
  { unfold f. destruct inc; [unfold fees_for_count; apply ceil1000_range|lia]. }
  pose proof (fees_range m active) as Hfa.
  assert (Hsel1 : exists r, select_proofs_for_amount m [] active amount inc = Ok r).
  { apply select_for_amount_live_active; try assumption; [lia|].
    change (2 ^ 55) with 36028797018963968 in *. destruct inc; lia. }
  assert (Hsel2 : exists r, select_proofs_for_amount m [] active (add64 amount f) true = Ok r).
  { change (2 ^ 62) with 4611686018427387904 in *.
    change (2 ^ 63) with 9223372036854775808 in *. change (2 ^ 55) with 36028797018963968 in *.
    rewrite add64_small by (unfold W64; lia).
    apply select_for_amount_live_active; try assumption; lia. }
  clear Hf Hfa Hcov Hm Hnn Hlt Hfee Hamt.
  destruct Hsel1 as [r Hr]. destruct Hsel2 as [r2 Hr2].
  destruct (decision_of_select_inst _ _ _ _ _ Hr) as [Hd|Hd].
  - left. exists r. exact Hd.
  - right. split; [exact Hd|]. exact (swap_plan_of_select_inst _ _ _ _ _ Hr2).
Qed.

(* ------------------------------------------------------------------ *)
(* The theorems of C18 for EVERY tie-break of Go's unstable sort.Slice: the two sorting
   functions are arbitrary functions that return a permutation of their argument (that they
   sort is not even needed for soundness, exactness and sufficiency).                        *)

Section AnySort.
  Variable srt_up srt_down : list proof -> list proof.
  Hypothesis srt_up_perm : forall l, Permutation (srt_up l) l.
  Hypothesis srt_down_perm : forall l, Permutation (srt_down l) l.

  Theorem select_sound_any_sort : forall m inc amount ps sel,
    select_proofs_to_send_gen srt_up srt_down m inc amount ps = Ok sel ->
    (exists rest, Permutation (sel ++ rest) ps) /\
    (NoDup (map p_uid ps) -> NoDup (map p_uid sel) /\ incl sel ps) /\
    (nonneg ps -> sumA ps < 2 ^ 63 -> 0 <= amount ->
     amount + (if inc then fees_for_proofs m sel else 0) <= sumA sel).
  Proof.
    intros m inc amount ps sel Hsel.
    destruct (select_sound_gen _ _ srt_up_perm srt_down_perm m inc amount ps sel Hsel) as [HP Harith].
    split; [exact HP|]. split; [|exact Harith].
    apply (select_sound_uids _ _ srt_up_perm srt_down_perm m inc amount ps sel Hsel).
  Qed.

  Theorem select_live_any_sort : forall m ps amount (inc : bool),
    nonneg ps -> sumA ps < 2 ^ 63 -> 0 <= amount ->
    amount + (if inc then fees_for_proofs m ps else 0) <= sumA ps ->
    exists sel, select_proofs_to_send_gen srt_up srt_down m inc amount ps = Ok sel.
  Proof.
    intros m ps amount inc Hnn Hlt Hamt Hcov.
    apply select_live_gen; try assumption.
    pose proof (fees_if_range m inc ps) as Hf. unfold fees_if in Hf. lia.
  Qed.

  (* selectProofsForAmount, hence every input list of a swap and every offline hand-out *)
  Theorem select_for_amount_sound_any_sort : forall m inactive active amount inc r,
    select_proofs_for_amount_gen srt_up srt_down m inactive active amount inc = Ok r ->
    (exists rest, Permutation (r ++ rest) (inactive ++ active)) /\
    (NoDup (map p_uid (inactive ++ active)) -> NoDup (map p_uid r)) /\
    (wallet_in_range m (inactive ++ active) -> 0 <= amount < 2 ^ 63 ->
     amount + (if inc then fees_for_proofs m r else 0) <= sumA r).
  Proof.
    intros m inactive active amount inc r Hr.
    destruct (select_for_amount_sound_gen _ _ srt_up_perm srt_down_perm m _ _ _ _ _ Hr) as [[rest HP] Harith].
    split; [exists rest; exact HP|]. split; [|exact Harith].
    intros Hnd. pose proof (Permutation_map p_uid HP) as HPm. rewrite map_app in HPm.
    apply Permutation_sym in HPm. pose proof (Permutation_NoDup HPm Hnd) as Hnd2.
    apply NoDup_app_l in Hnd2. exact Hnd2.
  Qed.

  Theorem send_exact_nofee_any_sort : forall m inactive active amount,
    wallet_in_range m (inactive ++ active) -> 0 <= amount < 2 ^ 62 ->
    Z.of_nat (length (inactive ++ active)) < 2 ^ 63 ->
    (forall sel, get_proofs_decision_gen srt_up srt_down m inactive active amount false = DOffline sel ->
       (exists rest, Permutation (sel ++ rest) (inactive ++ active)) /\ sumA sel = amount) /\
    (forall p, swap_to_send_plan_gen srt_up srt_down m inactive active amount false = Ok p ->
       Permutation (sp_send p) (amount_split amount) /\ sumZ (sp_send p) = amount /\
       (exists rest, Permutation (sp_inputs p ++ rest) (inactive ++ active)) /\
       sumA (sp_inputs p) = amount + sp_change p + fees_for_proofs m (sp_inputs p) /\
       sumZ (sp_change_split p) = sp_change p /\ 0 <= sp_change p).
  Proof.
    intros m inactive active amount Hrange Hamt Hlen. split.
    - intros sel Hdec.
      destruct (send_offline_exact_gen _ _ srt_up_perm srt_down_perm m _ _ _ _ _ Hdec) as [HP Hex].
      split; [exact HP|]. rewrite Hex; [unfold fees_if; lia|exact Hrange|].
      change (2 ^ 62) with 4611686018427387904 in Hamt. change (2 ^ 63) with 9223372036854775808. lia.
    - intros p Hplan.
      destruct (swap_plan_sound_gen _ _ srt_up_perm srt_down_perm m inactive active amount false p Hplan Hrange Hamt Hlen)
        as (_ & Hperm & Hsum & Hin & Hfee & Hch & Hbal & Hsplit).
      rewrite amount_split_zero, app_nil_r in Hperm. rewrite Z.add_0_r in Hsum.
      split; [exact Hperm|]. split; [exact Hsum|]. split; [exact Hin|].
      split; [rewrite Hbal, Hsum, Hfee; reflexivity|]. split; [exact Hsplit|exact Hch].
  Qed.

  (* offline hand-out with fees included: exact, for the proofs' own keysets *)
  Theorem send_offline_exact_any_sort : forall m inactive active amount inc sel,
    get_proofs_decision_gen srt_up srt_down m inactive active amount inc = DOffline sel ->
    (exists rest, Permutation (sel ++ rest) (inactive ++ active)) /\
    (wallet_in_range m (inactive ++ active) -> 0 <= amount < 2 ^ 63 ->
     sumA sel = amount + (if inc then fees_for_proofs m sel else 0)).
  Proof.
    intros m inactive active amount inc sel Hdec.
    exact (send_offline_exact_gen _ _ srt_up_perm srt_down_perm m inactive active amount inc sel Hdec).
  Qed.

  Theorem send_exact_fee_partial_any_sort : forall m inactive active amount p,
    wallet_in_range m (inactive ++ active) -> 0 <= amount < 2 ^ 62 ->
    Z.of_nat (length (inactive ++ active)) < 2 ^ 63 ->
    swap_to_send_plan_gen srt_up srt_down m inactive active amount true = Ok p ->
    let ppk := m_active_fee m in
    let n := Z.of_nat (length (amount_split amount)) in
    let f := fees_for_count (n + 1) ppk in
    sumZ (sp_send p) = amount + f /\
    Z.of_nat (length (sp_send p)) = n + popcount f /\
    mint_fee_for_sent m (sp_send p) = fees_for_count (n + popcount f) ppk /\
    (sumZ (sp_send p) - mint_fee_for_sent m (sp_send p) = amount <->
     fees_for_count (n + popcount f) ppk = f).
  Proof.
    intros m inactive active amount p Hrange Hamt Hlen Hplan ppk n f.
    destruct (swap_plan_sound_gen _ _ srt_up_perm srt_down_perm m inactive active amount true p Hplan Hrange Hamt Hlen)
      as (_ & Hperm & Hsum & _).
    fold n in Hperm, Hsum. fold ppk in Hperm, Hsum. fold f in Hperm, Hsum.
    assert (Hcount : Z.of_nat (length (sp_send p)) = n + popcount f).
    { rewrite (Permutation_length Hperm), app_length, Nat2Z.inj_add. unfold popcount, n. lia. }
    assert (Hmint : mint_fee_for_sent m (sp_send p) = fees_for_count (n + popcount f) ppk).
    { unfold mint_fee_for_sent. rewrite Hcount. reflexivity. }
    split; [exact Hsum|]. split; [exact Hcount|]. split; [exact Hmint|].
    rewrite Hmint, Hsum. lia.
  Qed.

  (* what stays in the wallet: the proofs not selected plus the change; the spendable balance drops
     by exactly what was handed out (plus, through a swap, the input fee of the proofs swapped) *)
  Theorem send_removed_from_balance_any_sort : forall m inactive active amount inc,
    wallet_in_range m (inactive ++ active) -> 0 <= amount < 2 ^ 62 ->
    Z.of_nat (length (inactive ++ active)) < 2 ^ 63 ->
    (forall sel, get_proofs_decision_gen srt_up srt_down m inactive active amount inc = DOffline sel ->
       exists rest, Permutation (sel ++ rest) (inactive ++ active) /\
                    sumA rest = sumA (inactive ++ active) - sumA sel) /\
    (forall p, swap_to_send_plan_gen srt_up srt_down m inactive active amount inc = Ok p ->
       exists rest, Permutation (sp_inputs p ++ rest) (inactive ++ active) /\
                    sumA rest + sumZ (sp_change_split p) =
                    sumA (inactive ++ active) - sumZ (sp_send p) - sp_input_fee p).
  Proof.
    intros m inactive active amount inc Hrange Hamt Hlen. split.
    - intros sel Hdec.
      destruct (send_offline_exact_gen _ _ srt_up_perm srt_down_perm m _ _ _ _ _ Hdec) as [[rest HP] _].
      exists rest. split; [exact HP|]. rewrite <- (sumA_perm _ _ HP), sumA_app. lia.
    - intros p Hplan.
      destruct (swap_plan_sound_gen _ _ srt_up_perm srt_down_perm m inactive active amount inc p Hplan Hrange Hamt Hlen)
        as (_ & _ & _ & [rest HP] & _ & _ & Hbal & Hsplit).
      exists rest. split; [exact HP|]. rewrite <- (sumA_perm _ _ HP), sumA_app, Hsplit. lia.
  Qed.

  (* sufficiency, as far as it holds: no proofs of inactive keysets at the mint *)
  Lemma select_for_amount_live_active_any_sort : forall m active a (inc : bool),
    nonneg active -> sumA active < 2 ^ 63 -> 0 <= a ->
    a + (if inc then fees_for_proofs m active else 0) <= sumA active ->
    exists r, select_proofs_for_amount_gen srt_up srt_down m [] active a inc = Ok r.
  Proof.
    intros m active a inc Hnn Hlt Ha Hcov.
    rewrite select_for_amount_unfold. unfold continue_with.
    pose proof (fees_if_range m inc active) as Hf. unfold fees_if in Hf.
    change (2 ^ 63) with 9223372036854775808 in *. change (2 ^ 55) with 36028797018963968 in *.
    change (sum64 []) with 0.
    rewrite add64_small by (unfold W64; lia). rewrite Z.add_0_r.
    destruct (a <=? 0); [eexists; reflexivity|].
    rewrite sub64_small by (unfold W64; lia). rewrite Z.sub_0_r.
    destruct (select_live_any_sort m active a inc Hnn Hlt Ha Hcov) as [sel Hsel].
    rewrite Hsel. eexists. reflexivity.
  Qed.

  Theorem send_live_partial_any_sort : forall m active amount (inc : bool),
    wallet_in_range m active -> 0 <= amount < 2 ^ 62 ->
    let f := if inc then fees_for_count (popcount amount + 1) (m_active_fee m) else 0 in
    amount + f + fees_for_proofs m active <= sumA active ->
    (exists sel, get_proofs_decision_gen srt_up srt_down m [] active amount inc = DOffline sel) \/
    (get_proofs_decision_gen srt_up srt_down m [] active amount inc = DSwap /\
     exists p, swap_to_send_plan_gen srt_up srt_down m [] active amount inc = Ok p).
  Proof.
    intros m active amount inc (Hm & Hnn & Hlt & Hfee) Hamt f Hcov.
    assert (Hf : 0 <= f < 2 ^ 55).
    { unfold f. destruct inc; [unfold fees_for_count; apply ceil1000_range|lia]. }
    pose proof (fees_range m active) as Hfa.
    assert (Hsel1 : exists r, select_proofs_for_amount_gen srt_up srt_down m [] active amount inc = Ok r).
    { apply select_for_amount_live_active_any_sort; try assumption; [lia|].
      change (2 ^ 55) with 36028797018963968 in *. destruct inc; lia. }
    assert (Hsel2 : exists r, select_proofs_for_amount_gen srt_up srt_down m [] active (add64 amount f) true = Ok r).
    { change (2 ^ 62) with 4611686018427387904 in *.
      change (2 ^ 63) with 9223372036854775808 in *. change (2 ^ 55) with 36028797018963968 in *.
      rewrite add64_small by (unfold W64; lia).
      apply select_for_amount_live_active_any_sort; try assumption; lia. }
    clear Hf Hfa Hcov Hm Hnn Hlt Hfee Hamt.
    destruct Hsel1 as [r Hr]. destruct Hsel2 as [r2 Hr2].
    destruct (decision_of_select _ _ _ _ _ _ _ _ Hr) as [Hd|Hd].
    - left. exists r. exact Hd.
    - right. split; [exact Hd|]. unfold f in Hr2. rewrite popcount_eq in Hr2.
      exact (swap_plan_of_select _ _ _ _ _ _ _ _ Hr2).
  Qed.
End AnySort.

(* a second way the sufficiency clause fails with proofs of inactive keysets: the fee is rounded up
   once for the inactive part and once more for the active part.  Balance 15, the fee of spending
   all 8 proofs is 1, the fee of the 4 proofs sent is 1: a send of 13 <= 15 - 1 - 1 is refused. *)
Theorem send_live_refuted_rounding :
  exists m inactive active amount,
    wallet_in_range m (inactive ++ active) /\
    amount + fees_for_proofs m (inactive ++ active) + fees_for_count (popcount amount + 1) (m_active_fee m)
      <= sumA (inactive ++ active) /\
    get_proofs_decision m inactive active amount true = DSwap /\
    swap_to_send_plan m inactive active amount true = Err 2.
Proof.
  exists (mkMint 100 [(1, 100); (2, 100)]), [mkProof 1 1 0; mkProof 1 2 1],
    [mkProof 4 0 2; mkProof 4 0 3; mkProof 1 0 4; mkProof 2 0 5; mkProof 1 0 6; mkProof 1 0 7], 13.
  split; [apply wallet_in_range_intro; vm_compute; reflexivity|].
  split; [vm_compute; discriminate|]. split; vm_compute; reflexivity.
Qed.

(* the model's sorts are sorting permutations: one admissible tie-break *)
Theorem model_sorts_admissible :
  (forall l, Permutation (sort_up l) l) /\ (forall l, Permutation (sort_down l) l) /\
  (forall l, StronglySorted (fun a b => p_amount a <= p_amount b) (sort_up l)) /\
  (forall l, StronglySorted (fun a b => p_amount b <= p_amount a) (sort_down l)).
Proof.
  split; [exact sort_up_perm|]. split; [exact sort_down_perm|].
  split; [exact sort_up_sorted|exact sort_down_sorted].
Qed.
